-- Root of the `PptxModel` library: models, lemmas and property theorems.
import PptxModel.Model.Str
import PptxModel.Model.Proto
import PptxModel.Model.PackUri
import PptxModel.Props.C19
import PptxModel.Model.Geometry
import PptxModel.Props.C17
import PptxModel.Props.C14
import PptxModel.Props.C04
import PptxModel.Props.C06
import PptxModel.Props.C20
import PptxModel.GenProps.C20
import PptxModel.Props.C10
import PptxModel.GenProps.C10
import PptxModel.Props.C11
import PptxModel.GenProps.C11
import PptxModel.Props.C01
import PptxModel.Props.C16
