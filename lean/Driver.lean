import PptxModel.Drv.C19
import PptxModel.Drv.C17
import PptxModel.Drv.C14
import PptxModel.Drv.C04
import PptxModel.Drv.C06
import PptxModel.Drv.C10
import PptxModel.Drv.C11
import PptxModel.Drv.C01
import PptxModel.Drv.C02
import PptxModel.Drv.C18
import PptxModel.Drv.C15
import PptxModel.Drv.C07
import PptxModel.Drv.C13
import PptxModel.Drv.C03
import PptxModel.Drv.C09
import PptxModel.Drv.C12
open Pptx

def handlers : List (List String → Option String) := [Drv.C19.handle, Drv.C17.handle, Drv.C14.handle, Drv.C04.handle, Drv.C06.handle, Drv.C10.handle, Drv.C11.handle, Drv.C01.handle, Drv.C02.handle, Drv.C18.handle, Drv.C15.handle, Drv.C07.handle, Drv.C13.handle, Drv.C03.handle, Drv.C09.handle, Drv.C12.handle]

def handle (line : String) : String :=
  let toks := (line.trimAscii.toString.splitOn " ")
  match handlers.findSome? (fun h => h toks) with
  | some out => out
  | none => "bad-op"

partial def loop (h : IO.FS.Stream) (out : IO.FS.Stream) : IO Unit := do
  let line ← h.getLine
  if line.isEmpty then return ()
  out.putStrLn (handle line)
  loop h out

def main : IO Unit := do
  let stdin ← IO.getStdin
  let stdout ← IO.getStdout
  loop stdin stdout
  stdout.flush
