import PptxModel.Model.Proto
import PptxModel.Model.PackUri
open Pptx Pptx.Proto

def encOptStr : Option Str → String
  | none => "ERR"
  | some s => encStr s

def handleC19 : List String → Option String
  | ["c19.mk", a] => do let a ← decStr a; pure (encOptStr (PackUri.mk a))
  | ["c19.acc", a] => do
      let a ← decStr a
      pure (String.intercalate " " [encStr (PackUri.baseURI a), encStr (PackUri.filename a),
        encStr (PackUri.ext a), encOptNat (PackUri.idx a), encStr (PackUri.membername a),
        encOptStr (PackUri.relsUri a)])
  | ["c19.from", b, r] => do
      let b ← decStr b; let r ← decStr r
      pure (encOptStr (PackUri.fromRelRef b r))
  | ["c19.rel", s, b] => do
      let s ← decStr s; let b ← decStr b
      pure (encStr (PackUri.relativeRef s b))
  | _ => none

def handlers : List (List String → Option String) := [handleC19]

def handle (line : String) : String :=
  let toks := (line.trimAscii.toString.splitOn " ")
  match handlers.findSome? (fun h => h toks) with
  | some out => out
  | none => "bad-op"

partial def loop (h : IO.FS.Stream) (out : IO.FS.Stream) : IO Unit := do
  let line ← h.getLine
  if line.isEmpty then return ()
  out.putStrLn (handle line)
  loop h out

def main : IO Unit := do
  let stdin ← IO.getStdin
  let stdout ← IO.getStdout
  loop stdin stdout
  stdout.flush
