import PptxModel.Model.Str
namespace Pptx

theorem splitOnC_ne_nil (c : Char) (s : Str) : splitOnC c s ≠ [] := by
  induction s with
  | nil => simp [splitOnC]
  | cons x xs ih =>
    unfold splitOnC
    split
    · simp
    · split <;> simp

theorem splitOnC_nil (c : Char) : splitOnC c [] = [[]] := rfl

theorem splitOnC_cons_sep (c : Char) (xs : Str) : splitOnC c (c :: xs) = [] :: splitOnC c xs := by
  simp [splitOnC]

/-- splitting a piece without the separator gives back the piece -/
theorem splitOnC_noSep (c : Char) (s : Str) (h : c ∉ s) : splitOnC c s = [s] := by
  induction s with
  | nil => rfl
  | cons x xs ih =>
    have hx : x ≠ c := by intro e; apply h; simp [e]
    have hxs : c ∉ xs := by intro e; apply h; simp [e]
    simp [splitOnC, hx, ih hxs]

theorem splitOnC_append_sep (c : Char) (s rest : Str) (h : c ∉ s) :
    splitOnC c (s ++ c :: rest) = s :: splitOnC c rest := by
  induction s with
  | nil => simp [splitOnC]
  | cons x xs ih =>
    have hx : x ≠ c := by intro e; apply h; simp [e]
    have hxs : c ∉ xs := by intro e; apply h; simp [e]
    simp [splitOnC, hx, ih hxs]

/-- `c.join(P).split(c) == P` for a non-empty list of pieces none of which contains `c` -/
theorem splitOnC_joinC (c : Char) (P : List Str) (hne : P ≠ []) (h : ∀ s ∈ P, c ∉ s) :
    splitOnC c (joinC c P) = P := by
  induction P with
  | nil => exact absurd rfl hne
  | cons s t ih =>
    cases t with
    | nil => simpa [joinC] using splitOnC_noSep c s (h s (by simp))
    | cons u v =>
      have hs : c ∉ s := h s (by simp)
      have := ih (by simp) (fun x hx => h x (by simp [hx]))
      simp only [joinC]
      rw [splitOnC_append_sep c s _ hs, this]

end Pptx
