import PptxModel.Model.PackUri
import PptxModel.Lemmas.Str
namespace Pptx.PackUri
open Pptx

/-- a path segment as OPC part names have them: non-empty, no slash, not `.` or `..` -/
def CleanSeg (s : Str) : Prop := s ≠ [] ∧ '/' ∉ s ∧ s ≠ dot ∧ s ≠ dotdot
def Clean (P : List Str) : Prop := ∀ s ∈ P, CleanSeg s

/-- the string form of an absolute segment list: `/a/b/c`; the empty list is the pseudo-name `/` -/
def render (P : List Str) : Str := '/' :: joinC '/' P

theorem Clean.tail {s : Str} {P : List Str} (h : Clean (s :: P)) : Clean P :=
  fun x hx => h x (by simp [hx])
theorem Clean.head {s : Str} {P : List Str} (h : Clean (s :: P)) : CleanSeg s := h s (by simp)
theorem Clean.append {P Q : List Str} (hp : Clean P) (hq : Clean Q) : Clean (P ++ Q) := by
  intro s hs; rcases List.mem_append.mp hs with h | h
  · exact hp s h
  · exact hq s h
theorem Clean.take {P : List Str} (h : Clean P) (n : Nat) : Clean (P.take n) :=
  fun s hs => h s (List.mem_of_mem_take hs)
theorem Clean.drop {P : List Str} (h : Clean P) (n : Nat) : Clean (P.drop n) :=
  fun s hs => h s (List.mem_of_mem_drop hs)

theorem normStep_clean (abs : Bool) (st : List Str) (c : Str) (h : CleanSeg c) :
    normStep abs st c = c :: st := by
  obtain ⟨h1, _, h3, h4⟩ := h
  simp [normStep, h1, h3, h4]

theorem foldl_normStep_clean (abs : Bool) (P : List Str) (st : List Str) (h : Clean P) :
    P.foldl (normStep abs) st = P.reverse ++ st := by
  induction P generalizing st with
  | nil => simp
  | cons s t ih =>
    simp only [List.foldl_cons, normStep_clean abs st s h.head, ih _ h.tail]
    simp

theorem normStep_nil (abs : Bool) (st : List Str) : normStep abs st [] = st := by
  simp [normStep]

theorem normStep_dot (abs : Bool) (st : List Str) : normStep abs st dot = st := by
  simp [normStep]

/-- `..` pops a clean top-of-stack in an absolute path -/
theorem normStep_dotdot_pop (s : Str) (st : List Str) (h : CleanSeg s) :
    normStep true (s :: st) dotdot = st := by
  obtain ⟨_, _, _, h4⟩ := h
  have : dotdot ≠ ([] : Str) := by simp [dotdot]
  have d2 : dotdot ≠ dot := by simp [dotdot, dot]
  simp [normStep, this, d2, h4]

theorem normStep_dotdot_root : normStep true [] dotdot = [] := by
  simp [normStep, dotdot, dot]

/-- `k` parent references pop `k` clean segments -/
theorem foldl_normStep_dotdots (k : Nat) (top : List Str) (st : List Str)
    (h : Clean top) (hk : top.length = k) :
    (List.replicate k dotdot).foldl (normStep true) (top ++ st) = st := by
  induction k generalizing top with
  | zero =>
    have : top = [] := List.length_eq_zero_iff.mp hk
    simp [this]
  | succ n ih =>
    match top, hk with
    | s :: t, hk =>
      simp only [List.replicate_succ, List.foldl_cons, List.cons_append]
      rw [normStep_dotdot_pop s _ h.head]
      exact ih t h.tail (by simpa using hk)

theorem joinC_ne_slash_head (P : List Str) (h : Clean P) (hne : P ≠ []) :
    ∃ x rest, joinC '/' P = x :: rest ∧ x ≠ '/' := by
  match P, hne with
  | s :: t, _ =>
    obtain ⟨h1, h2, _, _⟩ := h.head
    match s, h1 with
    | x :: xs, _ =>
      refine ⟨x, ?_⟩
      have hx : x ≠ '/' := by intro e; apply h2; simp [e]
      cases t with
      | nil => exact ⟨xs, by simp [joinC], hx⟩
      | cons u v => exact ⟨xs ++ '/' :: joinC '/' (u :: v), by simp [joinC], hx⟩

theorem noSlash_of_clean {P : List Str} (h : Clean P) : ∀ s ∈ P, '/' ∉ s :=
  fun s hs => (h s hs).2.1

theorem splitOnC_render (P : List Str) (h : Clean P) (hne : P ≠ []) :
    splitOnC '/' (render P) = [] :: P := by
  simp only [render, splitOnC_cons_sep]
  rw [splitOnC_joinC '/' P hne (noSlash_of_clean h)]

theorem splitOnC_render_nil : splitOnC '/' (render []) = [[], []] := by
  simp [render, joinC, splitOnC]

theorem initialSlashes_render (P : List Str) (h : Clean P) : initialSlashes (render P) = 1 := by
  by_cases hne : P = []
  · subst hne; simp [render, joinC, initialSlashes]
  · obtain ⟨x, rest, e, hx⟩ := joinC_ne_slash_head P h hne
    simp only [render, e]
    unfold initialSlashes
    split
    · rename_i heq; simp at heq; exact absurd heq.1.symm (by simpa using hx.symm) |> False.elim
    · rename_i heq; simp at heq; exact absurd heq.1.symm (by simpa using hx.symm) |> False.elim
    · rfl
    · rename_i h1 h2 h3; exact absurd rfl (h3 _)

end Pptx.PackUri

namespace Pptx.PackUri
open Pptx

theorem normComps_clean_abs (P : List Str) (h : Clean P) :
    normComps true ([] :: P) = P := by
  simp [normComps, List.foldl_cons, normStep_nil, foldl_normStep_clean true P [] h]

theorem render_ne_nil (P : List Str) : render P ≠ [] := by simp [render]

/-- `normpath` is the identity on rendered clean paths -/
theorem normpath_render (P : List Str) (h : Clean P) : normpath (render P) = render P := by
  by_cases hne : P = []
  · subst hne
    simp [normpath, render, joinC, initialSlashes, splitOnC, normComps, normStep, dot]
  · have e1 := initialSlashes_render P h
    have e2 := splitOnC_render P h hne
    simp only [normpath, render_ne_nil, if_false, e1, e2]
    have hb : ((1 : Nat) != 0) = true := by decide
    rw [hb, normComps_clean_abs P h]
    simp [render]

theorem filter_clean (P : List Str) (h : Clean P) : P.filter (· ≠ []) = P := by
  apply List.filter_eq_self.mpr
  intro s hs; simpa using (h s hs).1

theorem comps_render (P : List Str) (h : Clean P) : comps (render P) = P := by
  by_cases hne : P = []
  · subst hne; simp [comps, splitOnC_render_nil]
  · simp only [comps, splitOnC_render P h hne]
    have := filter_clean P h
    simpa using this

theorem commonPrefixLen_le_left (a b : List Str) : commonPrefixLen a b ≤ a.length := by
  induction a generalizing b with
  | nil => simp [commonPrefixLen]
  | cons x xs ih =>
    cases b with
    | nil => simp [commonPrefixLen]
    | cons y ys =>
      simp only [commonPrefixLen]; split
      · simpa using ih ys
      · simp

theorem take_commonPrefixLen (a b : List Str) :
    a.take (commonPrefixLen a b) = b.take (commonPrefixLen a b) := by
  induction a generalizing b with
  | nil => simp [commonPrefixLen]
  | cons x xs ih =>
    cases b with
    | nil => simp [commonPrefixLen]
    | cons y ys =>
      simp only [commonPrefixLen]; split
      · rename_i e; simp [e, ih ys]
      · simp

/-- the heart of the round trip, at component level: walking from directory `P` up to the common
    prefix with `Q` and down again lands on `Q` -/
theorem normComps_roundtrip (P Q : List Str) (hP : Clean P) (hQ : Clean Q) :
    normComps true ([] :: (P ++ (List.replicate (P.length - commonPrefixLen P Q) dotdot
      ++ Q.drop (commonPrefixLen P Q)))) = Q := by
  generalize hi : commonPrefixLen P Q = i
  have hle0 := commonPrefixLen_le_left P Q
  have htk := take_commonPrefixLen P Q
  rw [hi] at hle0 htk
  have hle : i ≤ P.length := hle0
  simp only [normComps, List.foldl_cons, normStep_nil, List.foldl_append]
  rw [foldl_normStep_clean true P [] hP]
  -- stack is P.reverse; its top (P.length - i) entries are popped
  have hsplit : P.reverse ++ [] = (P.drop i).reverse ++ (P.take i).reverse := by
    rw [← List.reverse_append, List.take_append_drop, List.append_nil]
  rw [hsplit, foldl_normStep_dotdots (P.length - i) (P.drop i).reverse (P.take i).reverse
    (fun s hs => hP s (List.mem_of_mem_drop (List.mem_reverse.mp hs))) (by simp)]
  rw [foldl_normStep_clean true _ _ (hQ.drop i)]
  rw [← List.reverse_append, List.reverse_reverse, htk, List.take_append_drop]

end Pptx.PackUri

namespace Pptx.PackUri
open Pptx

theorem joinC_append (c : Char) (A B : List Str) (hA : A ≠ []) (hB : B ≠ []) :
    joinC c (A ++ B) = joinC c A ++ c :: joinC c B := by
  induction A with
  | nil => exact absurd rfl hA
  | cons a t ih =>
    cases t with
    | nil =>
      cases B with
      | nil => exact absurd rfl hB
      | cons b bs => simp [joinC]
    | cons u v =>
      have := ih (by simp)
      simp only [List.cons_append] at this ⊢
      simp only [joinC, this, List.append_assoc, List.cons_append]

theorem render_eq_joinC (P : List Str) (hne : P ≠ []) : render P = joinC '/' ([] :: P) := by
  cases P with
  | nil => exact absurd rfl hne
  | cons s t => simp [render, joinC]

theorem joinC_getLast (P : List Str) (hne : P ≠ []) (h : Clean P) :
    ∃ init x, joinC '/' P = init ++ [x] ∧ x ≠ '/' := by
  induction P with
  | nil => exact absurd rfl hne
  | cons s t ih =>
    cases t with
    | nil =>
      obtain ⟨h1, h2, _, _⟩ := h.head
      refine ⟨s.dropLast, s.getLast h1, by simp only [joinC]; exact (List.dropLast_concat_getLast h1).symm, ?_⟩
      intro e; apply h2; rw [← e]; exact List.getLast_mem h1
    | cons u v =>
      obtain ⟨init, x, e, hx⟩ := ih (by simp) h.tail
      exact ⟨s ++ '/' :: init, x, by simp [joinC] at e ⊢; simp [e], hx⟩

theorem render_getLast (P : List Str) (hne : P ≠ []) (h : Clean P) :
    (render P).getLast? ≠ some '/' := by
  obtain ⟨init, x, e, hx⟩ := joinC_getLast P hne h
  simp only [render, e]
  rw [show '/' :: (init ++ [x]) = ('/' :: init) ++ [x] by simp, List.getLast?_append]
  simp; exact fun e => hx e

/-- `posixpath.join(dir, ref)` for a clean non-root directory and a reference not starting with a
    slash -/
theorem join2_render (P : List Str) (hne : P ≠ []) (h : Clean P) (r : Str)
    (hr : r.head? ≠ some '/') : join2 (render P) r = render P ++ '/' :: r := by
  have h1 := render_getLast P hne h
  have h2 := render_ne_nil P
  simp [join2, hr, h1, h2]

theorem initialSlashes_one (x : Char) (rest : Str) (hx : x ≠ '/') :
    initialSlashes ('/' :: x :: rest) = 1 := by
  unfold initialSlashes
  split
  · rename_i heq; simp at heq; exact absurd heq.1 hx |> False.elim
  · rename_i heq; simp at heq; exact absurd heq.1 hx |> False.elim
  · rfl
  · rename_i h1 h2 h3; exact absurd rfl (h3 _)

/-- normalising the string form of `/P/R` where `R` are reference components (possibly `.`/`..`) -/
theorem normpath_render_append (P R : List Str) (hP : Clean P) (hne : P ≠ []) (hR : R ≠ [])
    (hRs : ∀ s ∈ R, '/' ∉ s) (N : List Str) (hN : normComps true ([] :: (P ++ R)) = N) :
    normpath (render P ++ '/' :: joinC '/' R) = render N := by
  have hj : render P ++ '/' :: joinC '/' R = joinC '/' ([] :: (P ++ R)) := by
    rw [render_eq_joinC P hne, ← List.cons_append, joinC_append '/' ([] :: P) R (by simp) hR]
  have hsplit : splitOnC '/' (render P ++ '/' :: joinC '/' R) = [] :: (P ++ R) := by
    rw [hj]; apply splitOnC_joinC _ _ (by simp)
    intro s hs
    rcases List.mem_cons.mp hs with e | hs
    · simp [e]
    · rcases List.mem_append.mp hs with h | h
      · exact (hP s h).2.1
      · exact hRs s h
  obtain ⟨x, rest, e, hx⟩ := joinC_ne_slash_head P hP hne
  have hinit : initialSlashes (render P ++ '/' :: joinC '/' R) = 1 := by
    simp only [render, e, List.cons_append]; exact initialSlashes_one x _ hx
  have hnn : render P ++ '/' :: joinC '/' R ≠ [] := by simp [render]
  have hb : ((1 : Nat) != 0) = true := by decide
  simp only [normpath, hnn, if_false, hinit, hsplit, hb, hN]
  simp [render]

end Pptx.PackUri

namespace Pptx.PackUri
open Pptx

theorem takeWhile_noSlash (f rest : Str) (h : '/' ∉ f) :
    (f ++ '/' :: rest).takeWhile (· != '/') = f := by
  induction f with
  | nil => simp
  | cons x xs ih =>
    have hx : x ≠ '/' := by intro e; apply h; simp [e]
    have hxs : '/' ∉ xs := by intro e; apply h; simp [e]
    simp [List.takeWhile_cons, hx, ih hxs]

theorem dropWhile_noSlash (f rest : Str) (h : '/' ∉ f) :
    (f ++ '/' :: rest).dropWhile (· != '/') = '/' :: rest := by
  induction f with
  | nil => simp
  | cons x xs ih =>
    have hx : x ≠ '/' := by intro e; apply h; simp [e]
    have hxs : '/' ∉ xs := by intro e; apply h; simp [e]
    simp [List.dropWhile_cons, hx, ih hxs]

/-- raw `posixpath.split` of `A/f` -/
theorem split_raw (A f : Str) (h : '/' ∉ f) :
    split (A ++ '/' :: f) =
      (if (A ++ ['/']) != [] && !((A ++ ['/']).all (· == '/')) then rstripC '/' (A ++ ['/'])
       else A ++ ['/'], f) := by
  have hr : (A ++ '/' :: f).reverse = f.reverse ++ '/' :: A.reverse := by simp
  have hf : '/' ∉ f.reverse := by simpa using h
  simp only [split, hr, takeWhile_noSlash _ _ hf, dropWhile_noSlash _ _ hf]
  simp

theorem rstripC_append_sep (A : Str) (hA : A.getLast? ≠ some '/') :
    rstripC '/' (A ++ ['/']) = A := by
  simp only [rstripC, List.reverse_append, List.reverse_cons, List.reverse_nil, List.nil_append,
    List.singleton_append]
  have : (A.reverse).dropWhile (· == '/') = A.reverse := by
    cases h : A.reverse with
    | nil => simp
    | cons x xs =>
      have hx : A.getLast? = some x := by
        rw [← List.head?_reverse, h]; rfl
      have : x ≠ '/' := by intro e; apply hA; rw [hx, e]
      simp [List.dropWhile_cons, this]
  simp [List.dropWhile_cons, this]

/-- `posixpath.split` of the string form of `P ++ [f]` -/
theorem split_render (P : List Str) (f : Str) (hP : Clean P) (hf : '/' ∉ f) (hf0 : f ≠ []) :
    split (render (P ++ [f])) = (render P, f) := by
  by_cases hne : P = []
  · subst hne
    have : render ([] ++ [f]) = [] ++ '/' :: f := by simp [render, joinC]
    rw [this, split_raw [] f hf]
    simp [render, joinC]
  · have : render (P ++ [f]) = render P ++ '/' :: f := by
      simp only [render]
      rw [joinC_append '/' P [f] hne (by simp)]
      simp [joinC]
    rw [this, split_raw (render P) f hf]
    obtain ⟨x, rest, e, hx⟩ := joinC_ne_slash_head P hP hne
    have hall : ((render P ++ ['/']).all (· == '/')) = false := by
      simp only [render, e]
      simp [hx]
    have hnn : (render P ++ ['/'] != []) = true := by simp [render]
    simp only [hall, hnn, Bool.not_false, Bool.and_self, if_true]
    rw [rstripC_append_sep _ (render_getLast P hne hP)]

end Pptx.PackUri
