import PptxModel.Model.Proto
import PptxModel.Model.Placeholder
namespace Pptx.Drv.C13
open Pptx Pptx.Proto Pptx.Placeholder

/-- `type/idx/vert/sz` -/
def decKey (t : String) : Option Key :=
  match t.splitOn "/" with
  | [ty, i, v, sz] => do
      let ty ← decStr ty; let i ← i.toNat?; let sz ← decStr sz
      pure { ty := ty, idx := i, vert := v == "1", sz := sz }
  | _ => none

def decBase (t : String) : Option (Str × Str) :=
  match t.splitOn "/" with
  | [a, b] => do let a ← decStr a; let b ← decStr b; pure (a, b)
  | _ => none

def handle : List String → Option String
  | ["c13.clone", bases, ids, names, keys] => do
      let bases ← if bases == "!" then some [] else (bases.splitOn ";").mapM decBase
      let ids ← decNatList ids
      let names ← decStrList names
      let keys ← if keys == "!" then some [] else (keys.splitOn ";").mapM decKey
      let s0 : SlideSt := { ids := ids, names := names, phs := [] }
      match cloneAll (fun ty => bases.lookup ty) s0 keys with
      | none => pure "KeyError"
      | some s => pure (if s.phs.isEmpty then "!" else ";".intercalate (s.phs.map fun p => s!"{p.id}/{encStr p.name}"))
  | ["c13.set", own, inh, ops] => do
      -- own: x/y/cx/cy with n for absent (off present iff x and y); inh: l/t/w/h; ops: d:v,...
      let oi (t : String) : Option (Option Int) := if t == "n" then some none else (t.toInt?).map some
      let o ← (own.splitOn "/").mapM oi
      let i ← (inh.splitOn "/").mapM oi
      match o, i with
      | [x, y, cx, cy], [l, t, w, h] =>
        let own : OwnGeom := { off := match x, y with | some a, some b => some (a, b) | _, _ => none,
                               ext := match cx, cy with | some a, some b => some (a, b) | _, _ => none }
        let inh : Inh := ⟨l, t, w, h⟩
        let ops ← if ops == "!" then some [] else (ops.splitOn ",").mapM fun t => match t.splitOn ":" with
          | [d, v] => do
              let v ← v.toInt?
              let d ← (match d with | "left" => some Dim.left | "top" => some Dim.top | "width" => some Dim.width | "height" => some Dim.height | _ => none)
              pure (d, v)
          | _ => none
        let sh (v : Option Int) : String := match v with | some a => toString a | none => "n"
        let (_, outs) := ops.foldl (fun ((g : OwnGeom), acc) op =>
          let g' := setDim g inh op.1 op.2
          (g', acc ++ ["/".intercalate ([Dim.left, Dim.top, Dim.width, Dim.height].map fun d => sh (readDim g' inh d))])) (own, [])
        pure (";".intercalate outs)
      | _, _ => none
  | ["c13.rep", own, idx, lay, mas] => do
      let oi (t : String) : Option (Option Int) := if t == "n" then some none else (t.toInt?).map some
      let own ← oi own; let idx ← idx.toNat?
      let lay ← if lay == "!" then some [] else (lay.splitOn ";").mapM fun t => match t.splitOn "/" with
        | [i, ty, v] => do let i ← i.toNat?; let ty ← decStr ty; let v ← oi v; pure (i, ty, v)
        | _ => none
      let mas ← if mas == "!" then some [] else (mas.splitOn ";").mapM fun t => match t.splitOn "/" with
        | [ty, v] => do let ty ← decStr ty; let v ← oi v; pure (ty, v)
        | _ => none
      pure (match reported own idx lay mas with | none => "n" | some v => toString v)
  | _ => none
end Pptx.Drv.C13
