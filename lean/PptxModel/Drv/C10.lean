import PptxModel.Model.Proto
import PptxModel.Model.Slots
namespace Pptx.Drv.C10
open Pptx Pptx.Proto Pptx.Slots

def handle : List String → Option String
  | ["c10.ins", succ, c, cs] => do
      let succ ← decNatList succ; let c ← c.toNat?; let cs ← decNatList cs
      pure (encNatList (insertTag succ c cs))
  | _ => none
end Pptx.Drv.C10
