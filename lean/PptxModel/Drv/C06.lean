import PptxModel.Model.Proto
import PptxModel.Model.Ids
import PptxModel.Model.Links
namespace Pptx.Drv.C06
open Pptx Pptx.Proto Pptx.Ids

def parseOp : String → Option AllocOp
  | "c" => some .viaCollection | "p" => some .viaOtherProxy | "e" => some .viaElement
  | "T" => some .turboOn | "t" => some .turboOff | _ => none

/-- a target `rt.ext.id` -/
def decTarget (t : String) : Option Links.Target :=
  match t.splitOn "." with
  | [a, b, c] => do
      let a ← a.toNat?; let c ← c.toNat?
      pure { rt := a, ext := b == "1", id := c }
  | _ => none

def encTarget (t : Links.Target) : String := s!"{t.rt}.{if t.ext then 1 else 0}.{t.id}"

/-- relationships `key~rt.ext.id,...` (keys as encoded strings with `_` for `.`), references `holder~key,...` -/
def decKey (k : String) : Option Str := decStr (k.replace "_" ".")
def encKey (k : Str) : String := (encStr k).replace "." "_"

def decRels (t : String) : Option (List Links.Rel) :=
  if t == "!" then some [] else (t.splitOn ",").mapM fun x =>
    match x.splitOn "~" with
    | [k, tg] => do let k ← decKey k; let tg ← decTarget tg; pure ({ key := k, tgt := tg } : Links.Rel)
    | _ => none

def decRefs (t : String) : Option (List (Nat × Str)) :=
  if t == "!" then some [] else (t.splitOn ",").mapM fun x =>
    match x.splitOn "~" with
    | [h, k] => do let h ← h.toNat?; let k ← decKey k; pure (h, k)
    | _ => none

def encPart (p : Links.Part) : String :=
  let rs := if p.rels.isEmpty then "!" else ",".intercalate (p.rels.map fun r => s!"{encKey r.key}~{encTarget r.tgt}")
  let fs := if p.refs.isEmpty then "!" else ",".intercalate (p.refs.map fun r => s!"{r.1}~{encKey r.2}")
  s!"{rs} {fs}"

def decLinkOp (t : String) : Option (Nat × Option Links.Target) :=
  match t.splitOn ":" with
  | [h, "none"] => do let h ← h.toNat?; pure (h, none)
  | [h, tg] => do let h ← h.toNat?; let tg ← decTarget tg; pure (h, some tg)
  | _ => none

def handle : List String → Option String
  | ["c06.links", rels, refs, ops] => do
      -- the part after EVERY assignment: relationships in insertion order, references in document order of appearance
      let rels ← decRels rels; let refs ← decRefs refs
      let ops ← if ops == "!" then some [] else (ops.splitOn ";").mapM decLinkOp
      let (_, outs) := ops.foldl (fun ((p : Links.Part), acc) (op : Nat × Option Links.Target) =>
        let p' := Links.setLink p op.1 op.2
        (p', acc ++ [encPart p' ++ " " ++ (match Links.address p' op.1 with | some t => encTarget t | none => "none")])) (⟨rels, refs⟩, [])
      pure (" | ".intercalate outs)
  | ["c06.shapes", ids, ops] => do
      let ids ← decNatList ids
      let ops ← if ops == "!" then some [] else (ops.splitOn ",").mapM parseOp
      let (_, outs) := ops.foldl (fun ((s : ShapeIds), acc) op =>
        let (s', r) := s.step op; (s', acc ++ [encOptNat r])) (⟨ids, none⟩, [])
      pure (",".intercalate outs)
  | ["c06.slideid", ids] => do let ids ← decNatList ids; pure (encOptNat (nextSlideId ids))
  | ["c06.rid", keys] => do let keys ← decStrList keys; pure (encOptNat (nextRIdNum keys))
  | ["c06.partname", pre, post, names] => do
      let pre ← decStr pre; let post ← decStr post; let names ← decStrList names
      pure (encOptNat (nextPartnameNum pre post names))
  | ["c06.freeidx", idxs] => do let idxs ← decNatList idxs; pure (toString (firstFreeIdx idxs))
  | _ => none
end Pptx.Drv.C06
