import PptxModel.Model.Proto
import PptxModel.Model.Ids
namespace Pptx.Drv.C06
open Pptx Pptx.Proto Pptx.Ids

def parseOp : String → Option AllocOp
  | "c" => some .viaCollection | "p" => some .viaOtherProxy | "e" => some .viaElement
  | "T" => some .turboOn | "t" => some .turboOff | _ => none

def handle : List String → Option String
  | ["c06.shapes", ids, ops] => do
      let ids ← decNatList ids
      let ops ← if ops == "!" then some [] else (ops.splitOn ",").mapM parseOp
      let (_, outs) := ops.foldl (fun ((s : ShapeIds), acc) op =>
        let (s', r) := s.step op; (s', acc ++ [encOptNat r])) (⟨ids, none⟩, [])
      pure (",".intercalate outs)
  | ["c06.slideid", ids] => do let ids ← decNatList ids; pure (encOptNat (nextSlideId ids))
  | ["c06.rid", keys] => do let keys ← decStrList keys; pure (encOptNat (nextRIdNum keys))
  | ["c06.partname", pre, post, names] => do
      let pre ← decStr pre; let post ← decStr post; let names ← decStrList names
      pure (encOptNat (nextPartnameNum pre post names))
  | ["c06.freeidx", idxs] => do let idxs ← decNatList idxs; pure (toString (firstFreeIdx idxs))
  | _ => none
end Pptx.Drv.C06
