import PptxModel.Model.Proto
import PptxModel.Model.Text
namespace Pptx.Drv.C04
open Pptx Pptx.Proto Pptx.Text

def showItem : Item → String
  | .run t => "r" ++ encStr t
  | .br => "b"
  | .fld t => "f" ++ encStr t

def showPara (p : Para) : String :=
  s!"{encBool p.pPr}{encBool p.endPr}" ++ ",".intercalate ("" :: p.items.map showItem)

def handle : List String → Option String
  | ["c04.frame", s] => do
      let s ← decStr s
      let b := setFrame [] s
      pure s!"{encStr (frameText b)} {"|".intercalate (b.map showPara)} {countBr b}"
  | ["c04.para", pPr, endPr, s] => do
      let s ← decStr s
      let p : Para := { pPr := pPr == "1", items := [.fld ['x'], .br], endPr := endPr == "1" }
      let p' := p.setText s
      pure s!"{encStr p'.text} {showPara p'}"
  | ["c04.run", s] => do
      let s ← decStr s
      pure (encStr (setRun s))
  | _ => none
end Pptx.Drv.C04
