import PptxModel.Model.Proto
import PptxModel.Model.XTree
import PptxModel.Gen.C03
namespace Pptx.Drv.C03
open Pptx Pptx.Proto Pptx.XTree

def decAttr (t : String) : Option (Nat × Str) :=
  match t.splitOn "=" with
  | [a, v] => do let a ← a.toNat?; let v ← decStr v; pure (a, v)
  | _ => none

/-- one node token: `tag/nkids/attrs` -/
def decNode (t : String) : Option (Nat × Nat × List (Nat × Str)) :=
  match t.splitOn "/" with
  | [tag, nk, as] => do
      let tag ← tag.toNat?; let nk ← nk.toNat?
      let as ← if as == "-" then some [] else (as.splitOn "~").mapM decAttr
      pure (tag, nk, as)
  | _ => none

mutual
partial def parseNode : List String → Option (XT × List String)
  | [] => none
  | t :: rest => do
      let (tag, nk, as) ← decNode t
      let (ks, rest') ← parseKids nk rest
      pure (.mk tag as ks, rest')
partial def parseKids : Nat → List String → Option (List XT × List String)
  | 0, rest => some ([], rest)
  | n + 1, rest => do
      let (k, rest') ← parseNode rest
      let (ks, rest'') ← parseKids n rest'
      pure (k :: ks, rest'')
end

/-- diagnostic only (not used by any theorem): where and why the tree fails -/
partial def why (S : Schema) (full : Bool) (ty : Nat) (path : String) : XT → Option String
  | .mk tag as ks =>
    let c := S.ct ty
    let tags := ks.map XT.tag
    if !c.kidsUp tags then some s!"{path}/{tag}:kidsUp(type {ty}, kids {tags})"
    else if !attrsUp S c as then some s!"{path}/{tag}:attrsUp(type {ty}, attrs {as.map (·.1)})"
    else if full && !c.kidsMin tags then some s!"{path}/{tag}:kidsMin(type {ty}, kids {tags})"
    else if full && !c.attrsMin as then some s!"{path}/{tag}:attrsMin(type {ty}, attrs {as.map (·.1)})"
    else ks.findSome? fun k => match kidType S c k.tag with
      | some cty => why S full cty s!"{path}/{tag}" k
      | none => none

def handle : List String → Option String
  | "c03.valid" :: full :: toks => do
      let (t, rest) ← parseNode toks
      if !rest.isEmpty then none
      let f := full == "1"
      if validRoot Gen.C03.schema f t then pure "ok"
      else match Gen.C03.schema.roots.lookup t.tag with
        | none => pure "bad root"
        | some ty => pure ("bad " ++ ((why Gen.C03.schema f ty "" t).getD "?"))
  | ["c03.st", st, v] => do
      let st ← st.toNat?; let v ← decStr v
      pure (encBool ((Gen.C03.schema.simple.getD st [Atom.any]).accepts v))
  | _ => none
end Pptx.Drv.C03
