import PptxModel.Model.Proto
import PptxModel.Model.Geometry
namespace Pptx.Drv.C17
open Pptx Pptx.Proto Pptx.Geometry

def showAxis (a : Axis) : String := s!"{a.pos},{a.ext},{encBool a.flip}"
def showCxn (c : Cxn) : String :=
  let (bx, by_, ex, ey) := c.readings
  s!"{showAxis c.h},{showAxis c.v},{bx},{by_},{ex},{ey}"

def parseCxnOp (t : String) : Option CxnOp :=
  match t.splitOn ":" with
  | ["bx", v] => CxnOp.beginX <$> v.toInt?
  | ["by", v] => CxnOp.beginY <$> v.toInt?
  | ["ex", v] => CxnOp.endX <$> v.toInt?
  | ["ey", v] => CxnOp.endY <$> v.toInt?
  | _ => none

def showBox (b : Box) : String := s!"{b.x},{b.y},{b.cx},{b.cy}"

/-- pre-order list of the boxes of all groups below the root -/
partial def groupBoxes : G → List (Box × Box)
  | .leaf _ => []
  | .grp _ _ kids => kids.foldr (fun k acc =>
      match k with
      | .leaf _ => acc
      | .grp b ch _ => (b, ch) :: (groupBoxes k ++ acc)) []

def parsePath (t : String) : Option (List Nat) :=
  if t == "-" then some [] else (t.splitOn "/").mapM (·.toNat?)

inductive TreeOp | add (p : List Nat) (g : G) | set (p : List Nat) (b : Box)

def parseAdd (t : String) : Option TreeOp :=
  match t.splitOn "|" with
  | [p, "G"] => do let p ← parsePath p; pure (.add p G.emptyGrp)
  | [p, "L", b] => do
      let p ← parsePath p
      match ← decIntList b with
      | [x, y, cx, cy] => pure (.add p (G.leaf ⟨x, y, cx, cy⟩))
      | _ => none
  | [p, "S", b] => do
      let p ← parsePath p
      match ← decIntList b with
      | [x, y, cx, cy] => pure (.set p ⟨x, y, cx, cy⟩)
      | _ => none
  | _ => none

def parseRat (t : String) : Option (Int × Nat) :=
  match t.splitOn "/" with
  | [n, d] => do let n ← n.toInt?; let d ← d.toNat?; if d = 0 then none else pure (n, d)
  | _ => none

def parsePenOp (t : String) : Option PenOp :=
  match t.splitOn ":" with
  | ["C"] => some .close
  | [k, x, y] => do
      let (xn, xd) ← parseRat x; let (yn, yd) ← parseRat y
      let xi := roundHE xn xd; let yi := roundHE yn yd
      if k == "L" then pure (.line xi yi) else if k == "M" then pure (.move xi yi) else none
  | _ => none

def handle : List String → Option String
  | ["c17.cxn", bx, by_, ex, ey, ops] => do
      let bx ← bx.toInt?; let by_ ← by_.toInt?; let ex ← ex.toInt?; let ey ← ey.toInt?
      let ops ← if ops == "!" then some [] else (ops.splitOn ",").mapM parseCxnOp
      let c0 := Cxn.new bx by_ ex ey
      let (_, outs) := ops.foldl (fun (c, acc) op => let c' := c.step op; (c', acc ++ [showCxn c'])) (c0, [showCxn c0])
      pure (";".intercalate outs)
  | ["c17.cxnchk", bx, by_, ex, ey, ops] => do
      let bx ← bx.toInt?; let by_ ← by_.toInt?; let ex ← ex.toInt?; let ey ← ey.toInt?
      let ops ← if ops == "!" then some [] else (ops.splitOn ",").mapM parseCxnOp
      let c0 := Cxn.new bx by_ ex ey
      let (_, outs) := ops.foldl (fun (c, acc) op =>
        let (c', ok) := c.stepChecked op
        (c', acc ++ [(if ok then "ok:" else "refused:") ++ showCxn c'])) (c0, [showCxn c0])
      pure (";".intercalate outs)
  | ["c17.grp", adds] => do
      let adds ← if adds == "!" then some [] else (adds.splitOn ";").mapM parseAdd
      let root : G := .grp ⟨0, 0, 0, 0⟩ ⟨0, 0, 0, 0⟩ []
      let (_, outs) := adds.foldl (fun (g, acc) (a : TreeOp) =>
        let g' := match a with
          | .add p n => G.addAt p n g
          | .set p b => G.setBoxAt p b g
        (g', acc ++ ["/".intercalate ((groupBoxes g').map fun (b, ch) => showBox b ++ "~" ++ showBox ch)])) (root, [])
      pure ("#".intercalate outs)
  | ["c17.ff", sx, sy, xs, ys, ox, oy, ops] => do
      let (sxn, sxd) ← parseRat sx; let (syn, syd) ← parseRat sy
      let (xsn, xsd) ← parseRat xs; let (ysn, ysd) ← parseRat ys
      let ox ← ox.toInt?; let oy ← oy.toInt?
      let ops ← if ops == "!" then some [] else (ops.splitOn ",").mapM parsePenOp
      let p : Pen := { startX := roundHE sxn sxd, startY := roundHE syn syd, ops := ops }
      let b := p.shapeBox ox oy xsn xsd ysn ysd
      let pts := ",".intercalate (p.pathPts.map fun (x, y) => s!"{x}:{y}")
      pure s!"{showBox b} {p.dx},{p.dy} {pts}"
  | _ => none
end Pptx.Drv.C17
