import PptxModel.Model.Proto
import PptxModel.Model.Image
namespace Pptx.Drv.C15
open Pptx Pptx.Proto Pptx.Image

def decFmt : String → Option Fmt
  | "BMP" => some .bmp | "GIF" => some .gif | "JPEG" => some .jpeg | "PNG" => some .png
  | "TIFF" => some .tiff | "WMF" => some .wmf | _ => none

def decAdd (t : String) : Option (Nat × Fmt) :=
  match t.splitOn ":" with
  | [b, f] => do let b ← b.toNat?; let f ← decFmt f; pure (b, f)
  | _ => none

def decPre (t : String) : Option ImgPart :=
  match t.splitOn ":" with
  | [i, e, b] => do let i ← i.toNat?; let e ← decStr e; let b ← b.toNat?; pure { idx := i, ext := e, ct := [], blob := b }
  | _ => none

def optInt (t : String) : Option (Option Int) := if t == "none" then some none else some <$> t.toInt?

def handle : List String → Option String
  | ["c15.store", pre, adds] => do
      -- digest = identity on blob ids (the harness numbers distinct byte strings)
      let pre ← if pre == "!" then some [] else (pre.splitOn ",").mapM decPre
      let adds ← if adds == "!" then some [] else (adds.splitOn ",").mapM decAdd
      let (_, outs) := adds.foldl (fun ((s : Store), acc) (a : Nat × Fmt) =>
        let (s', p) := getOrAdd (fun b => b) s a.1 a.2
        (s', acc ++ [s!"{p.idx}.{encStr p.ext}.{encStr p.ct}"])) (pre, [])
      pure (",".intercalate outs)
  | ["c15.dpi", n, d] => do let n ← n.toInt?; let d ← d.toNat?; pure (toString (intDpi n d))
  | ["c15.native", px, dpi] => do let px ← px.toNat?; let dpi ← dpi.toNat?; pure (toString (nativeLen px dpi))
  | ["c15.scale", iw, ih, cx, cy] => do
      let iw ← iw.toInt?; let ih ← ih.toInt?; let cx ← optInt cx; let cy ← optInt cy
      let (a, b) := scale iw ih cx cy
      pure s!"{a} {b}"
  | _ => none
end Pptx.Drv.C15
