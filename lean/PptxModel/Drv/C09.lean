import PptxModel.Model.Proto
import PptxModel.Model.PropStore
import PptxModel.Model.Color
import PptxModel.Model.Fill
import PptxModel.Model.Adjust
import PptxModel.Model.Spacing
import PptxModel.Model.Autofit
import PptxModel.Model.LineFmt
namespace Pptx.Drv.C09
open Pptx Pptx.Proto Pptx.PropStore Pptx.SimpleTypes

def oi (t : String) : Option (Option Int) := if t == "n" then some none else (t.toInt?).map some
def so : Option Int → String | none => "n" | some v => toString v

def decPair (t : String) : Option (Nat × Option Int) :=
  match t.splitOn ":" with
  | [a, v] => do let a ← a.toNat?; let v ← oi v; pure (a, v)
  | _ => none

/-! `c09.color`: a colour as `-` or `kind:val:tag=val,...` (kinds 0..5 = scrgb srgb hsl sys scheme prst; `!` = no
    transform children), a history `r<rgb>` / `t<theme>` / `b<n>/<d>`; per assignment: verdict, element, the four readers -/
open Pptx.Color in
def kindOf : Nat → Option Kind
  | 0 => some .scrgb | 1 => some .srgb | 2 => some .hsl | 3 => some .sys | 4 => some .scheme | 5 => some .prst | _ => none
open Pptx.Color in
def kindNo : Kind → Nat
  | .scrgb => 0 | .srgb => 1 | .hsl => 2 | .sys => 3 | .scheme => 4 | .prst => 5

def decKid (t : String) : Option (Nat × Int) :=
  match t.splitOn "=" with
  | [a, v] => do let a ← a.toNat?; let v ← v.toInt?; pure (a, v)
  | _ => none

open Pptx.Color in
def decClr (t : String) : Option St :=
  if t == "-" then some none else
  match t.splitOn ":" with
  | [k, v, kids] => do
      let k ← k.toNat?; let k ← kindOf k; let v ← v.toNat?
      let kids ← if kids == "!" then some [] else (kids.splitOn ",").mapM decKid
      pure (some ⟨k, v, kids⟩)
  | _ => none

open Pptx.Color in
def encClr : St → String
  | none => "-"
  | some c => s!"{kindNo c.kind}:{c.val}:" ++
      (if c.kids.isEmpty then "!" else ",".intercalate (c.kids.map fun k => s!"{k.1}={k.2}"))

open Pptx.Color in
def decOp (t : String) : Option Op :=
  if t.startsWith "r" then (t.drop 1).toString.toNat?.map .rgb
  else if t.startsWith "t" then (t.drop 1).toString.toNat?.map .theme
  else if t.startsWith "b" then
    match (t.drop 1).toString.splitOn "/" with
    | [n, d] => do let n ← n.toInt?; let d ← d.toNat?; pure (.bright n d)
    | _ => none
  else none

open Pptx.Color in
def readers (s : St) : String :=
  let ty := match typeOf s with | none => "n" | some k => toString (kindNo k)
  let rgb := match rgbOf s with | none => "e" | some v => toString v
  let th := match themeOf s with | .error => "e" | .notTheme => "x" | .theme t => toString t
  let br := match brightOf s with | none => "e" | some b => toString b
  s!"{ty} {rgb} {th} {br}"

open Pptx.Color in
def colorRun (s : St) : List Op → List String
  | [] => []
  | op :: rest =>
    match step s op with
    | none => s!"ref|{encClr s}|{readers s}" :: colorRun s rest
    | some s' => s!"ok|{encClr s'}|{readers s'}" :: colorRun s' rest

/-! `c09.fill`: a fill as `N` (none) `0` (noFill) `B` (blip) `G` (grpFill) `S/<colour>` `R/<lin>/<path>/<pos>@<colour>+...`
    `P/<prst>/<fg>/<bg>` (`n` = absent attribute / `a:lin`, `~` = absent `a:fgClr` / `a:bgClr`, `!` = no stops); calls `bg so gr pa
    pt<prst> f:<colour op> k:<colour op> c:<colour op> an<n>/<d> sc<i>:<colour op> sp<i>:<n>/<d>`; per call: result, fill, readers -/
open Pptx.Fill in
def decStop (t : String) : Option Stop :=
  match t.splitOn "@" with
  | [p, c] => do let p ← p.toInt?; let c ← decClr c; pure ⟨p, c⟩
  | _ => none

def decOptClr (t : String) : Option (Option Pptx.Color.St) := if t == "~" then some none else (decClr t).map some

open Pptx.Fill in
def decFill (t : String) : Option F :=
  match t.splitOn "/" with
  | ["N"] => some .none | ["0"] => some .noFill | ["B"] => some .blip | ["G"] => some .grp
  | ["S", c] => (decClr c).map .solid
  | ["R", lin, path, stops] => do
      let lin ← oi lin
      let stops ← if stops == "!" then some [] else (stops.splitOn "+").mapM decStop
      pure (.grad stops lin (path == "1"))
  | ["P", prst, fg, bg] => do
      let prst ← if prst == "n" then some none else prst.toNat?.map some
      let fg ← decOptClr fg; let bg ← decOptClr bg
      pure (.patt prst fg bg)
  | _ => none

open Pptx.Fill in
def encFill : F → String
  | .none => "N" | .noFill => "0" | .blip => "B" | .grp => "G"
  | .solid c => s!"S/{encClr c}"
  | .grad stops lin path => s!"R/{so lin}/{if path then 1 else 0}/" ++
      (if stops.isEmpty then "!" else "+".intercalate (stops.map fun s => s!"{s.pos}@{encClr s.clr}"))
  | .patt prst fg bg =>
      let oc : Option Pptx.Color.St → String := fun | none => "~" | some c => encClr c
      s!"P/{match prst with | none => "n" | some p => toString p}/{oc fg}/{oc bg}"

open Pptx.Fill in
def decFillOp (t : String) : Option Op :=
  if t == "bg" then some .background else if t == "so" then some .solid else if t == "gr" then some .gradient
  else if t == "pa" then some .patterned
  else if t.startsWith "pt" then
    let r := (t.drop 2).toString
    if r == "n" then some (.pattern none) else r.toNat?.map fun p => .pattern (some p)
  else if t.startsWith "f:" then (decOp (t.drop 2).toString).map .fore
  else if t.startsWith "k:" then (decOp (t.drop 2).toString).map .back
  else if t.startsWith "c:" then (decOp (t.drop 2).toString).map .viaColor
  else if t.startsWith "an" then
    match (t.drop 2).toString.splitOn "/" with
    | [n, d] => do let n ← n.toInt?; let d ← d.toNat?; pure (.angle n d)
    | _ => none
  else if t.startsWith "sc" then
    match (t.drop 2).toString.splitOn ":" with
    | [i, o] => do let i ← i.toNat?; let o ← decOp o; pure (.stopClr i o)
    | _ => none
  else if t.startsWith "sp" then
    match (t.drop 2).toString.splitOn ":" with
    | [i, r] => match r.splitOn "/" with
      | [n, d] => do let i ← i.toNat?; let n ← n.toInt?; let d ← d.toNat?; pure (.stopPos i n d)
      | _ => none
    | _ => none
  else none

open Pptx.Fill in
def fillReaders (f : F) : String :=
  let k := match Pptx.Fill.kindOf f with
    | .none => "N" | .noFill => "0" | .blip => "B" | .grp => "G" | .solid => "S" | .grad => "R" | .patt => "P"
  let pat := match patternOf f with | none => "T" | some none => "n" | some (some p) => toString p
  let ang := match angleOf f with | .typeError => "T" | .valueError => "V" | .inherited => "n" | .angle a => toString a
  let st := match stopsOf f with | none => "T" | some l => toString l.length
  s!"{k} {pat} {ang} {st}"

open Pptx.Fill in
def resStr : Res → String
  | .ok => "ok" | .typeError => "T" | .valueError => "V" | .indexError => "I"

open Pptx.Fill in
def fillRun (a1 : Option Nat) (f : F) : List Op → List String
  | [] => []
  | op :: rest =>
    let (f', r) := step a1 f op
    s!"{resStr r}|{encFill f'}|{fillReaders f'}" :: fillRun a1 f' rest

/-! `c09.adjs`: adjustments `name:default,...`, guides `name=val,...` (`!` none), assignments `i:v;...`; per assignment:
    `ok` / `I` (IndexError), the guides as stored, every adjustment as read -/
def decNI (sep : String) (t : String) : Option (Nat × Int) :=
  match t.splitOn sep with
  | [a, v] => do let a ← a.toNat?; let v ← v.toInt?; pure (a, v)
  | _ => none

def encGuides (g : Pptx.Adjust.Guides) : String :=
  if g.isEmpty then "!" else ",".intercalate (g.map fun e => s!"{e.1}={e.2}")

def adjRun (d : Pptx.Adjust.Defs) (g : Pptx.Adjust.Guides) : List (Nat × Int) → List String
  | [] => []
  | (i, v) :: rest =>
    match Pptx.Adjust.write d g i v with
    | some g' => s!"ok|{encGuides g'}|{encIntList (Pptx.Adjust.readAll d g')}" :: adjRun d g' rest
    | none => s!"I|{encGuides g}|{encIntList (Pptx.Adjust.readAll d g)}" :: adjRun d g rest

/-! `c09.spc`: a paragraph as `p:ln:bef:aft` (`p` = 0/1 for `a:pPr`, an element `-` or `pct/pts` with `n` for a missing child),
    assignments `L|B|A=n|e<emu>|l<1/100000 lines>`; per assignment: verdict, the paragraph as stored, the three readings -/
namespace Spc
open Pptx.Spacing
def on (t : String) : Option (Option Nat) := if t == "n" then some none else (t.toNat?).map some
def sn : Option Nat → String | none => "n" | some v => toString v
def decSlot (t : String) : Option (Option Slot) :=
  if t == "-" then some none else
  match t.splitOn "/" with
  | [a, b] => do let a ← on a; let b ← on b; pure (some ⟨a, b⟩)
  | _ => none
def encSlot : Option Slot → String
  | none => "-"
  | some sl => s!"{sn sl.pct}/{sn sl.pts}"
def decSt (t : String) : Option St :=
  match t.splitOn ":" with
  | [p, a, b, c] => do
      let p ← p.toNat?; let a ← decSlot a; let b ← decSlot b; let c ← decSlot c
      pure ⟨p != 0, a, b, c⟩
  | _ => none
def encSt (s : St) : String := s!"{if s.hasPPr then 1 else 0}:{encSlot s.ln}:{encSlot s.bef}:{encSlot s.aft}"
def decOp (t : String) : Option Op :=
  match t.splitOn "=" with
  | [w, v] => do
      let w ← match w with | "L" => some Which.ln | "B" => some Which.bef | "A" => some Which.aft | _ => none
      let v ← if v == "n" then some Val.none
              else if v.startsWith "e" then (v.drop 1).toString.toInt?.map Val.emu
              else if v.startsWith "l" then (v.drop 1).toString.toInt?.map Val.lines
              else none
      pure ⟨w, v⟩
  | _ => none
def encReading : Reading → String
  | .none => "n" | .emu e => s!"e{e}" | .lines n => s!"l{n}" | .attrError => "X"
def readings (s : St) : String := s!"{encReading (read s .ln)},{encReading (read s .bef)},{encReading (read s .aft)}"
def spcRun (s : St) : List Op → List String
  | [] => []
  | op :: rest =>
    let (s', r) := step s op
    s!"{match r with | .ok => "ok" | .valueError => "V"}|{encSt s'}|{readings s'}" :: spcRun s' rest
end Spc

/-! `c09.fit`: the autofit children `k/scale/reduc,...` (`k` = 0 noAutofit, 1 normAutofit, 2 spAutoFit; `n` = no attribute; `!` none),
    assignments `n` / `0|1|2` / `x` (no member); per assignment: verdict, children as stored, the reading -/
namespace Fit
open Pptx.Autofit
def kOf : Nat → Option Kind | 0 => some .no | 1 => some .norm | 2 => some .sp | _ => none
def kNo : Kind → Nat | .no => 0 | .norm => 1 | .sp => 2
def decEl (t : String) : Option El :=
  match t.splitOn "/" with
  | [k, a, b] => do let k ← k.toNat?; let k ← kOf k; let a ← Spc.on a; let b ← Spc.on b; pure ⟨k, a, b⟩
  | _ => none
def encSt (s : St) : String :=
  if s.isEmpty then "!" else ",".intercalate (s.map fun e => s!"{kNo e.kind}/{Spc.sn e.scale}/{Spc.sn e.reduc}")
def decVal (t : String) : Option Val :=
  if t == "n" then some .none else if t == "x" then some .other else do let k ← t.toNat?; let k ← kOf k; pure (.member k)
def rd (s : St) : String := match read s with | none => "n" | some k => toString (kNo k)
def fitRun (s : St) : List Val → List String
  | [] => []
  | v :: rest =>
    let (s', ok) := step s v
    s!"{if ok then "ok" else "V"}|{encSt s'}|{rd s'}" :: fitRun s' rest
end Fit

/-! `c09.line`: `-` (no a:ln) or `w/prst/cust` (`n` = absent, cust 0/1), assignments `wn` / `w<emu>` / `dn` / `d<k>` / `dx`;
    per assignment: verdict, a:ln as stored, width and dash style as read -/
namespace Lin
open Pptx.LineFmt
def decSt (t : String) : Option St :=
  if t == "-" then some none else
  match t.splitOn "/" with
  | [w, p, c] => do let w ← Spc.on w; let p ← Spc.on p; let c ← c.toNat?; pure (some ⟨w, p, c != 0⟩)
  | _ => none
def encSt : St → String
  | none => "-"
  | some l => s!"{Spc.sn l.w}/{Spc.sn l.prst}/{if l.cust then 1 else 0}"
def decOp (t : String) : Option Op :=
  if t == "wn" then some (.width none) else if t == "dn" then some (.dash .none) else if t == "dx" then some (.dash .other)
  else if t.startsWith "w" then (t.drop 1).toString.toInt?.map fun e => .width (some e)
  else if t.startsWith "d" then (t.drop 1).toString.toNat?.map fun k => .dash (.member k)
  else none
def rd (s : St) : String := s!"{width s},{Spc.sn (dashOf s)}"
def lineRun (s : St) : List Op → List String
  | [] => []
  | op :: rest =>
    let (s', ok) := step s op
    s!"{if ok then "ok" else "V"}|{encSt s'}|{rd s'}" :: lineRun s' rest
end Lin

def handle : List String → Option String
  | ["c09.line", start, ops] => do
      let s ← Lin.decSt start
      let ops ← if ops == "!" then some [] else (ops.splitOn ";").mapM Lin.decOp
      pure (";".intercalate (s!"start|{Lin.encSt s}|{Lin.rd s}" :: Lin.lineRun s ops))
  | ["c09.fit", start, ops] => do
      let s ← if start == "!" then some [] else (start.splitOn ",").mapM Fit.decEl
      let ops ← if ops == "!" then some [] else (ops.splitOn ";").mapM Fit.decVal
      pure (";".intercalate (s!"start|{Fit.encSt s}|{Fit.rd s}" :: Fit.fitRun s ops))
  | ["c09.spc", start, ops] => do
      let s ← Spc.decSt start
      let ops ← if ops == "!" then some [] else (ops.splitOn ";").mapM Spc.decOp
      pure (";".intercalate (s!"start|{Spc.encSt s}|{Spc.readings s}" :: Spc.spcRun s ops))
  | ["c09.run", dflts, init, ops, reads] => do
      let dflts ← if dflts == "!" then some [] else (dflts.splitOn ";").mapM decPair
      let init ← if init == "!" then some [] else (init.splitOn ";").mapM decPair
      let ops ← if ops == "!" then some [] else (ops.splitOn ";").mapM decPair
      let reads ← decNatList reads
      let dflt : Nat → Option Int := fun a => (dflts.lookup a).bind id
      let st0 : Store Int := init.filterMap fun (a, v) => v.map fun x => (a, x)
      let st := runA dflt st0 ops
      pure (",".intercalate (reads.map fun a => so (getA dflt st a)))
  | ["c09.size", emu] => do let e ← emu.toInt?; pure s!"{sizeStore e} {sizeRead (sizeStore e)}"
  | ["c09.angle", n, d] => do let n ← n.toInt?; let d ← d.toNat?; pure (toString (angle n d))
  | ["c09.pct", n, d] => do let n ← n.toInt?; let d ← d.toNat?; pure (toString (pct n d))
  | ["c09.adj", n, d] => do let n ← n.toInt?; let d ← d.toNat?; pure (toString (adjStore n d))
  | ["c09.bright", n, d] => do
      let n ← n.toInt?; let d ← d.toNat?
      let s := brightStore n d
      pure s!"{so s.1} {so s.2} {brightRead s}"
  | ["c09.adjs", d, g, ops] => do
      let d ← (d.splitOn ",").mapM (decNI ":")
      let g ← if g == "!" then some [] else (g.splitOn ",").mapM (decNI "=")
      let ops ← if ops == "!" then some [] else (ops.splitOn ";").mapM (decNI ":")
      pure (";".intercalate (s!"start|{encGuides g}|{encIntList (Pptx.Adjust.readAll d g)}" :: adjRun d g ops))
  | ["c09.fill", a1, start, ops] => do
      let a1 ← if a1 == "n" then some none else a1.toNat?.map some
      let f ← decFill start
      let ops ← if ops == "!" then some [] else (ops.splitOn ";").mapM decFillOp
      pure (";".intercalate (s!"start|{encFill f}|{fillReaders f}" :: fillRun a1 f ops))
  | ["c09.color", start, ops] => do
      let s ← decClr start
      let ops ← if ops == "!" then some [] else (ops.splitOn ";").mapM decOp
      pure (";".intercalate (s!"start|{encClr s}|{readers s}" :: colorRun s ops))
  | ["c09.grad", n, d] => do
      let n ← n.toInt?; let d ← d.toNat?
      pure s!"{gradStore n d} {gradRead (gradStore n d)}"
  | _ => none
end Pptx.Drv.C09
