import PptxModel.Model.Proto
import PptxModel.Model.PropStore
namespace Pptx.Drv.C09
open Pptx Pptx.Proto Pptx.PropStore Pptx.SimpleTypes

def oi (t : String) : Option (Option Int) := if t == "n" then some none else (t.toInt?).map some
def so : Option Int → String | none => "n" | some v => toString v

def decPair (t : String) : Option (Nat × Option Int) :=
  match t.splitOn ":" with
  | [a, v] => do let a ← a.toNat?; let v ← oi v; pure (a, v)
  | _ => none

def handle : List String → Option String
  | ["c09.run", dflts, init, ops, reads] => do
      let dflts ← if dflts == "!" then some [] else (dflts.splitOn ";").mapM decPair
      let init ← if init == "!" then some [] else (init.splitOn ";").mapM decPair
      let ops ← if ops == "!" then some [] else (ops.splitOn ";").mapM decPair
      let reads ← decNatList reads
      let dflt : Nat → Option Int := fun a => (dflts.lookup a).bind id
      let st0 : Store Int := init.filterMap fun (a, v) => v.map fun x => (a, x)
      let st := runA dflt st0 ops
      pure (",".intercalate (reads.map fun a => so (getA dflt st a)))
  | ["c09.size", emu] => do let e ← emu.toInt?; pure s!"{sizeStore e} {sizeRead (sizeStore e)}"
  | ["c09.angle", n, d] => do let n ← n.toInt?; let d ← d.toNat?; pure (toString (angle n d))
  | ["c09.pct", n, d] => do let n ← n.toInt?; let d ← d.toNat?; pure (toString (pct n d))
  | ["c09.adj", n, d] => do let n ← n.toInt?; let d ← d.toNat?; pure (toString (adjStore n d))
  | ["c09.bright", n, d] => do
      let n ← n.toInt?; let d ← d.toNat?
      let s := brightStore n d
      pure s!"{so s.1} {so s.2} {brightRead s}"
  | ["c09.grad", n, d] => do
      let n ← n.toInt?; let d ← d.toNat?
      pure s!"{gradStore n d} {gradRead (gradStore n d)}"
  | _ => none
end Pptx.Drv.C09
