import PptxModel.Model.Proto
import PptxModel.Model.Pkg
import PptxModel.Model.PkgOps
import PptxModel.Model.Opc
namespace Pptx.Drv.C02
open Pptx Pptx.Proto Pptx.Pkg

def decTgt (t : String) : Option Tgt :=
  if t == "x" then some .ext
  else if t.startsWith "i" then Tgt.int <$> (t.drop 1).toString.toNat? else none

def decRelEntry (e : String) : Option (Str × Tgt) :=
  match e.splitOn ":" with
  | [r, g] => do let r ← decStr r; let g ← decTgt g; pure (r, g)
  | _ => none

/-- `id/name/rid:tgt,rid:tgt/ref,ref` -/
def decPart (t : String) : Option PartRec :=
  match t.splitOn "/" with
  | [i, n, rl, rf] => do
      let i ← i.toNat?; let n ← decStr n
      let rels ← if rl == "!" then some [] else (rl.splitOn ",").mapM decRelEntry
      let refs ← if rf == "!" then some [] else (rf.splitOn ",").mapM decStr
      pure { id := i, name := n, rels := rels, refs := refs }
  | _ => none

def decRename (e : String) : Option (Nat × Str) :=
  match e.splitOn "=" with
  | [i, n] => do let i ← i.toNat?; let n ← decStr n; pure (i, n)
  | _ => none

def decDelta (t : String) : Option Delta :=
  let kind := t.take 1 |>.toString
  let body := (t.drop 1).toString.splitOn ":"
  match kind, body with
  | "P", [i, n] => do let i ← i.toNat?; let n ← decStr n; pure (.addPart i n)
  | "N", [l] => do
      let prs ← (l.splitOn "+").mapM decRename
      pure (.rename prs)
  | "R", [i, r, g] => do let i ← i.toNat?; let r ← decStr r; let g ← decTgt g; pure (.addRel i r g)
  | "T", [i, r, g] => do let i ← i.toNat?; let r ← decStr r; let g ← decTgt g; pure (.retarget i r g)
  | "F", [i, r] => do let i ← i.toNat?; let r ← decStr r; pure (.addRef i r)
  | "f", [i, r] => do let i ← i.toNat?; let r ← decStr r; pure (.dropRef i r)
  | "r", [i, r] => do let i ← i.toNat?; let r ← decStr r; pure (.dropRel i r)
  | "p", [l] => do let is ← (l.splitOn ".").mapM (·.toNat?); pure (.dropParts is)
  | _, _ => none

def decStep (st : String) : Option (List Delta) :=
  if st == "!" then some [] else (st.splitOn ",").mapM decDelta

/-- run step by step so that the failing operation can be named -/
def go (s : St) : List (List Delta) → Nat → String
  | [], _ => "ok"
  | ds :: rest, k =>
    match runD s ds 0 with
    | .ok s' => go s' rest (k + 1)
    | .error j => s!"ill-formed-step {k} delta {j}"

def encTgt : Tgt → String
  | .int t => s!"i{t}"
  | .ext => "x"

/-- same layout as the harness's `enc_snapshot`; references sorted (they are a multiset) -/
def encPart (p : PartRec) : String :=
  let rl := if p.rels.isEmpty then "!" else ",".intercalate (p.rels.map fun e => s!"{encStr e.1}:{encTgt e.2}")
  let refs := Opc.sortBy Opc.strLt p.refs
  let rf := if refs.isEmpty then "!" else ",".intercalate (refs.map encStr)
  s!"{p.id}/{encStr p.name}/{rl}/{rf}"

def decOp : List String → Option PkgOps.Op
  | ["slide", pres, layout, new, listed] => do
      pure (.addSlide (← pres.toNat?) (← layout.toNat?) (← new.toNat?) (← listed.toNat?))
  | ["picture", slide, existing, new, ext] => do
      let ex ← if existing == "none" then some none else some <$> existing.toNat?
      pure (.addPicture (← slide.toNat?) ex (← new.toNat?) (← decStr ext))
  | ["chart", slide, chart, xlsx] => do pure (.addChart (← slide.toNat?) (← chart.toNat?) (← xlsx.toNat?))
  | ["ole", slide, ole, pre, post, existing, ni, ext] => do
      let ex ← if existing == "none" then some none else some <$> existing.toNat?
      pure (.addOle (← slide.toNat?) (← ole.toNat?) (← decStr pre) (← decStr post) ex (← ni.toNat?) (← decStr ext))
  | ["notes", pres, slide, master, nm, nt, nn] => do
      let m ← if master == "none" then some none else some <$> master.toNat?
      pure (.addNotes (← pres.toNat?) (← slide.toNat?) m (← nm.toNat?) (← nt.toNat?) (← nn.toNat?))
  | _ => none

def handle : List String → Option String
  | "c02.predict" :: snap :: op => do
      -- the package graph after the call, predicted from the graph before it
      let s0 ← (snap.splitOn ";").mapM decPart
      let op ← decOp op
      match PkgOps.step s0 op with
      | some s' => pure (";".intercalate (s'.map encPart))
      | none => pure "ill-formed-prediction"
  | ["c02.slidenums", n, k, j] => do
      let n ← n.toNat?; let k ← k.toNat?; let j ← j.toNat?
      let s := numbersAfter n k j
      let news := (List.range j).map fun i => nextSlideNumber (numbersAfter n k i)
      pure s!"{encNatList s.listed} {encNatList s.unlisted} {encNatList news}"
  | ["c02.hist", snap, steps] => do
      let s0 ← (snap.splitOn ";").mapM decPart
      let stepL ← if steps == "!" then some [] else (steps.splitOn "|").mapM decStep
      if !invB s0 then pure "initial-package-not-closed" else pure (go s0 stepL 0)
  | _ => none
end Pptx.Drv.C02
