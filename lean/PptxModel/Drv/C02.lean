import PptxModel.Model.Proto
import PptxModel.Model.Pkg
namespace Pptx.Drv.C02
open Pptx Pptx.Proto Pptx.Pkg

def decTgt (t : String) : Option Tgt :=
  if t == "x" then some .ext
  else if t.startsWith "i" then Tgt.int <$> (t.drop 1).toString.toNat? else none

def decRelEntry (e : String) : Option (Str × Tgt) :=
  match e.splitOn ":" with
  | [r, g] => do let r ← decStr r; let g ← decTgt g; pure (r, g)
  | _ => none

/-- `id/name/rid:tgt,rid:tgt/ref,ref` -/
def decPart (t : String) : Option PartRec :=
  match t.splitOn "/" with
  | [i, n, rl, rf] => do
      let i ← i.toNat?; let n ← decStr n
      let rels ← if rl == "!" then some [] else (rl.splitOn ",").mapM decRelEntry
      let refs ← if rf == "!" then some [] else (rf.splitOn ",").mapM decStr
      pure { id := i, name := n, rels := rels, refs := refs }
  | _ => none

def decRename (e : String) : Option (Nat × Str) :=
  match e.splitOn "=" with
  | [i, n] => do let i ← i.toNat?; let n ← decStr n; pure (i, n)
  | _ => none

def decDelta (t : String) : Option Delta :=
  let kind := t.take 1 |>.toString
  let body := (t.drop 1).toString.splitOn ":"
  match kind, body with
  | "P", [i, n] => do let i ← i.toNat?; let n ← decStr n; pure (.addPart i n)
  | "N", [l] => do
      let prs ← (l.splitOn "+").mapM decRename
      pure (.rename prs)
  | "R", [i, r, g] => do let i ← i.toNat?; let r ← decStr r; let g ← decTgt g; pure (.addRel i r g)
  | "T", [i, r, g] => do let i ← i.toNat?; let r ← decStr r; let g ← decTgt g; pure (.retarget i r g)
  | "F", [i, r] => do let i ← i.toNat?; let r ← decStr r; pure (.addRef i r)
  | "f", [i, r] => do let i ← i.toNat?; let r ← decStr r; pure (.dropRef i r)
  | "r", [i, r] => do let i ← i.toNat?; let r ← decStr r; pure (.dropRel i r)
  | "p", [l] => do let is ← (l.splitOn ".").mapM (·.toNat?); pure (.dropParts is)
  | _, _ => none

def decStep (st : String) : Option (List Delta) :=
  if st == "!" then some [] else (st.splitOn ",").mapM decDelta

/-- run step by step so that the failing operation can be named -/
def go (s : St) : List (List Delta) → Nat → String
  | [], _ => "ok"
  | ds :: rest, k =>
    match runD s ds 0 with
    | .ok s' => go s' rest (k + 1)
    | .error j => s!"ill-formed-step {k} delta {j}"

def handle : List String → Option String
  | ["c02.slidenums", n, k, j] => do
      let n ← n.toNat?; let k ← k.toNat?; let j ← j.toNat?
      let s := numbersAfter n k j
      let news := (List.range j).map fun i => nextSlideNumber (numbersAfter n k i)
      pure s!"{encNatList s.listed} {encNatList s.unlisted} {encNatList news}"
  | ["c02.hist", snap, steps] => do
      let s0 ← (snap.splitOn ";").mapM decPart
      let stepL ← if steps == "!" then some [] else (steps.splitOn "|").mapM decStep
      if !invB s0 then pure "initial-package-not-closed" else pure (go s0 stepL 0)
  | _ => none
end Pptx.Drv.C02
