import PptxModel.Model.Proto
import PptxModel.Model.CoreProps
namespace Pptx.Drv.C18
open Pptx Pptx.Proto Pptx.CoreProps

def handle : List String → Option String
  | ["c18.fmt", y, mo, d, h, mi, s] => do
      let y ← y.toNat?; let mo ← mo.toNat?; let d ← d.toNat?; let h ← h.toNat?; let mi ← mi.toNat?; let s ← s.toNat?
      pure (encStr (fmt ⟨y, mo, d, h, mi, s⟩))
  | ["c18.fmtaware", y, mo, d, h, mi, s, off] => do
      let y ← y.toNat?; let mo ← mo.toNat?; let d ← d.toNat?; let h ← h.toNat?; let mi ← mi.toNat?; let s ← s.toNat?
      let off ← off.toInt?
      match writeAware ⟨y, mo, d, h, mi, s⟩ off with
      | some t => pure (encStr t)
      | none => pure "overflow"
  | ["c18.read", s] => do
      let s ← decStr s
      match readW3C s with
      | .ok t => pure s!"ok {t.y} {t.mo} {t.d} {t.h} {t.mi} {t.s}"
      | .unparseable => pure "none"
      | .overflow => pure "overflow"
  | ["c18.text", s] => do
      let s ← decStr s
      pure (if (setText s).isSome then "ok" else "err")
  | ["c18.wrev", v] => do
      let v ← v.toInt?
      pure (match writeRevision v with | some t => encStr t | none => "refused")
  | ["c18.rev", s] => do
      if s == "none" then pure (toString (revisionOf none)) else
      let s ← decStr s
      pure (toString (revisionOf (some s)))
  | _ => none
end Pptx.Drv.C18
