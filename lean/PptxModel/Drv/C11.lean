import PptxModel.Model.Proto
import PptxModel.Model.SimpleTypes
namespace Pptx.Drv.C11
open Pptx Pptx.Proto Pptx.SimpleTypes

def handle : List String → Option String
  | ["c11.angle", n, d] => do let n ← n.toInt?; let d ← d.toNat?; pure (toString (angle n d))
  | ["c11.pfa", n, d] => do let n ← n.toInt?; let d ← d.toNat?; pure (toString (pfa n d))
  | ["c11.pct", n, d] => do let n ← n.toInt?; let d ← d.toNat?; pure (toString (pct n d))
  | ["c11.fontscale", n, d] => do let n ← n.toInt?; let d ← d.toNat?; pure (toString (fontscale n d))
  | ["c11.spcpts", n, d] => do let n ← n.toInt?; let d ← d.toNat?; if d = 1 then pure (toString (spcpts n)) else none
  | _ => none
end Pptx.Drv.C11
