import PptxModel.Model.Proto
import PptxModel.Model.Opc
namespace Pptx.Drv.C01
open Pptx Pptx.Proto Pptx.Opc

/-- `a/b;a/b` pairs of encoded strings, `!` for empty -/
def decPairs (t : String) : Option (List (Str × Str)) :=
  if t == "!" then some [] else (t.splitOn ";").mapM fun e =>
    match e.splitOn "/" with
    | [a, b] => do let a ← decStr a; let b ← decStr b; pure (a, b)
    | _ => none

def decRel (t : String) : Option RelX :=
  match t.splitOn "/" with
  | [i, ty, tg, x] => do
      let i ← decStr i; let ty ← decStr ty; let tg ← decStr tg
      pure { id := i, rtype := ty, target := tg, external := x == "1" }
  | _ => none

/-- `src#rel;rel|src#rel` -/
def decRelItems (t : String) : Option (List (Str × List RelX)) :=
  if t == "!" then some [] else (t.splitOn "|").mapM fun item =>
    match item.splitOn "#" with
    | [s, rs] => do
        let s ← decStr s
        let rs ← if rs == "!" then some [] else (rs.splitOn ";").mapM decRel
        pure (s, rs)
    | _ => none

def encPairs (l : List (Str × Str)) : String :=
  if l.isEmpty then "!" else ";".intercalate (l.map fun (a, b) => encStr a ++ "/" ++ encStr b)

def encRel (r : RelX) : String :=
  s!"{encStr r.id}/{encStr r.rtype}/{encStr r.target}/{encBool r.external}"

def encRelItems (l : List (Str × List RelX)) : String :=
  if l.isEmpty then "!" else "|".intercalate (l.map fun (s, rs) =>
    encStr s ++ "#" ++ (if rs.isEmpty then "!" else ";".intercalate (rs.map encRel)))

def showSaved (s : Saved) : String :=
  s!"{encStrList s.memberOrder} {encPairs s.defaults} {encPairs s.overrides} {encPairs s.parts} {encRelItems s.rels}"

def handle : List String → Option String
  | ["c16.main", ct] => do let ct ← decStr ct; pure (if Opc.isPresentationType ct then "ok" else "ValueError")
  | ["c01.rt", hasCT, dct, xmlCT, relsCT, defaults, overrides, members, rels] => do
      let dct ← decPairs dct; let xmlCT ← decStr xmlCT; let relsCT ← decStr relsCT
      let defaults ← decPairs defaults; let overrides ← decPairs overrides
      let members ← decStrList members; let rels ← decRelItems rels
      let p : Phys := { defaults := defaults, overrides := overrides, members := members, rels := rels }
      match load p (hasCT == "1") with
      | .error .noContentTypes => pure "ERR keyerror-content-types"
      | .error (.noContentType n) => pure s!"ERR keyerror-no-content-type {encStr n}"
      | .ok L =>
        let s1 := save dct xmlCT relsCT L
        -- second generation: load what was saved and save again
        match load s1.toPhys true with
        | .ok L2 =>
          let s2 := save dct xmlCT relsCT L2
          pure s!"OK {showSaved s1} {showSaved { s2 with parts := s2.parts.map fun (n, _) => (n, n) }}"
        | .error _ => pure s!"OK {showSaved s1} RELOAD-ERR"
  | _ => none
end Pptx.Drv.C01
