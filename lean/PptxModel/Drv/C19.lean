import PptxModel.Model.Proto
import PptxModel.Model.PackUri
namespace Pptx.Drv.C19
open Pptx Pptx.Proto

def encOptStr : Option Str → String
  | none => "ERR"
  | some s => encStr s

def handle : List String → Option String
  | ["c19.mk", a] => do let a ← decStr a; pure (encOptStr (PackUri.mk a))
  | ["c19.acc", a] => do
      let a ← decStr a
      pure (String.intercalate " " [encStr (PackUri.baseURI a), encStr (PackUri.filename a),
        encStr (PackUri.ext a), encOptNat (PackUri.idx a), encStr (PackUri.membername a),
        encOptStr (PackUri.relsUri a)])
  | ["c19.from", b, r] => do
      let b ← decStr b; let r ← decStr r
      pure (encOptStr (PackUri.fromRelRef b r))
  | ["c19.rel", s, b] => do
      let s ← decStr s; let b ← decStr b
      pure (encStr (PackUri.relativeRef s b))
  | _ => none
end Pptx.Drv.C19
