import PptxModel.Model.Proto
import PptxModel.Model.Effects
import PptxModel.Drv.C03
namespace Pptx.Drv.C12
open Pptx Pptx.Proto Pptx.XTree Pptx.Effects

def splitBar (toks : List String) : List String × List String :=
  (toks.takeWhile (· != "|"), (toks.dropWhile (· != "|")).drop 1)

def handle : List String → Option String
  | "c12.same" :: roots :: inner :: toks => do
      let roots ← decNatList roots
      let inner ← decNatList inner
      let (a, b) := splitBar toks
      let (ta, ra) ← Drv.C03.parseNode a
      let (tb, rb) ← Drv.C03.parseNode b
      if !ra.isEmpty || !rb.isEmpty then none
      let C : Containers := { roots := roots, inner := inner }
      let raw := same ta tb
      let can := same (canon C ta) (canon C tb)
      pure (if raw then "identical" else if can then "same-up-to-empty-containers" else "different")
  | _ => none
end Pptx.Drv.C12
