import PptxModel.Model.Proto
import PptxModel.Model.Table
namespace Pptx.Drv.C14
open Pptx Pptx.Proto Pptx.Table

def parseOp (t : String) : Option Op :=
  match t.splitOn ":" with
  | ["m", a] => match decNatList a with
      | some [r1, c1, r2, c2] => some (.merge r1 c1 r2 c2) | _ => none
  | ["s", a] => match decNatList a with
      | some [r, c] => some (.split r c) | _ => none
  | _ => none

/-- `r,c:para;para` -/
def parseText (t : String) : Option ((Nat × Nat) × Paras) :=
  match t.splitOn ":" with
  | [rc, ps] => do
      match ← decNatList rc with
      | [r, c] => do let ps ← decStrList ps; pure ((r, c), ps)
      | _ => none
  | _ => none

def showErr : Option Err → String
  | none => "ok" | some .refused => "refused" | some .notOrigin => "notorigin" | some .index => "index"

def showCell (t : Tbl) (r c : Nat) : String :=
  let f := t.F r c
  s!"{f.gridSpan}.{f.rowSpan}.{encBool f.hMerge}.{encBool f.vMerge}.{encBool f.isOrigin}.{encBool f.isSpanned}:{encStrList (t.P r c)}"

def showTbl (t : Tbl) : String :=
  "|".intercalate ((List.range t.rows).flatMap fun r => (List.range t.cols).map fun c => showCell t r c)

def setSize (l : List Int) (i : Nat) (v : Int) : List Int := l.set i v

def parseSizeOp (t : String) : Option (String × Nat × Int) :=
  match t.splitOn ":" with
  | [k, i, v] => do let i ← i.toNat?; let v ← v.toInt?; pure (k, i, v)
  | _ => none

def handle : List String → Option String
  | ["c14.seq", rows, cols, texts, ops] => do
      let rows ← rows.toNat?; let cols ← cols.toNat?
      let texts ← if texts == "!" then some [] else (texts.splitOn "|").mapM parseText
      let ops ← if ops == "!" then some [] else (ops.splitOn "/").mapM parseOp
      let t0 := Tbl.new rows cols
      let t0 := { t0 with P := fun r c => match texts.lookup (r, c) with | some ps => ps | none => [[]] }
      let (t, errs) := ops.foldl (fun (t, errs) op => let (t', e) := t.step op; (t', errs ++ [showErr e])) (t0, [])
      pure s!"{",".intercalate errs} {showTbl t}"
  | ["c14.new", rows, cols, w, h, ops] => do
      let rows ← rows.toNat?; let cols ← cols.toNat?; let w ← w.toInt?; let h ← h.toInt?
      let ws := newSizes cols w
      let hs := newSizes rows h
      -- ops: `w:i:v` / `h:i:v` assignments; the frame size follows the sum of the changed dimension
      let ops ← if ops == "!" then some [] else (ops.splitOn "/").mapM parseSizeOp
      let (ws, hs, fw, fh) := ops.foldl (fun (ws, hs, fw, fh) (k, i, v) =>
        if k == "w" then (match setItem ⟨ws, fw⟩ i v with | some s' => (s'.items, hs, s'.frame, fh) | none => (ws, hs, fw, fh))
        else if k == "h" then (match setItem ⟨hs, fh⟩ i v with | some s' => (ws, s'.items, fw, s'.frame) | none => (ws, hs, fw, fh))
        else if k == "W" then (if posOk v then (ws, hs, v, fh) else (ws, hs, fw, fh))   -- the caller resizes the graphic frame itself
        else (if posOk v then (ws, hs, fw, v) else (ws, hs, fw, fh))) (ws, hs, w, h)
      pure s!"{encIntList ws} {encIntList hs} {fw} {fh}"
  | _ => none
end Pptx.Drv.C14
