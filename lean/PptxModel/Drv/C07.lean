import PptxModel.Model.Proto
import PptxModel.Model.Serial
import PptxModel.Model.ChartData
import PptxModel.Model.Hierarchy
import PptxModel.Model.Replace
namespace Pptx.Drv.C07
open Pptx Pptx.Proto Pptx.ChartData Pptx.Hierarchy

/-- forest tokens in pre-order: `label/nsubs` -/
partial def parseForest : Nat → List String → Option (List (Cat Str) × List String)
  | 0, rest => some ([], rest)
  | n + 1, t :: rest => do
      match t.splitOn "/" with
      | [lab, nk] =>
        let lab ← decStr lab; let nk ← nk.toNat?
        let (subs, rest') ← parseForest nk rest
        let (sibs, rest'') ← parseForest n rest'
        pure (Cat.mk lab subs :: sibs, rest'')
      | _ => none
  | _ + 1, [] => none

def decVals (t : String) : Option (List (Option Int)) :=
  if t == "!" then some [] else (t.splitOn ",").mapM fun x => if x == "n" then some none else some <$> x.toInt?

def refStr (col : Str) (top bottom : Nat) : String :=
  s!"Sheet1!${String.ofList col}${top}:${String.ofList col}${bottom}"

def decSer (s : String) : Option Replace.Ser :=
  match s.splitOn "." with
  | [u, i, o, f] => do
      let u ← u.toNat?; let i ← i.toNat?; let o ← o.toNat?; let f ← f.toNat?
      pure { uid := u, idx := i, order := o, fmt := f }
  | _ => none

def decPlot (pl : String) : Option Replace.Plot :=
  match pl.splitOn ":" with
  | [tag, sers] => do
      let tag ← tag.toNat?
      let sers ← (if sers == "" then some [] else (sers.splitOn ",").mapM decSer)
      pure { tag := tag, sers := sers }
  | _ => none

/-- plots `tag:uid.idx.order.fmt,...|tag:...`, `!` = no plot -/
def decChart (t : String) : Option Replace.Chart :=
  if t == "!" then some [] else (t.splitOn "|").mapM decPlot

def encChart (c : Replace.Chart) : String :=
  if c.isEmpty then "!" else
  "|".intercalate (c.map fun p => s!"{p.tag}:" ++ ",".intercalate (p.sers.map fun s => s!"{s.uid}.{s.idx}.{s.order}.{s.fmt}"))

def handle : List String → Option String
  | ["c07.repl", n, ch] => do
      let n ← n.toNat?; let c ← decChart ch
      match Replace.adjust c n with
      | none => pure "refused"
      | some c' => pure s!"{encChart c'} {encNatList ((Replace.allSers c').map (·.uid))}"
  | ["c07.vals", vs] => do
      let vs ← decVals vs
      let (n, pts) := ptCache vs
      let back := readValues (n, pts)
      let ok := if back == vs then "rt" else "RT-MISMATCH"
      pure s!"{n} {",".intercalate ("" :: pts.map fun p => s!"{p.idx}:{p.v}")} {ok}"
  | "c07.flat" :: depth :: ntop :: toks => do
      -- levels bottom-up as the writer emits them, then the flattened labels of every leaf
      let d ← depth.toNat?; let n ← ntop.toNat?
      let (cats, rest) ← parseForest n toks
      if !rest.isEmpty then none
      let lvls := (List.range d).reverse.map fun j => entries 0 j cats
      let lv := "|".intercalate (lvls.map fun es => ",".intercalate (es.map fun e => s!"{e.1}:{encStr e.2}"))
      let leaves := leafCountL cats
      let fl := "|".intercalate ((List.range leaves).map fun i =>
        ",".intercalate ((flattened d cats i).map fun o => match o with | some l => encStr l | none => "?"))
      pure s!"{uniformL d cats} {lv} {fl}"
  | ["c08.cat", depth, j, len] => do
      let depth ← depth.toNat?; let j ← j.toNat?; let len ← len.toNat?
      let (col, top, bottom) := valuesRef depth j len
      let (ncol, nrow) := seriesNameRef depth j
      pure s!"{refStr col top bottom} Sheet1!${String.ofList ncol}${nrow}"
  | ["c08.catref", depth, leaf] => do
      let depth ← depth.toNat?; let leaf ← leaf.toNat?
      let (c1, r1, c2, r2) := categoriesRef depth leaf
      pure s!"Sheet1!${String.ofList c1}${r1}:${String.ofList c2}${r2}"
  | ["c08.xy", lens, j] => do
      let lens ← decNatList lens; let j ← j.toNat?
      let (top, bottom) := xyRef lens j
      pure s!"{top} {bottom} {xyRowOffset lens j + 1}"
  | ["c08.serial", y, m, d, sys] => do
      let y ← y.toInt?; let m ← m.toInt?; let d ← d.toInt?
      let b := sys == "1"
      if !Pptx.Serial.validDate y m d then pure "invalid" else
      let n := Pptx.Serial.excelDateNumber b y m d
      let (y', m', d') := Pptx.Serial.dateOfSerial b n
      pure s!"{n} {String.ofList (Pptx.Serial.serialText n)} {y'}-{m'}-{d'}"
  | ["c08.col", n] => do let n ← n.toNat?; pure (String.ofList (colRef n))
  | _ => none
end Pptx.Drv.C07
