import PptxModel.Model.Proto
import PptxModel.Model.ChartData
namespace Pptx.Drv.C07
open Pptx Pptx.Proto Pptx.ChartData

def decVals (t : String) : Option (List (Option Int)) :=
  if t == "!" then some [] else (t.splitOn ",").mapM fun x => if x == "n" then some none else some <$> x.toInt?

def refStr (col : Str) (top bottom : Nat) : String :=
  s!"Sheet1!${String.ofList col}${top}:${String.ofList col}${bottom}"

def handle : List String → Option String
  | ["c07.vals", vs] => do
      let vs ← decVals vs
      let (n, pts) := ptCache vs
      let back := readValues (n, pts)
      let ok := if back == vs then "rt" else "RT-MISMATCH"
      pure s!"{n} {",".intercalate ("" :: pts.map fun p => s!"{p.idx}:{p.v}")} {ok}"
  | ["c08.cat", depth, j, len] => do
      let depth ← depth.toNat?; let j ← j.toNat?; let len ← len.toNat?
      let (col, top, bottom) := valuesRef depth j len
      let (ncol, nrow) := seriesNameRef depth j
      pure s!"{refStr col top bottom} Sheet1!${String.ofList ncol}${nrow}"
  | ["c08.catref", depth, leaf] => do
      let depth ← depth.toNat?; let leaf ← leaf.toNat?
      let (c1, r1, c2, r2) := categoriesRef depth leaf
      pure s!"Sheet1!${String.ofList c1}${r1}:${String.ofList c2}${r2}"
  | ["c08.xy", lens, j] => do
      let lens ← decNatList lens; let j ← j.toNat?
      let (top, bottom) := xyRef lens j
      pure s!"{top} {bottom} {xyRowOffset lens j + 1}"
  | ["c08.col", n] => do let n ← n.toNat?; pure (String.ofList (colRef n))
  | _ => none
end Pptx.Drv.C07
