/-
  C06 — "relationship ids are unique per source and are not reassigned while in use; an object looked up earlier still
  designates the same content after later additions"; C05 — "the corresponding reader returns the same string" for
  hyperlink addresses; C02 — "every relationship id used in a part's XML exists in that part's relationship item".

  Over `Model/Links` (one part, its relationships in insertion order, the `r:id` references of its link holders), for
  EVERY part state satisfying `Inv` (keys distinct, every reference names a relationship, one reference per holder)
  and EVERY history of link assignments on any holders, with any sharing of relationships between holders:

  * `setLink_inv`            the invariant is kept (rIds stay unique, no reference dangles)
  * `address_setLink_self`   the holder reads the target it was given (None: none)
  * `address_setLink_other`  every OTHER holder still reads what it read before - also when it shared the relationship that
                             was released, also when the freed rId is handed out again at once
  * `rels_kept`              a relationship that the holder did not use is still there, same key, same target
  * `run_address`            any history: each holder reads the last target assigned to it, else what it read at the start
  * `wrongOrder_breaks`      the two steps of clearing in the other order lose a relationship that is still referenced
-/
import PptxModel.Model.Links
import PptxModel.Props.C06
namespace Pptx.Links
open Pptx Pptx.Ids

structure Inv (p : Part) : Prop where
  keys : (p.rels.map (·.key)).Nodup
  closed : ∀ r ∈ p.refs, (tgtOf p.rels r.2).isSome
  holders : (p.refs.map (·.1)).Nodup

/-! ### lookups -/

theorem tgtOf_cons (r : Rel) (rs : List Rel) (k : Str) :
    tgtOf (r :: rs) k = if r.key = k then some r.tgt else tgtOf rs k := rfl

theorem keyOf_cons (a : Nat) (k : Str) (rs : List (Nat × Str)) (h : Nat) :
    keyOf ((a, k) :: rs) h = if a = h then some k else keyOf rs h := rfl

theorem matchOf_cons (r : Rel) (rs : List Rel) (t : Target) :
    matchOf (r :: rs) t = if r.tgt = t then some r.key else matchOf rs t := rfl

theorem tgtOf_isSome_iff (rs : List Rel) (k : Str) : (tgtOf rs k).isSome ↔ k ∈ rs.map (·.key) := by
  induction rs with
  | nil => simp [tgtOf]
  | cons r rs ih =>
    rw [tgtOf_cons]
    by_cases h : r.key = k
    · simp [h]
    · simp only [h, if_false, ih, List.map_cons, List.mem_cons]
      constructor
      · exact Or.inr
      · rintro (e | e)
        · exact absurd e.symm h
        · exact e

theorem tgtOf_filter_ne (rs : List Rel) (k k' : Str) (h : k' ≠ k) :
    tgtOf (rs.filter fun r => r.key ≠ k) k' = tgtOf rs k' := by
  induction rs with
  | nil => rfl
  | cons r rs ih =>
    by_cases hk : r.key = k
    · rw [List.filter_cons_of_neg (by simp [hk]), tgtOf_cons, if_neg (by rw [hk]; exact fun e => h e.symm)]
      exact ih
    · rw [List.filter_cons_of_pos (by simp [hk]), tgtOf_cons, tgtOf_cons]
      split
      · rfl
      · exact ih

theorem tgtOf_append (a b : List Rel) (k : Str) :
    tgtOf (a ++ b) k = (tgtOf a k).orElse fun _ => tgtOf b k := by
  induction a with
  | nil => simp [tgtOf]
  | cons r rs ih =>
    rw [List.cons_append, tgtOf_cons, tgtOf_cons]
    split
    · simp
    · exact ih

theorem keyOf_filter_ne (refs : List (Nat × Str)) (h h' : Nat) (hne : h' ≠ h) :
    keyOf (refs.filter fun r => r.1 ≠ h) h' = keyOf refs h' := by
  induction refs with
  | nil => rfl
  | cons r rs ih =>
    obtain ⟨a, k⟩ := r
    by_cases ha : a = h
    · rw [List.filter_cons_of_neg (by simp [ha]), keyOf_cons, if_neg (by rw [ha]; exact fun e => hne e.symm)]
      exact ih
    · rw [List.filter_cons_of_pos (by simp [ha]), keyOf_cons, keyOf_cons]
      split
      · rfl
      · exact ih

theorem keyOf_filter_self (refs : List (Nat × Str)) (h : Nat) :
    keyOf (refs.filter fun r => r.1 ≠ h) h = none := by
  induction refs with
  | nil => rfl
  | cons r rs ih =>
    obtain ⟨a, k⟩ := r
    by_cases ha : a = h
    · rw [List.filter_cons_of_neg (by simp [ha])]; exact ih
    · rw [List.filter_cons_of_pos (by simp [ha]), keyOf_cons, if_neg ha]; exact ih

theorem keyOf_append (a b : List (Nat × Str)) (h : Nat) :
    keyOf (a ++ b) h = (keyOf a h).orElse fun _ => keyOf b h := by
  induction a with
  | nil => simp [keyOf]
  | cons r rs ih =>
    obtain ⟨x, k⟩ := r
    rw [List.cons_append, keyOf_cons, keyOf_cons]
    split
    · simp
    · exact ih

theorem keyOf_mem {refs : List (Nat × Str)} {h : Nat} {k : Str} (e : keyOf refs h = some k) : (h, k) ∈ refs := by
  induction refs with
  | nil => simp [keyOf] at e
  | cons r rs ih =>
    obtain ⟨a, k'⟩ := r
    rw [keyOf_cons] at e
    split at e
    · rename_i ha; simp only [Option.some.injEq] at e; subst ha; subst e; simp
    · exact List.mem_cons_of_mem _ (ih e)

/-- one reference per holder: the reference found for a holder is the one it has -/
theorem keyOf_of_mem (refs : List (Nat × Str)) (hn : (refs.map (·.1)).Nodup) (a : Nat) (b : Str)
    (hm : (a, b) ∈ refs) : keyOf refs a = some b := by
  induction refs with
  | nil => simp at hm
  | cons x xs ih =>
    obtain ⟨a', b'⟩ := x
    rw [List.map_cons, List.nodup_cons] at hn
    rw [keyOf_cons]
    rcases List.mem_cons.1 hm with e1 | e1
    · simp only [Prod.mk.injEq] at e1; rw [← e1.1, ← e1.2]; simp
    · have hax : a' ≠ a := by
        intro e2; apply hn.1; rw [e2]; exact List.mem_map.2 ⟨(a, b), e1, rfl⟩
      rw [if_neg hax]; exact ih hn.2 e1

theorem keyOf_none_not_mem (refs : List (Nat × Str)) (h : Nat) (e : keyOf refs h = none) :
    ∀ r ∈ refs, r.1 ≠ h := by
  induction refs with
  | nil => simp
  | cons x xs ih =>
    obtain ⟨a, b⟩ := x
    rw [keyOf_cons] at e
    split at e
    · simp at e
    · rename_i hax
      intro r hr
      rcases List.mem_cons.1 hr with e8 | e8
      · rw [e8]; exact hax
      · exact ih e r e8

/-- the first relationship with a target carries a key under which exactly that target is found (keys are distinct) -/
theorem tgtOf_matchOf (rs : List Rel) (t : Target) (k : Str) (hn : (rs.map (·.key)).Nodup)
    (e : matchOf rs t = some k) : tgtOf rs k = some t := by
  induction rs with
  | nil => simp [matchOf] at e
  | cons r rs ih =>
    rw [List.map_cons, List.nodup_cons] at hn
    rw [matchOf_cons] at e
    rw [tgtOf_cons]
    split at e
    · rename_i ht
      simp only [Option.some.injEq] at e
      rw [if_pos e, ht]
    · have := ih hn.2 e
      split
      · rename_i hk
        exfalso; apply hn.1
        rw [hk]; exact (tgtOf_isSome_iff rs k).1 (by rw [this]; rfl)
      · exact this

/-! ### one assignment -/

theorem count_pos_of_keyOf {p : Part} {h : Nat} {k : Str} (e : keyOf p.refs h = some k) : 1 ≤ count p k := by
  unfold count
  have hm := keyOf_mem e
  have : (h, k) ∈ p.refs.filter fun r => r.2 = k := List.mem_filter.2 ⟨hm, by simp⟩
  exact List.length_pos_of_mem this

/-- two different holders naming one rId make its reference count at least two -/
theorem count_two {p : Part} {h h' : Nat} {k : Str} (hne : h' ≠ h)
    (e : keyOf p.refs h = some k) (e' : keyOf p.refs h' = some k) : 2 ≤ count p k := by
  unfold count
  have m1 := keyOf_mem e
  have m2 := keyOf_mem e'
  generalize p.refs = refs at m1 m2
  induction refs with
  | nil => simp at m1
  | cons r rs ih =>
    by_cases hr : r.2 = k
    · rw [List.filter_cons_of_pos (by simp [hr])]
      rcases List.mem_cons.1 m1 with e1 | e1
      · rcases List.mem_cons.1 m2 with e2 | e2
        · rw [← e1] at e2; exact absurd (congrArg Prod.fst e2) hne
        · have : (h', k) ∈ rs.filter fun r => r.2 = k := List.mem_filter.2 ⟨e2, by simp⟩
          have := List.length_pos_of_mem this
          simp only [List.length_cons]; omega
      · have : (h, k) ∈ rs.filter fun r => r.2 = k := List.mem_filter.2 ⟨e1, by simp⟩
        have := List.length_pos_of_mem this
        simp only [List.length_cons]; omega
    · rw [List.filter_cons_of_neg (by simp [hr])]
      apply ih
      · rcases List.mem_cons.1 m1 with e1 | e1
        · exact absurd (by rw [← e1]) hr
        · exact e1
      · rcases List.mem_cons.1 m2 with e2 | e2
        · exact absurd (by rw [← e2]) hr
        · exact e2

theorem dropRel_refs (p : Part) (k : Str) : (dropRel p k).refs = p.refs := by
  unfold dropRel; split <;> rfl

theorem nodup_filter_keys (rs : List Rel) (q : Rel → Bool) (hn : (rs.map (·.key)).Nodup) :
    ((rs.filter q).map (·.key)).Nodup :=
  (List.filter_sublist.map _).nodup hn

/-- clearing a holder's link: other holders' readings are untouched -/
theorem clearLink_spec (p : Part) (h : Nat) (hi : Inv p) :
    Inv (clearLink p h) ∧ keyOf (clearLink p h).refs h = none ∧
    (∀ h', h' ≠ h → keyOf (clearLink p h).refs h' = keyOf p.refs h' ∧ address (clearLink p h) h' = address p h') ∧
    (∀ r ∈ p.rels, keyOf p.refs h ≠ some r.key → r ∈ (clearLink p h).rels) := by
  cases e : keyOf p.refs h with
  | none =>
    have hc : clearLink p h = p := by unfold clearLink; rw [e]
    rw [hc]
    exact ⟨hi, e, fun _ _ => ⟨rfl, rfl⟩, fun r hr _ => hr⟩
  | some k =>
    have hc : clearLink p h = { rels := (dropRel p k).rels, refs := p.refs.filter fun r => r.1 ≠ h } := by
      unfold clearLink; rw [e]
    rw [hc]
    -- the readings of the other holders
    have hother : ∀ h', h' ≠ h → ∀ k', keyOf p.refs h' = some k' → tgtOf (dropRel p k).rels k' = tgtOf p.rels k' := by
      intro h' hne k' e'
      unfold dropRel
      split
      · rename_i hc
        by_cases hk : k' = k
        · subst hk; have := count_two hne e e'; omega
        · exact tgtOf_filter_ne p.rels k k' hk
      · rfl
    refine ⟨⟨?_, ?_, ?_⟩, ?_, ?_, ?_⟩
    · show ((dropRel p k).rels.map (·.key)).Nodup
      unfold dropRel; split
      · exact nodup_filter_keys _ _ hi.keys
      · exact hi.keys
    · intro r hr
      obtain ⟨hr1, hr2⟩ := List.mem_filter.1 hr
      have hne : r.1 ≠ h := by simpa using hr2
      have hk : keyOf p.refs r.1 = some r.2 := keyOf_of_mem p.refs hi.holders r.1 r.2 hr1
      show (tgtOf (dropRel p k).rels r.2).isSome
      rw [hother r.1 hne r.2 hk]; exact hi.closed r hr1
    · show ((p.refs.filter fun r => r.1 ≠ h).map (·.1)).Nodup
      exact (List.filter_sublist.map _).nodup hi.holders
    · exact keyOf_filter_self _ h
    · intro h' hne
      have e1 : keyOf (p.refs.filter fun r => r.1 ≠ h) h' = keyOf p.refs h' := keyOf_filter_ne _ h h' hne
      refine ⟨e1, ?_⟩
      unfold address
      show (keyOf (p.refs.filter fun r => r.1 ≠ h) h').bind (tgtOf (dropRel p k).rels) = _
      rw [e1]
      cases e' : keyOf p.refs h' with
      | none => rfl
      | some k' => simp only [Option.bind_some]; exact hother h' hne k' e'
    · intro r hr hk
      show r ∈ (dropRel p k).rels
      unfold dropRel; split
      · exact List.mem_filter.2 ⟨hr, by simpa using fun e2 => hk (by rw [e2])⟩
      · exact hr

/-- `relate_to`: an rId under which the target is found; nothing that was found before is found differently -/
theorem relateTo_spec (p : Part) (t : Target) (hn : (p.rels.map (·.key)).Nodup) :
    ∃ k, (relateTo p t).2 = some k ∧ tgtOf (relateTo p t).1.rels k = some t ∧
      ((relateTo p t).1.rels.map (·.key)).Nodup ∧ (relateTo p t).1.refs = p.refs ∧
      (∀ k', (tgtOf p.rels k').isSome → tgtOf (relateTo p t).1.rels k' = tgtOf p.rels k') ∧
      (∀ r ∈ p.rels, r ∈ (relateTo p t).1.rels) := by
  unfold relateTo
  cases e : matchOf p.rels t with
  | some k =>
    exact ⟨k, rfl, tgtOf_matchOf _ _ _ hn e, hn, rfl, fun _ _ => rfl, fun _ h => h⟩
  | none =>
    obtain ⟨n, e1, e2, _⟩ := C06.nextRId_fresh (p.rels.map (·.key))
    simp only [e1]
    have hnone : tgtOf p.rels (rIdStr n) = none := by
      cases h : tgtOf p.rels (rIdStr n) with
      | none => rfl
      | some _ => exact absurd ((tgtOf_isSome_iff p.rels (rIdStr n)).1 (by rw [h]; rfl)) e2
    refine ⟨rIdStr n, ?_, ?_, ?_, ?_, ?_, ?_⟩
    · first | rfl | trivial
    · rw [tgtOf_append, hnone]; simp [tgtOf]
    · rw [List.map_append, List.nodup_append]
      refine ⟨hn, by simp, ?_⟩
      intro a ha b hb
      simp only [List.map_cons, List.map_nil, List.mem_singleton] at hb
      subst hb; intro e3; subst e3; exact e2 ha
    · first | rfl | trivial
    · intro k' hs
      rw [tgtOf_append]
      cases h : tgtOf p.rels k' with
      | none => rw [h] at hs; simp at hs
      | some v => simp
    · intro r hr; exact List.mem_append_left _ hr

theorem setLink_spec (p : Part) (h : Nat) (t : Option Target) (hi : Inv p) :
    Inv (setLink p h t) ∧ address (setLink p h t) h = t ∧
    (∀ h', h' ≠ h → address (setLink p h t) h' = address p h') ∧
    (∀ r ∈ p.rels, keyOf p.refs h ≠ some r.key → r ∈ (setLink p h t).rels) := by
  obtain ⟨ci, cself, cother, ckept⟩ := clearLink_spec p h hi
  unfold setLink
  simp only []
  cases t with
  | none =>
    refine ⟨ci, ?_, fun h' hne => (cother h' hne).2, ckept⟩
    unfold address; rw [cself]; rfl
  | some tg =>
    obtain ⟨k, e1, e2, e3, e4, e5, e6⟩ := relateTo_spec (clearLink p h) tg ci.keys
    have hsplit : relateTo (clearLink p h) tg = ((relateTo (clearLink p h) tg).1, some k) := by
      rw [← e1]
    simp only []
    rw [hsplit]
    simp only []
    refine ⟨⟨e3, ?_, ?_⟩, ?_, ?_, ?_⟩
    · intro r hr
      rcases List.mem_append.1 hr with hr | hr
      · rw [e4] at hr
        rw [e5 r.2 (ci.closed r hr)]; exact ci.closed r hr
      · simp only [List.mem_singleton] at hr; subst hr; simp [e2]
    · rw [List.map_append, List.nodup_append, e4]
      refine ⟨ci.holders, by simp, ?_⟩
      intro a ha b hb
      simp only [List.map_cons, List.map_nil, List.mem_singleton] at hb
      intro e7
      obtain ⟨r, hr, hr'⟩ := List.mem_map.1 ha
      exact keyOf_none_not_mem _ h cself r hr (hr'.trans (e7.trans hb))
    · unfold address
      simp only [keyOf_append, e4, cself, Option.orElse_none, keyOf, if_true, Option.bind_some]
      exact e2
    · intro h' hne
      unfold address
      simp only [keyOf_append, e4]
      have hk := (cother h' hne).1
      have ha := (cother h' hne).2
      unfold address at ha
      cases e' : keyOf (clearLink p h).refs h' with
      | none =>
        simp only [Option.orElse_none, keyOf, if_neg (Ne.symm hne)]
        rw [e'] at hk ha; rw [← hk]; rfl
      | some k' =>
        simp only [Option.orElse_some, Option.bind_some]
        rw [e'] at ha hk
        simp only [Option.bind_some] at ha
        have hs : (tgtOf (clearLink p h).rels k').isSome := ci.closed (h', k') (keyOf_mem e')
        rw [e5 k' hs, ha]
    · intro r hr hk
      exact e6 r (ckept r hr hk)

theorem setLink_inv (p : Part) (h : Nat) (t : Option Target) (hi : Inv p) : Inv (setLink p h t) :=
  (setLink_spec p h t hi).1

/-- the holder reads the target it was given -/
theorem address_setLink_self (p : Part) (h : Nat) (t : Option Target) (hi : Inv p) :
    address (setLink p h t) h = t := (setLink_spec p h t hi).2.1

/-- every other holder still reads what it read before -/
theorem address_setLink_other (p : Part) (h h' : Nat) (t : Option Target) (hi : Inv p) (hne : h' ≠ h) :
    address (setLink p h t) h' = address p h' := (setLink_spec p h t hi).2.2.1 h' hne

/-- a relationship the holder did not use (a picture's, the layout's, another link's) is still there, same key and target -/
theorem rels_kept (p : Part) (h : Nat) (t : Option Target) (hi : Inv p) (r : Rel) (hr : r ∈ p.rels)
    (hk : keyOf p.refs h ≠ some r.key) : r ∈ (setLink p h t).rels := (setLink_spec p h t hi).2.2.2 r hr hk

/-! ### histories -/

theorem run_inv (p : Part) (ops : List (Nat × Option Target)) (hi : Inv p) : Inv (run p ops) := by
  induction ops generalizing p with
  | nil => exact hi
  | cons o ops ih => exact ih _ (setLink_inv p o.1 o.2 hi)

/-- any history of link assignments, on any holders, with any sharing: each holder reads the last target assigned to
    it, and what it read at the start when nothing was assigned to it -/
theorem run_address (p : Part) (ops : List (Nat × Option Target)) (h : Nat) (hi : Inv p) :
    address (run p ops) h = (lastSet ops h).getD (address p h) := by
  induction ops generalizing p with
  | nil => simp [run, lastSet]
  | cons o ops ih =>
    obtain ⟨a, t⟩ := o
    have e := ih (setLink p a t) (setLink_inv p a t hi)
    show address (run (setLink p a t) ops) h = _
    rw [e]
    unfold lastSet
    simp only [List.reverse_cons, List.find?_append]
    cases hf : (ops.reverse.find? fun o => o.1 = h) with
    | some v => simp
    | none =>
      simp only [Option.none_or, Option.map_none, Option.getD_none, List.find?_cons, List.find?_nil]
      by_cases hah : a = h
      · subst hah; simp [address_setLink_self p a t hi]
      · simp [hah, address_setLink_other p a h t hi (Ne.symm hah)]

/-! ### the other order of the two steps loses a relationship that is in use -/

def demo : Part :=
  { rels := [⟨rIdStr 1, ⟨0, false, 7⟩⟩, ⟨rIdStr 2, ⟨1, true, 42⟩⟩],
    refs := [(10, rIdStr 2), (11, rIdStr 2)] }

example : Inv demo := ⟨by decide, by decide, by decide⟩

/-- two runs share one hyperlink relationship; one is cleared: the other still reads its address … -/
example : address (setLink demo 10 none) 11 = some ⟨1, true, 42⟩ := by decide
/-- … and is re-pointed: the freed-or-not question does not arise, the relationship is still in use -/
example : address (setLink demo 10 (some ⟨1, true, 43⟩)) 11 = some ⟨1, true, 42⟩ := by decide

theorem wrongOrder_breaks : address (clearLinkWrongOrder demo 10) 11 = none ∧ keyOf (clearLinkWrongOrder demo 10).refs 11 = some (rIdStr 2) := by
  decide

end Pptx.Links
