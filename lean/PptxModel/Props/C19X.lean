/-
  C19 — "the … extension, numeric index … of a part name are those OPC defines".

  For EVERY part name of the shape  A / stem . e  (any directory part `A`, `e` without dot or slash, `stem` without slash
  and not made of dots only):

  * `ext_spec`        the extension is `e` (no leading period)
  * `idx_spec`        when `stem` is letters followed by the decimal digits of `n` (and nothing else), the index is `n` -
                      for every `n`, also with leading-zero-free multi-digit numbers (`slide10`, `image123456`)
  * `idx_none_spec`   letters only: no index
  * `ext_none_spec`   a last segment without a dot has the empty extension, also when a DIRECTORY name holds a dot
-/
import PptxModel.Model.PackUri
import PptxModel.Lemmas.PackUri
import Std.Data.String.ToNat
namespace Pptx.C19X
open Pptx Pptx.PackUri

theorem takeWhile_noC (c : Char) (f rest : Str) (h : c ∉ f) : (f ++ c :: rest).takeWhile (· != c) = f := by
  induction f with
  | nil => simp
  | cons x xs ih =>
    have hx : x ≠ c := by intro e; apply h; simp [e]
    have hxs : c ∉ xs := by intro e; apply h; simp [e]
    simp [List.takeWhile_cons, hx, ih hxs]

theorem dropWhile_noC (c : Char) (f rest : Str) (h : c ∉ f) : (f ++ c :: rest).dropWhile (· != c) = c :: rest := by
  induction f with
  | nil => simp
  | cons x xs ih =>
    have hx : x ≠ c := by intro e; apply h; simp [e]
    have hxs : c ∉ xs := by intro e; apply h; simp [e]
    simp [List.dropWhile_cons, hx, ih hxs]

theorem takeWhile_all (c : Char) (f : Str) (h : c ∉ f) : f.takeWhile (· != c) = f := by
  induction f with
  | nil => rfl
  | cons x xs ih =>
    have hx : x ≠ c := by intro e; apply h; simp [e]
    have hxs : c ∉ xs := by intro e; apply h; simp [e]
    simp [List.takeWhile_cons, hx, ih hxs]

theorem dropWhile_all (c : Char) (f : Str) (h : c ∉ f) : f.dropWhile (· != c) = [] := by
  induction f with
  | nil => rfl
  | cons x xs ih =>
    have hx : x ≠ c := by intro e; apply h; simp [e]
    have hxs : c ∉ xs := by intro e; apply h; simp [e]
    simp [List.dropWhile_cons, hx, ih hxs]

/-- the reversed last segment `e.reverse ++ '.' :: stem.reverse` taken apart at its FIRST dot (the last dot of the name) -/
theorem splitext_core (D stem e : Str) (hd : '.' ∉ e) (hnd : ∃ c ∈ stem, c ≠ '.') (p : Str) :
    (if (!(e.reverse ++ '.' :: stem.reverse).any fun x => x == '.') = true then (p, [])
     else
      if ((List.drop 1 (List.dropWhile (fun x => x != '.') (e.reverse ++ '.' :: stem.reverse))).reverse.all
            fun x => x == '.') = true then (p, [])
      else (D ++ (List.drop 1 (List.dropWhile (fun x => x != '.') (e.reverse ++ '.' :: stem.reverse))).reverse,
            '.' :: (List.takeWhile (fun x => x != '.') (e.reverse ++ '.' :: stem.reverse)).reverse)) =
    (D ++ stem, '.' :: e) := by
  have hde : '.' ∉ e.reverse := by simpa using hd
  obtain ⟨c, hc, hcd⟩ := hnd
  have hall : (stem.all (· == '.')) = false := by
    cases h : stem.all (· == '.') with
    | false => rfl
    | true => exact absurd (by simpa using (List.all_eq_true.1 h) c hc) hcd
  have hany : ((e.reverse ++ '.' :: stem.reverse).any fun x => x == '.') = true := by simp
  rw [hany, takeWhile_noC '.' _ _ hde, dropWhile_noC '.' _ _ hde]
  simp only [Bool.not_true, Bool.false_eq_true, if_false, List.drop_succ_cons, List.drop_zero, List.reverse_reverse, hall]

/-- `posixpath.splitext` of `A/stem.e` -/
theorem splitext_dir (A stem e : Str) (hs : '/' ∉ stem) (he : '/' ∉ e) (hd : '.' ∉ e)
    (hnd : ∃ c ∈ stem, c ≠ '.') :
    splitext (A ++ '/' :: (stem ++ '.' :: e)) = (A ++ '/' :: stem, '.' :: e) := by
  have hr : (A ++ '/' :: (stem ++ '.' :: e)).reverse = (e.reverse ++ '.' :: stem.reverse) ++ '/' :: A.reverse := by simp
  have hf : '/' ∉ (e.reverse ++ '.' :: stem.reverse) := by
    simp only [List.mem_append, List.mem_reverse, List.mem_cons]
    rintro (h | h | h)
    · exact he h
    · exact absurd h (by decide)
    · exact hs h
  unfold splitext
  rw [hr]
  simp only []
  rw [takeWhile_noC '/' _ _ hf, dropWhile_noC '/' _ _ hf]
  simp only [List.reverse_reverse]
  have hD : ('/' :: A.reverse).reverse = A ++ ['/'] := by simp
  rw [hD, splitext_core (A ++ ['/']) stem e hd hnd]
  simp

/-- `posixpath.splitext` of a bare file name `stem.e` -/
theorem splitext_bare (stem e : Str) (hs : '/' ∉ stem) (he : '/' ∉ e) (hd : '.' ∉ e) (hnd : ∃ c ∈ stem, c ≠ '.') :
    splitext (stem ++ '.' :: e) = (stem, '.' :: e) := by
  have hr2 : (stem ++ '.' :: e).reverse = e.reverse ++ '.' :: stem.reverse := by simp
  have hf : '/' ∉ (e.reverse ++ '.' :: stem.reverse) := by
    simp only [List.mem_append, List.mem_reverse, List.mem_cons]
    rintro (h | h | h)
    · exact he h
    · exact absurd h (by decide)
    · exact hs h
  unfold splitext
  rw [hr2]
  simp only []
  rw [takeWhile_all '/' _ hf, dropWhile_all '/' _ hf]
  simp only [List.reverse_reverse]
  have := splitext_core [] stem e hd hnd (stem ++ '.' :: e)
  simpa using this

/-- **extension** of `A/stem.e` is `e` -/
theorem ext_spec (A stem e : Str) (hs : '/' ∉ stem) (he : '/' ∉ e) (hd : '.' ∉ e) (hnd : ∃ c ∈ stem, c ≠ '.') :
    ext (A ++ '/' :: (stem ++ '.' :: e)) = e := by
  simp [ext, splitext_dir A stem e hs he hd hnd]

/-- a last segment without a dot has no extension, whatever dots the directory names hold -/
theorem ext_none_spec (A f : Str) (hs : '/' ∉ f) (hd : '.' ∉ f) : ext (A ++ '/' :: f) = [] := by
  have hr : (A ++ '/' :: f).reverse = f.reverse ++ '/' :: A.reverse := by simp
  have hf : '/' ∉ f.reverse := by simpa using hs
  have hany : (f.reverse.any (· == '.')) = false := by
    cases h : f.reverse.any (· == '.') with
    | false => rfl
    | true =>
      obtain ⟨c, hc, hcd⟩ := List.any_eq_true.1 h
      have : c = '.' := by simpa using hcd
      subst this; exact absurd (by simpa using hc) hd
  unfold ext splitext
  rw [hr]
  simp only []
  rw [takeWhile_noC '/' _ _ hf]
  simp only [List.reverse_reverse]
  rw [hany]
  rfl

theorem isDigit_natStr (n : Nat) : ∀ c ∈ natStr n, isAsciiDigit c = true := by
  intro c hc
  unfold natStr at hc
  rw [Nat.toList_repr] at hc
  have := Nat.isDigit_of_mem_toDigits (b := 10) (by omega) (by omega) hc
  unfold isAsciiDigit
  simp only [Char.isDigit, Bool.and_eq_true, decide_eq_true_eq] at this
  simp only [Bool.and_eq_true, decide_eq_true_eq]
  exact ⟨by simpa [Char.le_def] using this.1, by simpa [Char.le_def] using this.2⟩

theorem natStr_ne_nil (n : Nat) : natStr n ≠ [] := by
  unfold natStr; rw [Nat.toList_repr]
  intro h
  have := Nat.toDigits_ne_nil (b := 10) (n := n)
  exact this h

/-- Python's `int()` of the decimal digits of `n` is `n` -/
theorem digitsVal_natStr (n : Nat) : digitsVal (natStr n) = n := by
  unfold digitsVal natStr
  rw [Nat.toList_repr]
  have := Nat.ofDigitChars_ten_toDigits (n := n)
  rw [Nat.ofDigitChars_eq_foldl] at this
  have e : (fun (acc : Nat) (d : Char) => acc * 10 + (d.toNat - '0'.toNat)) = fun sofar c => 10 * sofar + (c.toNat - '0'.toNat) := by
    funext a c; rw [Nat.mul_comm]
  rw [e]; exact this

theorem alpha_not_digit (c : Char) (h : isAsciiDigit c = true) : isAsciiAlpha c = false := by
  unfold isAsciiDigit at h
  unfold isAsciiAlpha
  simp only [Bool.and_eq_true, decide_eq_true_eq, Char.le_def] at h
  simp only [Bool.or_eq_false_iff, Bool.and_eq_false_iff, decide_eq_false_iff_not, Char.le_def]
  have h1 : ('0' : Char).val.toNat = 48 := by decide
  have h2 : ('9' : Char).val.toNat = 57 := by decide
  have h3 : ('a' : Char).val.toNat = 97 := by decide
  have h4 : ('A' : Char).val.toNat = 65 := by decide
  have h5 : ('Z' : Char).val.toNat = 90 := by decide
  have a := h.1; have b := h.2
  rw [UInt32.le_iff_toNat_le] at a b
  constructor
  · left; rw [UInt32.le_iff_toNat_le]; omega
  · left; rw [UInt32.le_iff_toNat_le]; omega

theorem takeWhile_append_stop {p : Char → Bool} (a b : Str) (ha : ∀ c ∈ a, p c = true) (hb : b.head?.all (fun c => !p c) = true) :
    (a ++ b).takeWhile p = a ∧ (a ++ b).dropWhile p = b := by
  induction a with
  | nil =>
    cases b with
    | nil => simp
    | cons x xs =>
      have : p x = false := by simpa using hb
      simp [List.takeWhile_cons, List.dropWhile_cons, this]
  | cons x xs ih =>
    have hx := ha x (by simp)
    have := ih (fun c hc => ha c (by simp [hc]))
    simp [List.takeWhile_cons, List.dropWhile_cons, hx, this.1, this.2]

/-- **numeric index** of `A/<letters><digits of n>.e` is `n`, for every `n` -/
theorem idx_spec (A letters e : Str) (n : Nat) (hl0 : letters ≠ []) (hl : ∀ c ∈ letters, isAsciiAlpha c = true)
    (he : '/' ∉ e) (hd : '.' ∉ e) :
    idx (A ++ '/' :: (letters ++ natStr n ++ '.' :: e)) = some n := by
  have hdig := isDigit_natStr n
  have hsl : '/' ∉ letters ++ natStr n := by
    intro h
    rcases List.mem_append.1 h with h | h
    · have := hl _ h; revert this; decide
    · have := hdig _ h; revert this; decide
  have hdot : ∃ c ∈ letters ++ natStr n, c ≠ '.' := by
    cases letters with
    | nil => exact absurd rfl hl0
    | cons x xs =>
      refine ⟨x, by simp, ?_⟩
      intro e1; have := hl x (by simp); rw [e1] at this; revert this; decide
  have hfn : '/' ∉ (letters ++ natStr n ++ '.' :: e) := by
    intro h
    rcases List.mem_append.1 h with h | h
    · exact hsl h
    · rcases List.mem_cons.1 h with h | h
      · revert h; decide
      · exact he h
  have hfile : filename (A ++ '/' :: (letters ++ natStr n ++ '.' :: e)) = letters ++ natStr n ++ '.' :: e := by
    unfold filename; rw [split_raw A _ hfn]
  have hne : letters ++ natStr n ++ '.' :: e ≠ [] := by simp
  have hse := splitext_bare (letters ++ natStr n) e hsl he hd hdot
  have htw := takeWhile_append_stop (p := isAsciiAlpha) letters (natStr n) hl (by
    cases h : natStr n with
    | nil => exact absurd h (natStr_ne_nil n)
    | cons x xs =>
      have := alpha_not_digit x (hdig x (by rw [h]; simp))
      simp [this])
  have htd : (natStr n).takeWhile isAsciiDigit = natStr n := by
    have := takeWhile_append_stop (p := isAsciiDigit) (natStr n) [] hdig (by simp)
    simpa using this.1
  unfold idx
  simp only [hfile, hne, if_false, hse, htw.1, htw.2, hl0, htd, natStr_ne_nil n, digitsVal_natStr]

/-- letters only: no index (`/ppt/presentation.xml`) -/
theorem idx_none_spec (A letters e : Str) (hl0 : letters ≠ []) (hl : ∀ c ∈ letters, isAsciiAlpha c = true)
    (he : '/' ∉ e) (hd : '.' ∉ e) :
    idx (A ++ '/' :: (letters ++ '.' :: e)) = none := by
  have hsl : '/' ∉ letters := by intro h; have := hl _ h; revert this; decide
  have hdot : ∃ c ∈ letters, c ≠ '.' := by
    cases letters with
    | nil => exact absurd rfl hl0
    | cons x xs =>
      refine ⟨x, by simp, ?_⟩
      intro e1; have := hl x (by simp); rw [e1] at this; revert this; decide
  have hfn : '/' ∉ (letters ++ '.' :: e) := by
    intro h
    rcases List.mem_append.1 h with h | h
    · exact hsl h
    · rcases List.mem_cons.1 h with h | h
      · revert h; decide
      · exact he h
  have hfile : filename (A ++ '/' :: (letters ++ '.' :: e)) = letters ++ '.' :: e := by
    unfold filename; rw [split_raw A _ hfn]
  have hne : letters ++ '.' :: e ≠ [] := by simp
  have hse := splitext_bare letters e hsl he hd hdot
  have htw := takeWhile_append_stop (p := isAsciiAlpha) letters [] hl (by simp)
  simp only [List.append_nil] at htw
  unfold idx
  simp only [hfile, hne, if_false, hse, htw.1, htw.2, hl0, List.takeWhile_nil, if_true]

example : idx "/ppt/slides/slide10.xml".toList = some 10 ∧ ext "/ppt/slides/slide10.xml".toList = "xml".toList
    ∧ idx "/ppt/presentation.xml".toList = none ∧ ext "/ppt/v1.2/readme".toList = [] := by decide

end Pptx.C19X
