/-
  C05 — caller-supplied strings are stored as data, never interpreted as markup.
  Model: `Model/Escape.lean`.
-/
import PptxModel.Model.Escape
namespace Pptx.C05
open Pptx Pptx.Escape

theorem lexRun_append (ctx : Ctx) (st : LexSt) (a b : Str) :
    lexRun ctx st (a ++ b) =
      match lexRun ctx st a with
      | none => none
      | some (st', o) => match lexRun ctx st' b with
        | none => none
        | some (st'', o') => some (st'', o ++ o') := by
  induction a generalizing st with
  | nil =>
    simp only [List.nil_append, lexRun]
    cases lexRun ctx st b with
    | none => rfl
    | some r => obtain ⟨s, o⟩ := r; simp
  | cons c rest ih =>
    simp only [List.cons_append, lexRun]
    cases h1 : lexStep ctx st c with
    | none => rfl
    | some r =>
      obtain ⟨st1, o1⟩ := r
      simp only [ih st1]
      cases h2 : lexRun ctx st1 rest with
      | none => rfl
      | some r2 =>
        obtain ⟨st2, o2⟩ := r2
        simp only
        cases h3 : lexRun ctx st2 b with
        | none => rfl
        | some r3 => obtain ⟨st3, o3⟩ := r3; simp [List.append_assoc]

/-- outside the special characters the lexer is the identity and resets the bracket count -/
theorem lexStep_plain (ctx : Ctx) (k : Nat) (c : Char) (h : specials.contains c = false) :
    lexStep ctx (.normal k) c = some (.normal 0, [c]) := by
  have hne : ∀ d ∈ specials, c ≠ d := by
    intro d hd e; subst e
    have : specials.contains c = true := by simpa using hd
    rw [this] at h; cases h
  have h1 := hne '&' (by decide); have h2 := hne '<' (by decide); have h3 := hne '>' (by decide)
  have h4 := hne '"' (by decide); have h6 := hne '\t' (by decide); have h7 := hne '\n' (by decide)
  have h8 := hne '\r' (by decide); have h9 := hne ']' (by decide)
  simp [lexStep, h1, h2, h3, h4, h6, h7, h8, h9]

/-- one rendered character is read back as itself, from any bracket state -/
theorem sigma_char (ctx : Ctx) (tbl : List (Char × Str)) (hs : safeTbl ctx tbl = true) (k : Nat)
    (hk : k ≤ 2) (c : Char) :
    lexRun ctx (.normal k) (sigma tbl c) = some (.normal (nextK c k), [c]) := by
  simp only [safeTbl, Bool.and_eq_true] at hs
  obtain ⟨hkeys, hall⟩ := hs
  by_cases hc : specials.contains c = true
  · have h1 := List.all_eq_true.mp hall c (by simpa using hc)
    have hk' : k ∈ [0, 1, 2] := by
      simp; omega
    have := List.all_eq_true.mp h1 k hk'
    simpa using this
  · have hc' : specials.contains c = false := by simpa using hc
    -- not a special character: not a key of the table, rendered as itself
    have hnot : tbl.lookup c = none := by
      apply List.lookup_eq_none_iff.mpr
      intro p hp
      have := List.all_eq_true.mp hkeys p.1 (List.mem_map.mpr ⟨p, hp, rfl⟩)
      simp only [bne_iff_ne, ne_eq]
      intro e
      rw [← e, hc'] at this; cases this
    have hne : c ≠ ']' := by
      intro e; subst e; revert hc'; decide
    simp [sigma, hnot, lexRun, lexStep_plain ctx k c hc', nextK, hne]

theorem nextK_le (c : Char) (k : Nat) : nextK c k ≤ 2 := by
  simp only [nextK]; split <;> omega

/-- **Safe sinks store every string as data.**  If a sink's per-character escaping table is safe
    for its context then for EVERY caller string `s` the parser, reading the rendered string at
    the place the template put it, delivers exactly `s` and ends outside any reference without
    ever meeting a character that would end the attribute, open a tag or form `]]>`: element
    structure is unchanged and no parse error arises. -/
theorem safe_render (ctx : Ctx) (tbl : List (Char × Str)) (hs : safeTbl ctx tbl = true)
    (s : Str) (k : Nat) (hk : k ≤ 2) :
    ∃ k', lexRun ctx (.normal k) (s.flatMap (sigma tbl)) = some (.normal k', s) := by
  induction s generalizing k with
  | nil => exact ⟨k, rfl⟩
  | cons c rest ih =>
    obtain ⟨k', h'⟩ := ih (nextK c k) (nextK_le c k)
    refine ⟨k', ?_⟩
    simp only [List.flatMap_cons, lexRun_append, sigma_char ctx tbl hs k hk c, h']
    simp

/-- the table python-pptx uses after the `fix:` for F-C05: `& < > "` as entities, TAB/LF/CR as
    character references -/
def fixedTbl : List (Char × Str) :=
  [('&', "&amp;".toList), ('<', "&lt;".toList), ('>', "&gt;".toList), ('"', "&quot;".toList),
   ('\t', "&#9;".toList), ('\n', "&#10;".toList), ('\r', "&#13;".toList)]

theorem fixedTbl_safe_attr : safeTbl .attr fixedTbl = true := by decide
theorem fixedTbl_safe_text : safeTbl .text fixedTbl = true := by decide

/-- `xml.sax.saxutils.escape` alone (`& < >`) -/
def saxTbl : List (Char × Str) := [('&', "&amp;".toList), ('<', "&lt;".toList), ('>', "&gt;".toList)]

/-- **Negative theorems**: what goes wrong with the sinks as they were.
    * no escaping at all: `&` is not well-formed, `"` closes the attribute;
    * `saxutils.escape` in an attribute: a double quote closes the attribute, a line feed is read
      back as a space;
    * `saxutils.escape` in character data: a carriage return is read back as a line feed. -/
theorem unescaped_amp_breaks :
    lexRun .attr (.normal 0) "a&b".toList = some (.ref ['b'], "a".toList) := by decide
theorem unescaped_quote_breaks : lexRun .attr (.normal 0) (("x\"y".toList).flatMap (sigma saxTbl)) = none := by
  decide
theorem sax_attr_lf_changes : lexRun .attr (.normal 0) (("a\nb".toList).flatMap (sigma saxTbl))
    = some (.normal 0, "a b".toList) := by decide
theorem sax_text_cr_changes : lexRun .text (.normal 0) (("a\rb".toList).flatMap (sigma saxTbl))
    = some (.normal 0, "a\nb".toList) := by decide
theorem saxTbl_unsafe : safeTbl .attr saxTbl = false ∧ safeTbl .text saxTbl = false := by decide

example : lexRun .attr (.normal 0) (("a<\"&>\n]]>\r".toList).flatMap (sigma fixedTbl))
    = some (.normal 0, "a<\"&>\n]]>\r".toList) := by decide

end Pptx.C05
