/-
  C07 — `replace_data` changes names, categories and values only: the series population afterwards.

  Theorems over `Model/Replace` (the series bookkeeping of `_BaseSeriesXmlRewriter`), for EVERY chart
  (any number of plots, any document order of the series inside a plot, any idx / order population,
  also the ones only other producers write) and every requested series count:

  * `adjust_length`        the chart holds exactly the requested number of series afterwards
  * `adjust_survivors`     the first min(old, new) series of `plotArea.sers` are the SAME elements with the
                           same idx, order and formatting (nothing but their data can have changed)
  * `adjust_nodup`         c:idx values stay pairwise distinct, c:order values too
  * `adjust_none_iff`      the call is refused exactly when series are asked for and the chart has none to clone
  * `trim_no_empty_plot`, `trim_tags`, `addCloned_tags`   plots left without series are removed, no other
                           plot is, and none is added
  * `run_inv`              all of it along any history of `replace_data` calls
-/
import PptxModel.Model.Replace
namespace Pptx.Replace

/-! ### stable insertion sort by `c:order` -/

theorem mem_insOrd {x s : Ser} {l : List Ser} : s ∈ insOrd x l ↔ s = x ∨ s ∈ l := by
  induction l with
  | nil => simp [insOrd]
  | cons y ys ih =>
    unfold insOrd; split
    · simp
    · simp only [List.mem_cons, ih]; constructor <;> (intro h; rcases h with h | h | h <;> simp [h])

theorem mem_sortOrd {s : Ser} {l : List Ser} : s ∈ sortOrd l ↔ s ∈ l := by
  induction l with
  | nil => simp [sortOrd]
  | cons y ys ih =>
    have : sortOrd (y :: ys) = insOrd y (sortOrd ys) := rfl
    rw [this, mem_insOrd, ih]; simp

theorem length_insOrd (x : Ser) (l : List Ser) : (insOrd x l).length = l.length + 1 := by
  induction l with
  | nil => simp [insOrd]
  | cons y ys ih => unfold insOrd; split <;> simp [ih]

theorem length_sortOrd (l : List Ser) : (sortOrd l).length = l.length := by
  induction l with
  | nil => simp [sortOrd]
  | cons y ys ih =>
    have : sortOrd (y :: ys) = insOrd y (sortOrd ys) := rfl
    rw [this, length_insOrd, ih]; simp

def Sorted (l : List Ser) : Prop := l.Pairwise fun a b => a.order ≤ b.order

theorem sorted_insOrd (x : Ser) (l : List Ser) (h : Sorted l) : Sorted (insOrd x l) := by
  induction l with
  | nil => simp [insOrd, Sorted]
  | cons y ys ih =>
    unfold Sorted at h ih ⊢
    rw [List.pairwise_cons] at h
    unfold insOrd; split
    · rename_i hxy
      rw [List.pairwise_cons]; refine ⟨?_, List.pairwise_cons.2 h⟩
      intro z hz; rcases List.mem_cons.1 hz with rfl | hz
      · exact hxy
      · exact Nat.le_trans hxy (h.1 z hz)
    · rename_i hxy
      rw [List.pairwise_cons]; refine ⟨?_, ih h.2⟩
      intro z hz; rcases mem_insOrd.1 hz with rfl | hz
      · omega
      · exact h.1 z hz

theorem sorted_sortOrd (l : List Ser) : Sorted (sortOrd l) := by
  induction l with
  | nil => simp [sortOrd, Sorted]
  | cons y ys ih => exact sorted_insOrd y _ ih

theorem insOrd_le_all (x : Ser) (m : List Ser) (h : ∀ z ∈ m, x.order ≤ z.order) : insOrd x m = x :: m := by
  cases m with
  | nil => rfl
  | cons z zs => unfold insOrd; simp [h z (by simp)]

/-- filtering commutes with inserting into a sorted list -/
theorem filter_insOrd (p : Ser → Bool) (x : Ser) (l : List Ser) (hs : Sorted l) :
    (insOrd x l).filter p = if p x then insOrd x (l.filter p) else l.filter p := by
  induction l with
  | nil => simp [insOrd]; split <;> simp [*]
  | cons y ys ih =>
    unfold Sorted at hs ih
    rw [List.pairwise_cons] at hs
    have ih := ih hs.2
    by_cases hxy : x.order ≤ y.order
    · have e : insOrd x (y :: ys) = x :: y :: ys := by simp [insOrd, hxy]
      rw [e]
      by_cases hpx : p x
      · simp only [hpx, if_true]
        rw [List.filter_cons_of_pos (by simpa using hpx)]
        rw [insOrd_le_all x ((y :: ys).filter p)]
        intro z hz
        rcases List.mem_cons.1 (List.mem_filter.1 hz).1 with rfl | hz'
        · exact hxy
        · exact Nat.le_trans hxy (hs.1 z hz')
      · simp only [hpx]
        rw [List.filter_cons_of_neg (by simpa using hpx)]; simp
    · have e : insOrd x (y :: ys) = y :: insOrd x ys := by simp [insOrd, hxy]
      rw [e]
      by_cases hpy : p y
      · rw [List.filter_cons_of_pos (by simpa using hpy), ih, List.filter_cons_of_pos (by simpa using hpy)]
        split
        · simp [insOrd, hxy]
        · rfl
      · rw [List.filter_cons_of_neg (by simpa using hpy), ih, List.filter_cons_of_neg (by simpa using hpy)]

/-- a stable sort commutes with filtering -/
theorem sortOrd_filter (p : Ser → Bool) (l : List Ser) : sortOrd (l.filter p) = (sortOrd l).filter p := by
  induction l with
  | nil => simp [sortOrd]
  | cons y ys ih =>
    have e : sortOrd (y :: ys) = insOrd y (sortOrd ys) := rfl
    rw [e, filter_insOrd p y _ (sorted_sortOrd ys)]
    by_cases hpy : p y
    · rw [List.filter_cons_of_pos (by simpa using hpy)]
      simp only [hpy, if_true]
      have e2 : sortOrd (y :: ys.filter p) = insOrd y (sortOrd (ys.filter p)) := rfl
      rw [e2, ih]
    · rw [List.filter_cons_of_neg (by simpa using hpy)]
      simp only [hpy]; simpa using ih

theorem insOrd_gt_all (x : Ser) (m : List Ser) (h : ∀ z ∈ m, z.order < x.order) : insOrd x m = m ++ [x] := by
  induction m with
  | nil => rfl
  | cons z zs ih =>
    have hz := h z (by simp)
    unfold insOrd
    rw [if_neg (by omega), ih (fun w hw => h w (by simp [hw]))]; rfl

theorem insOrd_append_gt (y x : Ser) (m : List Ser) (h : y.order < x.order) :
    insOrd y (m ++ [x]) = insOrd y m ++ [x] := by
  induction m with
  | nil => simp [insOrd]; omega
  | cons z zs ih =>
    simp only [List.cons_append]
    unfold insOrd; split
    · simp
    · simp [ih]

/-- a series whose order exceeds every other one sorts last, wherever it stands in the document -/
theorem sortOrd_insert_max (a b : List Ser) (x : Ser) (h : ∀ y ∈ a ++ b, y.order < x.order) :
    sortOrd (a ++ x :: b) = sortOrd (a ++ b) ++ [x] := by
  induction a with
  | nil =>
    have e : sortOrd (x :: b) = insOrd x (sortOrd b) := rfl
    simp only [List.nil_append]
    rw [e, insOrd_gt_all]
    intro z hz; exact h z (by simpa using mem_sortOrd.1 hz)
  | cons y ys ih =>
    have e1 : sortOrd (y :: ys ++ x :: b) = insOrd y (sortOrd (ys ++ x :: b)) := rfl
    have e2 : sortOrd (y :: ys ++ b) = insOrd y (sortOrd (ys ++ b)) := rfl
    rw [e1, e2, ih (fun z hz => h z (by simp only [List.cons_append, List.mem_cons, List.mem_append] at hz ⊢; exact Or.inr hz)), insOrd_append_gt]
    exact h y (by simp)

/-! ### the flattened view -/

theorem allSers_append (c d : Chart) : allSers (c ++ d) = allSers c ++ allSers d := by
  simp [allSers]

theorem allSers_single (p : Plot) : allSers [p] = p.sorted := by simp [allSers]

theorem le_maxOf_aux (f : Ser → Nat) (l : List Ser) (a : Nat) :
    a ≤ l.foldl (fun a s => max a (f s)) a ∧ ∀ s ∈ l, f s ≤ l.foldl (fun a s => max a (f s)) a := by
  induction l generalizing a with
  | nil => simp
  | cons y ys ih =>
    simp only [List.foldl_cons, List.mem_cons]
    have h := ih (max a (f y))
    refine ⟨by omega, ?_⟩
    intro s hs; rcases hs with rfl | hs
    · omega
    · exact h.2 s hs

theorem lt_nextOf (f : Ser → Nat) (c : Chart) (s : Ser) (h : s ∈ allSers c) : f s < nextOf f c := by
  unfold nextOf
  split
  · rename_i e; rw [e] at h; simp at h
  · rename_i l _; have := (le_maxOf_aux f (allSers c) 0).2 s h; unfold maxOf; omega

theorem insertAfter_split (u : Nat) (new : Ser) (l : List Ser) :
    ∃ a b, l = a ++ b ∧ insertAfter u new l = a ++ new :: b := by
  induction l with
  | nil => exact ⟨[], [], rfl, rfl⟩
  | cons y ys ih =>
    unfold insertAfter; split
    · exact ⟨[y], ys, rfl, rfl⟩
    · obtain ⟨a, b, e1, e2⟩ := ih
      exact ⟨y :: a, b, by simp [e1], by simp [e2]⟩

theorem allSers_cons (p : Plot) (d : Chart) : allSers (p :: d) = p.sorted ++ allSers d := by simp [allSers]

/-- the plot `last_ser` lives in: everything after it is without series -/
theorem modifyLastNE_split (f : Plot → Plot) (c : Chart) (h : allSers c ≠ []) :
    ∃ pre p post, c = pre ++ p :: post ∧ allSers post = [] ∧ modifyLastNE f c = pre ++ f p :: post := by
  induction c with
  | nil => exact absurd rfl h
  | cons p r ih =>
    unfold modifyLastNE
    by_cases hr : allSers r = []
    · have hp : p.sers ≠ [] := by
        intro e; apply h; rw [allSers_cons, hr]; simp [Plot.sorted, e, sortOrd]
      refine ⟨[], p, r, rfl, hr, ?_⟩
      simp [hr, hp]
    · obtain ⟨pre, q, post, e1, e2, e3⟩ := ih hr
      refine ⟨p :: pre, q, post, by simp [e1], e2, ?_⟩
      simp [hr, e3]

/-- one clone: `plotArea.sers` grows by exactly the clone, at its end -/
theorem cloneOnce_allSers (c : Chart) (last : Ser) (h : allSers c ≠ []) :
    allSers (cloneOnce c last).1 = allSers c ++ [(cloneOnce c last).2] ∧ allSers (cloneOnce c last).1 ≠ [] := by
  have key : allSers (cloneOnce c last).1 = allSers c ++ [(cloneOnce c last).2] := by
    unfold cloneOnce
    simp only []
    obtain ⟨pre, p, post, e1, e2, e3⟩ := modifyLastNE_split
      (fun p => { p with sers := insertAfter last.uid (newSer c last) p.sers }) c h
    rw [e3]
    conv => rhs; rw [e1]
    rw [allSers_append, allSers_append, allSers_cons, allSers_cons, e2]
    obtain ⟨a, b, e4, e5⟩ := insertAfter_split last.uid (newSer c last) p.sers
    simp only [Plot.sorted, List.append_nil]
    rw [e5, sortOrd_insert_max, ← e4, List.append_assoc]
    · rw [← e1]
    · intro y hy
      have : y ∈ allSers c := by
        rw [e1, allSers_append, allSers_cons]; simp only [Plot.sorted, List.mem_append]; right; left
        exact mem_sortOrd.2 (by rw [e4]; exact hy)
      exact lt_nextOf (·.order) c y this
  exact ⟨key, by rw [key]; simp⟩

theorem addCloned_ne_nil (k : Nat) (c : Chart) (last : Ser) (h : allSers c ≠ []) : allSers (addCloned k c last) ≠ [] := by
  induction k generalizing c last with
  | zero => exact h
  | succ k ih => exact ih _ _ (cloneOnce_allSers c last h).2

/-- `_add_cloned_sers`: `k` new series at the end of `plotArea.sers`, each with the formatting of the series
    the first clone was made from; the existing ones are untouched -/
theorem addCloned_allSers (k : Nat) (c : Chart) (last : Ser) (h : allSers c ≠ []) :
    ∃ news, allSers (addCloned k c last) = allSers c ++ news ∧ news.length = k ∧ ∀ s ∈ news, s.fmt = last.fmt := by
  induction k generalizing c last with
  | zero => exact ⟨[], by simp [addCloned], rfl, by simp⟩
  | succ k ih =>
    obtain ⟨e, hne⟩ := cloneOnce_allSers c last h
    obtain ⟨news, e2, hl, hf⟩ := ih (cloneOnce c last).1 (cloneOnce c last).2 hne
    refine ⟨(cloneOnce c last).2 :: news, ?_, by simp [hl], ?_⟩
    · show allSers (addCloned k (cloneOnce c last).1 (cloneOnce c last).2) = _
      rw [e2, e]; simp
    · intro s hs; rcases List.mem_cons.1 hs with rfl | hs
      · rfl
      · exact (hf s hs).trans rfl

theorem nodup_snoc_fresh (f : Ser → Nat) (l : List Ser) (x : Ser) (hn : (l.map f).Nodup)
    (hx : ∀ s ∈ l, f s < f x) : ((l ++ [x]).map f).Nodup := by
  rw [List.map_append, List.nodup_append]
  refine ⟨hn, by simp, ?_⟩
  intro a ha b hb
  simp only [List.map_cons, List.map_nil, List.mem_singleton] at hb
  obtain ⟨s, hs, rfl⟩ := List.mem_map.1 ha
  have := hx s hs; omega

/-- the three numberings the clone draws fresh: element identity, c:idx, c:order -/
def Numbering (f : Ser → Nat) : Prop := ∀ c last, f (cloneOnce c last).2 = nextOf f c

theorem numbering_uid : Numbering (·.uid) := fun _ _ => rfl
theorem numbering_idx : Numbering (·.idx) := fun _ _ => rfl
theorem numbering_order : Numbering (·.order) := fun _ _ => rfl

theorem addCloned_nodup (f : Ser → Nat) (hf : Numbering f) (k : Nat) (c : Chart) (last : Ser) (h : allSers c ≠ [])
    (hn : ((allSers c).map f).Nodup) : ((allSers (addCloned k c last)).map f).Nodup := by
  induction k generalizing c last with
  | zero => exact hn
  | succ k ih =>
    obtain ⟨e, hne⟩ := cloneOnce_allSers c last h
    apply ih _ _ hne
    rw [e]
    apply nodup_snoc_fresh f _ _ hn
    intro s hs; rw [hf]; exact lt_nextOf f c s hs

theorem modifyLastNE_tags (f : Plot → Plot) (hf : ∀ p, (f p).tag = p.tag) (c : Chart) :
    (modifyLastNE f c).map (·.tag) = c.map (·.tag) := by
  induction c with
  | nil => rfl
  | cons p r ih =>
    unfold modifyLastNE
    split
    · split <;> simp [hf]
    · simp only [List.map_cons, ih]

/-- adding series adds no plot, removes none and leaves each plot's own content alone -/
theorem addCloned_tags (k : Nat) (c : Chart) (last : Ser) : (addCloned k c last).map (·.tag) = c.map (·.tag) := by
  induction k generalizing c last with
  | zero => rfl
  | succ k ih =>
    show (addCloned k (cloneOnce c last).1 (cloneOnce c last).2).map (·.tag) = _
    rw [ih]; exact modifyLastNE_tags (fun p => { p with sers := insertAfter last.uid _ p.sers }) (fun _ => rfl) c

/-! ### trimming -/

theorem allSers_filter_nonempty (c : Chart) : allSers (c.filter fun p => !p.sers.isEmpty) = allSers c := by
  induction c with
  | nil => rfl
  | cons p r ih =>
    by_cases hp : p.sers = []
    · rw [List.filter_cons_of_neg (by simp [hp])]
      have : allSers (p :: r) = p.sorted ++ allSers r := by simp [allSers]
      rw [this, ih]; simp [Plot.sorted, hp, sortOrd]
    · rw [List.filter_cons_of_pos (by simpa using hp)]
      have e : ∀ d : Chart, allSers (p :: d) = p.sorted ++ allSers d := by intro d; simp [allSers]
      rw [e, e, ih]

theorem allSers_map_filter (q : Ser → Bool) (c : Chart) :
    allSers (c.map fun p => { p with sers := p.sers.filter q }) = (allSers c).filter q := by
  induction c with
  | nil => rfl
  | cons p r ih =>
    have e : ∀ (p : Plot) (d : Chart), allSers (p :: d) = p.sorted ++ allSers d := by intro p d; simp [allSers]
    rw [List.map_cons, e, e, ih, List.filter_append]
    simp [Plot.sorted, sortOrd_filter]

theorem filter_notin_right (a b : List Ser) (hn : ((a ++ b).map (·.uid)).Nodup) :
    (a ++ b).filter (fun s => !(b.map (·.uid)).contains s.uid) = a := by
  rw [List.map_append, List.nodup_append] at hn
  obtain ⟨_, _, hd⟩ := hn
  rw [List.filter_append]
  have h1 : a.filter (fun s => !(b.map (·.uid)).contains s.uid) = a := by
    apply List.filter_eq_self.2
    intro s hs
    simp only [Bool.not_eq_eq_eq_not, Bool.not_true, List.contains_eq_mem, decide_eq_false_iff_not]
    intro hc
    exact hd s.uid (List.mem_map.2 ⟨s, hs, rfl⟩) s.uid hc rfl
  have h2 : b.filter (fun s => !(b.map (·.uid)).contains s.uid) = [] := by
    apply List.filter_eq_nil_iff.2
    intro s hs
    simp only [Bool.not_eq_eq_eq_not, Bool.not_true, List.contains_eq_mem, decide_eq_false_iff_not]
    exact fun hc => hc (List.mem_map.2 ⟨s, hs, rfl⟩)
  rw [h1, h2]; simp

theorem filter_notin_drop (l : List Ser) (m : Nat) (hn : (l.map (·.uid)).Nodup) :
    l.filter (fun s => !((l.drop m).map (·.uid)).contains s.uid) = l.take m := by
  have := filter_notin_right (l.take m) (l.drop m) (by rw [List.take_append_drop]; exact hn)
  rw [List.take_append_drop] at this; exact this

/-- `_trim_ser_count_by`: exactly the last `k` series of `plotArea.sers` go; the others stay, in order -/
theorem allSers_trim (c : Chart) (k : Nat) (hn : ((allSers c).map (·.uid)).Nodup) :
    allSers (trim c k) = (allSers c).take ((allSers c).length - k) := by
  unfold trim
  simp only []
  rw [allSers_filter_nonempty, allSers_map_filter, filter_notin_drop _ _ hn]

/-- no plot is left without series by a trim -/
theorem trim_no_empty_plot (c : Chart) (k : Nat) : ∀ p ∈ trim c k, p.sers ≠ [] := by
  intro p hp
  unfold trim at hp
  have := (List.mem_filter.1 hp).2
  simpa using this

/-- a trim removes plots only (and only ones it leaves empty: `trim_removed_plots_empty`); the others keep
    their own content and their order -/
theorem trim_tags (c : Chart) (k : Nat) : ((trim c k).map (·.tag)).Sublist (c.map (·.tag)) := by
  unfold trim
  simp only []
  have h1 := List.filter_sublist (l := c.map fun p => ({ p with sers := p.sers.filter fun s =>
      !(((allSers c).drop ((allSers c).length - k)).map (·.uid)).contains s.uid } : Plot)) (p := fun p => !p.sers.isEmpty)
  have h2 := h1.map (·.tag)
  simpa [List.map_map, Function.comp_def] using h2

/-! ### `_adjust_ser_count` -/

theorem lastSer_some_ne_nil {c : Chart} {s : Ser} (h : lastSer c = some s) : allSers c ≠ [] := by
  intro e; simp [lastSer, e] at h

theorem lastSer_none_iff (c : Chart) : lastSer c = none ↔ allSers c = [] := by
  simp [lastSer]

/-- the call is refused exactly when series are asked for and the chart has none to clone -/
theorem adjust_none_iff (c : Chart) (n : Nat) :
    adjust c n = none ↔ allSers c = [] ∧ 0 < n := by
  unfold adjust
  simp only []
  split
  · rename_i h
    simp only [Option.map_eq_none_iff, lastSer_none_iff]
    constructor
    · intro e; rw [e] at h; exact ⟨e, by simpa using h⟩
    · exact fun e => e.1
  · rename_i h
    have : ¬ (allSers c = [] ∧ 0 < n) := by
      intro ⟨e, hn⟩; rw [e] at h; simp at h; omega
    split <;> simp [this]

/-- the requested number of series, always -/
theorem adjust_length (c c' : Chart) (n : Nat) (hu : ((allSers c).map (·.uid)).Nodup)
    (h : adjust c n = some c') : (allSers c').length = n := by
  unfold adjust at h
  simp only [] at h
  split at h
  · rename_i hlt
    cases hl : lastSer c with
    | none => simp [hl] at h
    | some last =>
      simp only [hl, Option.map_some, Option.some.injEq] at h
      obtain ⟨news, e, hk, _⟩ := addCloned_allSers (n - (allSers c).length) c last (lastSer_some_ne_nil hl)
      rw [← h, e, List.length_append, hk]; omega
  · split at h
    · rename_i h1 h2
      simp only [Option.some.injEq] at h
      rw [← h, allSers_trim c _ hu, List.length_take]; omega
    · simp only [Option.some.injEq] at h
      subst h; omega

/-- the surviving series are the same elements, with the idx, order and formatting they had -/
theorem adjust_survivors (c c' : Chart) (n : Nat) (hu : ((allSers c).map (·.uid)).Nodup)
    (h : adjust c n = some c') :
    (allSers c').take (min n (allSers c).length) = (allSers c).take (min n (allSers c).length) := by
  unfold adjust at h
  simp only [] at h
  split at h
  · rename_i hlt
    cases hl : lastSer c with
    | none => simp [hl] at h
    | some last =>
      simp only [hl, Option.map_some, Option.some.injEq] at h
      obtain ⟨news, e, _, _⟩ := addCloned_allSers (n - (allSers c).length) c last (lastSer_some_ne_nil hl)
      rw [← h, e, Nat.min_eq_right (by omega), List.take_left', List.take_length]
      rfl
  · split at h
    · rename_i h1 h2
      simp only [Option.some.injEq] at h
      rw [← h, allSers_trim c _ hu, Nat.min_eq_left (by omega)]
      have : (allSers c).length - ((allSers c).length - n) = n := by omega
      rw [this, List.take_take]; simp
    · simp only [Option.some.injEq] at h
      subst h; rfl

/-- added series carry the formatting of the series they were cloned from -/
theorem adjust_clones (c c' : Chart) (n : Nat) (last : Ser) (hlt : (allSers c).length < n)
    (hl : lastSer c = some last) (h : adjust c n = some c') :
    ∀ s ∈ (allSers c').drop (allSers c).length, s.fmt = last.fmt := by
  unfold adjust at h
  simp only [hlt, if_true, hl, Option.map_some, Option.some.injEq] at h
  obtain ⟨news, e, _, hf⟩ := addCloned_allSers (n - (allSers c).length) c last (lastSer_some_ne_nil hl)
  rw [← h, e, List.drop_left']
  · exact hf
  · rfl

theorem nodup_take_map (f : Ser → Nat) (l : List Ser) (m : Nat) (h : (l.map f).Nodup) : ((l.take m).map f).Nodup := by
  rw [← List.take_append_drop m l, List.map_append, List.nodup_append] at h
  exact h.1

/-- c:idx values stay distinct, c:order values stay distinct (and element identities) -/
theorem adjust_nodup (f : Ser → Nat) (hf : Numbering f) (c c' : Chart) (n : Nat)
    (hu : ((allSers c).map (·.uid)).Nodup) (hn : ((allSers c).map f).Nodup)
    (h : adjust c n = some c') : ((allSers c').map f).Nodup := by
  unfold adjust at h
  simp only [] at h
  split at h
  · cases hl : lastSer c with
    | none => simp [hl] at h
    | some last =>
      simp only [hl, Option.map_some, Option.some.injEq] at h
      rw [← h]; exact addCloned_nodup f hf _ c last (lastSer_some_ne_nil hl) hn
  · split at h
    · simp only [Option.some.injEq] at h
      rw [← h, allSers_trim c _ hu]; exact nodup_take_map f _ _ hn
    · simp only [Option.some.injEq] at h
      subst h; exact hn

/-- plots: none is added; one is removed only by a trim, and then only because it has no series left -/
theorem adjust_tags (c c' : Chart) (n : Nat) (h : adjust c n = some c') :
    ((c'.map (·.tag)).Sublist (c.map (·.tag))) ∧ ((allSers c).length ≤ n → c'.map (·.tag) = c.map (·.tag)) := by
  unfold adjust at h
  simp only [] at h
  split at h
  · cases hl : lastSer c with
    | none => simp [hl] at h
    | some last =>
      simp only [hl, Option.map_some, Option.some.injEq] at h
      rw [← h, addCloned_tags]; exact ⟨List.Sublist.refl _, fun _ => rfl⟩
  · split at h
    · rename_i h1 h2
      simp only [Option.some.injEq] at h
      rw [← h]; exact ⟨trim_tags c _, fun hle => by omega⟩
    · simp only [Option.some.injEq] at h
      subst h; exact ⟨List.Sublist.refl _, fun _ => rfl⟩

/-! ### histories -/

/-- what every state of a chart's life must satisfy for the property's "series index and order values unique" -/
structure Inv (c : Chart) : Prop where
  uid : ((allSers c).map (·.uid)).Nodup
  idx : ((allSers c).map (·.idx)).Nodup
  order : ((allSers c).map (·.order)).Nodup

theorem adjust_inv (c c' : Chart) (n : Nat) (hi : Inv c) (h : adjust c n = some c') : Inv c' :=
  ⟨adjust_nodup _ numbering_uid c c' n hi.uid hi.uid h,
   adjust_nodup _ numbering_idx c c' n hi.uid hi.idx h,
   adjust_nodup _ numbering_order c c' n hi.uid hi.order h⟩

/-- any history of `replace_data` calls (refused ones included) keeps idx and order values unique -/
theorem run_inv (c : Chart) (ns : List Nat) (hi : Inv c) : Inv (runAdjust c ns) := by
  induction ns generalizing c with
  | nil => exact hi
  | cons n ns ih =>
    unfold runAdjust
    cases h : adjust c n with
    | none => simpa using ih c hi
    | some c' => simpa using ih c' (adjust_inv c c' n hi h)

/-- after a history whose last call was accepted the chart holds the number of series of that call -/
theorem run_length (c : Chart) (ns : List Nat) (n : Nat) (hi : Inv c)
    (c' : Chart) (h : adjust (runAdjust c ns) n = some c') : (allSers c').length = n :=
  adjust_length _ c' n (run_inv c ns hi).uid h

/-! ### non-vacuity: a two-plot chart in a state only another producer writes (orders permuted, idx with
    gaps, document order different from c:order), grown and shrunk -/

def demo : Chart :=
  [ { tag := 1, sers := [⟨0, 4, 1, 10⟩, ⟨1, 0, 0, 11⟩] },
    { tag := 2, sers := [⟨2, 9, 3, 12⟩, ⟨3, 2, 2, 13⟩] } ]

example : Inv demo := ⟨by decide, by decide, by decide⟩
example : (allSers demo).map (·.uid) = [1, 0, 3, 2] := by decide
example : ((adjust demo 6).map fun c => (allSers c).map fun s => (s.uid, s.idx, s.order, s.fmt)) =
    some [(1, 0, 0, 11), (0, 4, 1, 10), (3, 2, 2, 13), (2, 9, 3, 12), (4, 10, 4, 12), (5, 11, 5, 12)] := by decide
example : ((adjust demo 1).map fun c => c.map (·.tag)) = some [1] := by decide
example : adjust [{ tag := 1, sers := [⟨0, 0, 0, 1⟩] }, { tag := 2, sers := [] }] 2 =
    some [{ tag := 1, sers := [⟨0, 0, 0, 1⟩, ⟨1, 1, 1, 1⟩] }, { tag := 2, sers := [] }] := by decide
example : adjust [{ tag := 2, sers := [] }] 2 = none := by decide

end Pptx.Replace
