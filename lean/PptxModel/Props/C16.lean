/-
  C16 — recoverable irregular packages open intact; non-packages are refused cleanly.
  Model: `Model/Opc.lean` (the loader).  Each tolerance is a lemma over ARBITRARY packages, so
  combinations follow by composition.
-/
import PptxModel.Props.C01
namespace Pptx.C16
open Pptx Pptx.Opc Pptx.PackUri Pptx.C01

/-- **Dangling targets are skipped, nothing else**: a relationship survives loading iff it is
    external, or it is internal and resolves to a loaded part (then it carries that part). -/
theorem validRels_mem (names : List Str) (source : Str) (rs : List RelX) (r' : RelX) :
    r' ∈ validRels names source rs ↔
      ∃ r ∈ rs, (r.external = true ∧ r' = r) ∨
        (r.external = false ∧ ∃ t, resolve source r = some t ∧ names.contains t = true ∧
          r' = { r with target := t }) := by
  simp only [validRels, List.mem_filterMap]
  constructor
  · rintro ⟨r, hr, h⟩
    refine ⟨r, hr, ?_⟩
    cases hx : r.external
    · simp only [hx, Bool.false_eq_true, if_false] at h
      right
      refine ⟨rfl, ?_⟩
      cases hres : resolve source r with
      | none => simp [hres] at h
      | some t =>
        simp only [hres] at h
        by_cases hc : names.contains t = true
        · simp only [hc, if_true, Option.some.injEq] at h
          exact ⟨t, rfl, hc, h.symm⟩
        · have hc' : names.contains t = false := by simpa using hc
          simp only [hc', Bool.false_eq_true, if_false] at h
          cases h
    · simp only [hx, if_true, Option.some.injEq] at h
      exact Or.inl ⟨rfl, h.symm⟩
  · rintro ⟨r, hr, h⟩
    refine ⟨r, hr, ?_⟩
    rcases h with ⟨hx, e⟩ | ⟨hx, t, hres, hc, e⟩
    · simp [hx, e]
    · simp only [hx, Bool.false_eq_true, if_false, hres, hc, if_true, e]

/-- adding a relationship whose target part is absent changes nothing in what is loaded from
    that rels item -/
theorem dangling_rel_ignored (names : List Str) (source : Str) (rs : List RelX) (d : RelX)
    (hx : d.external = false)
    (hd : ∀ t, resolve source d = some t → names.contains t = false) :
    validRels names source (rs ++ [d]) = validRels names source rs := by
  simp only [validRels, List.filterMap_append, List.filterMap_cons, List.filterMap_nil, hx,
    Bool.false_eq_true, if_false]
  cases hres : resolve source d with
  | none => simp
  | some t => simp only [hd t hres, Bool.false_eq_true, if_false]; simp

/-- **Case differences between the content-type declarations and part names do not matter**:
    the lookup only sees lower-cased keys, on both sides. -/
theorem ciLookup_case_insensitive (k k' : Str) (l l' : List (Str × Str))
    (hk : lowerStr k = lowerStr k')
    (hl : l.map (fun e => (lowerStr e.1, e.2)) = l'.map (fun e => (lowerStr e.1, e.2))) :
    ciLookup k l = ciLookup k' l' := by
  have key : ∀ (m : List (Str × Str)) (q : Str),
      ((m.reverse.find? fun e => lowerStr e.1 == lowerStr q).map (·.2)) =
      (((m.map fun e => (lowerStr e.1, e.2)).reverse.find? fun e => e.1 == lowerStr q).map (·.2)) := by
    intro m q
    rw [← List.map_reverse]
    induction m.reverse with
    | nil => rfl
    | cons x xs ih =>
      simp only [List.find?_cons, List.map_cons]
      by_cases h : (lowerStr x.1 == lowerStr q) = true
      · simp [h]
      · have h' : (lowerStr x.1 == lowerStr q) = false := by simpa using h
        simp only [h']; exact ih
  simp only [ciLookup]
  rw [key l k, key l' k', hk, hl]

/-- **Error classes**: the loader fails only with a `KeyError` — when `[Content_Types].xml` is
    absent, or when a part that is present and reachable has no resolvable content type; in
    every other case it succeeds. -/
theorem load_error_classes (p : Phys) (hasCT : Bool) :
    (∃ L, load p hasCT = .ok L) ∨ load p hasCT = .error .noContentTypes ∨
      ∃ n, load p hasCT = .error (.noContentType n) ∧ n ∈ visitedNames p ∧ p.members.contains n = true
        ∧ ctLookup p n = none := by
  simp only [load]
  cases hasCT with
  | false => right; left; rfl
  | true =>
    simp only [Bool.not_true, Bool.false_eq_true, if_false]
    cases hf : ((visitedNames p).filter fun n => n != ['/'] && p.members.contains n).find?
        (fun n => (ctLookup p n).isNone) with
    | none => left; exact ⟨_, rfl⟩
    | some n =>
      right; right
      refine ⟨n, rfl, ?_⟩
      have hm := List.mem_of_find?_eq_some hf
      have hp := List.find?_some hf
      obtain ⟨h1, h2⟩ := List.mem_filter.mp hm
      simp only [Bool.and_eq_true] at h2
      exact ⟨h1, h2.2, by simpa using hp⟩

theorem walk_congr (p q : Phys) (h : p.rels = q.rels) (fuel : Nat) (v t : List Str) :
    walk p fuel v t = walk q fuel v t := by
  induction fuel generalizing v t with
  | zero => simp [walk]
  | succ n ih =>
    cases t with
    | nil => simp [walk]
    | cons s rest =>
      simp only [walk, relsFor, h]
      split
      · exact ih v rest
      · exact ih _ _

/-- **Unreferenced extra members are ignored**: members no relationship leads to do not change
    the result of loading. -/
theorem extra_members_ignored (p : Phys) (extra : List Str)
    (h : ∀ n ∈ extra, n ∉ visitedNames p) :
    load { p with members := p.members ++ extra } true = load p true := by
  have hv : visitedNames { p with members := p.members ++ extra } = visitedNames p := by
    simp only [visitedNames, totalRels]
    exact walk_congr { p with members := p.members ++ extra } p rfl _ _ _
  have hct : ∀ n, ctLookup { p with members := p.members ++ extra } n = ctLookup p n := fun _ => rfl
  have hrels : ∀ n, relsFor { p with members := p.members ++ extra } n = relsFor p n := fun _ => rfl
  have hnames : ((visitedNames p).filter fun n => n != ['/'] && (p.members ++ extra).contains n)
      = (visitedNames p).filter fun n => n != ['/'] && p.members.contains n := by
    apply List.filter_congr
    intro n hn
    have : extra.contains n = false := by
      simp only [List.contains_eq_mem, decide_eq_false_iff_not]
      intro hmem; exact h n hmem hn
    simp [List.contains_eq_mem, List.mem_append] at this ⊢
    simp [this]
  simp only [load, hv, hct, hrels, hnames, Bool.not_true, Bool.false_eq_true, if_false]

/-- **A part with no relationship item** simply has no relationships -/
theorem no_rels_item (p : Phys) (n : Str) (h : p.rels.lookup n = none) : relsFor p n = [] := by
  simp [relsFor, h]

/-- non-vacuity: the demo package of C01 with a dangling relationship, a case-flipped Default and
    an extra member loads to the same two parts -/
example : (match load { C01.demo with
      defaults := [("XML".toList, "application/xml".toList)],
      members := C01.demo.members ++ ["/junk.bin".toList],
      rels := C01.demo.rels.map fun (s, rs) =>
        if s = ['/'] then (s, rs ++ [⟨"rId9".toList, "r".toList, "ppt/NULL".toList, false⟩]) else (s, rs) } true with
    | .ok L => L.parts.map (·.name) | .error _ => []) = ["/a/p.xml".toList, "/b/q.bin".toList] := by decide

/-- **a non-presentation main part is refused with ValueError, never opened**: the verdict is `some true` exactly when the
    office-document relationship leads to a part whose content type is one of the two presentation main types -/
theorem openVerdict_true_iff (L : Loaded) (rt : Str) :
    openVerdict L rt = some true ↔
      ∃ r q, L.pkgRels.find? (fun r => r.rtype == rt && !r.external) = some r ∧ partByName L r.target = some q ∧
        (q.ct = "application/vnd.openxmlformats-officedocument.presentationml.presentation.main+xml".toList ∨
         q.ct = "application/vnd.ms-powerpoint.presentation.macroEnabled.main+xml".toList) := by
  unfold openVerdict
  cases hf : L.pkgRels.find? (fun r => r.rtype == rt && !r.external) with
  | none => simp
  | some r =>
    show (partByName L r.target).map (fun q => isPresentationType q.ct) = some true ↔ _
    constructor
    · intro h
      cases hq : partByName L r.target with
      | none => rw [hq] at h; cases h
      | some q =>
        rw [hq] at h
        simp only [Option.map_some, Option.some.injEq, isPresentationType, Bool.or_eq_true, beq_iff_eq] at h
        exact ⟨r, q, rfl, hq, h⟩
    · rintro ⟨r', q', e1, e2, h⟩
      simp only [Option.some.injEq] at e1; subst e1
      rw [e2]
      simp only [Option.map_some, Option.some.injEq, isPresentationType, Bool.or_eq_true, beq_iff_eq]
      exact h

example : isPresentationType "application/vnd.openxmlformats-officedocument.presentationml.template.main+xml".toList = false
    ∧ isPresentationType "application/vnd.openxmlformats-officedocument.presentationml.slideshow.main+xml".toList = false
    ∧ isPresentationType "application/vnd.ms-powerpoint.presentation.macroEnabled.main+xml".toList = true := by decide

end Pptx.C16
