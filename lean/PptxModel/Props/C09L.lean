/-
  C09 — `LineFormat.width` / `.dash_style`: theorems over `Model/LineFmt`, from ANY state (no `a:ln`, `a:custDash`, both dashes).
-/
import PptxModel.Model.LineFmt
namespace Pptx.LineFmt

theorem step_width (s : St) (op : Op) :
    width (step s op).1 = lastWidth (width s) [op] := by
  unfold step
  cases op with
  | width e =>
    by_cases h : accepts (.width e) = true
    · simp only [h, Bool.not_true, Bool.false_eq_true, if_false, lastWidth, if_true, width, getOrAdd]
      by_cases hv : (e.getD 0).toNat = 0 <;> simp [hv]
    · have h' : accepts (.width e) = false := by simpa using h
      simp [h', lastWidth]
  | dash d =>
    cases d with
    | none => cases s <;> simp [accepts, lastWidth, width]
    | member k => cases s <;> simp [accepts, lastWidth, width, getOrAdd]
    | other => simp [accepts, lastWidth]

theorem step_dash (s : St) (op : Op) :
    dashOf (step s op).1 = lastDash (dashOf s) [op] := by
  unfold step
  cases op with
  | width e =>
    by_cases h : accepts (.width e) = true
    · cases s <;> simp [h, lastDash, dashOf, getOrAdd]
    · have h' : accepts (.width e) = false := by simpa using h
      simp [h', lastDash]
  | dash d =>
    cases d with
    | none => cases s <;> simp [accepts, lastDash, dashOf]
    | member k => cases s <;> simp [accepts, lastDash, dashOf, getOrAdd]
    | other => simp [accepts, lastDash]

/-- a width inside the domain reads back exactly (0 by removing the attribute), whatever the state; None is 0 -/
theorem width_after (s : St) (e : Int) (h : 0 ≤ e ∧ e ≤ 20116800) :
    (step s (.width (some e))).2 = true ∧ (width (step s (.width (some e))).1 : Int) = e := by
  have ha : accepts (.width (some e)) = true := by simp only [accepts, maxW]; exact decide_eq_true h
  refine ⟨by simp [step, ha], ?_⟩
  rw [step_width]; simp only [lastWidth, ha, if_true, Option.getD_some]
  exact Int.toNat_of_nonneg h.1

theorem width_after_none (s : St) : width (step s (.width none)).1 = 0 := by
  rw [step_width]; simp [lastWidth, accepts]

/-- a member reads back (an `a:custDash` is gone); None restores inheritance -/
theorem dash_after (s : St) (k : Nat) : dashOf (step s (.dash (.member k))).1 = some k ∧ ∀ l, (step s (.dash (.member k))).1 = some l → l.cust = false := by
  refine ⟨by rw [step_dash]; simp [lastDash], ?_⟩
  intro l; cases s <;> simp [step, accepts, getOrAdd] <;> (intro h; subst h; rfl)

theorem dash_after_none (s : St) : dashOf (step s (.dash .none)).1 = none := by
  rw [step_dash]; simp [lastDash]

/-- refused exactly outside the domain, and then NOTHING changes - no `a:ln` is created -/
theorem refused_iff (s : St) (op : Op) : (step s op).2 = false ↔ accepts op = false := by
  unfold step
  by_cases h : accepts op = true
  · simp only [h, Bool.not_true, Bool.false_eq_true, if_false]
    cases op with
    | width e => simp
    | dash d => cases d <;> simp_all [accepts]
  · have h' : accepts op = false := by simpa using h
    simp [h']

theorem refused_unchanged (s : St) (op : Op) (h : accepts op = false) : (step s op).1 = s := by
  simp [step, h]

/-- independence: a width assignment leaves the dash style, a dash assignment the width -/
theorem width_keeps_dash (s : St) (e : Option Int) : dashOf (step s (.width e)).1 = dashOf s := by
  rw [step_dash]; rfl

theorem dash_keeps_width (s : St) (d : Dash) : width (step s (.dash d)).1 = width s := by
  rw [step_width]; rfl

theorem lastWidth_cons (i : Nat) (op : Op) (rest : List Op) : lastWidth i (op :: rest) = lastWidth (lastWidth i [op]) rest := by
  cases op <;> simp [lastWidth]

theorem lastDash_cons (i : Option Nat) (op : Op) (rest : List Op) : lastDash i (op :: rest) = lastDash (lastDash i [op]) rest := by
  cases op with
  | width e => simp [lastDash]
  | dash d => cases d <;> simp [lastDash]

/-- ANY history: the width is the last accepted width, the dash style the last accepted dash style -/
theorem run_width (s : St) (ops : List Op) : width (run s ops) = lastWidth (width s) ops := by
  induction ops generalizing s with
  | nil => rfl
  | cons op rest ih => rw [run, ih, step_width, ← lastWidth_cons]

theorem run_dash (s : St) (ops : List Op) : dashOf (run s ops) = lastDash (dashOf s) ops := by
  induction ops generalizing s with
  | nil => rfl
  | cons op rest ih => rw [run, ih, step_dash, ← lastDash_cons]

example : dashOf (run (some ⟨some 12700, some 3, true⟩) [.width (some (-1)), .dash .other, .width none, .dash (.member 5)]) = some 5 := by decide
example : width (run none [.dash .none, .width (some 25400), .dash (.member 2), .width (some 20116801)]) = 25400 := by decide
example : run none [.dash .none, .width (some (-5)), .dash .other] = none := by decide

end Pptx.LineFmt
