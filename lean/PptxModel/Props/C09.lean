/-
  C09 — a property reads back as set; None restores inheritance; assignments do not disturb other properties;
  stored values are within the storage quantum of what was assigned.
  Model: `Model/PropStore.lean`.
-/
import PptxModel.Model.PropStore
import PptxModel.Props.C17
import Mathlib.Tactic.Ring
import Mathlib.Tactic.Linarith
namespace Pptx.C09
open Pptx Pptx.PropStore Pptx.SimpleTypes
open Pptx.Geometry (roundHE)

/-! ### the attribute store -/

theorem lookup_filter_self {α : Type} (a : Nat) (st : Store α) : (st.filter (·.1 != a)).lookup a = none := by
  induction st with
  | nil => rfl
  | cons x xs ih =>
    obtain ⟨k, v⟩ := x
    by_cases hk : k = a
    · subst hk; simp [List.filter_cons, ih]
    · have h1 : (k != a) = true := by simpa using hk
      have h2 : (a == k) = false := by simpa using (fun h : a = k => hk h.symm)
      simp [List.filter_cons, h1, List.lookup_cons, h2, ih]

theorem lookup_filter_other {α : Type} (a b : Nat) (st : Store α) (h : b ≠ a) :
    (st.filter (·.1 != a)).lookup b = st.lookup b := by
  induction st with
  | nil => rfl
  | cons x xs ih =>
    obtain ⟨k, v⟩ := x
    by_cases hk : k = a
    · subst hk
      have : (b == k) = false := by simpa using h
      simp [List.filter_cons, List.lookup_cons, this, ih]
    · have h1 : (k != a) = true := by simpa using hk
      simp only [List.filter_cons, h1, if_true, List.lookup_cons]
      cases (b == k) <;> simp [ih]

/-- **Reads back as set; None (or the default) restores inheritance**: after `x.a = v` the reader gives `v`; after
    `x.a = None` it gives the declared default (what an absent attribute means) -/
theorem get_set_self {α : Type} [DecidableEq α] (dflt : Nat → Option α) (st : Store α) (a : Nat) (v : Option α) :
    getA dflt (setA dflt st a v) a = (match v with | some x => some x | none => dflt a) := by
  cases v with
  | none => simp [getA, setA, lookup_filter_self]
  | some x =>
    by_cases hd : dflt a = some x
    · simp [getA, setA, hd, lookup_filter_self]
    · simp [getA, setA, hd, List.lookup_cons]

/-- after `x.a = None` the attribute is gone from the element (nothing explicit is left behind) -/
theorem set_none_removes {α : Type} [DecidableEq α] (dflt : Nat → Option α) (st : Store α) (a : Nat) :
    (setA dflt st a none).lookup a = none := by
  simp [setA, lookup_filter_self]

/-- **Independence**: assigning one attribute leaves the reading of every other attribute unchanged -/
theorem get_set_other {α : Type} [DecidableEq α] (dflt : Nat → Option α) (st : Store α) (a b : Nat) (v : Option α)
    (h : b ≠ a) : getA dflt (setA dflt st a v) b = getA dflt st b := by
  have hb : (b == a) = false := by simpa using h
  cases v with
  | none => simp [getA, setA, lookup_filter_other a b st h]
  | some x =>
    by_cases hd : dflt a = some x
    · simp [getA, setA, hd, lookup_filter_other a b st h]
    · simp [getA, setA, hd, List.lookup_cons, hb, lookup_filter_other a b st h]

/-- **Any assignment order, any repetition**: after a whole history the reader of `a` gives the LAST value assigned to
    `a` (the default if that was `None`), and the initial reading if `a` was never assigned -/
theorem run_get {α : Type} [DecidableEq α] (dflt : Nat → Option α) (as : List (Nat × Option α)) (a : Nat) :
    ∀ st : Store α, getA dflt (runA dflt st as) a =
      (match lastAssigned a as with
       | some (some x) => some x
       | some none => dflt a
       | none => getA dflt st a) := by
  induction as with
  | nil => intro st; rfl
  | cons p rest ih =>
    intro st
    obtain ⟨b, v⟩ := p
    simp only [runA, lastAssigned]
    rw [ih]
    cases hl : lastAssigned a rest with
    | some w => cases w <;> rfl
    | none =>
      by_cases hb : b = a
      · subst hb
        simp only [if_true]
        rw [get_set_self]
        cases v <;> rfl
      · simp only [hb, if_false]
        exact get_set_other dflt st b a v (fun h => hb h.symm)

/-! ### storage quanta -/

/-- font size: stored in hundredths of a point, read back at most 126 EMU (< 1/100 pt) below what was assigned, and
    re-storing what was read changes nothing (so save / re-open is stable) -/
theorem size_quantum (emu : Int) :
    sizeRead (sizeStore emu) ≤ emu ∧ emu - sizeRead (sizeStore emu) < 127 ∧ sizeStore (sizeRead (sizeStore emu)) = sizeStore emu := by
  simp only [sizeRead, sizeStore]
  refine ⟨by omega, by omega, by omega⟩

/-- rotation: the stored 60000ths of a degree differ from the assigned angle, reduced by whole turns, by at most half a
    unit -/
theorem angle_quantum (n : Int) (d : Nat) (hd : 0 < d) :
    ∃ k : Int, 2 * ((angle n d + k * THREE_SIXTY) * d - n * 60000) ≤ d ∧ -(d : Int) ≤ 2 * ((angle n d + k * THREE_SIXTY) * d - n * 60000) := by
  obtain ⟨h1, h2⟩ := C17.roundHE_close (n * 60000) d hd
  refine ⟨roundHE (n * 60000) d / THREE_SIXTY, ?_⟩
  have e : angle n d + roundHE (n * 60000) d / THREE_SIXTY * THREE_SIXTY = roundHE (n * 60000) d := by
    simp only [angle]
    have := Int.emod_add_mul_ediv (roundHE (n * 60000) d) THREE_SIXTY
    linarith [Int.mul_comm (roundHE (n * 60000) d / THREE_SIXTY) THREE_SIXTY]
  rw [e]; exact ⟨h1, h2⟩

/-- crop, gradient-stop position, brightness parts: within half of 1/100000 -/
theorem pct_quantum (n : Int) (d : Nat) (hd : 0 < d) :
    2 * (pct n d * d - n * 100000) ≤ d ∧ -(d : Int) ≤ 2 * (pct n d * d - n * 100000) :=
  C17.roundHE_close (n * 100000) d hd

/-- adjustments: truncated toward zero, less than one unit of 1/100000 away and never further from zero -/
theorem adj_quantum (n : Int) (d : Nat) (hd : 0 < d) :
    (0 ≤ n → adjStore n d * d ≤ n * 100000 ∧ n * 100000 - adjStore n d * d < d) ∧
    (n ≤ 0 → n * 100000 ≤ adjStore n d * d ∧ adjStore n d * d - n * 100000 < d) := by
  have hd' : (0 : Int) < d := by exact_mod_cast hd
  constructor
  · intro hn
    have hx : 0 ≤ n * 100000 := by omega
    simp only [adjStore, Int.tdiv_eq_ediv_of_nonneg hx]
    have e1 := Int.emod_nonneg (n * 100000) (Int.ne_of_gt hd')
    have e2 := Int.emod_lt_of_pos (n * 100000) hd'
    have e3 := Int.emod_add_mul_ediv (n * 100000) d
    constructor <;> nlinarith
  · intro hn
    have hx : 0 ≤ -(n * 100000) := by omega
    have ht : adjStore n d = -((-(n * 100000)) / d) := by
      simp only [adjStore]
      have := Int.neg_tdiv (-(n * 100000)) (d : Int)
      rw [Int.neg_neg] at this
      rw [this, Int.tdiv_eq_ediv_of_nonneg hx]
    rw [ht]
    have e1 := Int.emod_nonneg (-(n * 100000)) (Int.ne_of_gt hd')
    have e2 := Int.emod_lt_of_pos (-(n * 100000)) hd'
    have e3 := Int.emod_add_mul_ediv (-(n * 100000)) d
    constructor <;> nlinarith

/-- brightness: what is read is within half of 1/100000 of what was assigned, for tints, shades and zero -/
theorem brightness_quantum (n : Int) (d : Nat) (hd : 0 < d) :
    2 * (brightRead (brightStore n d) * d - n * 100000) ≤ d ∧
    -(d : Int) ≤ 2 * (brightRead (brightStore n d) * d - n * 100000) := by
  by_cases hp : n > 0
  · simp only [brightStore, hp, if_true, brightRead]
    exact pct_quantum n d hd
  · by_cases hn : n < 0
    · simp only [brightStore, hp, hn, if_true, if_false, brightRead]
      obtain ⟨h1, h2⟩ := pct_quantum ((d : Int) + n) d hd
      constructor <;> nlinarith
    · have : n = 0 := by omega
      subst this
      simp [brightStore, brightRead]

/-- gradient angle: what is read (`360 - stored`, 0 for 0) differs from the assigned angle, reduced by whole turns,
    by at most half of 1/60000 degree -/
theorem gradient_quantum (n : Int) (d : Nat) (hd : 0 < d) :
    ∃ k : Int, 2 * ((gradRead (gradStore n d) + k * THREE_SIXTY) * d - n * 60000) ≤ d ∧
      -(d : Int) ≤ 2 * ((gradRead (gradStore n d) + k * THREE_SIXTY) * d - n * 60000) := by
  have hd' : (0 : Int) < d := by exact_mod_cast hd
  -- the reduced numerator `deg` differs from `360 d - n` by a whole number `j` of turns
  have hdeg : ∃ (deg j : Int), gradStore n d = roundHE (deg * 60000) d % THREE_SIXTY ∧
      deg = 360 * (d : Int) - n - j * (360 * (d : Int)) := by
    simp only [gradStore, pfa]
    generalize hn' : 360 * (d : Int) - n = n'
    have hm : (360 * (d : Int)) ≠ 0 := by omega
    by_cases h1 : n' < 0
    · by_cases h2 : n' % (360 * (d : Int)) = 0
      · refine ⟨360 * (d : Int), n' / (360 * (d : Int)) - 1, by simp [h1, h2], ?_⟩
        have := Int.emod_add_mul_ediv n' (360 * (d : Int))
        rw [h2] at this
        linarith
      · refine ⟨n' % (360 * (d : Int)), n' / (360 * (d : Int)), by simp [h1, h2], ?_⟩
        have := Int.emod_add_mul_ediv n' (360 * (d : Int))
        linarith
    · by_cases h3 : n' > 0
      · refine ⟨n' % (360 * (d : Int)), n' / (360 * (d : Int)), by simp [h1, h3], ?_⟩
        have := Int.emod_add_mul_ediv n' (360 * (d : Int))
        linarith
      · refine ⟨n', 0, by simp [h1, h3], by ring⟩
  obtain ⟨deg, j, hs, hj⟩ := hdeg
  obtain ⟨c1, c2⟩ := C17.roundHE_close (deg * 60000) d hd
  generalize hr : roundHE (deg * 60000) d = r at hs c1 c2
  have hq := Int.emod_add_mul_ediv r THREE_SIXTY
  generalize hqv : r / THREE_SIXTY = q at hq
  rw [hs]
  generalize hsv : r % THREE_SIXTY = s at hq
  have hM : THREE_SIXTY = 21600000 := rfl
  by_cases h0 : s = 0
  · refine ⟨-q - j + 1, ?_⟩
    simp only [gradRead, h0, if_true]
    rw [hM] at hq ⊢
    subst hj
    constructor <;> nlinarith
  · refine ⟨-q - j, ?_⟩
    simp only [gradRead, h0, if_false]
    rw [hM] at hq ⊢
    subst hj
    constructor <;> nlinarith

example : gradRead (gradStore 45 1) = 45 * 60000 := by decide
example : gradRead (gradStore 0 1) = 0 ∧ gradRead (gradStore 360 1) = 0 ∧ gradRead (gradStore (-45) 1) = 315 * 60000 := by decide
example : brightRead (brightStore (-1) 4) = -25000 ∧ brightRead (brightStore 2 5) = 40000 := by decide
example : sizeRead (sizeStore 234950) = 234950 ∧ sizeRead (sizeStore 234951) = 234950 := by decide
example : getA (fun _ => none) (runA (fun _ => (none : Option Int)) [] [(1, some 5), (2, some 7), (1, none), (2, some 8)]) 2 = some 8 := by decide

end Pptx.C09
