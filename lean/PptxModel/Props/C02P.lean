/-
  C02 — the package graph after `add_slide`, `add_picture`, `add_chart`, PREDICTED: every delta the model predicts for the
  call is well-formed in the state it is applied to, hence (with `Props/C02.run_inv`) the graph is closed after the call -
  for EVERY closed graph the call starts from and every operand that exists in it.

  * `predict_ok`     the call goes through (`step s op = some s'`) and `Inv s'`
  * `runOps_inv`     any history of such calls keeps the graph closed

  Preconditions are what the public API guarantees the internals: the operands are parts of the package, the identities
  of the new parts are new, and - for a slide - the name after the slide-id list is free (the numbering theorem
  `slide_numbers_nodup`).  Names of pictures, charts and workbooks are PROVED free here (first free index through
  `PackUri.idx`; `next_partname`), relationship ids are proved free (`_next_rId`).
-/
import PptxModel.Model.PkgOps
import PptxModel.Props.C02
import PptxModel.Props.C06
import PptxModel.Props.C19X
namespace Pptx.PkgOps
open Pptx Pptx.Pkg Pptx.Ids

/-! ### deltas, one at a time -/

theorem runD_cons (s : St) (d : Delta) (ds : List Delta) (k : Nat) (h : wf s d = true) :
    runD s (d :: ds) k = runD (app s d) ds (k + 1) := by
  simp [runD, h]

theorem wf_addPart (s : St) (i : Nat) (n : Str) (hi : i ∉ ids s) (hn : n ∉ names s) : wf s (.addPart i n) = true := by
  simp [wf, hi, hn]

theorem wf_addRel (s : St) (i : Nat) (rid : Str) (t : Nat) (hi : i ∈ ids s) (ht : t ∈ ids s)
    (hk : ∀ p ∈ s, p.id = i → rid ∉ keys p) : wf s (.addRel i rid (.int t)) = true := by
  simp only [wf, tgtOk, Bool.and_eq_true, List.contains_eq_mem, decide_eq_true_eq, List.all_eq_true, Bool.or_eq_true,
    bne_iff_ne, ne_eq, Bool.not_eq_true', decide_eq_false_iff_not]
  refine ⟨⟨hi, ht⟩, ?_⟩
  intro p hp
  by_cases e : p.id = i
  · right; exact hk p hp e
  · left; exact e

theorem wf_addRef (s : St) (i : Nat) (rid : Str) (hi : i ∈ ids s) (hk : ∀ p ∈ s, p.id = i → rid ∈ keys p) :
    wf s (.addRef i rid) = true := by
  simp only [wf, Bool.and_eq_true, List.contains_eq_mem, decide_eq_true_eq, List.all_eq_true, Bool.or_eq_true,
    bne_iff_ne, ne_eq]
  refine ⟨hi, ?_⟩
  intro p hp
  by_cases e : p.id = i
  · right; exact hk p hp e
  · left; exact e

theorem ids_addPart (s : St) (i : Nat) (n : Str) : ids (app s (.addPart i n)) = ids s ++ [i] := by simp [app, ids]
theorem names_addPart (s : St) (i : Nat) (n : Str) : names (app s (.addPart i n)) = names s ++ [n] := by simp [app, names]
theorem ids_addRel (s : St) (i : Nat) (r : Str) (t : Tgt) : ids (app s (.addRel i r t)) = ids s :=
  C02.ids_upd s i _ (fun _ => rfl)
theorem ids_addRef (s : St) (i : Nat) (r : Str) : ids (app s (.addRef i r)) = ids s := C02.ids_upd s i _ (fun _ => rfl)
theorem names_addRel (s : St) (i : Nat) (r : Str) (t : Tgt) : names (app s (.addRel i r t)) = names s :=
  C02.names_upd s i _ (fun _ => rfl)
theorem names_addRef (s : St) (i : Nat) (r : Str) : names (app s (.addRef i r)) = names s :=
  C02.names_upd s i _ (fun _ => rfl)

theorem mem_addPart (s : St) (i : Nat) (n : Str) (q : PartRec) :
    q ∈ app s (.addPart i n) ↔ q ∈ s ∨ q = { id := i, name := n, rels := [], refs := [] } := by simp [app]

/-- the parts with identity `j` after a relationship was added to part `i` -/
theorem mem_addRel (s : St) (i : Nat) (r : Str) (t : Tgt) (q : PartRec) (h : q ∈ app s (.addRel i r t)) :
    (q ∈ s ∧ q.id ≠ i) ∨ ∃ p ∈ s, p.id = i ∧ q = { p with rels := p.rels ++ [(r, t)] } :=
  C02.mem_upd s i _ q h

theorem mem_addRef (s : St) (i : Nat) (r : Str) (q : PartRec) (h : q ∈ app s (.addRef i r)) :
    (q ∈ s ∧ q.id ≠ i) ∨ ∃ p ∈ s, p.id = i ∧ q = { p with refs := r :: p.refs } :=
  C02.mem_upd s i _ q h

/-! ### fresh relationship ids and names -/

theorem eq_of_id_eq (s : St) (hn : (ids s).Nodup) (p q : PartRec) (hp : p ∈ s) (hq : q ∈ s) (e : p.id = q.id) : p = q := by
  induction s with
  | nil => simp at hp
  | cons x xs ih =>
    simp only [ids, List.map_cons, List.nodup_cons] at hn
    rcases List.mem_cons.1 hp with e1 | e1 <;> rcases List.mem_cons.1 hq with e2 | e2
    · rw [e1, e2]
    · exfalso; apply hn.1; rw [← e1, e]; exact List.mem_map.2 ⟨q, e2, rfl⟩
    · exfalso; apply hn.1; rw [← e2, ← e]; exact List.mem_map.2 ⟨p, e1, rfl⟩
    · exact ih hn.2 e1 e2

theorem partOf_eq (s : St) (hn : (ids s).Nodup) (p : PartRec) (hp : p ∈ s) : partOf s p.id = some p := by
  unfold partOf
  cases h : s.find? (fun q => q.id = p.id) with
  | none =>
    have := List.find?_eq_none.1 h p hp
    simp at this
  | some q =>
    have hq := List.mem_of_find?_eq_some h
    have he : q.id = p.id := by simpa using List.find?_some h
    rw [eq_of_id_eq s hn q p hq hp he]

/-- `_next_rId` of a part is not one of its keys -/
theorem nextRId_fresh (s : St) (hn : (ids s).Nodup) (p : PartRec) (hp : p ∈ s) : nextRId s p.id ∉ keys p := by
  unfold nextRId
  rw [partOf_eq s hn p hp]
  obtain ⟨k, e1, e2, _⟩ := C06.nextRId_fresh (keys p)
  simp only [e1]
  exact e2

theorem nextName_fresh (s : St) (pre post : Str) : nextName s pre post ∉ names s := by
  unfold nextName
  obtain ⟨k, e1, e2, _⟩ := C06.nextPartname_fresh pre post ((names s).filter fun n => pre.isPrefixOf n)
  simp only [e1]
  intro h
  apply e2
  apply List.mem_filter.2
  refine ⟨h, ?_⟩
  simp [List.append_assoc]

theorem nextName_ne (s : St) (pre pre' post post' : Str) (h : ¬ pre'.isPrefixOf (nextName s pre post) = true)
    (n : Nat) : nextName s pre post ≠ pre' ++ natStr n ++ post' := by
  intro e; apply h; rw [e]; simp [List.append_assoc]

theorem isPrefixOf_append_self (a b : Str) : a.isPrefixOf (a ++ b) = true :=
  List.isPrefixOf_iff_prefix.2 (List.prefix_append a b)

/-- a new picture's name is free: its index is the first one no image part name carries -/
theorem imageName_fresh (s : St) (ext : Str) (he : '/' ∉ ext) (hd : '.' ∉ ext) : imageName s ext ∉ names s := by
  unfold imageName
  simp only []
  generalize hL : ((names s).filterMap fun n => if "/ppt/media/image".toList.isPrefixOf n then PackUri.idx n else none) = L
  have hf := (C06.firstFreeIdx_fresh L).1
  generalize firstFreeIdx L = k at hf ⊢
  intro h
  apply hf
  rw [← hL]
  apply List.mem_filterMap.2
  refine ⟨_, h, ?_⟩
  have hpre : ("/ppt/media/image".toList.isPrefixOf ("/ppt/media/image".toList ++ natStr k ++ '.' :: ext)) = true := by
    rw [List.append_assoc]; exact isPrefixOf_append_self _ _
  rw [if_pos hpre]
  have e0 : "/ppt/media/image".toList = "/ppt/media".toList ++ '/' :: "image".toList := by decide
  have e1 : "/ppt/media/image".toList ++ natStr k ++ '.' :: ext =
      "/ppt/media".toList ++ '/' :: ("image".toList ++ natStr k ++ '.' :: ext) := by
    rw [e0]; simp only [List.append_assoc, List.cons_append]
  rw [e1]
  exact C19X.idx_spec "/ppt/media".toList "image".toList ext k (by decide) (by decide) he hd

/-! ### the three calls -/

/-- what the public API guarantees its internals -/
def Pre (s : St) : Op → Prop
  | .addSlide pres layout new listed =>
      pres ∈ ids s ∧ layout ∈ ids s ∧ new ∉ ids s ∧ slideName (listed + 1) ∉ names s
  | .addPicture slide (some img) _ _ => slide ∈ ids s ∧ img ∈ ids s
  | .addPicture slide none new ext => slide ∈ ids s ∧ new ∉ ids s ∧ '/' ∉ ext ∧ '.' ∉ ext
  | .addChart slide chart xlsx => slide ∈ ids s ∧ chart ∉ ids s ∧ xlsx ∉ ids s ∧ chart ≠ xlsx
  | .addOle slide ole _ _ (some img) _ _ => slide ∈ ids s ∧ ole ∉ ids s ∧ img ∈ ids s
  | .addOle slide ole _ _ none ni ext => slide ∈ ids s ∧ ole ∉ ids s ∧ ni ∉ ids s ∧ ole ≠ ni ∧ '/' ∉ ext ∧ '.' ∉ ext
  | .addNotes _ slide (some m) _ _ nn => slide ∈ ids s ∧ m ∈ ids s ∧ nn ∉ ids s
  | .addNotes pres slide none nm nt nn =>
      pres ∈ ids s ∧ slide ∈ ids s ∧ pres ≠ slide ∧ nm ∉ ids s ∧ nt ∉ ids s ∧ nn ∉ ids s ∧ nm ≠ nt ∧ nm ≠ nn ∧ nt ≠ nn ∧
      -- the one name the library does not search for: it must be free (it is, unless a notes master is in the package
      -- that the presentation part is not related to)
      masterName ∉ names s

theorem mem_ids_of_mem {s : St} {p : PartRec} (h : p ∈ s) : p.id ∈ ids s := List.mem_map.2 ⟨p, h, rfl⟩

theorem exists_of_mem_ids {s : St} {i : Nat} (h : i ∈ ids s) : ∃ p ∈ s, p.id = i := by
  obtain ⟨p, hp, e⟩ := List.mem_map.1 h; exact ⟨p, hp, e⟩

/-- a relationship to `tgt` under a fresh key, then a reference to it, on an existing part `i` of a state `s1` whose parts
    with identity `i` are those of `s` -/
theorem relate_then_ref (s s1 : St) (hn : (ids s).Nodup) (i tgt : Nat) (rest : List Delta) (k : Nat)
    (hi : i ∈ ids s1) (ht : tgt ∈ ids s1) (hsame : ∀ q ∈ s1, q.id = i → q ∈ s) :
    runD s1 (.addRel i (nextRId s i) (.int tgt) :: .addRef i (nextRId s i) :: rest) k =
      runD (app (app s1 (.addRel i (nextRId s i) (.int tgt))) (.addRef i (nextRId s i))) rest (k + 2) := by
  have w1 : wf s1 (.addRel i (nextRId s i) (.int tgt)) = true := by
    apply wf_addRel s1 i _ tgt hi ht
    intro q hq e
    have hqs := hsame q hq e
    have := nextRId_fresh s hn q hqs
    rw [e] at this; exact this
  rw [runD_cons _ _ _ _ w1]
  have w2 : wf (app s1 (.addRel i (nextRId s i) (.int tgt))) (.addRef i (nextRId s i)) = true := by
    apply wf_addRef
    · rw [ids_addRel]; exact hi
    · intro q hq e
      rcases mem_addRel s1 i _ _ q hq with ⟨_, hne⟩ | ⟨p, _, _, rfl⟩
      · exact absurd e hne
      · simp [keys]
  rw [runD_cons _ _ _ _ w2]


/-! ### keys that are free on a part, through deltas -/

/-- no part with identity `j` holds a relationship under `x` -/
def FreshKey (s : St) (j : Nat) (x : Str) : Prop := ∀ p ∈ s, p.id = j → x ∉ keys p

theorem fresh_new (s : St) (j : Nat) (x : Str) (h : j ∉ ids s) : FreshKey s j x :=
  fun p hp e => absurd (e ▸ mem_ids_of_mem hp) h

theorem fresh_addPart (s : St) (i j : Nat) (n x : Str) (h : FreshKey s j x) : FreshKey (app s (.addPart i n)) j x := by
  intro p hp e
  rcases (mem_addPart s i n p).1 hp with hp' | rfl
  · exact h p hp' e
  · simp [keys]

theorem fresh_addRel (s : St) (i j : Nat) (r x : Str) (t : Tgt) (h : FreshKey s j x) (hne : i = j → x ≠ r) :
    FreshKey (app s (.addRel i r t)) j x := by
  intro p hp e
  rcases mem_addRel s i r t p hp with ⟨hp', _⟩ | ⟨q, hq, hqi, rfl⟩
  · exact h p hp' e
  · have hj : i = j := hqi.symm.trans e
    have := h q hq (hqi.trans hj)
    simp only [keys, List.map_append, List.map_cons, List.map_nil, List.mem_append, List.mem_singleton, not_or]
    exact ⟨this, hne hj⟩

theorem wf_addRelF (s : St) (i : Nat) (rid : Str) (t : Nat) (hi : i ∈ ids s) (ht : t ∈ ids s) (hk : FreshKey s i rid) :
    wf s (.addRel i rid (.int t)) = true := wf_addRel s i rid t hi ht hk

theorem rId1_ne_rId2 : rIdStr 2 ≠ rIdStr 1 := by decide

/-- two names that differ within their first `k` characters, whatever follows -/
theorem append_ne_of_take_ne (a b x y : Str) (k : Nat) (ha : k ≤ a.length) (hb : k ≤ b.length)
    (h : a.take k ≠ b.take k) : a ++ x ≠ b ++ y := by
  intro e
  apply h
  have := congrArg (List.take k) e
  rwa [List.take_append_of_le_length ha, List.take_append_of_le_length hb] at this

theorem nextName_shape (s : St) (pre post : Str) : ∃ n, nextName s pre post = pre ++ (natStr n ++ post) := by
  unfold nextName
  split
  · rename_i n _; exact ⟨n, by simp [List.append_assoc]⟩
  · exact ⟨1, by simp [List.append_assoc]⟩

theorem theme_ne_master (s : St) : nextName s themePre xmlPost ≠ masterName := by
  obtain ⟨n, e⟩ := nextName_shape s themePre xmlPost
  rw [e]
  have : masterName = "/ppt/n".toList ++ "otesMasters/notesMaster1.xml".toList := by decide
  rw [this]
  exact append_ne_of_take_ne _ _ _ _ 6 (by decide) (by decide) (by decide)

theorem notes_ne_master (s : St) : nextName s notesPre xmlPost ≠ masterName := by
  obtain ⟨n, e⟩ := nextName_shape s notesPre xmlPost
  rw [e]
  have : masterName = "/ppt/notesM".toList ++ "asters/notesMaster1.xml".toList := by decide
  rw [this]
  exact append_ne_of_take_ne _ _ _ _ 11 (by decide) (by decide) (by decide)

theorem notes_ne_theme (s : St) : nextName s notesPre xmlPost ≠ nextName s themePre xmlPost := by
  obtain ⟨n, e⟩ := nextName_shape s notesPre xmlPost
  obtain ⟨m, e'⟩ := nextName_shape s themePre xmlPost
  rw [e, e']
  exact append_ne_of_take_ne _ _ _ _ 6 (by decide) (by decide) (by decide)

/-- what `predictPic` needs: the slide is a part; a part said to hold the bytes is a part; a new image part is new and its
    extension is one -/
def PrePic (s : St) (slide : Nat) (existing : Option Nat) (new : Nat) (ext : Str) : Prop :=
  slide ∈ ids s ∧ (∀ img, existing = some img → img ∈ ids s) ∧ (existing = none → new ∉ ids s ∧ '/' ∉ ext ∧ '.' ∉ ext)

theorem predictPic_runs (s : St) (hi : C02.Inv s) (slide : Nat) (existing : Option Nat) (new : Nat) (ext : Str)
    (pre : PrePic s slide existing new ext) : ∃ s', runD s (predictPic s slide existing new ext) 0 = .ok s' := by
  have hn := hi.ids_nodup
  obtain ⟨hs, hex, hnone⟩ := pre
  cases existing with
  | some img =>
    have himg := hex img rfl
    unfold predictPic
    cases hm : matching s slide img with
    | some k =>
      simp only [hm]
      have w : wf s (.addRef slide k) = true := by
        apply wf_addRef s slide k hs
        intro q hq e
        unfold matching at hm
        rw [← e, partOf_eq s hn q hq] at hm
        simp only [Option.bind_some, Option.map_eq_some_iff] at hm
        obtain ⟨a, ha, rfl⟩ := hm
        exact List.mem_map.2 ⟨a, List.mem_of_find?_eq_some ha, rfl⟩
      rw [runD_cons _ _ _ _ w]; exact ⟨_, rfl⟩
    | none =>
      simp only [hm]
      rw [relate_then_ref s s hn slide img [] 0 hs himg (fun q hq _ => hq)]
      exact ⟨_, rfl⟩
  | none =>
    obtain ⟨hnew, he, hd⟩ := hnone rfl
    have hne : slide ≠ new := fun e => hnew (e ▸ hs)
    unfold predictPic
    simp only []
    rw [runD_cons _ _ _ _ (wf_addPart s new _ hnew (imageName_fresh s ext he hd))]
    rw [relate_then_ref s _ hn slide new [] 1]
    · exact ⟨_, rfl⟩
    · rw [ids_addPart]; simp [hs]
    · rw [ids_addPart]; simp
    · intro q hq e
      rcases (mem_addPart s new _ q).1 hq with h | h
      · exact h
      · rw [h] at e; exact absurd e.symm hne

/-- the position counter of `runD` only labels the failing delta -/
theorem runD_shift (s s' : St) (ds : List Delta) (k k' : Nat) (h : runD s ds k = .ok s') : runD s ds k' = .ok s' := by
  induction ds generalizing s k k' with
  | nil => simpa [runD] using h
  | cons d ds ih =>
    simp only [runD] at h ⊢
    split at h
    · rename_i hw; simp only [hw, if_true]; exact ih _ _ _ h
    · cases h

theorem runD_append (s s1 : St) (a b : List Delta) (k : Nat) (h : runD s a k = .ok s1) :
    runD s (a ++ b) k = runD s1 b (k + a.length) := by
  induction a generalizing s k with
  | nil => simp only [runD] at h; cases h; simp
  | cons d a ih =>
    simp only [runD, List.cons_append] at h ⊢
    split at h
    · rename_i hw
      simp only [hw, if_true]
      rw [ih _ _ h]
      simp only [List.length_cons]; congr 1; omega
    · cases h

theorem predict_runs (s : St) (op : Op) (hi : C02.Inv s) (pre : Pre s op) : ∃ s', runD s (predict s op) 0 = .ok s' := by
  have hn := hi.ids_nodup
  cases op with
  | addSlide pres layout new listed =>
    obtain ⟨hp, hl, hnew, hname⟩ := pre
    have hne : pres ≠ new := fun e => hnew (e ▸ hp)
    unfold predict
    simp only []
    rw [runD_cons _ _ _ _ (wf_addPart s new _ hnew hname)]
    have w2 : wf (app s (.addPart new (slideName (listed + 1)))) (.addRel new (rIdStr 1) (.int layout)) = true := by
      apply wf_addRel
      · rw [ids_addPart]; simp
      · rw [ids_addPart]; simp [hl]
      · intro q hq e
        rcases (mem_addPart s new _ q).1 hq with h | h
        · exact absurd (e ▸ mem_ids_of_mem h) hnew
        · rw [h]; simp [keys]
    rw [runD_cons _ _ _ _ w2]
    rw [relate_then_ref s _ hn pres new [] 2]
    · exact ⟨_, rfl⟩
    · rw [ids_addRel, ids_addPart]; simp [hp]
    · rw [ids_addRel, ids_addPart]; simp
    · intro q hq e
      rcases mem_addRel _ new _ _ q hq with ⟨h, _⟩ | ⟨p, _, hpid, rfl⟩
      · rcases (mem_addPart s new _ q).1 h with h | h
        · exact h
        · rw [h] at e; exact absurd e.symm hne
      · exact absurd (e.symm.trans hpid) hne
  | addPicture slide existing new ext =>
    show ∃ s', runD s (predictPic s slide existing new ext) 0 = .ok s'
    cases existing with
    | some img =>
      refine predictPic_runs s hi slide (some img) new ext ⟨pre.1, ?_, ?_⟩
      · intro i h; cases h; exact pre.2
      · intro h; cases h
    | none =>
      refine predictPic_runs s hi slide none new ext ⟨pre.1, ?_, ?_⟩
      · intro i h; cases h
      · intro _; exact ⟨pre.2.1, pre.2.2.1, pre.2.2.2⟩
  | addChart slide chart xlsx =>
    obtain ⟨hs, hc, hx, hcx⟩ := pre
    have hne : slide ≠ chart := fun e => hc (e ▸ hs)
    have hne2 : slide ≠ xlsx := fun e => hx (e ▸ hs)
    unfold predict
    simp only []
    rw [runD_cons _ _ _ _ (wf_addPart s chart _ hc (nextName_fresh s _ _))]
    have w2 : wf (app s (.addPart chart (nextName s "/ppt/charts/chart".toList ".xml".toList)))
        (.addPart xlsx (nextName s "/ppt/embeddings/Microsoft_Excel_Sheet".toList ".xlsx".toList)) = true := by
      apply wf_addPart
      · rw [ids_addPart]; simp only [List.mem_append, List.mem_singleton, not_or]; exact ⟨hx, fun e => hcx e.symm⟩
      · rw [names_addPart]; simp only [List.mem_append, List.mem_singleton, not_or]
        refine ⟨nextName_fresh s _ _, ?_⟩
        -- a workbook name is not a chart name: different directories
        unfold nextName
        obtain ⟨k1, e1, _, _⟩ := C06.nextPartname_fresh "/ppt/embeddings/Microsoft_Excel_Sheet".toList ".xlsx".toList
          ((names s).filter fun n => "/ppt/embeddings/Microsoft_Excel_Sheet".toList.isPrefixOf n)
        obtain ⟨k2, e2, _, _⟩ := C06.nextPartname_fresh "/ppt/charts/chart".toList ".xml".toList
          ((names s).filter fun n => "/ppt/charts/chart".toList.isPrefixOf n)
        simp only [e1, e2]
        intro e
        have a1 : "/ppt/embeddings/Microsoft_Excel_Sheet".toList = "/ppt/e".toList ++ "mbeddings/Microsoft_Excel_Sheet".toList := by decide
        have a2 : "/ppt/charts/chart".toList = "/ppt/c".toList ++ "harts/chart".toList := by decide
        rw [a1, a2, List.append_assoc, List.append_assoc, List.append_assoc, List.append_assoc] at e
        have := (List.append_inj e (by decide)).1
        revert this; decide
    rw [runD_cons _ _ _ _ w2]
    have w3 : wf (app (app s (.addPart chart (nextName s "/ppt/charts/chart".toList ".xml".toList))) (.addPart xlsx (nextName s "/ppt/embeddings/Microsoft_Excel_Sheet".toList ".xlsx".toList))) (.addRel chart (rIdStr 1) (.int xlsx)) = true := by
      apply wf_addRel
      · rw [ids_addPart, ids_addPart]; simp
      · rw [ids_addPart, ids_addPart]; simp
      · intro q hq e
        rcases (mem_addPart _ xlsx _ q).1 hq with h | h
        · rcases (mem_addPart s chart _ q).1 h with h | h
          · exact absurd (e ▸ mem_ids_of_mem h) hc
          · rw [h]; simp [keys]
        · rw [h] at e; exact absurd e.symm hcx
    rw [runD_cons _ _ _ _ w3]
    have w4 : wf (app (app (app s (.addPart chart (nextName s "/ppt/charts/chart".toList ".xml".toList))) (.addPart xlsx (nextName s "/ppt/embeddings/Microsoft_Excel_Sheet".toList ".xlsx".toList))) (.addRel chart (rIdStr 1) (.int xlsx)))
        (.addRef chart (rIdStr 1)) = true := by
      apply wf_addRef
      · rw [ids_addRel, ids_addPart, ids_addPart]; simp
      · intro q hq e
        rcases mem_addRel _ chart _ _ q hq with ⟨_, hne'⟩ | ⟨p, _, _, rfl⟩
        · exact absurd e hne'
        · simp [keys]
    rw [runD_cons _ _ _ _ w4]
    rw [relate_then_ref s _ hn slide chart [] 4]
    · exact ⟨_, rfl⟩
    · rw [ids_addRef, ids_addRel, ids_addPart, ids_addPart]; simp [hs]
    · rw [ids_addRef, ids_addRel, ids_addPart, ids_addPart]; simp
    · intro q hq e
      rcases mem_addRef _ chart _ q hq with ⟨h, _⟩ | ⟨p, _, hpid, rfl⟩
      · rcases mem_addRel _ chart _ _ q h with ⟨h, _⟩ | ⟨p, _, hpid, rfl⟩
        · rcases (mem_addPart _ xlsx _ q).1 h with h | h
          · rcases (mem_addPart s chart _ q).1 h with h | h
            · exact h
            · rw [h] at e; exact absurd e.symm hne
          · rw [h] at e; exact absurd e.symm hne2
        · exact absurd (e.symm.trans hpid) hne
      · exact absurd (e.symm.trans hpid) hne

  | addNotes pres slide master nm nt nn =>
    have fresh_old : ∀ i, i ∈ ids s → FreshKey s i (nextRId s i) := by
      intro i _ p hp e
      have := nextRId_fresh s hn p hp
      rw [e] at this; exact this
    cases master with
    | some m =>
      obtain ⟨hs, hm, hnn⟩ := pre
      have hne : slide ≠ nn := fun e => hnn (e ▸ hs)
      show ∃ s', runD s (predictNotes s pres slide (some m) nm nt nn) 0 = .ok s'
      unfold predictNotes
      simp only []
      rw [runD_cons _ _ _ _ (wf_addPart s nn _ hnn (nextName_fresh s _ _))]
      rw [runD_cons _ _ _ _ (wf_addRelF _ nn _ m (by rw [ids_addPart]; simp) (by rw [ids_addPart]; simp [hm])
        (fresh_addPart _ _ _ _ _ (fresh_new s nn _ hnn)))]
      rw [runD_cons _ _ _ _ (wf_addRelF _ nn _ slide (by rw [ids_addRel, ids_addPart]; simp)
        (by rw [ids_addRel, ids_addPart]; simp [hs])
        (fresh_addRel _ _ _ _ _ _ (fresh_addPart _ _ _ _ _ (fresh_new s nn _ hnn)) (fun _ => rId1_ne_rId2)))]
      rw [runD_cons _ _ _ _ (wf_addRelF _ slide _ nn (by rw [ids_addRel, ids_addRel, ids_addPart]; simp [hs])
        (by rw [ids_addRel, ids_addRel, ids_addPart]; simp)
        (fresh_addRel _ _ _ _ _ _ (fresh_addRel _ _ _ _ _ _ (fresh_addPart _ _ _ _ _ (fresh_old slide hs))
          (fun e => absurd e.symm hne)) (fun e => absurd e.symm hne)))]
      exact ⟨_, rfl⟩
    | none =>
      obtain ⟨hp, hs, hps, hnm, hnt, hnn, d1, d2, d3, hname⟩ := pre
      have e1 : pres ≠ nm := fun e => hnm (e ▸ hp)
      have e2 : pres ≠ nt := fun e => hnt (e ▸ hp)
      have e3 : pres ≠ nn := fun e => hnn (e ▸ hp)
      have f1 : slide ≠ nm := fun e => hnm (e ▸ hs)
      have f2 : slide ≠ nt := fun e => hnt (e ▸ hs)
      have f3 : slide ≠ nn := fun e => hnn (e ▸ hs)
      show ∃ s', runD s (predictNotes s pres slide none nm nt nn) 0 = .ok s'
      unfold predictNotes
      simp only []
      -- the master and its theme
      rw [runD_cons _ _ _ _ (wf_addPart s nm _ hnm hname)]
      rw [runD_cons _ _ _ _ (wf_addPart _ nt _ (by rw [ids_addPart]; simp [hnt, Ne.symm d1])
        (by rw [names_addPart]; simp only [List.mem_append, List.mem_singleton, not_or]
            exact ⟨nextName_fresh s _ _, theme_ne_master s⟩))]
      rw [runD_cons _ _ _ _ (wf_addRelF _ nm _ nt (by rw [ids_addPart, ids_addPart]; simp)
        (by rw [ids_addPart, ids_addPart]; simp)
        (fresh_addPart _ _ _ _ _ (fresh_addPart _ _ _ _ _ (fresh_new s nm _ hnm))))]
      rw [runD_cons _ _ _ _ (wf_addRelF _ pres _ nm (by rw [ids_addRel, ids_addPart, ids_addPart]; simp [hp])
        (by rw [ids_addRel, ids_addPart, ids_addPart]; simp)
        (fresh_addRel _ _ _ _ _ _ (fresh_addPart _ _ _ _ _ (fresh_addPart _ _ _ _ _ (fresh_old pres hp)))
          (fun e => absurd e.symm e1)))]
      -- the notes slide
      rw [runD_cons _ _ _ _ (wf_addPart _ nn _
        (by rw [ids_addRel, ids_addRel, ids_addPart, ids_addPart]; simp [hnn, Ne.symm d2, Ne.symm d3])
        (by rw [names_addRel, names_addRel, names_addPart, names_addPart]
            simp only [List.mem_append, List.mem_singleton, not_or]
            exact ⟨⟨nextName_fresh s _ _, notes_ne_master s⟩, notes_ne_theme s⟩))]
      rw [runD_cons _ _ _ _ (wf_addRelF _ nn _ nm
        (by rw [ids_addPart, ids_addRel, ids_addRel, ids_addPart, ids_addPart]; simp)
        (by rw [ids_addPart, ids_addRel, ids_addRel, ids_addPart, ids_addPart]; simp)
        (fresh_addPart _ _ _ _ _ (fresh_addRel _ _ _ _ _ _ (fresh_addRel _ _ _ _ _ _
          (fresh_addPart _ _ _ _ _ (fresh_addPart _ _ _ _ _ (fresh_new s nn _ hnn)))
          (fun e => absurd e d2)) (fun e => absurd e e3))))]
      rw [runD_cons _ _ _ _ (wf_addRelF _ nn _ slide
        (by rw [ids_addRel, ids_addPart, ids_addRel, ids_addRel, ids_addPart, ids_addPart]; simp)
        (by rw [ids_addRel, ids_addPart, ids_addRel, ids_addRel, ids_addPart, ids_addPart]; simp [hs])
        (fresh_addRel _ _ _ _ _ _ (fresh_addPart _ _ _ _ _ (fresh_addRel _ _ _ _ _ _ (fresh_addRel _ _ _ _ _ _
          (fresh_addPart _ _ _ _ _ (fresh_addPart _ _ _ _ _ (fresh_new s nn _ hnn)))
          (fun e => absurd e d2)) (fun e => absurd e e3))) (fun _ => rId1_ne_rId2)))]
      rw [runD_cons _ _ _ _ (wf_addRelF _ slide _ nn
        (by rw [ids_addRel, ids_addRel, ids_addPart, ids_addRel, ids_addRel, ids_addPart, ids_addPart]; simp [hs])
        (by rw [ids_addRel, ids_addRel, ids_addPart, ids_addRel, ids_addRel, ids_addPart, ids_addPart]; simp)
        (fresh_addRel _ _ _ _ _ _ (fresh_addRel _ _ _ _ _ _ (fresh_addPart _ _ _ _ _ (fresh_addRel _ _ _ _ _ _
          (fresh_addRel _ _ _ _ _ _
          (fresh_addPart _ _ _ _ _ (fresh_addPart _ _ _ _ _ (fresh_old slide hs)))
          (fun e => absurd e.symm f1)) (fun e => absurd e hps))) (fun e => absurd e.symm f3)) (fun e => absurd e.symm f3)))]
      exact ⟨_, rfl⟩

  | addOle slide ole pre' post existing ni ext =>
    have hs : slide ∈ ids s := by cases existing <;> exact pre.1
    have hole : ole ∉ ids s := by cases existing <;> exact pre.2.1
    have hne : slide ≠ ole := fun e => hole (e ▸ hs)
    -- the embedded part, its relationship, the reference to it
    have h1 : ∃ s1, runD s [.addPart ole (nextName s pre' post), .addRel slide (nextRId s slide) (.int ole),
        .addRef slide (nextRId s slide)] 0 = .ok s1 ∧ ids s1 = ids s ++ [ole] := by
      rw [runD_cons _ _ _ _ (wf_addPart s ole _ hole (nextName_fresh s _ _))]
      rw [relate_then_ref s _ hn slide ole [] 1]
      · exact ⟨_, rfl, by rw [ids_addRef, ids_addRel, ids_addPart]⟩
      · rw [ids_addPart]; simp [hs]
      · rw [ids_addPart]; simp
      · intro q hq e
        rcases (mem_addPart s ole _ q).1 hq with h | h
        · exact h
        · rw [h] at e; exact absurd e.symm hne
    obtain ⟨s1, hr1, hids⟩ := h1
    have hi1 : C02.Inv s1 := C02.run_inv _ s s1 0 hi hr1
    have hpic : PrePic s1 slide existing ni ext := by
      refine ⟨by rw [hids]; simp [hs], ?_, ?_⟩
      · intro img e; subst e; rw [hids]; simp [pre.2.2]
      · intro e; subst e
        obtain ⟨_, _, hni, hon, he, hd⟩ := pre
        exact ⟨by rw [hids]; simp [hni, Ne.symm hon], he, hd⟩
    obtain ⟨s2, hr2⟩ := predictPic_runs s1 hi1 slide existing ni ext hpic
    show ∃ s', runD s (predict s (.addOle slide ole pre' post existing ni ext)) 0 = .ok s'
    simp only [predict, hr1]
    rw [runD_append s s1 _ _ 0 hr1]
    exact ⟨s2, runD_shift _ _ _ _ _ hr2⟩

/-! ### names after a call (C15: "stores one media part ... different bytes get different parts with different names") -/

def addedNames : List Delta → List Str
  | [] => []
  | .addPart _ n :: rest => n :: addedNames rest
  | _ :: rest => addedNames rest

def onlyAdds : List Delta → Bool
  | [] => true
  | .addPart .. :: rest => onlyAdds rest
  | .addRel .. :: rest => onlyAdds rest
  | .addRef .. :: rest => onlyAdds rest
  | _ :: _ => false

theorem names_runD (s s' : St) (ds : List Delta) (k : Nat) (ho : onlyAdds ds = true) (h : runD s ds k = .ok s') :
    names s' = names s ++ addedNames ds := by
  induction ds generalizing s k with
  | nil => simp only [runD] at h; cases h; simp [addedNames]
  | cons d ds ih =>
    simp only [runD] at h
    split at h
    · cases d with
      | addPart i n => rw [ih _ _ (by simpa [onlyAdds] using ho) h, names_addPart]; simp [addedNames]
      | addRel i r t => rw [ih _ _ (by simpa [onlyAdds] using ho) h, names_addRel]; simp [addedNames]
      | addRef i r => rw [ih _ _ (by simpa [onlyAdds] using ho) h, names_addRef]; simp [addedNames]
      | rename l => simp [onlyAdds] at ho
      | retarget i r t => simp [onlyAdds] at ho
      | dropRef i r => simp [onlyAdds] at ho
      | dropRel i r => simp [onlyAdds] at ho
      | dropParts is => simp [onlyAdds] at ho
    · cases h

/-- **a picture whose bytes a part already holds adds no part; other bytes add exactly one part, under a name no part had** -/
theorem picture_names (s s' : St) (slide : Nat) (existing : Option Nat) (new : Nat) (ext : Str)
    (he : '/' ∉ ext) (hd : '.' ∉ ext) (h : step s (.addPicture slide existing new ext) = some s') :
    (existing ≠ none → names s' = names s) ∧
    (existing = none → names s' = names s ++ [imageName s ext] ∧ imageName s ext ∉ names s) := by
  unfold step at h
  split at h
  · rename_i s'' hr
    cases h
    constructor
    · intro hex
      cases existing with
      | none => exact absurd rfl hex
      | some img =>
        simp only [predict, predictPic] at hr
        cases hm : matching s slide img with
        | some k => simp only [hm] at hr; simpa [addedNames] using names_runD s s' _ 0 (by simp [onlyAdds]) hr
        | none => simp only [hm] at hr; simpa [addedNames] using names_runD s s' _ 0 (by simp [onlyAdds]) hr
    · intro hex; subst hex
      simp only [predict, predictPic] at hr
      exact ⟨by simpa [addedNames] using names_runD s s' _ 0 (by simp [onlyAdds]) hr, imageName_fresh s ext he hd⟩
  · cases h

/-- the one precondition of `addNotes` that is not discharged from the code: `create_default` does not search for a free
    name.  With a notes master in the package that the presentation part is NOT related to (a notes slide relates it; other
    producers' decks), the call is predicted ill-formed - the point excluded is a state of the real library too (see the
    harness: `notes-master-name-taken`) -/
theorem notes_fixed_name_collides :
    step [⟨1, "/ppt/presentation.xml".toList, [("rId1".toList, .int 2)], ["rId1".toList]⟩, ⟨2, "/ppt/slides/slide1.xml".toList, [], []⟩,
          ⟨3, masterName, [], []⟩] (.addNotes 1 2 none 4 5 6) = none := by decide

/-- **the call goes through and leaves the package graph closed** -/
theorem predict_ok (s : St) (op : Op) (hi : C02.Inv s) (pre : Pre s op) :
    ∃ s', step s op = some s' ∧ C02.Inv s' := by
  obtain ⟨s', h⟩ := predict_runs s op hi pre
  refine ⟨s', by simp [step, h], C02.run_inv _ s s' 0 hi h⟩

/-- a history of calls, each meeting its precondition in the state it finds -/
inductive Runs : St → List Op → St → Prop
  | nil (s : St) : Runs s [] s
  | cons (s s' s'' : St) (op : Op) (ops : List Op) : Pre s op → step s op = some s' → Runs s' ops s'' → Runs s (op :: ops) s''

/-- any such history keeps the package graph closed -/
theorem runs_inv (s s' : St) (ops : List Op) (h : Runs s ops s') (hi : C02.Inv s) : C02.Inv s' := by
  induction h with
  | nil _ => exact hi
  | cons s s1 s2 op ops pre hstep _ ih =>
    obtain ⟨t, ht, hinv⟩ := predict_ok s op hi pre
    rw [hstep] at ht
    cases ht
    exact ih hinv

/-! ### non-vacuity: the default deck in miniature, a slide added, a picture twice, a chart -/

def mini : St :=
  [{ id := 0, name := ['/'], rels := [("rId1".toList, .int 1)], refs := [] },
   { id := 1, name := "/ppt/presentation.xml".toList, rels := [("rId1".toList, .int 2), ("rId7".toList, .int 3)], refs := ["rId1".toList, "rId7".toList] },
   { id := 2, name := "/ppt/slideLayouts/slideLayout1.xml".toList, rels := [], refs := [] },
   { id := 3, name := "/ppt/slides/slide1.xml".toList, rels := [("rId1".toList, .int 2)], refs := [] },
   { id := 4, name := "/ppt/media/image2.png".toList, rels := [], refs := [] }]

example : invB mini = true := by decide
example : ((step mini (.addSlide 1 2 9 1)).map fun s => (names s).map String.ofList) =
    some ["/", "/ppt/presentation.xml", "/ppt/slideLayouts/slideLayout1.xml", "/ppt/slides/slide1.xml", "/ppt/media/image2.png",
          "/ppt/slides/slide2.xml"] := by decide
example : ((step mini (.addPicture 3 none 9 "jpg".toList)).map fun s => ((names s).getLast?.map String.ofList, (partOf s 3).map fun p => p.rels.map fun e => String.ofList e.1)) =
    some (some "/ppt/media/image1.jpg", some ["rId1", "rId2"]) := by decide
example : ((step mini (.addChart 3 8 9)).map fun s => (names s).drop 5 |>.map String.ofList) =
    some ["/ppt/charts/chart1.xml", "/ppt/embeddings/Microsoft_Excel_Sheet1.xlsx"] := by decide

end Pptx.PkgOps
