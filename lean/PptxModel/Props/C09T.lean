/-
  C09 — `TextFrame.auto_size`: theorems over `Model/Autofit`, for ANY autofit children to start from (several, of several kinds).
-/
import PptxModel.Model.Autofit
namespace Pptx.Autofit

/-- a member reads back, whatever the children were -/
theorem read_after_member (s : St) (k : Kind) : (step s (.member k)).2 = true ∧ read (step s (.member k)).1 = some k := by
  cases k <;> simp [step, read, has]

/-- None restores inheritance -/
theorem read_after_none (s : St) : (step s .none).2 = true ∧ read (step s .none).1 = none := by
  simp [step, read, has]

/-- refused exactly for a value that is neither; nothing changes then -/
theorem refused_iff (s : St) (v : Val) : (step s v).2 = false ↔ v = .other := by
  cases v <;> simp [step]

theorem refused_unchanged (s : St) : (step s .other).1 = s := rfl

/-- after an accepted assignment at most one autofit child is left (several in the file are repaired), and it is bare -/
theorem one_child (s : St) (v : Val) (h : (step s v).2 = true) :
    (step s v).1.length ≤ 1 ∧ ∀ e ∈ (step s v).1, e.scale = none ∧ e.reduc = none := by
  cases v <;> simp_all [step]

theorem step_read (s : St) (v : Val) : read (step s v).1 = last (read s) [v] := by
  cases v with
  | none => simp [step, read, has, last]
  | member k => cases k <;> simp [step, read, has, last]
  | other => simp [step, last]

/-- ANY history: `auto_size` reads the last accepted value, the start's reading without one -/
theorem run_read (s : St) (vs : List Val) : read (run s vs) = last (read s) vs := by
  induction vs generalizing s with
  | nil => rfl
  | cons v rest ih =>
    rw [run, ih, step_read]
    cases v <;> simp [last]

example : read [⟨.sp, none, none⟩, ⟨.norm, some 62500, some 20000⟩, ⟨.no, none, none⟩] = some .no := by decide
example : read (run [⟨.sp, none, none⟩, ⟨.norm, some 62500, none⟩] [.other, .member .sp, .other]) = some .sp := by decide

end Pptx.Autofit
