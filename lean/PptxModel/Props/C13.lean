/-
  C13 — a new slide mirrors its layout's placeholders.  Model: `Model/Placeholder.lean`.
-/
import PptxModel.Model.Placeholder
import PptxModel.Props.C06
namespace Pptx.C13
open Pptx Pptx.Placeholder

theorem searchUp_some (free : Nat → Bool) (n fuel k : Nat) (h : searchUp free n fuel = some k) :
    free k = true ∧ n ≤ k ∧ k < n + fuel := by
  induction fuel generalizing n with
  | zero => simp [searchUp] at h
  | succ f ih =>
    simp only [searchUp] at h
    split at h
    · rename_i hf; injection h with h; subst h; exact ⟨hf, Nat.le_refl _, by omega⟩
    · obtain ⟨a, b, c⟩ := ih (n + 1) h; exact ⟨a, by omega, by omega⟩

theorem searchUp_none (free : Nat → Bool) (n fuel : Nat) (h : searchUp free n fuel = none) :
    ∀ k, n ≤ k → k < n + fuel → free k = false := by
  induction fuel generalizing n with
  | zero => intro k h1 h2; omega
  | succ f ih =>
    simp only [searchUp] at h
    split at h
    · cases h
    · rename_i hf
      intro k h1 h2
      by_cases e : k = n
      · subst e; simpa using hf
      · exact ih (n + 1) h k (by omega) (by omega)

theorem phName_inj (base : Str) (m n : Nat) (h : phName base m = phName base n) : m = n := by
  simp only [phName] at h
  have := List.append_cancel_left h
  injection this with _ h2
  exact C06.natStr_inj h2

/-- **A unique name is always found** (the `while True` loop terminates) and it is unused in the
    part, whatever names exist already (duplicates, names that look like placeholder names …). -/
theorem nextPhName_fresh (base : Str) (id : Nat) (names : List Str) :
    ∃ nm, nextPhName base id names = some nm ∧ nm ∉ names := by
  simp only [nextPhName]
  cases h : searchUp (fun n => !(names.contains (phName base n))) (id - 1) (names.length + 1) with
  | some k =>
    obtain ⟨a, _, _⟩ := searchUp_some _ _ _ _ h
    exact ⟨phName base k, rfl, by simpa using a⟩
  | none =>
    exfalso
    have hall := searchUp_none _ _ _ h
    let cands := (List.range' (id - 1) (names.length + 1)).map (phName base)
    have hnd : cands.Nodup :=
      List.Pairwise.map (phName base) (fun a b hab e => hab (phName_inj base a b e))
        (List.nodup_range' (s := id - 1) (n := names.length + 1))
    have hsub : cands ⊆ names := by
      intro s hs
      obtain ⟨i, hi, e⟩ := List.mem_map.mp hs
      simp [List.mem_range'_1] at hi
      have := hall i (by omega) (by omega)
      subst e; simpa using this
    have := List.Nodup.length_le_of_subset hnd hsub
    simp only [cands, List.length_map, List.length_range'] at this
    omega

structure Inv (s : SlideSt) : Prop where
  ids_nodup : s.ids.Nodup
  names_nodup : s.names.Nodup
  ph_ids : ∀ p ∈ s.phs, p.id ∈ s.ids
  ph_names : ∀ p ∈ s.phs, p.name ∈ s.names

/-- one clone: same key appended last, fresh positive id, fresh name, everything else untouched -/
theorem clone_spec (bn : Str → Option Str) (s s' : SlideSt) (k : Key) (inv : Inv s)
    (h : clone bn s k = some s') :
    Inv s' ∧ s'.phs.map (·.key) = s.phs.map (·.key) ++ [k] ∧
      (∃ p, s'.phs = s.phs ++ [p] ∧ p.id ∉ s.ids ∧ 0 < p.id ∧ p.name ∉ s.names) := by
  unfold clone at h
  cases hb : bn k.ty with
  | none => simp [hb] at h
  | some base =>
    simp only [hb] at h
    cases hn : nextPhName (fullBase base k.vert) (Ids.maxIdPlus1 s.ids) s.names with
    | none => simp [hn] at h
    | some name =>
      simp only [hn, Option.some.injEq] at h
      subst h
      obtain ⟨nm, e, hfresh⟩ := nextPhName_fresh (fullBase base k.vert) (Ids.maxIdPlus1 s.ids) s.names
      rw [hn] at e; injection e with e; subst e
      have hid := C06.maxIdPlus1_fresh s.ids
      refine ⟨⟨?_, ?_, ?_, ?_⟩, by simp, ⟨_, rfl, hid.1, hid.2, hfresh⟩⟩
      · exact List.nodup_cons.mpr ⟨hid.1, inv.ids_nodup⟩
      · rw [List.nodup_append]
        exact ⟨inv.names_nodup, by simp, by intro a ha b hb; simp at hb; subst hb; intro e; subst e; exact hfresh ha⟩
      · intro p hp
        rcases List.mem_append.mp hp with h1 | h1
        · exact List.mem_cons_of_mem _ (inv.ph_ids p h1)
        · simp at h1; subst h1; simp
      · intro p hp
        rcases List.mem_append.mp hp with h1 | h1
        · exact List.mem_append_left _ (inv.ph_names p h1)
        · simp at h1; subst h1; simp

/-- **The new slide mirrors the layout**: after cloning a list of layout placeholders the slide's
    placeholders are, in order, the ones it had followed by exactly one per layout placeholder
    with the same type, idx, orientation and size; ids and names in the part stay pairwise
    distinct; existing placeholders are untouched.  Any layout, any population (duplicate types,
    missing idx, vertical), any prior slide content. -/
theorem cloneAll_mirror (bn : Str → Option Str) (ks : List Key) (s s' : SlideSt) (inv : Inv s)
    (h : cloneAll bn s ks = some s') :
    Inv s' ∧ s'.phs.map (·.key) = s.phs.map (·.key) ++ ks ∧ ∃ added, s'.phs = s.phs ++ added := by
  induction ks generalizing s with
  | nil => simp [cloneAll] at h; subst h; exact ⟨inv, by simp, [], by simp⟩
  | cons k rest ih =>
    simp only [cloneAll] at h
    cases hc : clone bn s k with
    | none => simp [hc] at h
    | some s1 =>
      simp only [hc] at h
      obtain ⟨i1, m1, p, hp, _⟩ := clone_spec bn s s1 k inv hc
      obtain ⟨i2, m2, added, ha⟩ := ih s1 i1 h
      refine ⟨i2, by rw [m2, m1]; simp, p :: added, by rw [ha, hp]; simp⟩

/-- cloning fails only for a placeholder type the basename table does not know -/
theorem clone_fails_iff (bn : Str → Option Str) (s : SlideSt) (k : Key) :
    clone bn s k = none ↔ bn k.ty = none := by
  constructor
  · intro h
    cases hb : bn k.ty with
    | none => rfl
    | some base =>
      exfalso
      unfold clone at h
      simp only [hb] at h
      obtain ⟨nm, e, _⟩ := nextPhName_fresh (fullBase base k.vert) (Ids.maxIdPlus1 s.ids) s.names
      simp [e] at h
  · intro h; unfold clone; simp [h]

/-- inherited geometry: the slide placeholder's own value wins, else the layout's, else the master's -/
theorem effective_spec (own layout master : Option Int) :
    (own.isSome → effective own layout master = own) ∧
    (own = none → layout.isSome → effective own layout master = layout) ∧
    (own = none → layout = none → effective own layout master = master) := by
  refine ⟨?_, ?_, ?_⟩
  · intro h; cases own <;> simp_all [effective]
  · intro h1 h2; subst h1; cases layout <;> simp_all [effective]
  · intro h1 h2; subst h1; subst h2; rfl

/-- the chain slide -> layout (same idx, first in document order) -> master (mapped type, first in document order)
    is `effective` applied to the three own values; in particular an own value of 0 is a value, not "absent" -/
theorem reported_spec (own : Option Int) (idx : Nat) (lay : List (Nat × Str × Option Int)) (mas : List (Str × Option Int)) :
    (∀ v, own = some v → reported own idx lay mas = some v) ∧
    (own = none → ∀ ty lv, firstWith (fun e => e.1 == idx) lay = some (idx, ty, lv) →
      (∀ v, lv = some v → reported own idx lay mas = some v) ∧
      (lv = none → ∀ mt mv, masterType ty = some mt → firstWith (fun e => e.1 == mt) mas = some (mt, mv) →
        reported own idx lay mas = mv)) := by
  refine ⟨?_, ?_⟩
  · intro v h; subst h; rfl
  · intro h ty lv hl; subst h
    refine ⟨?_, ?_⟩
    · intro v hv; subst hv; simp [reported, hl]
    · intro hv mt mv hm hf; subst hv; simp [reported, hl, hm, hf]

/-- every placeholder type a slide layout can hold, except header and slide image, has a master counterpart, and the
    counterpart is one of the five placeholder kinds a slide master has -/
theorem masterType_total :
    ∀ ty ∈ ["title", "body", "ctrTitle", "subTitle", "dt", "sldNum", "ftr", "obj", "chart", "tbl", "clipArt", "dgm", "media", "pic"],
      ∃ mt ∈ ["title", "body", "dt", "ftr", "sldNum"], masterType ty.toList = some mt.toList := by decide

/-! ### "until overridden", one dimension at a time -/

/-- **Assigning one dimension changes that reading and no other**: afterwards the assigned dimension reads the value,
    and each of the other three reads what it read before — its own value, or the inherited one — the only exception
    being the partner of a pair that so far reported NOTHING (no own element, nothing inherited), which necessarily
    becomes 0 because `a:off` / `a:ext` hold two values. For every own geometry, inherited geometry, dimension and value. -/
theorem setDim_spec (o : OwnGeom) (i : Inh) (d : Dim) (v : Int) :
    readDim (setDim o i d v) i d = some v ∧
    ∀ e, e ≠ d → (readDim (setDim o i d v) i e = readDim o i e ∨
      (readDim o i e = none ∧ readDim (setDim o i d v) i e = some 0)) := by
  obtain ⟨off, ext⟩ := o
  obtain ⟨il, it, iw, ih⟩ := i
  refine ⟨?_, ?_⟩
  · cases d <;> simp [setDim, readDim]
  · intro e he
    cases d <;> cases e <;> simp_all [setDim, readDim] <;>
      (first | (cases off <;> simp_all <;> (try (cases it <;> simp_all)) <;> (try (cases il <;> simp_all)))
             | (cases ext <;> simp_all <;> (try (cases ih <;> simp_all)) <;> (try (cases iw <;> simp_all))))

/-- the last value assigned to a dimension in a history, if any -/
def lastDim : List (Dim × Int) → Dim → Option Int
  | [], _ => none
  | op :: rest, d => match lastDim rest d with
    | some v => some v
    | none => if op.1 = d then some op.2 else none

/-- **Any history of single-dimension assignments**: when the placeholder reported all four values before (the normal
    case: the layout or master gives the geometry), afterwards each dimension reads the last value assigned to it, or
    what it read at the start when it was never assigned. By induction over the history. -/
theorem runDims_spec (ops : List (Dim × Int)) (o : OwnGeom) (i : Inh)
    (hall : ∀ e, (readDim o i e).isSome = true) (d : Dim) :
    readDim (runDims o i ops) i d = (match lastDim ops d with | some v => some v | none => readDim o i d) := by
  induction ops generalizing o with
  | nil => simp [runDims, lastDim]
  | cons op rest ih =>
    have hrun : runDims o i (op :: rest) = runDims (setDim o i op.1 op.2) i rest := by simp [runDims]
    obtain ⟨hself, hother⟩ := setDim_spec o i op.1 op.2
    have hall' : ∀ e, (readDim (setDim o i op.1 op.2) i e).isSome = true := by
      intro e
      by_cases he : e = op.1
      · subst he; simp [hself]
      · rcases hother e he with h | ⟨_, h⟩
        · rw [h]; exact hall e
        · simp [h]
    rw [hrun, ih (setDim o i op.1 op.2) hall']
    simp only [lastDim]
    cases hl : lastDim rest d with
    | some v => rfl
    | none =>
      by_cases hd : op.1 = d
      · subst hd; simp [hself]
      · simp only [hd, if_false]
        rcases hother d (fun h => hd h.symm) with h | ⟨h, _⟩
        · exact h
        · have := hall d; rw [h] at this; simp at this

example : readDim (setDim ⟨none, none⟩ ⟨some 10, some 20, some 30, some 40⟩ .left 7) ⟨some 10, some 20, some 30, some 40⟩ .top = some 20 := by decide
example : readDim (runDims ⟨none, none⟩ ⟨some 10, some 20, some 30, some 40⟩ [(.width, 5), (.left, 7), (.width, 6)])
    ⟨some 10, some 20, some 30, some 40⟩ .height = some 40 := by decide

example : reported none 3 [(3, "subTitle".toList, none)] [("title".toList, some 1), ("body".toList, some 0)] = some 0 := by decide

example : nextPhName "Title".toList 3 ["Title 2".toList, "Title 3".toList] = some "Title 4".toList := by decide

end Pptx.C13
