/-
  C06 — "slide ids are unique, lie in 256..2147483647": `CT_SlideIdList._next_id` at FULL strength.

  `nextSlideId_fresh`: for every population of pairwise distinct slide ids inside 256..2147483647 that does not already
  use up the whole range, `_next_id` delivers an id (the `StopIteration` branch is unreachable), the id is not in use and
  lies in the range - on the common path (max + 1) AND on the fallback path (an id already sits at the schema maximum:
  first gap from 256 upwards over the SORTED ids).  This replaces `nextSlideId_fallback_partial`, which was stated on an
  already sorted list and assumed the search succeeds.

  `nextSlideId_stops`: what the excluded inputs do - an id above the schema maximum (not a valid document) next to a
  gap-free run from 256 makes the generator raise.
-/
import PptxModel.Props.C06
namespace Pptx.C06S
open Pptx Pptx.Ids Pptx.C06

theorem length_insertSorted (x : Nat) (l : List Nat) : (insertSorted x l).length = l.length + 1 := by
  induction l with
  | nil => simp [insertSorted]
  | cons y ys ih => simp only [insertSorted]; split <;> simp [ih]

theorem length_sortNat (l : List Nat) : (sortNat l).length = l.length := by
  induction l with
  | nil => simp [sortNat]
  | cons x t ih =>
    have : sortNat (x :: t) = insertSorted x (sortNat t) := rfl
    rw [this, length_insertSorted, ih]; simp

theorem strict_insertSorted (x : Nat) (l : List Nat) (h : l.Pairwise (· < ·)) (hx : x ∉ l) :
    (insertSorted x l).Pairwise (· < ·) := by
  induction l with
  | nil => simp [insertSorted]
  | cons y ys ih =>
    rw [List.pairwise_cons] at h
    have hxy : x ≠ y := by intro e; apply hx; simp [e]
    have hxs : x ∉ ys := by intro e; apply hx; simp [e]
    simp only [insertSorted]; split
    · rename_i hle
      rw [List.pairwise_cons]
      refine ⟨?_, List.pairwise_cons.2 h⟩
      intro z hz
      rcases List.mem_cons.1 hz with e | e
      · subst e; omega
      · have := h.1 z e; omega
    · rename_i hle
      rw [List.pairwise_cons]
      refine ⟨?_, ih h.2 hxs⟩
      intro z hz
      rcases (mem_insertSorted x z ys).1 hz with e | e
      · subst e; omega
      · exact h.1 z e

/-- Python's `sorted` of pairwise distinct numbers is strictly increasing -/
theorem strict_sortNat (l : List Nat) (hn : l.Nodup) : (sortNat l).Pairwise (· < ·) := by
  induction l with
  | nil => simp [sortNat]
  | cons x t ih =>
    rw [List.nodup_cons] at hn
    have : sortNat (x :: t) = insertSorted x (sortNat t) := rfl
    rw [this]
    exact strict_insertSorted x _ (ih hn.2) (fun h => hn.1 ((mem_sortNat x t).1 h))

/-- the search finds nothing only when the list is the gap-free run `start, start+1, …` -/
theorem firstMismatch_none (l : List Nat) (start : Nat) (h : firstMismatch start l = none) :
    ∀ a ∈ l, a < start + l.length := by
  induction l generalizing start with
  | nil => simp
  | cons u rest ih =>
    simp only [firstMismatch] at h
    split at h
    · simp at h
    · rename_i he
      have he : start = u := by simpa using he
      intro a ha
      rcases List.mem_cons.1 ha with e | e
      · subst e; simp only [List.length_cons]; omega
      · have := ih (start + 1) h a e; simp only [List.length_cons]; omega

theorem foldl_max_mem (l : List Nat) (i : Nat) : l.foldl max i = i ∨ l.foldl max i ∈ l := by
  induction l generalizing i with
  | nil => simp
  | cons x t ih =>
    simp only [List.foldl_cons]
    rcases ih (max i x) with e | e
    · rw [e]; by_cases hx : i ≤ x
      · right; simp [Nat.max_eq_right hx]
      · left; exact Nat.max_eq_left (by omega)
    · right; exact List.mem_cons_of_mem _ e

theorem filter_all (l : List Nat) (h : ∀ a ∈ l, MIN_SLIDE_ID ≤ a ∧ a ≤ MAX_SLIDE_ID) :
    (l.filter fun i => MIN_SLIDE_ID ≤ i ∧ i ≤ MAX_SLIDE_ID) = l := by
  apply List.filter_eq_self.2
  intro a ha; simpa using h a ha

/-- **slide ids, both paths**: a new id is delivered, it is not in use and it lies in 256..2147483647 -/
theorem nextSlideId_fresh (used : List Nat) (hn : used.Nodup)
    (hr : ∀ a ∈ used, MIN_SLIDE_ID ≤ a ∧ a ≤ MAX_SLIDE_ID)
    (hlen : used.length < MAX_SLIDE_ID - MIN_SLIDE_ID + 1) :
    ∃ r, nextSlideId used = some r ∧ r ∉ used ∧ MIN_SLIDE_ID ≤ r ∧ r ≤ MAX_SLIDE_ID := by
  by_cases hmax : ∀ a ∈ used, a < MAX_SLIDE_ID
  · exact nextSlideId_simple used hmax
  · -- some id sits at the maximum: the fallback path
    have hex : ∃ a ∈ used, a = MAX_SLIDE_ID := by
      apply Classical.byContradiction
      intro hno
      apply hmax
      intro a ha
      have := (hr a ha).2
      have hne : a ≠ MAX_SLIDE_ID := fun e => hno ⟨a, ha, e⟩
      omega
    obtain ⟨m, hm, hmM⟩ := hex
    have hsimple : ¬ (maxL ((MIN_SLIDE_ID - 1) :: used) + 1 ≤ MAX_SLIDE_ID) := by
      have := le_maxL ((MIN_SLIDE_ID - 1) :: used) m (by simp [hm])
      omega
    unfold nextSlideId
    simp only [hsimple, if_false, filter_all used hr]
    have hne : sortNat used ≠ [] := by
      intro e; have := (mem_sortNat m used).2 hm; rw [e] at this; simp at this
    simp only [hne, if_false]
    have hs := strict_sortNat used hn
    have hge : ∀ a ∈ sortNat used, MIN_SLIDE_ID ≤ a := fun a ha => (hr a ((mem_sortNat a used).1 ha)).1
    cases hfm : firstMismatch MIN_SLIDE_ID (sortNat used) with
    | none =>
      exfalso
      have := firstMismatch_none _ _ hfm m ((mem_sortNat m used).2 hm)
      rw [length_sortNat] at this
      simp only [MIN_SLIDE_ID, MAX_SLIDE_ID] at *
      omega
    | some c =>
      obtain ⟨h1, h2, h3⟩ := firstMismatch_spec (sortNat used) MIN_SLIDE_ID c hs hge hfm
      rw [length_sortNat] at h3
      refine ⟨c, rfl, fun hc => h1 ((mem_sortNat c used).2 hc), h2, ?_⟩
      -- c ≤ 256 + length ≤ MAX + 1; and c is not MAX + 1 because c is below some element or ... use: c ∉ used, m = MAX ∈ used
      by_cases hcm : c ≤ MAX_SLIDE_ID
      · exact hcm
      · exfalso
        simp only [MIN_SLIDE_ID, MAX_SLIDE_ID] at *
        omega

/-- the excluded input: an id above the schema maximum beside a gap-free run from 256 - the generator is exhausted -/
theorem nextSlideId_stops : nextSlideId [256, 257, 4294967295] = none := by decide

example : nextSlideId [256, 2147483647] = some 257 := by decide
example : nextSlideId [2147483647, 256, 257, 300] = some 258 := by decide

end Pptx.C06S
