/-
  C09 — paragraph spacing: theorems over `Model/Spacing`, for ANY state to start from (no `a:pPr`, elements holding both
  children or neither) and any history of assignments.
-/
import PptxModel.Model.Spacing
namespace Pptx.Spacing

/-- a paragraph without `a:pPr` has no spacing elements -/
def St.ok (s : St) : Prop := s.hasPPr = false → s.ln = none ∧ s.bef = none ∧ s.aft = none

theorem step_ok (s : St) (op : Op) : (step s op).1.ok := by
  intro h
  rcases op with ⟨w, v⟩
  unfold step at h
  split at h <;> cases w <;> simp [setSlot] at h

theorem read_setSlot_self (s : St) (w : Which) (v : Val) :
    read (setSlot { s with hasPPr := true } w (newSlot w v)) w = stored w v := by
  cases w <;> cases v <;> simp [read, setSlot, newSlot, stored, readLn, readPts]

/-- an accepted assignment reads back as its stored form, whatever the element held before (both children, neither) -/
theorem read_after_set (s : St) (op : Op) (h : accepts op.which op.val = true) :
    (step s op).2 = .ok ∧ read (step s op).1 op.which = stored op.which op.val := by
  simp only [step, h, if_true, true_and]
  exact read_setSlot_self s op.which op.val

/-- None restores inheritance, always accepted, for every one of the three -/
theorem read_after_none (s : St) (w : Which) :
    (step s ⟨w, .none⟩).2 = .ok ∧ read (step s ⟨w, .none⟩).1 w = .none := by
  have := read_after_set s ⟨w, .none⟩ (by cases w <;> rfl)
  simpa [stored] using this

/-- refused exactly outside the domain; a refused assignment changes no reading (it does leave an empty `a:pPr`) -/
theorem refused_iff (s : St) (op : Op) : (step s op).2 = .valueError ↔ accepts op.which op.val = false := by
  unfold step; split <;> simp_all

theorem refused_unchanged (s : St) (hs : s.ok) (op : Op) (h : accepts op.which op.val = false) (w : Which) :
    read (step s op).1 w = read s w := by
  simp only [step, h, Bool.false_eq_true, if_false]
  cases hp : s.hasPPr
  · obtain ⟨h1, h2, h3⟩ := hs hp
    cases w <;> simp [read, hp, h1, h2, h3, readLn, readPts]
  · cases w <;> simp [read, hp]

/-- the domain, spelt out -/
theorem accepts_emu (w : Which) (e : Int) : accepts w (.emu e) = true ↔ 0 ≤ e ∧ e ≤ 20116800 := by
  cases w <;> (simp only [accepts, maxEmu]; exact decide_eq_true_iff)

theorem accepts_lines (n : Int) : accepts .ln (.lines n) = true ↔ 0 ≤ n ∧ n ≤ 13200000 := by
  simp only [accepts, maxLines]; exact decide_eq_true_iff

/-- independence: an assignment to one of the three leaves the other two readings -/
theorem read_other (s : St) (hs : s.ok) (op : Op) (w : Which) (hw : w ≠ op.which) :
    read (step s op).1 w = read s w := by
  by_cases h : accepts op.which op.val = true
  · simp only [step, h, if_true]
    cases hp : s.hasPPr
    · obtain ⟨h1, h2, h3⟩ := hs hp
      cases w <;> cases hq : op.which <;> simp_all [read, setSlot, readLn, readPts]
    · cases w <;> cases hq : op.which <;> simp_all [read, setSlot]
  · exact refused_unchanged s hs op (by simpa using h) w

/-- the storage quantum of a Length: what reads back is at most the value and less than a centipoint (127 EMU) below -/
theorem emu_quantum (e : Int) (h : 0 ≤ e) : ((e / 127).toNat * 127 : Int) ≤ e ∧ e - ((e / 127).toNat * 127 : Int) < 127 := by
  have : ((e / 127).toNat : Int) = e / 127 := Int.toNat_of_nonneg (by omega)
  omega

/-- a value that is a whole number of centipoints reads back exactly -/
theorem emu_exact (c : Nat) : ((((c : Int) * 127) / 127).toNat * 127 : Int) = (c : Int) * 127 := by
  have : ((c : Int) * 127) / 127 = c := by omega
  rw [this]; simp

/-- after an accepted assignment the element holds exactly one child: a state with both (or neither) is repaired -/
theorem slot_wf_after_set (s : St) (op : Op) (h : accepts op.which op.val = true) :
    ∀ sl, slotOf (step s op).1 op.which = some sl → sl.wf = true := by
  rcases op with ⟨w, v⟩
  intro sl
  simp only [step, h, if_true]
  cases w <;> cases v <;> simp [slotOf, setSlot, newSlot] <;> (intro h'; subst h'; rfl)

theorem step_read (s : St) (hs : s.ok) (op : Op) (w : Which) :
    read (step s op).1 w = if op.which = w ∧ accepts op.which op.val then stored op.which op.val else read s w := by
  by_cases hw : op.which = w
  · subst hw
    by_cases h : accepts op.which op.val = true
    · simp [h, (read_after_set s op h).2]
    · have h' : accepts op.which op.val = false := by simpa using h
      simp [h', refused_unchanged s hs op h']
  · simp only [hw, false_and, if_false]
    exact read_other s hs op w (Ne.symm hw)

theorem run_ok (s : St) (hs : s.ok) (ops : List Op) : (run s ops).ok := by
  induction ops generalizing s with
  | nil => exact hs
  | cons op rest ih => exact ih _ (step_ok s op)

/-- ANY history: each of the three reads the last accepted value assigned to it, as stored; what it read at the start when
    there was none -/
theorem run_read (s : St) (hs : s.ok) (ops : List Op) (w : Which) :
    read (run s ops) w = lastStored w (read s w) ops := by
  induction ops generalizing s with
  | nil => rfl
  | cons op rest ih =>
    simp only [run, lastStored]
    rw [ih _ (step_ok s op), step_read s hs op w]

/-- the hypotheses are met by a state the library never writes, and the claims are not trivial there -/
example : (⟨true, some ⟨some 150000, some 1200⟩, none, some ⟨none, none⟩⟩ : St).ok := by intro h; simp at h
example : read (run ⟨true, some ⟨some 150000, some 1200⟩, none, some ⟨none, none⟩⟩
    [⟨.ln, .lines 175000⟩, ⟨.bef, .emu 76200⟩, ⟨.ln, .emu (-1)⟩, ⟨.aft, .none⟩]) .ln = .lines 175000 := by decide
example : read ⟨true, some ⟨none, none⟩, none, none⟩ .ln = .attrError := by decide
example : read (run ⟨false, none, none, none⟩ [⟨.bef, .emu 76263⟩]) .bef = .emu 76200 := by decide

end Pptx.Spacing
