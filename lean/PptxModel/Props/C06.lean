/-
  C06 — shape ids, slide ids, relationship ids and part names are unique and stable.
  Model: `Model/Ids.lean`.  Every statement is for arbitrary pre-existing id populations
  (gaps, huge ids, duplicates where stated).
-/
import PptxModel.Model.Ids
import PptxModel.Props.C02
import Std.Data.String.ToNat
namespace Pptx.C06
open Pptx Pptx.Ids

theorem foldl_max_ge (l : List Nat) (i : Nat) : i ≤ l.foldl max i := by
  induction l generalizing i with
  | nil => simp
  | cons x t ih => have := ih (max i x); simp only [List.foldl_cons]; omega

theorem le_foldl_max (l : List Nat) (i a : Nat) (h : a ∈ l) : a ≤ l.foldl max i := by
  induction l generalizing i with
  | nil => cases h
  | cons x t ih =>
    simp only [List.foldl_cons]
    rcases List.mem_cons.mp h with e | e
    · subst e; have := foldl_max_ge t (max i a); omega
    · exact ih (max i x) e

theorem le_maxL (ids : List Nat) (a : Nat) (h : a ∈ ids) : a ≤ maxL ids := le_foldl_max ids 0 a h

/-- **max+1 allocation** is positive and not in use, for any id population. -/
theorem maxIdPlus1_fresh (ids : List Nat) : maxIdPlus1 ids ∉ ids ∧ 0 < maxIdPlus1 ids := by
  refine ⟨fun h => ?_, by simp [maxIdPlus1]⟩
  have := le_maxL ids _ h; simp only [maxIdPlus1] at this; omega

theorem firstGapFrom_spec (ids : List Nat) (fuel n : Nat) :
    n ≤ firstGapFrom ids n fuel ∧
    (∀ i, n ≤ i → i < firstGapFrom ids n fuel → i ∈ ids) ∧
    (firstGapFrom ids n fuel ∉ ids ∨ firstGapFrom ids n fuel = n + fuel) := by
  induction fuel generalizing n with
  | zero => exact ⟨by simp [firstGapFrom], by intro i h1 h2; simp [firstGapFrom] at h2; omega, Or.inr (by simp [firstGapFrom])⟩
  | succ f ih =>
    simp only [firstGapFrom]
    split
    · rename_i hmem
      obtain ⟨h1, h2, h3⟩ := ih (n + 1)
      refine ⟨by omega, ?_, ?_⟩
      · intro i hi hlt
        by_cases e : i = n
        · subst e; exact hmem
        · exact h2 i (by omega) hlt
      · rcases h3 with h | h
        · exact Or.inl h
        · exact Or.inr (by omega)
    · rename_i hnot
      exact ⟨Nat.le_refl _, fun i h1 h2 => by omega, Or.inl hnot⟩

/-- pigeonhole: a list cannot contain `k` consecutive numbers unless it has at least `k` entries -/
theorem consecutive_le_length (l : List Nat) (n k : Nat) (h : ∀ i, n ≤ i → i < n + k → i ∈ l) :
    k ≤ l.length := by
  have hsub : List.range' n k ⊆ l := by
    intro i hi; simp [List.mem_range'_1] at hi; exact h i hi.1 hi.2
  have := List.Nodup.length_le_of_subset (List.nodup_range' (s := n) (n := k)) hsub
  simpa using this

/-- **first-gap allocation** (group shapes, freeforms): positive, not in use, and the smallest
    such number — for any population, with duplicates or not. -/
theorem firstGap_fresh (ids : List Nat) :
    firstGap ids ∉ ids ∧ 0 < firstGap ids ∧ ∀ i, 1 ≤ i → i < firstGap ids → i ∈ ids := by
  obtain ⟨h1, h2, h3⟩ := firstGapFrom_spec ids (ids.length + 1) 1
  unfold firstGap
  refine ⟨?_, by omega, h2⟩
  rcases h3 with h | h
  · exact h
  · exfalso
    have := consecutive_le_length ids 1 (ids.length + 1) (fun i hi hlt => h2 i hi (by omega))
    omega

theorem searchDown_some (free : Nat → Bool) (n k : Nat) (h : searchDown free n = some k) :
    free k = true ∧ 1 ≤ k ∧ k ≤ n := by
  induction n with
  | zero => simp [searchDown] at h
  | succ m ih =>
    simp only [searchDown] at h
    split at h
    · rename_i hf; injection h with h; subst h; exact ⟨hf, by omega, by omega⟩
    · obtain ⟨a, b, c⟩ := ih h; exact ⟨a, b, by omega⟩

theorem searchDown_none (free : Nat → Bool) (n : Nat) (h : searchDown free n = none) :
    ∀ k, 1 ≤ k → k ≤ n → free k = false := by
  induction n with
  | zero => intro k h1 h2; omega
  | succ m ih =>
    simp only [searchDown] at h
    split at h
    · cases h
    · rename_i hf
      intro k h1 h2
      by_cases e : k = m + 1
      · subst e; simpa using hf
      · exact ih h k h1 (by omega)

theorem natStr_inj {m n : Nat} (h : natStr m = natStr n) : m = n :=
  Nat.repr_injective (String.toList_injective h)

/-- generic pigeonhole for "name with a number in it" allocators -/
theorem searchDown_names (mk : Nat → Str) (hinj : ∀ m n, mk m = mk n → m = n) (names : List Str) :
    ∃ k, searchDown (fun n => !(names.contains (mk n))) (names.length + 1) = some k
      ∧ mk k ∉ names ∧ 1 ≤ k ∧ k ≤ names.length + 1 := by
  cases h : searchDown (fun n => !(names.contains (mk n))) (names.length + 1) with
  | some k =>
    obtain ⟨a, b, c⟩ := searchDown_some _ _ _ h
    exact ⟨k, rfl, by simpa using a, b, c⟩
  | none =>
    exfalso
    have hall := searchDown_none _ _ h
    let cands := (List.range' 1 (names.length + 1)).map mk
    have hnd : cands.Nodup := by
      have hr := List.nodup_range' (s := 1) (n := names.length + 1)
      exact List.Pairwise.map mk (fun a b hab e => hab (hinj a b e)) hr
    have hsub : cands ⊆ names := by
      intro s hs
      obtain ⟨i, hi, e⟩ := List.mem_map.mp hs
      simp [List.mem_range'_1] at hi
      have := hall i hi.1 (by omega)
      subst e; simpa using this
    have := List.Nodup.length_le_of_subset hnd hsub
    simp only [cands, List.length_map, List.length_range'] at this
    omega

/-- **`_next_rId` never fails and returns an id not in use**, whatever ids exist (`rId7`
    alone, non-`rIdN` ids, gaps, …). -/
theorem nextRId_fresh (keys : List Str) :
    ∃ k, nextRIdNum keys = some k ∧ ("rId".toList ++ natStr k) ∉ keys ∧ 1 ≤ k := by
  obtain ⟨k, h1, h2, h3, _⟩ := searchDown_names (fun n => "rId".toList ++ natStr n)
    (fun m n e => natStr_inj (List.append_cancel_left e)) keys
  exact ⟨k, h1, h2, h3⟩

/-- **`next_partname` never fails and returns a part name not in use**. -/
theorem nextPartname_fresh (pre post : Str) (names : List Str) :
    ∃ k, nextPartnameNum pre post names = some k ∧ (pre ++ natStr k ++ post) ∉ names ∧ 1 ≤ k := by
  obtain ⟨k, h1, h2, h3, _⟩ := searchDown_names (fun n => pre ++ natStr n ++ post)
    (fun m n e => natStr_inj (by
      have e' : pre ++ (natStr m ++ post) = pre ++ (natStr n ++ post) := by
        simpa [List.append_assoc] using e
      exact List.append_cancel_right (List.append_cancel_left e'))) names
  exact ⟨k, h1, h2, h3⟩

/-! ### sorting facts shared by the slide-id fallback and the image/media index -/

theorem mem_insertSorted (x a : Nat) (l : List Nat) : a ∈ insertSorted x l ↔ a = x ∨ a ∈ l := by
  induction l with
  | nil => simp [insertSorted]
  | cons y ys ih =>
    simp only [insertSorted]; split
    · simp
    · simp [ih]; constructor
      · rintro (h | h | h) <;> simp [h]
      · rintro (h | h | h) <;> simp [h]

theorem mem_sortNat (a : Nat) (l : List Nat) : a ∈ sortNat l ↔ a ∈ l := by
  induction l with
  | nil => simp [sortNat]
  | cons x t ih =>
    simp only [sortNat, List.foldr_cons] at ih ⊢
    rw [mem_insertSorted]; simp [ih]

theorem sorted_insertSorted (x : Nat) (l : List Nat) (h : l.Pairwise (· ≤ ·)) :
    (insertSorted x l).Pairwise (· ≤ ·) := by
  induction l with
  | nil => simp [insertSorted]
  | cons y ys ih =>
    simp only [insertSorted]; split
    · rename_i hxy
      refine List.Pairwise.cons ?_ h
      intro a ha
      rcases List.mem_cons.mp ha with e | e
      · omega
      · have := (List.pairwise_cons.mp h).1 a e; omega
    · rename_i hxy
      refine List.Pairwise.cons ?_ (ih (List.pairwise_cons.mp h).2)
      intro a ha
      rcases (mem_insertSorted x a ys).mp ha with e | e
      · omega
      · exact (List.pairwise_cons.mp h).1 a e

theorem sorted_sortNat (l : List Nat) : (sortNat l).Pairwise (· ≤ ·) := by
  induction l with
  | nil => simp [sortNat]
  | cons x t ih => exact sorted_insertSorted x _ ih

theorem firstFreeIdxAux_spec (l : List Nat) (i : Nat) (h : l.Pairwise (· ≤ ·)) :
    i ≤ firstFreeIdxAux i l ∧ ∀ a ∈ l, a ≠ firstFreeIdxAux i l := by
  induction l generalizing i with
  | nil => simp [firstFreeIdxAux]
  | cons u rest ih =>
    simp only [firstFreeIdxAux]; split
    · rename_i hlt
      refine ⟨Nat.le_refl _, ?_⟩
      intro a ha
      rcases List.mem_cons.mp ha with e | e
      · omega
      · have := (List.pairwise_cons.mp h).1 a e; omega
    · rename_i hge
      obtain ⟨h1, h2⟩ := ih (i + 1) (List.pairwise_cons.mp h).2
      refine ⟨by omega, ?_⟩
      intro a ha
      rcases List.mem_cons.mp ha with e | e
      · omega
      · exact h2 a e

/-- **image / media index**: the index chosen is ≥ 1 and used by no existing part, for any index
    population (duplicates included: `image1.png` and `image1.jpg` share index 1). -/
theorem firstFreeIdx_fresh (idxs : List Nat) : firstFreeIdx idxs ∉ idxs ∧ 1 ≤ firstFreeIdx idxs := by
  obtain ⟨h1, h2⟩ := firstFreeIdxAux_spec (sortNat idxs) 1 (sorted_sortNat idxs)
  exact ⟨fun h => h2 _ ((mem_sortNat _ _).mpr h) rfl, h1⟩

/-- **slide ids, the common path**: when the largest id in use is below the schema maximum the
    new id is max+1: unused and inside 256..2147483647. -/
theorem nextSlideId_simple (used : List Nat) (h : ∀ a ∈ used, a < MAX_SLIDE_ID) :
    ∃ r, nextSlideId used = some r ∧ r ∉ used ∧ MIN_SLIDE_ID ≤ r ∧ r ≤ MAX_SLIDE_ID := by
  have hle : maxL ((MIN_SLIDE_ID - 1) :: used) + 1 ≤ MAX_SLIDE_ID := by
    have hm := foldl_max_ge used (max 0 (MIN_SLIDE_ID - 1))
    have : maxL ((MIN_SLIDE_ID - 1) :: used) ∈ (MIN_SLIDE_ID - 1) :: used ∨
        maxL ((MIN_SLIDE_ID - 1) :: used) = 0 := by
      -- the maximum of a list is one of its members (or the 0 start value)
      have aux : ∀ (l : List Nat) (i : Nat), l.foldl max i = i ∨ l.foldl max i ∈ l := by
        intro l
        induction l with
        | nil => intro i; simp
        | cons x t ih =>
          intro i
          simp only [List.foldl_cons]
          rcases ih (max i x) with e | e
          · rw [e]; by_cases hx : i ≤ x
            · right; simp [Nat.max_eq_right hx]
            · left; exact Nat.max_eq_left (by omega)
          · right; exact List.mem_cons_of_mem _ e
      rcases aux ((MIN_SLIDE_ID - 1) :: used) 0 with e | e
      · right; exact e
      · left; exact e
    rcases this with hmem | h0
    · rcases List.mem_cons.mp hmem with e | e
      · rw [e]; decide
      · have := h _ e; omega
    · rw [h0]; decide
  refine ⟨maxL ((MIN_SLIDE_ID - 1) :: used) + 1, by simp [nextSlideId, hle], ?_, ?_, hle⟩
  · intro hmem
    have := le_maxL ((MIN_SLIDE_ID - 1) :: used) _ (List.mem_cons_of_mem _ hmem); omega
  · have := le_maxL ((MIN_SLIDE_ID - 1) :: used) (MIN_SLIDE_ID - 1) (by simp)
    simp only [MIN_SLIDE_ID] at *; omega

theorem firstMismatch_spec (l : List Nat) (start c : Nat) (hs : l.Pairwise (· < ·))
    (hge : ∀ a ∈ l, start ≤ a) (h : firstMismatch start l = some c) :
    c ∉ l ∧ start ≤ c ∧ c ≤ start + l.length := by
  induction l generalizing start with
  | nil => simp [firstMismatch] at h
  | cons u rest ih =>
    simp only [firstMismatch] at h
    split at h
    · rename_i hne
      injection h with h; subst h
      have hu : start ≤ u := hge u (by simp)
      refine ⟨?_, Nat.le_refl _, by omega⟩
      intro hmem
      rcases List.mem_cons.mp hmem with e | e
      · exact hne e
      · have := (List.pairwise_cons.mp hs).1 start e; omega
    · rename_i he
      have he : start = u := by simpa using he
      have hrest : ∀ a ∈ rest, start + 1 ≤ a := by
        intro a ha; have := (List.pairwise_cons.mp hs).1 a ha; omega
      obtain ⟨a, b, c'⟩ := ih (start + 1) (List.pairwise_cons.mp hs).2 hrest h
      refine ⟨?_, by omega, by simp only [List.length_cons]; omega⟩
      intro hmem
      rcases List.mem_cons.mp hmem with e | e
      · omega
      · exact a e

/-- **slide ids, the fallback path** (an id already sits at the schema maximum): when the search
    from 256 upwards finds a candidate it is unused and in range.
    `_partial`: stated on the sorted, duplicate-free list of valid ids; that `sorted(...)` of a
    duplicate-free population is strictly increasing is established for the model's `sortNat`
    only up to `≤` (`sorted_sortNat`), and the `StopIteration` case (every id 256..2147483647 in
    use) is outside the statement. -/
theorem nextSlideId_fallback_partial (valid : List Nat) (c : Nat)
    (hs : valid.Pairwise (· < ·)) (hge : ∀ a ∈ valid, MIN_SLIDE_ID ≤ a)
    (hle : ∀ a ∈ valid, a ≤ MAX_SLIDE_ID) (hlen : valid.length < MAX_SLIDE_ID - MIN_SLIDE_ID)
    (h : firstMismatch MIN_SLIDE_ID valid = some c) :
    c ∉ valid ∧ MIN_SLIDE_ID ≤ c ∧ c ≤ MAX_SLIDE_ID := by
  obtain ⟨a, b, c'⟩ := firstMismatch_spec valid MIN_SLIDE_ID c hs hge h
  exact ⟨a, b, by simp only [MIN_SLIDE_ID, MAX_SLIDE_ID] at *; omega⟩

/-! ### interleavings -/

/-- an allocation step is *safe* when the turbo cache is off, or the step goes through the one
    collection object that owns the cache -/
def Safe (s : ShapeIds) (op : AllocOp) : Prop :=
  s.cache = none ∨ op = .viaCollection ∨ op = .viaElement ∨ op = .turboOn ∨ op = .turboOff

/-- the cache, when on, dominates every id in use -/
def CacheOk (s : ShapeIds) : Prop := ∀ c, s.cache = some c → ∀ a ∈ s.ids, a ≤ c

theorem step_fresh (s : ShapeIds) (op : AllocOp) (hc : CacheOk s) (hs : Safe s op) :
    CacheOk (s.step op).1 ∧
    (∀ i, (s.step op).2 = some i → i ∉ s.ids ∧ 0 < i ∧ (s.step op).1.ids = i :: s.ids) ∧
    ((s.step op).2 = none → (s.step op).1.ids = s.ids) := by
  cases op with
  | viaCollection =>
    cases hcache : s.cache with
    | none =>
      simp only [ShapeIds.step, hcache]
      refine ⟨by intro c h; simp [hcache] at h, ?_, by simp⟩
      intro i hi; injection hi with hi; subst hi
      exact ⟨(maxIdPlus1_fresh s.ids).1, (maxIdPlus1_fresh s.ids).2, rfl⟩
    | some c =>
      simp only [ShapeIds.step, hcache]
      refine ⟨?_, ?_, by simp⟩
      · intro c' h a ha; injection h with h; subst h
        rcases List.mem_cons.mp ha with e | e
        · omega
        · have := hc c hcache a e; omega
      · intro i hi; injection hi with hi; subst hi
        exact ⟨fun hm => by have := hc c hcache _ hm; omega, by omega, rfl⟩
  | viaOtherProxy =>
    have hnone : s.cache = none := by
      rcases hs with h | h | h | h | h <;> first | exact h | cases h
    simp only [ShapeIds.step]
    refine ⟨by intro c h; simp [hnone] at h, ?_, by simp⟩
    intro i hi; injection hi with hi; subst hi
    exact ⟨(maxIdPlus1_fresh s.ids).1, (maxIdPlus1_fresh s.ids).2, rfl⟩
  | viaElement =>
    simp only [ShapeIds.step]
    refine ⟨?_, ?_, by simp⟩
    · intro c' h a ha
      cases hcache : s.cache with
      | none => simp [hcache] at h
      | some c =>
        simp only [hcache, Option.map_some, Option.some.injEq] at h
        have : a ≤ maxL (firstGap s.ids :: s.ids) := le_maxL _ a ha
        omega
    · intro i hi; injection hi with hi; subst hi
      exact ⟨(firstGap_fresh s.ids).1, (firstGap_fresh s.ids).2.1, rfl⟩
  | turboOn =>
    simp only [ShapeIds.step]
    exact ⟨by intro c h a ha; injection h with h; subst h; exact le_maxL _ _ ha, by simp, by simp⟩
  | turboOff =>
    simp only [ShapeIds.step]
    exact ⟨by intro c h; simp at h, by simp, by simp⟩

/-- run with the safety side condition checked at every step -/
def SafeRun : ShapeIds → List AllocOp → Prop
  | _, [] => True
  | s, op :: rest => Safe s op ∧ SafeRun (s.step op).1 rest

def run (s : ShapeIds) (ops : List AllocOp) : ShapeIds := ops.foldl (fun s op => (s.step op).1) s

/-- **Any interleaving** of max+1 allocations (slide-level or through a group's collection),
    first-gap allocations (group shapes, freeforms) and turbo-mode allocations through the owning
    collection keeps the ids of the part pairwise distinct and never touches an existing id —
    as long as, while turbo mode is on, shapes are added only through the collection that has it
    on (the documented restriction). -/
theorem alloc_run_nodup (ops : List AllocOp) (s : ShapeIds) (hc : CacheOk s) (hn : s.ids.Nodup)
    (hsafe : SafeRun s ops) :
    (run s ops).ids.Nodup ∧ ∃ pre, (run s ops).ids = pre ++ s.ids := by
  induction ops generalizing s with
  | nil => exact ⟨hn, [], rfl⟩
  | cons op rest ih =>
    obtain ⟨hs, hrest⟩ := hsafe
    obtain ⟨h1, h2, h3⟩ := step_fresh s op hc hs
    have hn' : (s.step op).1.ids.Nodup ∧ ∃ p, (s.step op).1.ids = p ++ s.ids := by
      cases hr : (s.step op).2 with
      | none => rw [h3 hr]; exact ⟨hn, [], rfl⟩
      | some i =>
        obtain ⟨a, _, c⟩ := h2 i hr
        rw [c]; exact ⟨List.nodup_cons.mpr ⟨a, hn⟩, [i], rfl⟩
    obtain ⟨g1, pre, g2⟩ := ih (s.step op).1 h1 hn'.1 hrest
    obtain ⟨p, hp⟩ := hn'.2
    refine ⟨g1, pre ++ p, ?_⟩
    simp only [run, List.foldl_cons] at g2 ⊢
    rw [g2, hp, List.append_assoc]

/-- the element-level allocation as it was before the `fix:` for F-C06-1: the cache is not raised -/
def stepUnsynced (s : ShapeIds) : AllocOp → ShapeIds × Option Nat
  | .viaElement => let i := firstGap s.ids; ({ s with ids := i :: s.ids }, some i)
  | op => s.step op

/-- **Negative theorem** (turbo mode before the fix): with turbo on, a first-gap allocation on
    the same collection (add_group_shape / freeform) followed by a cached allocation hands out the
    same id twice; with the resynchronising `step` the same history is collision-free. -/
theorem turbo_collides_without_resync :
    ¬ ([AllocOp.turboOn, .viaCollection, .viaElement, .viaCollection].foldl
        (fun s op => (stepUnsynced s op).1) ⟨[1], none⟩).ids.Nodup
    ∧ (run ⟨[1], none⟩ [.turboOn, .viaCollection, .viaElement, .viaCollection]).ids.Nodup := by
  decide

/-- **Negative theorem** (documented limitation, still true): additions through a second proxy
    object while turbo mode is on collide. -/
theorem turbo_second_proxy_collides :
    ¬ (run ⟨[1], none⟩ [.turboOn, .viaOtherProxy, .viaCollection]).ids.Nodup := by
  decide

/-- **Slide parts are named slide1..n in presentation order** once the slide collection has been accessed, and stay so
    after every added slide, also when the package holds `k` slide parts the slide-id list does not mention; all slide
    part names in the package are pairwise distinct (the numbering model of `Model/Pkg.lean`, proved in `Props/C02`) -/
theorem slide_parts_sequential (n k j : Nat) :
    (Pkg.numbersAfter n k j).listed = List.range' 1 (n + j) ∧
    ((Pkg.numbersAfter n k j).listed ++ (Pkg.numbersAfter n k j).unlisted).Nodup :=
  ⟨(C02.slide_numbers_nodup n k j).1, (C02.slide_numbers_nodup n k j).2.1⟩

example : (run ⟨[1, 5, 2], none⟩ [.viaCollection, .viaElement, .viaOtherProxy]).ids = [7, 3, 6, 1, 5, 2] := by
  decide
example : nextRIdNum ["rId1".toList, "rId3".toList, "foo".toList] = some 4 := by decide
example : firstFreeIdx [1, 1, 2, 5] = 4 := by decide
example : nextSlideId [256, 2147483647, 258] = some 257 := by decide

end Pptx.C06
