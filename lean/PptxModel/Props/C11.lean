/-
  C11 — accepted attribute values are exactly those the schema can represent (writing side).
  Model: `Model/SimpleTypes.lean`.
-/
import PptxModel.Model.SimpleTypes
namespace Pptx.C11
open Pptx.SimpleTypes Pptx.Geometry

/-- an accept interval inside the facet interval means every accepted integer is schema-valid -/
theorem within_sound (r : IntRow) (h : r.within = true) (v : Int) (ha : r.accepts v) : r.inFacet v := by
  simp only [IntRow.within, Bool.and_eq_true] at h
  obtain ⟨h1, h2⟩ := h
  refine ⟨?_, ?_⟩
  · intro b hb; rw [hb] at h1; simp at h1; have := ha.1; omega
  · intro b hb; rw [hb] at h2; simp at h2; have := ha.2; omega

/-- **ST_Angle**: whatever number is assigned, the written value is in `[0, 21600000)` -/
theorem angle_range (n : Int) (d : Nat) : 0 ≤ angle n d ∧ angle n d < 21600000 := by
  simp only [angle, THREE_SIXTY]
  exact ⟨Int.emod_nonneg _ (by decide), Int.emod_lt_of_pos _ (by decide)⟩

/-- **ST_PositiveFixedAngle**: the written value satisfies `minInclusive 0`, `maxExclusive 21600000`
    for every input (after the fix) -/
theorem pfa_range (n : Int) (d : Nat) : 0 ≤ pfa n d ∧ pfa n d < 21600000 := by
  simp only [pfa, THREE_SIXTY]
  exact ⟨Int.emod_nonneg _ (by decide), Int.emod_lt_of_pos _ (by decide)⟩

/-- **Negative theorem** (before the fix): 359.9999999° is written as 21600000, outside the type -/
theorem pfa_unreduced_leaves_range : pfaUnreduced 3599999999 10000000 = 21600000 := by decide

/-- rounding half-to-even never leaves an interval with integer end points -/
theorem roundHE_between (n : Int) (d : Nat) (lo hi : Int) (hd : 0 < d)
    (h1 : lo * d ≤ n) (h2 : n ≤ hi * d) : lo ≤ roundHE n d ∧ roundHE n d ≤ hi := by
  have hd' : (0 : Int) < d := by exact_mod_cast hd
  have e1 := Int.emod_nonneg n (Int.ne_of_gt hd')
  have e2 := Int.emod_lt_of_pos n hd'
  have e3 := Int.emod_add_mul_ediv n d
  -- q = floor(n/d) is between lo and hi, and q+1 ≤ hi unless n is a multiple… handled by cases
  have hq1 : lo ≤ n / (d : Int) := (Int.le_ediv_iff_mul_le hd').mpr h1
  have hq2 : n / (d : Int) ≤ hi := by
    have := Int.ediv_le_ediv hd' h2
    rwa [Int.mul_ediv_cancel _ (Int.ne_of_gt hd')] at this
  simp only [roundHE]
  generalize n / (d : Int) = q at *
  generalize n % (d : Int) = r at *
  have hn : n = r + d * q := by omega
  -- if rounding goes up, the remainder is positive, hence q < hi
  have up : 0 < r → q + 1 ≤ hi := by
    intro hr
    apply Classical.byContradiction; intro hc
    have hqe : q = hi := by omega
    subst hqe
    have : (q : Int) * d = d * q := Int.mul_comm _ _
    omega
  split
  · exact ⟨hq1, hq2⟩
  · split
    · exact ⟨by omega, up (by omega)⟩
    · split
      · exact ⟨hq1, hq2⟩
      · exact ⟨by omega, up (by omega)⟩

/-- **ST_Percentage** (`-21474.83648 ≤ v ≤ 21474.83647`): the written integer is an `xsd:int` -/
theorem pct_range (n : Int) (d : Nat) (hd : 0 < d)
    (h1 : -2147483648 * d ≤ n * 100000) (h2 : n * 100000 ≤ 2147483647 * d) :
    -2147483648 ≤ pct n d ∧ pct n d ≤ 2147483647 :=
  roundHE_between (n * 100000) d (-2147483648) 2147483647 hd h1 h2

/-- **ST_PositiveFixedPercentage** (`0 ≤ v ≤ 1`): written value in `0..100000` -/
theorem pct_fixed_range (n : Int) (d : Nat) (hd : 0 < d) (h1 : 0 ≤ n) (h2 : n ≤ d) :
    0 ≤ pct n d ∧ pct n d ≤ 100000 :=
  roundHE_between (n * 100000) d 0 100000 hd (by omega) (by omega)

/-- **ST_TextSpacingPercent** (`0 ≤ v ≤ 132`): written value in `0..13200000` -/
theorem pct_spacing_range (n : Int) (d : Nat) (hd : 0 < d) (h1 : 0 ≤ n) (h2 : n ≤ 132 * d) :
    0 ≤ pct n d ∧ pct n d ≤ 13200000 :=
  roundHE_between (n * 100000) d 0 13200000 hd (by omega) (by omega)

/-- **ST_TextFontScalePercent** (`1 ≤ v ≤ 100`): written value in `1000..100000` (truncation) -/
theorem fontscale_range (n : Int) (d : Nat) (hd : 0 < d) (h1 : (d : Int) ≤ n) (h2 : n ≤ 100 * d) :
    1000 ≤ fontscale n d ∧ fontscale n d ≤ 100000 := by
  have hd' : (0 : Int) < d := by exact_mod_cast hd
  have hn : 0 ≤ n * 1000 := by omega
  simp only [fontscale]
  rw [Int.tdiv_eq_ediv_of_nonneg hn]
  refine ⟨(Int.le_ediv_iff_mul_le hd').mpr (by omega), ?_⟩
  have := Int.ediv_le_ediv hd' (show n * 1000 ≤ 100000 * d by omega)
  rwa [Int.mul_ediv_cancel _ (Int.ne_of_gt hd')] at this

/-- **ST_TextSpacingPoint** (EMU `0 ≤ v ≤ 20116800`): written centipoints in `0..158400` -/
theorem spcpts_range (v : Int) (h1 : 0 ≤ v) (h2 : v ≤ 20116800) :
    0 ≤ spcpts v ∧ spcpts v ≤ 158400 := by
  simp only [spcpts]; omega

/-- non-vacuity -/
example : angle (-4242) 100 = 19054800 := by decide
example : pfa 3599999999 10000000 = 0 := by decide
example : pct 3 8 = 37500 := by decide
example : fontscale 255 10 = 25500 := by decide

end Pptx.C11
