/-
  C01 — "Opening and saving that output again reproduces the same set of members with identical bytes": the relationship
  items are a FIXED POINT of writing.

  * `strLt_*`, `keyLt_*`   the order `_Relationships.xml` writes in (numeric part of `rId<n>`, then the id as a string) is a
                           strict total order on keys
  * `sortBy_sorted`        Python's `sorted` under such an order delivers a sorted list (for any input order - the dict order of
                           a package that was edited, or loaded from a producer that writes ids out of order)
  * `sortBy_of_sorted`     … and leaves a sorted list alone
  * `savedRels_ids_fixed`  the ids of a written rels item, written again, come out in the same order: for every relationship
                           list with distinct ids
  * `savedRels_second_generation`  writing what was read back from a written item reproduces the item, targets included
                           (internal targets through C19's round trip `fromRelRef (relativeRef …)`)
-/
import PptxModel.Model.Opc
import PptxModel.Props.C19
namespace Pptx.C01G
open Pptx Pptx.Opc

/-! ### the order -/

theorem strLt_irrefl (a : Str) : strLt a a = false := by
  induction a with
  | nil => rfl
  | cons x xs ih => simp [strLt, ih]

theorem strLt_trans (a b c : Str) (h1 : strLt a b = true) (h2 : strLt b c = true) : strLt a c = true := by
  induction a generalizing b c with
  | nil =>
    cases c with
    | nil => cases b <;> simp [strLt] at h1 h2
    | cons _ _ => simp [strLt]
  | cons x xs ih =>
    cases b with
    | nil => simp [strLt] at h1
    | cons y ys =>
      cases c with
      | nil => simp [strLt] at h2
      | cons z zs =>
        simp only [strLt] at h1 h2 ⊢
        by_cases hxy : x.toNat < y.toNat
        · by_cases hyz : y.toNat < z.toNat
          · simp [show x.toNat < z.toNat by omega]
          · simp only [hyz, if_false] at h2
            by_cases hzy : y.toNat > z.toNat
            · simp [hzy] at h2
            · have : y.toNat = z.toNat := by omega
              simp [show x.toNat < z.toNat by omega]
        · simp only [hxy, if_false] at h1
          by_cases hyx : x.toNat > y.toNat
          · simp [hyx] at h1
          · simp only [hyx, if_false] at h1
            have exy : x.toNat = y.toNat := by omega
            by_cases hyz : y.toNat < z.toNat
            · simp [show x.toNat < z.toNat by omega]
            · simp only [hyz, if_false] at h2
              by_cases hzy : y.toNat > z.toNat
              · simp [hzy] at h2
              · simp only [hzy, if_false] at h2
                have : ¬ x.toNat < z.toNat := by omega
                have h' : ¬ x.toNat > z.toNat := by omega
                simp only [this, h', if_false]
                exact ih ys zs h1 h2

theorem strLt_total (a b : Str) (h : a ≠ b) : strLt a b = true ∨ strLt b a = true := by
  induction a generalizing b with
  | nil =>
    cases b with
    | nil => exact absurd rfl h
    | cons _ _ => left; simp [strLt]
  | cons x xs ih =>
    cases b with
    | nil => right; simp [strLt]
    | cons y ys =>
      simp only [strLt]
      by_cases hxy : x.toNat < y.toNat
      · left; simp [hxy]
      · by_cases hyx : y.toNat < x.toNat
        · right; simp [hyx]
        · have e : x.toNat = y.toNat := by omega
          have exy : x = y := Char.ext (by
            have := e; simp only [Char.toNat] at this; exact UInt32.toNat_inj.1 this)
          subst exy
          have hne : xs ≠ ys := fun e2 => h (by rw [e2])
          simp only [Nat.lt_irrefl, if_false, gt_iff_lt]
          exact ih ys hne

theorem keyLt_irrefl (a : Nat × Str) : keyLt a a = false := by
  simp [keyLt, strLt_irrefl]

theorem keyLt_trans (a b c : Nat × Str) (h1 : keyLt a b = true) (h2 : keyLt b c = true) : keyLt a c = true := by
  simp only [keyLt, Bool.or_eq_true, decide_eq_true_eq, Bool.and_eq_true, beq_iff_eq] at h1 h2 ⊢
  rcases h1 with h1 | ⟨e1, s1⟩ <;> rcases h2 with h2 | ⟨e2, s2⟩
  · left; omega
  · left; omega
  · left; omega
  · right; exact ⟨e1.trans e2, strLt_trans _ _ _ s1 s2⟩

theorem keyLt_total (a b : Nat × Str) (h : a ≠ b) : keyLt a b = true ∨ keyLt b a = true := by
  simp only [keyLt, Bool.or_eq_true, decide_eq_true_eq, Bool.and_eq_true, beq_iff_eq]
  by_cases h1 : a.1 < b.1
  · left; left; exact h1
  · by_cases h2 : b.1 < a.1
    · right; left; exact h2
    · have e : a.1 = b.1 := by omega
      have hs : a.2 ≠ b.2 := fun e2 => h (Prod.ext e e2)
      rcases strLt_total a.2 b.2 hs with s | s
      · left; right; exact ⟨e, s⟩
      · right; right; exact ⟨e.symm, s⟩

/-! ### sorting under a strict total order -/

section Srt
variable {α : Type} (lt : α → α → Bool)

def Sorted (l : List α) : Prop := l.Pairwise fun a b => lt a b = true

theorem mem_insertBy (x a : α) (l : List α) : a ∈ insertBy lt x l ↔ a = x ∨ a ∈ l := by
  induction l with
  | nil => simp [insertBy]
  | cons y ys ih =>
    simp only [insertBy]; split
    · simp
    · simp only [List.mem_cons, ih]; constructor <;> (intro h; rcases h with h | h | h <;> simp [h])

theorem mem_sortBy (a : α) (l : List α) : a ∈ sortBy lt l ↔ a ∈ l := by
  induction l with
  | nil => simp [sortBy]
  | cons x t ih =>
    have : sortBy lt (x :: t) = insertBy lt x (sortBy lt t) := rfl
    rw [this, mem_insertBy, ih]; simp

theorem sorted_insertBy (htr : ∀ a b c, lt a b = true → lt b c = true → lt a c = true)
    (x : α) (l : List α) (hs : Sorted lt l) (htot : ∀ y ∈ l, lt x y = true ∨ lt y x = true) :
    Sorted lt (insertBy lt x l) := by
  induction l with
  | nil => simp [insertBy, Sorted]
  | cons y ys ih =>
    unfold Sorted at hs ih ⊢
    rw [List.pairwise_cons] at hs
    simp only [insertBy]; split
    · rename_i hxy
      rw [List.pairwise_cons]
      refine ⟨?_, List.pairwise_cons.2 hs⟩
      intro z hz
      rcases List.mem_cons.1 hz with e | e
      · rw [e]; exact hxy
      · exact htr _ _ _ hxy (hs.1 z e)
    · rename_i hxy
      have hyx : lt y x = true := by
        rcases htot y (by simp) with h | h
        · exact absurd h hxy
        · exact h
      rw [List.pairwise_cons]
      refine ⟨?_, ih hs.2 (fun z hz => htot z (by simp [hz]))⟩
      intro z hz
      rcases (mem_insertBy lt x z ys).1 hz with e | e
      · rw [e]; exact hyx
      · exact hs.1 z e

/-- `sorted(...)` of pairwise distinct keys is sorted -/
theorem sortBy_sorted (htr : ∀ a b c, lt a b = true → lt b c = true → lt a c = true)
    (l : List α) (htot : ∀ a ∈ l, ∀ b ∈ l, a ≠ b → lt a b = true ∨ lt b a = true) (hn : l.Nodup) :
    Sorted lt (sortBy lt l) := by
  induction l with
  | nil => simp [sortBy, Sorted]
  | cons x t ih =>
    rw [List.nodup_cons] at hn
    have : sortBy lt (x :: t) = insertBy lt x (sortBy lt t) := rfl
    rw [this]
    apply sorted_insertBy lt htr x _ (ih (fun a ha b hb => htot a (by simp [ha]) b (by simp [hb])) hn.2)
    intro y hy
    have hyt := (mem_sortBy lt y t).1 hy
    exact htot x (by simp) y (by simp [hyt]) (fun e => hn.1 (e ▸ hyt))

/-- sorting a sorted list changes nothing -/
theorem sortBy_of_sorted (l : List α) (hs : Sorted lt l) : sortBy lt l = l := by
  induction l with
  | nil => rfl
  | cons x t ih =>
    unfold Sorted at hs ih
    rw [List.pairwise_cons] at hs
    have : sortBy lt (x :: t) = insertBy lt x (sortBy lt t) := rfl
    rw [this, ih hs.2]
    cases t with
    | nil => rfl
    | cons y ys => simp [insertBy, hs.1 y (by simp)]

end Srt

/-! ### relationship items -/

theorem nodup_of_map {α β : Type} (f : α → β) (l : List α) (h : (l.map f).Nodup) : l.Nodup := by
  induction l with
  | nil => simp
  | cons x t ih =>
    rw [List.map_cons, List.nodup_cons] at h
    rw [List.nodup_cons]
    exact ⟨fun hx => h.1 (List.mem_map.2 ⟨x, hx, rfl⟩), ih h.2⟩

theorem eq_of_map_eq {α β : Type} (f : α → β) (l : List α) (h : (l.map f).Nodup) (a b : α) (ha : a ∈ l) (hb : b ∈ l)
    (e : f a = f b) : a = b := by
  induction l with
  | nil => simp at ha
  | cons x t ih =>
    rw [List.map_cons, List.nodup_cons] at h
    rcases List.mem_cons.1 ha with e1 | e1 <;> rcases List.mem_cons.1 hb with e2 | e2
    · rw [e1, e2]
    · exfalso; apply h.1; rw [← e1, e]; exact List.mem_map.2 ⟨b, e2, rfl⟩
    · exfalso; apply h.1; rw [← e2, ← e]; exact List.mem_map.2 ⟨a, e1, rfl⟩
    · exact ih h.2 e1 e2

theorem rIdKey_snd (id : Str) : (rIdKey id).2 = id := by
  unfold rIdKey; simp only []; split <;> rfl

theorem rIdKey_inj (a b : Str) (h : rIdKey a = rIdKey b) : a = b := by
  have := congrArg Prod.snd h; rwa [rIdKey_snd, rIdKey_snd] at this

def relLt (a b : RelX) : Bool := keyLt (rIdKey a.id) (rIdKey b.id)

theorem relLt_trans (a b c : RelX) (h1 : relLt a b = true) (h2 : relLt b c = true) : relLt a c = true :=
  keyLt_trans _ _ _ h1 h2

theorem relLt_total (a b : RelX) (h : a.id ≠ b.id) : relLt a b = true ∨ relLt b a = true :=
  keyLt_total _ _ (fun e => h (rIdKey_inj _ _ e))

/-- whatever order a part's relationships are held in, they are written sorted by `(number, id)` -/
theorem sorted_rels (rs : List RelX) (hn : (rs.map (·.id)).Nodup) : Sorted relLt (sortBy relLt rs) := by
  apply sortBy_sorted relLt relLt_trans rs
  · intro a ha b hb hab
    apply relLt_total
    intro e
    -- equal ids at two positions of a list whose ids are distinct: the same relationship
    exact hab (eq_of_map_eq (·.id) rs hn a b ha hb e)
  · exact nodup_of_map (·.id) rs hn

/-- the ids of a written rels item come out in the same order when the item is written again -/
theorem savedRels_ids_fixed (src : Str) (rs : List RelX) (hn : (rs.map (·.id)).Nodup) :
    (savedRels src (savedRels src rs)).map (·.id) = (savedRels src rs).map (·.id) := by
  have hs := sorted_rels rs hn
  -- the written list: the sorted list with targets rewritten; rewriting keeps ids, so it is sorted as well
  have key : ∀ (f : RelX → RelX), (∀ r, (f r).id = r.id) → ∀ l : List RelX, Sorted relLt l → Sorted relLt (l.map f) := by
    intro f hf l hl
    unfold Sorted at *
    rw [List.pairwise_map]
    apply hl.imp
    intro a b hab
    simp only [relLt, hf] at hab ⊢
    exact hab
  let f : RelX → RelX := fun r =>
    if r.external then r else { r with target := PackUri.relativeRef r.target (PackUri.baseURI src) }
  have hf : ∀ r, (f r).id = r.id := by intro r; simp only [f]; split <;> rfl
  have e1 : savedRels src rs = (sortBy relLt rs).map f := rfl
  have e2 : savedRels src ((sortBy relLt rs).map f) = (sortBy relLt ((sortBy relLt rs).map f)).map f := rfl
  rw [e1, e2, sortBy_of_sorted relLt _ (key f hf _ hs)]
  simp [List.map_map, Function.comp, hf]

/-- what the loader makes of a written relationship: an internal target is the part the reference resolves to -/
def reread (src : Str) (r : RelX) : RelX :=
  if r.external then r else { r with target := (resolve src r).getD r.target }

/-- a relationship as the package holds it: external, or internal with a clean part name as its target -/
def Held (r : RelX) : Prop := r.external = true ∨ ∃ Q, PackUri.Clean Q ∧ r.target = PackUri.render Q

/-- **second generation**: for a source part `/P…/f` whose relationships have distinct ids and clean targets, writing the
    item, reading it back and writing it again reproduces the item - ids, order, types, modes and targets -/
theorem savedRels_second_generation (P : List Str) (f : Str) (hP : PackUri.Clean P) (hf : PackUri.CleanSeg f)
    (rs : List RelX) (hn : (rs.map (·.id)).Nodup) (hh : ∀ r ∈ rs, Held r) :
    savedRels (PackUri.render (P ++ [f])) ((savedRels (PackUri.render (P ++ [f])) rs).map (reread (PackUri.render (P ++ [f])))) =
      savedRels (PackUri.render (P ++ [f])) rs := by
  let src := PackUri.render (P ++ [f])
  let g : RelX → RelX := fun r =>
    if r.external then r else { r with target := PackUri.relativeRef r.target (PackUri.baseURI src) }
  have hg : ∀ r, (g r).id = r.id := by intro r; simp only [g]; split <;> rfl
  have hrr : ∀ r, (reread src r).id = r.id := by intro r; simp only [reread]; split <;> rfl
  have hs := sorted_rels rs hn
  have keep : ∀ (h : RelX → RelX), (∀ r, (h r).id = r.id) → ∀ l : List RelX, Sorted relLt l → Sorted relLt (l.map h) := by
    intro h hh' l hl
    unfold Sorted at *
    rw [List.pairwise_map]
    apply hl.imp
    intro a b hab
    simp only [relLt, hh'] at hab ⊢
    exact hab
  have e1 : savedRels src rs = (sortBy relLt rs).map g := rfl
  show savedRels src ((savedRels src rs).map (reread src)) = savedRels src rs
  have e2 : savedRels src (((sortBy relLt rs).map g).map (reread src)) =
      (sortBy relLt (((sortBy relLt rs).map g).map (reread src))).map g := rfl
  rw [e1, e2, sortBy_of_sorted relLt _ (keep _ hrr _ (keep g hg _ hs))]
  rw [List.map_map, List.map_map]
  apply List.map_congr_left
  intro r hr
  have hr' : r ∈ rs := (mem_sortBy relLt r rs).1 hr
  simp only [Function.comp]
  rcases hh r hr' with he | ⟨Q, hQ, ht⟩
  · simp [g, reread, he]
  · by_cases he : r.external = true
    · simp [g, reread, he]
    · have he' : r.external = false := by simpa using he
      have hb := (C19.baseURI_filename_spec P f hP hf).1
      have hres : resolve src (g r) = some (PackUri.render Q) := by
        simp only [g, he', Bool.false_eq_true, if_false, resolve, ht]
        show PackUri.fromRelRef (PackUri.baseURI src) (PackUri.relativeRef (PackUri.render Q) (PackUri.baseURI src)) = _
        rw [show PackUri.baseURI src = PackUri.render P from hb]
        exact C19.fromRelRef_relativeRef P Q hP hQ
      have hgx : (g r).external = false := by simp [g, he']
      simp only [reread, hgx, Bool.false_eq_true, if_false, hres, Option.getD_some]
      simp only [g, he', Bool.false_eq_true, if_false, ht]

example : savedRels "/ppt/slides/slide1.xml".toList
    [⟨"rId10".toList, "t".toList, "/ppt/media/image1.png".toList, false⟩, ⟨"rId2".toList, "t".toList, "/ppt/slideLayouts/slideLayout1.xml".toList, false⟩]
    = [⟨"rId2".toList, "t".toList, "../slideLayouts/slideLayout1.xml".toList, false⟩, ⟨"rId10".toList, "t".toList, "../media/image1.png".toList, false⟩] := by
  decide

end Pptx.C01G
