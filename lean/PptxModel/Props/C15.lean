/-
  C15 — images are stored once, byte-exact, with the type and size of the actual image.
  Model: `Model/Image.lean`.
-/
import PptxModel.Model.Image
import PptxModel.Props.C06
import PptxModel.Props.C17
namespace Pptx.C15
open Pptx Pptx.Image

/-- names `imageN.ext` pairwise distinct, digests pairwise distinct -/
structure Inv (h : Nat → Nat) (s : Store) : Prop where
  names_nodup : (s.map fun p => (p.idx, p.ext)).Nodup
  sha_nodup : (s.map fun p => h p.blob).Nodup

theorem getOrAdd_spec (h : Nat → Nat) (s : Store) (blob : Nat) (f : Fmt) (inv : Inv h s) :
    let r := getOrAdd h s blob f
    Inv h r.1 ∧ r.2 ∈ r.1 ∧ h r.2.blob = h blob ∧ (∀ p ∈ s, p ∈ r.1) ∧
      (r.2 ∉ s → r.2.blob = blob ∧ r.2.ext = f.ext ∧ r.2.ct = f.contentType ∧ r.1 = s ++ [r.2]) := by
  simp only [getOrAdd]
  cases hf : s.find? (fun p => h p.blob == h blob) with
  | some p =>
    have hm := List.mem_of_find?_eq_some hf
    have hp := List.find?_some hf
    exact ⟨inv, hm, by simpa using hp, fun q hq => hq, fun hn => absurd hm hn⟩
  | none =>
    have hnone : ∀ p ∈ s, h p.blob ≠ h blob := by
      intro p hp; have := List.find?_eq_none.mp hf p hp; simpa using this
    refine ⟨⟨?_, ?_⟩, by simp, rfl, fun q hq => List.mem_append_left _ hq, fun _ => ⟨rfl, rfl, rfl, rfl⟩⟩
    · simp only [List.map_append, List.map_cons, List.map_nil]
      rw [List.nodup_append]
      refine ⟨inv.names_nodup, by simp, ?_⟩
      intro a ha b hb
      simp at hb; subst hb
      obtain ⟨p, hp, rfl⟩ := List.mem_map.mp ha
      intro e
      have hfresh := (C06.firstFreeIdx_fresh (s.map (·.idx))).1
      apply hfresh
      have : p.idx = Ids.firstFreeIdx (s.map (·.idx)) := by simpa using congrArg Prod.fst e
      rw [← this]; exact List.mem_map.mpr ⟨p, hp, rfl⟩
    · simp only [List.map_append, List.map_cons, List.map_nil]
      rw [List.nodup_append]
      refine ⟨inv.sha_nodup, by simp, ?_⟩
      intro a ha b hb
      simp at hb; subst hb
      obtain ⟨p, hp, rfl⟩ := List.mem_map.mp ha
      exact hnone p hp

theorem nodup_of_map {α β : Type} (f : α → β) (l : List α) (hn : (l.map f).Nodup) : l.Nodup := by
  induction l with
  | nil => exact List.nodup_nil
  | cons x xs ih =>
    simp only [List.map_cons, List.nodup_cons] at hn ⊢
    exact ⟨fun hm => hn.1 (List.mem_map.mpr ⟨x, hm, rfl⟩), ih hn.2⟩

def run (h : Nat → Nat) (s : Store) (adds : List (Nat × Fmt)) : Store :=
  adds.foldl (fun s a => (getOrAdd h s a.1 a.2).1) s

theorem run_inv (h : Nat → Nat) (adds : List (Nat × Fmt)) (s : Store) (inv : Inv h s) :
    Inv h (run h s adds) ∧ ∀ p ∈ s, p ∈ run h s adds := by
  induction adds generalizing s with
  | nil => exact ⟨inv, fun p hp => hp⟩
  | cons a rest ih =>
    obtain ⟨i1, _, _, i4, _⟩ := getOrAdd_spec h s a.1 a.2 inv
    obtain ⟨j1, j2⟩ := ih _ i1
    exact ⟨j1, fun p hp => j2 p (i4 p hp)⟩

/-- **Stored once, whatever the history**: after any sequence of additions (same bytes repeated,
    different bytes interleaved, on any slides) the store holds at most one part per digest and all
    part names are distinct; with an injective digest that is one part per distinct byte string. -/
theorem dedup (h : Nat → Nat) (adds : List (Nat × Fmt)) (s : Store) (inv : Inv h s) :
    ((run h s adds).map (·.blob)).Nodup ∧ ((run h s adds).map fun p => (p.idx, p.ext)).Nodup := by
  obtain ⟨i, _⟩ := run_inv h adds s inv
  refine ⟨?_, i.names_nodup⟩
  have hs := i.sha_nodup
  have e : (run h s adds).map (fun p => h p.blob) = ((run h s adds).map (·.blob)).map h := by
    simp [List.map_map, Function.comp_def]
  rw [e] at hs
  exact nodup_of_map h _ hs

/-- every byte string added is present afterwards, byte-exact (the blob is the identity) with the
    extension and content type of its actual format when it was new -/
theorem added_present (h : Nat → Nat) (s : Store) (blob : Nat) (f : Fmt) (inv : Inv h s)
    (rest : List (Nat × Fmt)) :
    ∃ p ∈ run h s ((blob, f) :: rest), h p.blob = h blob := by
  obtain ⟨i1, i2, i3, _, _⟩ := getOrAdd_spec h s blob f inv
  obtain ⟨_, j2⟩ := run_inv h rest _ i1
  exact ⟨_, j2 _ i2, i3⟩

/-- **Different bytes get different parts** (and, by `dedup`, different names), given that the
    digest is injective on the byte strings involved — SHA-1 collision-freeness is the stated
    hypothesis -/
theorem distinct_bytes_distinct_parts (h : Nat → Nat) (hinj : ∀ a b, h a = h b → a = b)
    (s : Store) (inv : Inv h s) (b1 b2 : Nat) (f1 f2 : Fmt) (hne : b1 ≠ b2) (rest : List (Nat × Fmt)) :
    ∃ p1 ∈ run h s ((b1, f1) :: (b2, f2) :: rest), ∃ p2 ∈ run h s ((b1, f1) :: (b2, f2) :: rest),
      p1.blob = b1 ∧ p2.blob = b2 ∧ p1 ≠ p2 := by
  obtain ⟨p1, hp1, e1⟩ := added_present h s b1 f1 inv ((b2, f2) :: rest)
  obtain ⟨i1, _, _, _, _⟩ := getOrAdd_spec h s b1 f1 inv
  obtain ⟨p2, hp2, e2⟩ := added_present h _ b2 f2 i1 rest
  refine ⟨p1, hp1, p2, hp2, hinj _ _ e1, hinj _ _ e2, ?_⟩
  intro e; subst e
  exact hne ((hinj _ _ e1).symm.trans (hinj _ _ e2))

/-- the extension / content type are functions of the format alone -/
theorem ext_ct_table : Fmt.jpeg.ext = "jpg".toList ∧ Fmt.jpeg.contentType = "image/jpeg".toList
    ∧ Fmt.tiff.ext = "tiff".toList ∧ Fmt.png.contentType = "image/png".toList := by decide

/-- **DPI normalisation**: the integer DPI used is always in 1..2048 (72 when absent/implausible) -/
theorem intDpi_range (n : Int) (d : Nat) : 1 ≤ intDpi n d ∧ intDpi n d ≤ 2048 := by
  simp only [intDpi]; split <;> omega

/-- **Aspect ratio within rounding**: with only the width given, the computed height `cy'`
    satisfies `|cy' * w − h * cx| ≤ w / 2` (and symmetrically) -/
theorem scale_aspect_width (iw ih x : Int) (hw : 0 < iw) :
    let r := scale iw ih (some x) none
    r.1 = x ∧ 2 * (r.2 * iw - ih * x) ≤ iw ∧ -iw ≤ 2 * (r.2 * iw - ih * x) := by
  have hn : (0 : Nat) < iw.toNat := by omega
  have hc := C17.roundHE_close (ih * x) iw.toNat hn
  have e : ((iw.toNat : Nat) : Int) = iw := Int.toNat_of_nonneg (by omega)
  simp only [scale]
  rw [e] at hc
  exact ⟨trivial, hc.1, hc.2⟩

theorem scale_aspect_height (iw ih y : Int) (hh : 0 < ih) :
    let r := scale iw ih none (some y)
    r.2 = y ∧ 2 * (r.1 * ih - iw * y) ≤ ih ∧ -ih ≤ 2 * (r.1 * ih - iw * y) := by
  have hn : (0 : Nat) < ih.toNat := by omega
  have hc := C17.roundHE_close (iw * y) ih.toNat hn
  have e : ((ih.toNat : Nat) : Int) = ih := Int.toNat_of_nonneg (by omega)
  simp only [scale]
  rw [e] at hc
  exact ⟨trivial, hc.1, hc.2⟩

theorem scale_both_none (iw ih : Int) : scale iw ih none none = (iw, ih) := by
  simp [scale]

/-- both dimensions given: exactly those, 0 included (a size of 0 is a size, not an absent one) -/
theorem scale_both_given (iw ih x y : Int) : scale iw ih (some x) (some y) = (x, y) := by
  simp [scale]

/-- native size = ⌊914400·px / dpi⌋: within one EMU below the exact quotient -/
theorem native_floor (px dpi : Nat) (hd : 0 < dpi) :
    nativeLen px dpi * dpi ≤ 914400 * px ∧ 914400 * (px : Int) < (nativeLen px dpi + 1) * dpi := by
  have hd' : (0 : Int) < dpi := by exact_mod_cast hd
  simp only [nativeLen]
  constructor
  · exact Int.ediv_mul_le _ (Int.ne_of_gt hd')
  · have := Int.lt_ediv_add_one_mul_self (914400 * (px : Int)) hd'
    simpa [Int.add_mul] using this

example : (run (fun b => b) [] [(7, .png), (9, .jpeg), (7, .png)]).length = 2 := by decide
example : scale 200 100 (some 50) none = (50, 25) := by decide

end Pptx.C15
