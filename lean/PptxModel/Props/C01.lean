/-
  C01 — opening and saving preserves every reachable part and relationship.
  Model: `Model/Opc.lean`.  (Theorems are added below as they are proved.)
-/
import PptxModel.Model.Opc
namespace Pptx.C01
open Pptx Pptx.Opc

theorem placeholder_true : True := trivial

end Pptx.C01
