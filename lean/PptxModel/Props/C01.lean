/-
  C01 — opening and saving preserves every reachable part and relationship.
  Model: `Model/Opc.lean`.
-/
import PptxModel.Model.Opc
import PptxModel.Props.C19
namespace Pptx.C01
open Pptx Pptx.Opc Pptx.PackUri

/-! ### each part is written exactly once -/

theorem iterParts_nodup (L : Loaded) (fuel : Nat) (visited : List Str) (todo : List RelX)
    (h : visited.Nodup) : (iterParts L fuel visited todo).Nodup := by
  induction fuel generalizing visited todo with
  | zero => simpa [iterParts] using h
  | succ n ih =>
    cases todo with
    | nil => simpa [iterParts] using h
    | cons r rest =>
      simp only [iterParts]
      split
      · exact ih visited rest h
      · split
        · exact ih visited rest h
        · rename_i hnc
          apply ih
          rw [List.nodup_append]
          refine ⟨h, by simp, ?_⟩
          intro a ha b hb
          simp at hb; subst hb
          intro e; subst e
          apply hnc; simpa using ha

/-- **Each part exactly once**: the part names the writer iterates over are pairwise distinct,
    whatever the relationship graph (cycles, shared targets, several relationships to one part). -/
theorem saved_parts_nodup (L : Loaded) : (savedPartNames L).Nodup :=
  iterParts_nodup L _ [] L.pkgRels List.nodup_nil

theorem iterParts_mem (L : Loaded) (fuel : Nat) (visited : List Str) (todo : List RelX) :
    ∀ n ∈ iterParts L fuel visited todo, n ∈ visited ∨
      ∃ r, r.external = false ∧ r.target = n ∧
        (r ∈ todo ∨ ∃ q ∈ L.parts, r ∈ q.rels) := by
  induction fuel generalizing visited todo with
  | zero => intro n hn; left; simpa [iterParts] using hn
  | succ k ih =>
    cases todo with
    | nil => intro n hn; left; simpa [iterParts] using hn
    | cons r rest =>
      intro n hn
      simp only [iterParts] at hn
      split at hn
      · rcases ih visited rest n hn with h | ⟨r', h1, h2, h3⟩
        · exact Or.inl h
        · exact Or.inr ⟨r', h1, h2, by rcases h3 with h | h; exact Or.inl (List.mem_cons_of_mem _ h); exact Or.inr h⟩
      · rename_i hext
        split at hn
        · rcases ih visited rest n hn with h | ⟨r', h1, h2, h3⟩
          · exact Or.inl h
          · exact Or.inr ⟨r', h1, h2, by rcases h3 with h | h; exact Or.inl (List.mem_cons_of_mem _ h); exact Or.inr h⟩
        · rcases ih _ _ n hn with h | ⟨r', h1, h2, h3⟩
          · rcases List.mem_append.mp h with h | h
            · exact Or.inl h
            · simp at h
              exact Or.inr ⟨r, by simpa using hext, h.symm, Or.inl (by simp)⟩
          · refine Or.inr ⟨r', h1, h2, ?_⟩
            rcases h3 with h | h
            · rcases List.mem_append.mp h with h | h
              · right
                cases hp : partByName L r.target with
                | none => simp [hp] at h
                | some q =>
                  simp only [hp] at h
                  exact ⟨q, List.mem_of_find?_eq_some hp, h⟩
              · exact Or.inl (List.mem_cons_of_mem _ h)
            · exact Or.inr h

/-- **Only reachable parts are written**: every written part name is the target of an internal
    relationship of the package or of a loaded part. -/
theorem saved_parts_are_targets (L : Loaded) (n : Str) (h : n ∈ savedPartNames L) :
    ∃ r, r.external = false ∧ r.target = n ∧ (r ∈ L.pkgRels ∨ ∃ q ∈ L.parts, r ∈ q.rels) := by
  rcases iterParts_mem L _ [] L.pkgRels n h with h | h
  · cases h
  · exact h

/-! ### relationships survive the rewrite -/

theorem mem_insertBy {α : Type} (lt : α → α → Bool) (x a : α) (l : List α) :
    a ∈ insertBy lt x l ↔ a = x ∨ a ∈ l := by
  induction l with
  | nil => simp [insertBy]
  | cons y ys ih =>
    simp only [insertBy]; split
    · simp
    · simp [ih]; constructor
      · rintro (h | h | h) <;> simp [h]
      · rintro (h | h | h) <;> simp [h]

theorem mem_sortBy {α : Type} (lt : α → α → Bool) (a : α) (l : List α) : a ∈ sortBy lt l ↔ a ∈ l := by
  induction l with
  | nil => simp [sortBy]
  | cons x t ih =>
    simp only [sortBy, List.foldr_cons] at ih ⊢
    rw [mem_insertBy]; simp [ih]

/-- **Same relationships, same ids, types and modes** in the rewritten rels item: it holds exactly
    the loaded relationships (in numeric order), external targets verbatim, internal targets
    re-expressed relative to the source part. -/
theorem savedRels_mem (source : Str) (rs : List RelX) (r' : RelX) :
    r' ∈ savedRels source rs ↔
      ∃ r ∈ rs, r'.id = r.id ∧ r'.rtype = r.rtype ∧ r'.external = r.external ∧
        r'.target = (if r.external then r.target
                     else relativeRef r.target (baseURI source)) := by
  simp only [savedRels, List.mem_map, mem_sortBy]
  constructor
  · rintro ⟨r, hr, e⟩
    refine ⟨r, hr, ?_⟩
    subst e; split <;> simp_all
  · rintro ⟨r, hr, h1, h2, h3, h4⟩
    refine ⟨r, hr, ?_⟩
    cases hx : r.external <;> simp only [hx, Bool.false_eq_true, if_false, if_true] at h4 ⊢
    · cases r'; cases r; simp_all
    · cases r'; cases r; simp_all

/-- **Internal targets resolve to the same part** after the rewrite: for a source part
    `/P…/f` and a target part `/Q…` (clean names of any depth) the written relative reference
    resolves, against the source, to exactly the target — by C19's round-trip theorem. -/
theorem saved_target_resolves (P Q : List Str) (f : Str) (hP : Clean P) (hf : CleanSeg f)
    (hQ : Clean Q) (r : RelX) (hr : r.external = false) (ht : r.target = render Q) :
    ∀ r' ∈ savedRels (render (P ++ [f])) [r], resolve (render (P ++ [f])) r' = some (render Q) := by
  intro r' hr'
  obtain ⟨r0, hr0, _, _, _, h4⟩ := (savedRels_mem _ _ r').mp hr'
  simp at hr0; subst hr0
  simp only [hr, Bool.false_eq_true, if_false, ht] at h4
  have hb := (C19.baseURI_filename_spec P f hP hf).1
  simp only [resolve, h4, hb]
  exact C19.fromRelRef_relativeRef P Q hP hQ

/-- the same for relationships of the package itself (source `/`) -/
theorem saved_pkg_target_resolves (Q : List Str) (hQ : Clean Q) (r : RelX)
    (hr : r.external = false) (ht : r.target = render Q) :
    ∀ r' ∈ savedRels ['/'] [r], resolve ['/'] r' = some (render Q) := by
  intro r' hr'
  obtain ⟨r0, hr0, _, _, _, h4⟩ := (savedRels_mem _ _ r').mp hr'
  simp at hr0; subst hr0
  simp only [hr, Bool.false_eq_true, if_false, ht] at h4
  have hb : baseURI ['/'] = render [] := by decide
  simp only [resolve, h4, hb]
  exact C19.fromRelRef_relativeRef [] Q (by intro s hs; cases hs) hQ

/-- non-vacuity: a two-part package with a cycle and a shared target, saved and re-loaded -/
def demo : Phys :=
  { defaults := [("xml".toList, "application/xml".toList)],
    overrides := [("/a/p.xml".toList, "t/a".toList), ("/b/q.bin".toList, "t/b".toList)],
    members := ["/a/p.xml".toList, "/b/q.bin".toList, "/extra.xml".toList],
    rels := [(['/'], [⟨"rId1".toList, "r".toList, "a/p.xml".toList, false⟩]),
             ("/a/p.xml".toList, [⟨"rId2".toList, "r".toList, "../b/q.bin".toList, false⟩,
                                  ⟨"rId1".toList, "r".toList, "http://x".toList, true⟩]),
             ("/b/q.bin".toList, [⟨"rId1".toList, "r".toList, "/a/p.xml".toList, false⟩])] }

example : (match load demo true with
    | .ok L => savedPartNames L | .error _ => []) = ["/a/p.xml".toList, "/b/q.bin".toList] := by decide

end Pptx.C01

namespace Pptx.C01
open Pptx Pptx.Opc Pptx.PackUri

/-! ### content types survive the rewrite -/

theorem toNat_ofNat_small (n : Nat) (h : n < 0xd800) : (Char.ofNat n).toNat = n := by
  have hv : n.isValidChar := Or.inl h
  rw [Char.ofNat, dif_pos hv]
  simp [Char.ofNatAux, Char.toNat]

theorem lowerAscii_idem (c : Char) : lowerAscii (lowerAscii c) = lowerAscii c := by
  unfold lowerAscii
  split
  · rename_i h
    have h2 : c.toNat ≤ 90 := h.2
    have := toNat_ofNat_small (c.toNat + 32) (by omega)
    split
    · rename_i h'
      have : (Char.ofNat (c.toNat + 32)).toNat ≤ 90 := h'.2
      have h1 : c.toNat ≥ 65 := h.1
      omega
    · rfl
  · rfl

theorem lowerStr_idem (s : Str) : lowerStr (lowerStr s) = lowerStr s := by
  simp [lowerStr, List.map_map, Function.comp_def, lowerAscii_idem]

/-- what the reader computes from the written item -/
def lookupWritten (d o : List (Str × Str)) (name : Str) : Option Str :=
  match ciLookup name o with
  | some ct => some ct
  | none => ciLookup (ext name) d

theorem ciLookup_some_of_unique (k v : Str) (l : List (Str × Str)) (hm : (k, v) ∈ l)
    (hu : ∀ e ∈ l, lowerStr e.1 = lowerStr k → e.2 = v) : ciLookup k l = some v := by
  simp only [ciLookup]
  cases hf : l.reverse.find? (fun e => lowerStr e.1 == lowerStr k) with
  | none =>
    have := List.find?_eq_none.mp hf (k, v) (by simpa using hm)
    simp at this
  | some e =>
    have he := List.mem_of_find?_eq_some hf
    have hp := List.find?_some hf
    simp only [Option.map_some, Option.some.injEq]
    exact hu e (by simpa using he) (by simpa using hp)

theorem ciLookup_none (k : Str) (l : List (Str × Str))
    (h : ∀ e ∈ l, lowerStr e.1 ≠ lowerStr k) : ciLookup k l = none := by
  simp only [ciLookup]
  have : l.reverse.find? (fun e => lowerStr e.1 == lowerStr k) = none := by
    apply List.find?_eq_none.mpr
    intro e he
    have := h e (by simpa using he)
    simpa using this
  simp [this]

theorem fold_ctStep (dct all : List (Str × Str)) (l : List (Str × Str)) (d0 o0 : List (Str × Str)) :
    l.foldl (ctStep dct all) (d0, o0) =
      ((l.filter (isDef dct all)).foldl (fun d pn => setCI (ext pn.1) pn.2 d) d0,
       o0 ++ l.filter (fun pn => !isDef dct all pn)) := by
  induction l generalizing d0 o0 with
  | nil => simp
  | cons pn rest ih =>
    simp only [List.foldl_cons, ctStep]
    by_cases h : isDef dct all pn = true
    · simp only [h, if_true]; rw [ih]; simp [List.filter_cons, h]
    · have h' : isDef dct all pn = false := by simpa using h
      simp only [h', Bool.false_eq_true, if_false]; rw [ih]
      simp [List.filter_cons, h', List.append_assoc]

theorem oneType_all_eq (l : List Str) (h : oneType l = true) : ∀ a ∈ l, ∀ b ∈ l, a = b := by
  cases l with
  | nil => simp [oneType] at h
  | cons x xs =>
    simp only [oneType, List.all_eq_true, beq_iff_eq] at h
    have hx : ∀ a ∈ x :: xs, a = x := by
      intro a ha; rcases List.mem_cons.mp ha with e | e
      · exact e
      · exact h a e
    intro a ha b hb; rw [hx a ha, hx b hb]

/-- two Default-class parts with the same (case-insensitive) extension have the same type -/
theorem isDef_same (dct all : List (Str × Str)) (p q : Str × Str) (hp : p ∈ all) (hq : q ∈ all)
    (dp : isDef dct all p = true) (dq : isDef dct all q = true)
    (he : lowerStr (ext p.1) = lowerStr (ext q.1)) : p.2 = q.2 := by
  simp only [isDef, Bool.and_eq_true] at dp dq
  have hall := oneType_all_eq _ dp.2
  have mp : p.2 ∈ eligibleTypes dct all (ext p.1) := by
    simp only [eligibleTypes, List.mem_map, List.mem_filter]
    exact ⟨p, ⟨hp, by simp [dp.1]⟩, rfl⟩
  have mq : q.2 ∈ eligibleTypes dct all (ext p.1) := by
    simp only [eligibleTypes, List.mem_map, List.mem_filter]
    exact ⟨q, ⟨hq, by simp [dq.1, he]⟩, rfl⟩
  exact hall _ mp _ mq

theorem setCI_mem (k v : Str) (l : List (Str × Str)) :
    (lowerStr k, v) ∈ setCI k v l ∧
    ∀ e ∈ setCI k v l, e = (lowerStr k, v) ∨ (e ∈ l ∧ e.1 ≠ lowerStr k) := by
  simp only [setCI]
  split
  · rename_i hany
    obtain ⟨e0, he0, hk⟩ := List.any_eq_true.mp hany
    have hk : e0.1 = lowerStr k := by simpa using hk
    constructor
    · apply List.mem_map.mpr
      exact ⟨e0, he0, by simp [hk]⟩
    · intro e he
      obtain ⟨e1, he1, rfl⟩ := List.mem_map.mp he
      by_cases h1 : e1.1 = lowerStr k
      · left; simp [h1]
      · right; simp [h1]; exact he1
  · rename_i hnone
    constructor
    · simp
    · intro e he
      rcases List.mem_append.mp he with h | h
      · right
        refine ⟨h, ?_⟩
        intro hk
        apply hnone
        exact List.any_eq_true.mpr ⟨e, h, by simpa using hk⟩
      · left; simpa using h

/-- after folding the Default-class parts into the defaults, every entry either comes from one of
    them (key = its lower-cased extension, value = its type) or is an untouched initial entry -/
theorem fold_setCI_inv (defs : List (Str × Str)) (d0 : List (Str × Str)) :
    (∀ pn ∈ defs, ∃ v, (lowerStr (ext pn.1), v) ∈ defs.foldl (fun d pn => setCI (ext pn.1) pn.2 d) d0) ∧
    (∀ e ∈ defs.foldl (fun d pn => setCI (ext pn.1) pn.2 d) d0,
      (∃ pn ∈ defs, e.1 = lowerStr (ext pn.1) ∧ e.2 = pn.2) ∨
      (e ∈ d0 ∧ ∀ pn ∈ defs, e.1 ≠ lowerStr (ext pn.1))) := by
  induction defs generalizing d0 with
  | nil =>
    refine ⟨?_, ?_⟩
    · intro pn h; cases h
    · intro e he; right; exact ⟨he, fun pn h => by cases h⟩
  | cons p rest ih =>
    simp only [List.foldl_cons]
    obtain ⟨ih1, ih2⟩ := ih (setCI (ext p.1) p.2 d0)
    obtain ⟨s1, s2⟩ := setCI_mem (ext p.1) p.2 d0
    constructor
    · intro pn hpn
      rcases List.mem_cons.mp hpn with e | e
      · subst e
        -- the key written for `pn` is still present after the remaining steps
        by_cases hex : ∃ q ∈ rest, lowerStr (ext q.1) = lowerStr (ext pn.1)
        · obtain ⟨q, hq, hqe⟩ := hex
          obtain ⟨v, hv⟩ := ih1 q hq; exact ⟨v, hqe ▸ hv⟩
        · have hno := hex
          -- untouched by the remaining steps: prove by a direct sub-induction
          have keep : ∀ (l : List (Str × Str)) (d : List (Str × Str)),
              (∀ q ∈ l, lowerStr (ext q.1) ≠ lowerStr (ext pn.1)) →
              (lowerStr (ext pn.1), pn.2) ∈ d →
              (lowerStr (ext pn.1), pn.2) ∈ l.foldl (fun d pn => setCI (ext pn.1) pn.2 d) d := by
            intro l
            induction l with
            | nil => intro d _ h; exact h
            | cons q t iht =>
              intro d hne hmem
              simp only [List.foldl_cons]
              apply iht _ (fun x hx => hne x (List.mem_cons_of_mem _ hx))
              simp only [setCI]
              split
              · apply List.mem_map.mpr
                refine ⟨(lowerStr (ext pn.1), pn.2), hmem, ?_⟩
                have : lowerStr (ext pn.1) ≠ lowerStr (ext q.1) := fun e => hne q (by simp) e.symm
                simp [this]
              · exact List.mem_append_left _ hmem
          exact ⟨pn.2, keep rest _ (fun q hq e => hno ⟨q, hq, e⟩) s1⟩
      · obtain ⟨v, hv⟩ := ih1 pn e; exact ⟨v, hv⟩
    · intro e he
      rcases ih2 e he with ⟨pn, hpn, h1, h2⟩ | ⟨hmem, hne⟩
      · exact Or.inl ⟨pn, List.mem_cons_of_mem _ hpn, h1, h2⟩
      · rcases s2 e hmem with h | ⟨h, hk⟩
        · left; exact ⟨p, by simp, by simp [h], by simp [h]⟩
        · right
          refine ⟨h, ?_⟩
          intro pn hpn
          rcases List.mem_cons.mp hpn with e' | e'
          · subst e'; exact hk
          · exact hne pn e'

theorem nodup_map_inj {α β : Type} (f : α → β) (l : List α) (h : (l.map f).Nodup) (a b : α)
    (ha : a ∈ l) (hb : b ∈ l) (he : f a = f b) : a = b := by
  induction l with
  | nil => cases ha
  | cons x xs ih =>
    simp only [List.map_cons, List.nodup_cons] at h
    rcases List.mem_cons.mp ha with e1 | e1 <;> rcases List.mem_cons.mp hb with e2 | e2
    · rw [e1, e2]
    · subst e1; exact absurd (List.mem_map.mpr ⟨b, e2, he.symm⟩) h.1
    · subst e2; exact absurd (List.mem_map.mpr ⟨a, e1, he⟩) h.1
    · exact ih h.2 e1 e2

/-- **Every part keeps its content type**: for any list of parts whose names are distinct
    (case-insensitively), looking each part up in the content-types item the writer composes —
    Override by name first, else Default by extension, both case-insensitive, exactly as the
    reader does — returns the type the part was loaded with.  This includes several parts sharing
    an extension but not a type, upper/lower-case extensions, and types outside the default table. -/
theorem ct_preserved (dct : List (Str × Str)) (xmlCT relsCT : Str) (parts : List (Str × Str))
    (hnd : (parts.map fun pn => lowerStr pn.1).Nodup) (pn : Str × Str) (hpn : pn ∈ parts) :
    lookupWritten (ctItem dct xmlCT relsCT parts).1 (ctItem dct xmlCT relsCT parts).2 pn.1 = some pn.2 := by
  simp only [ctItem, fold_ctStep, List.nil_append]
  -- names are unique up to case
  have huniq : ∀ q ∈ parts, lowerStr q.1 = lowerStr pn.1 → q = pn := by
    intro q hq he
    exact nodup_map_inj (fun x : Str × Str => lowerStr x.1) parts hnd q pn hq hpn he
  by_cases hd : isDef dct parts pn = true
  · -- Default-class: no Override carries its name, the Default of its extension carries its type
    have hnone : ciLookup pn.1 (parts.filter fun q => !isDef dct parts q) = none := by
      apply ciLookup_none
      intro e he hk
      obtain ⟨he1, he2⟩ := List.mem_filter.mp he
      have := huniq e he1 hk
      subst this; simp [hd] at he2
    simp only [lookupWritten, hnone]
    obtain ⟨inv1, inv2⟩ := fold_setCI_inv (parts.filter (isDef dct parts))
      [("rels".toList, relsCT), ("xml".toList, xmlCT)]
    have hpd : pn ∈ parts.filter (isDef dct parts) := List.mem_filter.mpr ⟨hpn, hd⟩
    obtain ⟨v, hv⟩ := inv1 pn hpd
    have hval : ∀ e ∈ (parts.filter (isDef dct parts)).foldl (fun d q => setCI (ext q.1) q.2 d)
        [("rels".toList, relsCT), ("xml".toList, xmlCT)],
        lowerStr e.1 = lowerStr (ext pn.1) → e.2 = pn.2 := by
      intro e he hk
      rcases inv2 e he with ⟨q, hq, h1, h2⟩ | ⟨_, hne⟩
      · obtain ⟨hq1, hq2⟩ := List.mem_filter.mp hq
        rw [h2]
        apply isDef_same dct parts q pn hq1 hpn hq2 hd
        rw [h1, lowerStr_idem] at hk; exact hk
      · exfalso
        -- an entry whose key is some part's lower-cased extension … but `pn` itself is a def
        have := hne pn hpd
        rcases inv2 e he with ⟨q, hq, h1, _⟩ | ⟨hm, _⟩
        · exact hne q hq h1
        · -- initial entries have lower-case keys: "rels", "xml"
          simp at hm
          rcases hm with rfl | rfl
          · apply this; simpa [lowerStr_idem] using hk ▸ (by decide : lowerStr "rels".toList = "rels".toList).symm ▸ rfl
          · apply this; simpa [lowerStr_idem] using hk ▸ (by decide : lowerStr "xml".toList = "xml".toList).symm ▸ rfl
    have : v = pn.2 := hval _ hv (by simp [lowerStr_idem])
    subst this
    -- `ciLookup` lower-cases the probe key too
    have := ciLookup_some_of_unique (lowerStr (ext pn.1)) pn.2 _ hv (by
      intro e he hk; exact hval e he (by rw [hk, lowerStr_idem]))
    simp only [ciLookup, lowerStr_idem] at this ⊢
    exact this
  · have hd' : isDef dct parts pn = false := by simpa using hd
    have hmem : (pn.1, pn.2) ∈ parts.filter fun q => !isDef dct parts q :=
      List.mem_filter.mpr ⟨hpn, by simp [hd']⟩
    have := ciLookup_some_of_unique pn.1 pn.2 _ hmem (by
      intro e he hk
      have := huniq e (List.mem_filter.mp he).1 hk
      rw [this])
    simp [lookupWritten, this]

/-- **Negative theorem** (the writer before the `fix:` for F-C01-1): with two `.bin` parts of
    different default-able types the last one decides the Default and the first re-opens with the
    wrong content type; the fixed writer gives each an Override. -/
theorem last_default_wins_loses_type :
    let dct := [("bin".toList, "pml".toList), ("bin".toList, "sml".toList)]
    let parts := [("/a.bin".toList, "pml".toList), ("/b.bin".toList, "sml".toList)]
    lookupWritten (ctItemLastWins dct [] [] parts).1 (ctItemLastWins dct [] [] parts).2 "/a.bin".toList
      = some "sml".toList
    ∧ lookupWritten (ctItem dct [] [] parts).1 (ctItem dct [] [] parts).2 "/a.bin".toList
      = some "pml".toList := by decide

end Pptx.C01
