/-
  C17 — connector end points, group extents, freeform bounds.  Model: `Model/Geometry.lean`.
-/
import PptxModel.Model.Geometry
namespace Pptx.C17
open Pptx.Geometry

/-! ### connectors -/

/-- Moving the begin point of one axis: the begin reading becomes the assigned value, the end
    reading is unchanged, the extent stays non-negative — in every one of the six branches,
    including those where the begin point crosses over the end point and the flip toggles. -/
theorem setBegin_spec (a : Axis) (v : Int) (h : 0 ≤ a.ext) :
    (a.setBegin v).beginPt = v ∧ (a.setBegin v).endPt = a.endPt ∧ 0 ≤ (a.setBegin v).ext := by
  obtain ⟨p, e, f⟩ := a
  cases f <;> simp only [Axis.setBegin, Axis.beginPt, Axis.endPt, iabs] at * <;>
    (repeat' split) <;> simp_all <;> omega

theorem setEnd_spec (a : Axis) (v : Int) (h : 0 ≤ a.ext) :
    (a.setEnd v).endPt = v ∧ (a.setEnd v).beginPt = a.beginPt ∧ 0 ≤ (a.setEnd v).ext := by
  obtain ⟨p, e, f⟩ := a
  cases f <;> simp only [Axis.setEnd, Axis.beginPt, Axis.endPt, iabs] at * <;>
    (repeat' split) <;> simp_all <;> omega

/-- the stored offset and extent of an axis are the lesser end point and the distance of the two -/
theorem axis_pos_ext (a : Axis) (h : 0 ≤ a.ext) :
    a.pos = min a.beginPt a.endPt ∧ a.ext = iabs (a.beginPt - a.endPt) := by
  obtain ⟨p, e, f⟩ := a
  cases f <;> simp only [Axis.beginPt, Axis.endPt, iabs] at * <;> (repeat' split) <;> simp_all <;> omega

/-- **An accepted end-point assignment writes only values that lie in their XML types, and a refused one changes
    nothing**: when the checked begin setter accepts `v`, the axis reads `v` at its begin point, its end point has not
    moved, and the offset and extent it stores are inside `ST_Coordinate` / `ST_PositiveCoordinate` — so no attribute
    write later in the setter can raise, which is what makes the refusal (`none`: the state is not touched at all)
    the ONLY way the call fails. For every axis with a non-negative extent and every integer `v`. -/
theorem setBeginChecked_spec (a : Axis) (v : Int) (h : 0 ≤ a.ext) (a' : Axis) (hs : a.setBeginChecked v = some a') :
    a'.beginPt = v ∧ a'.endPt = a.endPt ∧ a'.writable = true := by
  simp only [Axis.setBeginChecked] at hs
  split at hs
  · rename_i hc
    injection hs with hs; subst hs
    obtain ⟨h1, h2, h3⟩ := setBegin_spec a v h
    obtain ⟨hp, he⟩ := axis_pos_ext (a.setBegin v) h3
    refine ⟨h1, h2, ?_⟩
    simp only [Bool.and_eq_true, spanOk] at hc
    simp only [Axis.writable, Bool.and_eq_true]
    rw [hp, he, h1, h2]
    exact hc.2
  · cases hs

theorem setEndChecked_spec (a : Axis) (v : Int) (h : 0 ≤ a.ext) (a' : Axis) (hs : a.setEndChecked v = some a') :
    a'.endPt = v ∧ a'.beginPt = a.beginPt ∧ a'.writable = true := by
  simp only [Axis.setEndChecked] at hs
  split at hs
  · rename_i hc
    injection hs with hs; subst hs
    obtain ⟨h1, h2, h3⟩ := setEnd_spec a v h
    obtain ⟨hp, he⟩ := axis_pos_ext (a.setEnd v) h3
    refine ⟨h1, h2, ?_⟩
    simp only [Bool.and_eq_true, spanOk] at hc
    simp only [Axis.writable, Bool.and_eq_true]
    rw [hp, he, h1, h2]
    have e1 : min a.beginPt v = min v a.beginPt := Int.min_comm _ _
    have e2 : iabs (a.beginPt - v) = iabs (v - a.beginPt) := by simp only [iabs]; (repeat' split) <;> omega
    rw [e1, e2]
    exact hc.2
  · cases hs

/-- the refusal is exact: an assignment is refused precisely when the coordinate or the span it would produce cannot
    be written -/
theorem setBeginChecked_none_iff (a : Axis) (v : Int) :
    a.setBeginChecked v = none ↔ ¬ (inCoord v = true ∧ spanOk v a.endPt = true) := by
  simp only [Axis.setBeginChecked]
  split <;> simp_all

/-- a refused assignment leaves every reading of the connector as it was (the step returns the state it was given) -/
theorem stepChecked_refused (c : Cxn) (op : CxnOp) (h : (c.stepChecked op).2 = false) : (c.stepChecked op).1 = c := by
  cases op <;> simp only [Cxn.stepChecked] at h ⊢ <;> split <;> simp_all

example : (Axis.new 27273042316900 0).setBeginChecked 4394200 = some (Axis.new 4394200 0) := by decide
example : (Axis.new 0 27273042316900).setBeginChecked (-27273042316900) = none := by decide
example : ((Cxn.new 0 0 27273042316900 10).stepChecked (.beginX (-27273042316900))) = (Cxn.new 0 0 27273042316900 10, false) := by decide

/-- A connector created from `(b, e)` reports `b` and `e` and has a non-negative extent. -/
theorem new_spec (b e : Int) :
    (Axis.new b e).beginPt = b ∧ (Axis.new b e).endPt = e ∧ 0 ≤ (Axis.new b e).ext := by
  simp only [Axis.new, Axis.beginPt, Axis.endPt, iabs]
  by_cases h : b > e <;> simp [h] <;> (repeat' split) <;> omega

/-- the abstract connector: just its four end-point coordinates -/
def specStep (r : Int × Int × Int × Int) : CxnOp → Int × Int × Int × Int
  | .beginX v => (v, r.2.1, r.2.2.1, r.2.2.2)
  | .beginY v => (r.1, v, r.2.2.1, r.2.2.2)
  | .endX v => (r.1, r.2.1, v, r.2.2.2)
  | .endY v => (r.1, r.2.1, r.2.2.1, v)

def Cxn.Ok (c : Cxn) : Prop := 0 ≤ c.h.ext ∧ 0 ≤ c.v.ext

theorem step_spec (c : Cxn) (op : CxnOp) (h : Cxn.Ok c) :
    (c.step op).readings = specStep c.readings op ∧ Cxn.Ok (c.step op) := by
  obtain ⟨hh, hv⟩ := h
  cases op with
  | beginX v =>
    have := setBegin_spec c.h v hh
    simp [Cxn.step, Cxn.readings, specStep, Cxn.Ok, this, hv]
  | beginY v =>
    have := setBegin_spec c.v v hv
    simp [Cxn.step, Cxn.readings, specStep, Cxn.Ok, this, hh]
  | endX v =>
    have := setEnd_spec c.h v hh
    simp [Cxn.step, Cxn.readings, specStep, Cxn.Ok, this, hv]
  | endY v =>
    have := setEnd_spec c.v v hv
    simp [Cxn.step, Cxn.readings, specStep, Cxn.Ok, this, hh]

/-- **Any sequence of end-point assignments** (crossing over or not, in either axis, any length)
    behaves like independent assignment to four coordinates: each assignment changes exactly the
    coordinate assigned, and width/height never go negative. -/
theorem run_spec (ops : List CxnOp) (c : Cxn) (h : Cxn.Ok c) :
    (ops.foldl Cxn.step c).readings = ops.foldl specStep c.readings
      ∧ Cxn.Ok (ops.foldl Cxn.step c) := by
  induction ops generalizing c with
  | nil => exact ⟨rfl, h⟩
  | cons op rest ih =>
    obtain ⟨h1, h2⟩ := step_spec c op h
    have := ih (c.step op) h2
    simp only [List.foldl_cons, ← h1]; exact this

theorem new_cxn_spec (bx by_ ex ey : Int) :
    (Cxn.new bx by_ ex ey).readings = (bx, by_, ex, ey) ∧ Cxn.Ok (Cxn.new bx by_ ex ey) := by
  have h := new_spec bx ex
  have v := new_spec by_ ey
  simp [Cxn.new, Cxn.readings, Cxn.Ok, h, v]

/-- non-vacuity: a flipped connector whose begin point is dragged across its end point -/
example : ((Cxn.new 10 5 3 9).step (.beginX 0)).readings = (0, 5, 3, 9) := by decide
example : Cxn.Ok (Cxn.new 10 5 3 9) := by unfold Cxn.Ok; decide

/-! ### groups -/

theorem minL_le (l : List Int) (a : Int) (h : a ∈ l) : minL l ≤ a := by
  induction l with
  | nil => cases h
  | cons x t ih =>
    cases t with
    | nil => simp at h; simp [minL, h]
    | cons y t' =>
      simp only [minL]
      rcases List.mem_cons.mp h with e | e
      · subst e; omega
      · have := ih e; omega

theorem minL_mem (l : List Int) (h : l ≠ []) : minL l ∈ l := by
  induction l with
  | nil => exact absurd rfl h
  | cons x t ih =>
    cases t with
    | nil => simp [minL]
    | cons y t' =>
      have := ih (by simp)
      simp only [minL]
      by_cases hc : x ≤ minL (y :: t')
      · rw [Int.min_eq_left hc]; simp
      · rw [Int.min_eq_right (by omega)]; exact List.mem_cons_of_mem _ this

theorem le_maxL (l : List Int) (a : Int) (h : a ∈ l) : a ≤ maxL l := by
  induction l with
  | nil => cases h
  | cons x t ih =>
    cases t with
    | nil => simp at h; simp [maxL, h]
    | cons y t' =>
      simp only [maxL]
      rcases List.mem_cons.mp h with e | e
      · subst e; omega
      · have := ih e; omega

theorem maxL_mem (l : List Int) (h : l ≠ []) : maxL l ∈ l := by
  induction l with
  | nil => exact absurd rfl h
  | cons x t ih =>
    cases t with
    | nil => simp [maxL]
    | cons y t' =>
      have := ih (by simp)
      simp only [maxL]
      by_cases hc : maxL (y :: t') ≤ x
      · rw [Int.max_eq_left hc]; simp
      · rw [Int.max_eq_right (by omega)]; exact List.mem_cons_of_mem _ this

/-- `_child_extents` is the bounding box: it contains every member box and is tight on all four
    sides (each side is attained by some member). -/
theorem childExtents_is_bbox (bs : List Box) (hne : bs ≠ []) :
    let e := childExtents bs
    (∀ b ∈ bs, e.x ≤ b.x ∧ e.y ≤ b.y ∧ b.x + b.cx ≤ e.x + e.cx ∧ b.y + b.cy ≤ e.y + e.cy)
    ∧ (∃ b ∈ bs, b.x = e.x) ∧ (∃ b ∈ bs, b.y = e.y)
    ∧ (∃ b ∈ bs, b.x + b.cx = e.x + e.cx) ∧ (∃ b ∈ bs, b.y + b.cy = e.y + e.cy) := by
  simp only [childExtents, hne, if_false]
  refine ⟨?_, ?_, ?_, ?_, ?_⟩
  · intro b hb
    have h1 := minL_le (bs.map (·.x)) b.x (List.mem_map_of_mem hb)
    have h2 := minL_le (bs.map (·.y)) b.y (List.mem_map_of_mem hb)
    have h3 := le_maxL (bs.map fun b => b.x + b.cx) (b.x + b.cx) (List.mem_map.mpr ⟨b, hb, rfl⟩)
    have h4 := le_maxL (bs.map fun b => b.y + b.cy) (b.y + b.cy) (List.mem_map.mpr ⟨b, hb, rfl⟩)
    refine ⟨h1, h2, ?_, ?_⟩ <;> omega
  · obtain ⟨b, hb, e⟩ := List.mem_map.mp (minL_mem (bs.map (·.x)) (by simpa using hne))
    exact ⟨b, hb, e⟩
  · obtain ⟨b, hb, e⟩ := List.mem_map.mp (minL_mem (bs.map (·.y)) (by simpa using hne))
    exact ⟨b, hb, e⟩
  · obtain ⟨b, hb, e⟩ := List.mem_map.mp (maxL_mem (bs.map fun b => b.x + b.cx) (by simpa using hne))
    exact ⟨b, hb, by omega⟩
  · obtain ⟨b, hb, e⟩ := List.mem_map.mp (maxL_mem (bs.map fun b => b.y + b.cy) (by simpa using hne))
    exact ⟨b, hb, by omega⟩

/-- every group's stored frame and child space are the extents of its members' boxes, recursively -/
inductive WF : G → Prop
  | leaf (b : Box) : WF (.leaf b)
  | grp (b ch : Box) (kids : List G) :
      b = childExtents (kids.map G.box) → ch = b → (∀ k ∈ kids, WF k) → WF (.grp b ch kids)

/-- **Any addition at any nesting depth keeps every group equal to the bounding box of its
    members, recursively** — given that the addition recalculates upwards (`addAt`). -/
theorem addAt_wf (path : List Nat) (new g : G) (hg : WF g) (hn : WF new) :
    WF (G.addAt path new g) := by
  induction path generalizing g with
  | nil =>
    cases hg with
    | leaf b => exact WF.leaf b
    | grp b ch kids hb hc hk =>
      simp only [G.addAt]
      refine WF.grp _ _ _ rfl rfl ?_
      intro k hkm
      rcases List.mem_append.mp hkm with h | h
      · exact hk k h
      · simp at h; subst h; exact hn
  | cons i path ih =>
    cases hg with
    | leaf b => exact WF.leaf b
    | grp b ch kids hb hc hk =>
      simp only [G.addAt]
      cases hki : kids[i]? with
      | none => exact WF.grp b ch kids hb hc hk
      | some k =>
        simp only
        refine WF.grp _ _ _ rfl rfl ?_
        intro k' hk'
        rcases List.mem_or_eq_of_mem_set hk' with h | h
        · exact hk k' h
        · subst h
          exact ih k (hk k (List.mem_of_getElem? hki))

/-- any sequence of additions (each at its own path) preserves the invariant -/
theorem addAt_run_wf (adds : List (List Nat × G)) (g : G) (hg : WF g)
    (hn : ∀ a ∈ adds, WF a.2) : WF (adds.foldl (fun g a => G.addAt a.1 a.2 g) g) := by
  induction adds generalizing g with
  | nil => exact hg
  | cons a rest ih =>
    simp only [List.foldl_cons]
    exact ih _ (addAt_wf a.1 a.2 g hg (hn a (by simp))) (fun x hx => hn x (by simp [hx]))

theorem emptyGrp_wf : WF G.emptyGrp := WF.grp _ _ _ (by simp [childExtents]) rfl (by simp)

/-- the group itself (not necessarily its descendants) equals the bounding box of its members -/
def LocalOK : G → Prop
  | .leaf _ => True
  | .grp b ch kids => b = childExtents (kids.map G.box) ∧ ch = b

/-- every group on the addressed path is `LocalOK` -/
def PathOK : List Nat → G → Prop
  | [], g => LocalOK g
  | i :: path, .grp b ch kids => LocalOK (.grp b ch kids) ∧ ∀ k, kids[i]? = some k → PathOK path k
  | _ :: _, .leaf _ => True

/-- path addresses groups all the way down -/
def ValidPath : List Nat → G → Prop
  | [], .grp _ _ _ => True
  | [], .leaf _ => False
  | i :: path, .grp _ _ kids => ∃ k, kids[i]? = some k ∧ ValidPath path k
  | _ :: _, .leaf _ => False

/-- **Whatever state the tree was in** (groups moved or resized through the public setters, stale
    ancestors), an addition re-establishes "frame = child space = bounding box of members" for the
    group added to and for every group above it. -/
theorem addAt_path_ok (path : List Nat) (new g : G) (hv : ValidPath path g) :
    PathOK path (G.addAt path new g) := by
  induction path generalizing g with
  | nil =>
    cases g with
    | leaf b => exact absurd hv (by simp [ValidPath])
    | grp b ch kids => simp [G.addAt, PathOK, LocalOK]
  | cons i path ih =>
    cases g with
    | leaf b => exact absurd hv (by simp [ValidPath])
    | grp b ch kids =>
      obtain ⟨k, hk, hvk⟩ := hv
      simp only [G.addAt, hk, PathOK, LocalOK]
      refine ⟨by simp, ?_⟩
      intro k' hk'
      have hi : i < kids.length := by
        rcases List.getElem?_eq_some_iff.mp hk with ⟨h, _⟩; exact h
      rw [List.getElem?_set_self hi] at hk'
      injection hk' with hk'; subst hk'
      exact ih k hvk

/-- non-vacuity: a nested addition -/
example : G.addAt [0] (.leaf ⟨5, 5, 10, 10⟩) (.grp ⟨0, 0, 0, 0⟩ ⟨0, 0, 0, 0⟩ [G.emptyGrp]) =
    .grp ⟨5, 5, 10, 10⟩ ⟨5, 5, 10, 10⟩ [.grp ⟨5, 5, 10, 10⟩ ⟨5, 5, 10, 10⟩ [.leaf ⟨5, 5, 10, 10⟩]] := by
  simp [G.addAt, G.emptyGrp, childExtents, G.box, minL, maxL]

/-- non-vacuity for `addAt_path_ok`: a group moved by the setters, then added to -/
example : G.addAt [] (.leaf ⟨6, 6, 1, 1⟩)
    (G.setBoxAt [] ⟨900, 900, 5, 5⟩ (.grp ⟨5, 5, 10, 10⟩ ⟨5, 5, 10, 10⟩ [.leaf ⟨5, 5, 10, 10⟩]))
    = .grp ⟨5, 5, 10, 10⟩ ⟨5, 5, 10, 10⟩ [.leaf ⟨5, 5, 10, 10⟩, .leaf ⟨6, 6, 1, 1⟩] := by
  simp [G.addAt, G.setBoxAt, childExtents, G.box, minL, maxL]; omega

/-- **Negative theorem** (what the code did before the `fix:` for F-C17-1): appending an empty
    sub-group *without* recalculating leaves a group that is not the bounding box of its members. -/
theorem append_without_recalc_breaks :
    ¬ WF (.grp ⟨100, 100, 50, 50⟩ ⟨100, 100, 50, 50⟩ [.leaf ⟨100, 100, 50, 50⟩, G.emptyGrp]) := by
  intro h
  cases h with
  | grp _ _ _ hb _ _ => revert hb; decide

/-! ### freeform -/

theorem foldMin_le_init (l : List Int) (i : Int) : foldMin i l ≤ i := by
  induction l generalizing i with
  | nil => simp [foldMin]
  | cons x t ih =>
    have := ih (min i x)
    simp only [foldMin, List.foldl_cons] at *
    omega

theorem foldMin_le_mem (l : List Int) (i a : Int) (h : a ∈ l) : foldMin i l ≤ a := by
  induction l generalizing i with
  | nil => cases h
  | cons x t ih =>
    simp only [foldMin, List.foldl_cons]
    rcases List.mem_cons.mp h with e | e
    · subst e
      have := foldMin_le_init t (min i a); simp only [foldMin] at this; omega
    · exact ih (min i x) e

theorem foldMin_mem (l : List Int) (i : Int) : foldMin i l ∈ i :: l := by
  induction l generalizing i with
  | nil => simp [foldMin]
  | cons x t ih =>
    have := ih (min i x)
    simp only [foldMin, List.foldl_cons] at *
    rcases List.mem_cons.mp this with e | e
    · rw [e]; by_cases hc : i ≤ x
      · rw [Int.min_eq_left hc]; simp
      · rw [Int.min_eq_right (by omega)]; simp
    · simp [e]

theorem init_le_foldMax (l : List Int) (i : Int) : i ≤ foldMax i l := by
  induction l generalizing i with
  | nil => simp [foldMax]
  | cons x t ih =>
    have := ih (max i x)
    simp only [foldMax, List.foldl_cons] at *
    omega

theorem mem_le_foldMax (l : List Int) (i a : Int) (h : a ∈ l) : a ≤ foldMax i l := by
  induction l generalizing i with
  | nil => cases h
  | cons x t ih =>
    simp only [foldMax, List.foldl_cons]
    rcases List.mem_cons.mp h with e | e
    · subst e
      have := init_le_foldMax t (max i a); simp only [foldMax] at this; omega
    · exact ih (max i x) e

theorem foldMax_mem (l : List Int) (i : Int) : foldMax i l ∈ i :: l := by
  induction l generalizing i with
  | nil => simp [foldMax]
  | cons x t ih =>
    have := ih (max i x)
    simp only [foldMax, List.foldl_cons] at *
    rcases List.mem_cons.mp this with e | e
    · rw [e]; by_cases hc : x ≤ i
      · rw [Int.max_eq_left hc]; simp
      · rw [Int.max_eq_right (by omega)]; simp
    · simp [e]

/-- the local offset is the minimum over the start point and all vertices (of every contour),
    and the local extent is max − min -/
theorem off_is_min (p : Pen) :
    (∀ x ∈ p.xs, p.offX ≤ x) ∧ p.offX ∈ p.xs ∧ (∀ x ∈ p.xs, x ≤ p.offX + p.dx)
      ∧ p.offX + p.dx ∈ p.xs := by
  have hxs : p.xs = p.startX :: p.xs.tail := by simp [Pen.xs]
  refine ⟨?_, ?_, ?_, ?_⟩
  · intro x hx; rw [hxs] at hx
    rcases List.mem_cons.mp hx with e | e
    · rw [e]; exact foldMin_le_init _ _
    · exact foldMin_le_mem _ _ _ e
  · rw [hxs]; exact foldMin_mem _ _
  · intro x hx; rw [hxs] at hx
    simp only [Pen.offX, Pen.dx]
    rcases List.mem_cons.mp hx with e | e
    · have := init_le_foldMax p.xs.tail p.startX; omega
    · have := mem_le_foldMax _ p.startX _ e; omega
  · have := foldMax_mem p.xs.tail p.startX
    rw [← hxs] at this
    simp only [Pen.offX, Pen.dx]
    rwa [show foldMin p.startX p.xs.tail + (foldMax p.startX p.xs.tail - foldMin p.startX p.xs.tail)
      = foldMax p.startX p.xs.tail by omega]

theorem offY_is_min (p : Pen) :
    (∀ y ∈ p.ys, p.offY ≤ y) ∧ p.offY ∈ p.ys ∧ (∀ y ∈ p.ys, y ≤ p.offY + p.dy)
      ∧ p.offY + p.dy ∈ p.ys := by
  have hys : p.ys = p.startY :: p.ys.tail := by simp [Pen.ys]
  refine ⟨?_, ?_, ?_, ?_⟩
  · intro y hy; rw [hys] at hy
    rcases List.mem_cons.mp hy with e | e
    · rw [e]; exact foldMin_le_init _ _
    · exact foldMin_le_mem _ _ _ e
  · rw [hys]; exact foldMin_mem _ _
  · intro y hy; rw [hys] at hy
    simp only [Pen.offY, Pen.dy]
    rcases List.mem_cons.mp hy with e | e
    · have := init_le_foldMax p.ys.tail p.startY; omega
    · have := mem_le_foldMax _ p.startY _ e; omega
  · have := foldMax_mem p.ys.tail p.startY
    rw [← hys] at this
    simp only [Pen.offY, Pen.dy]
    rwa [show foldMin p.startY p.ys.tail + (foldMax p.startY p.ys.tail - foldMin p.startY p.ys.tail)
      = foldMax p.startY p.ys.tail by omega]

/-- **All path coordinates lie within the path extents** `[0, w] × [0, h]`, for any pen history
    (negative and repeated vertices, several contours). -/
theorem path_within (p : Pen) :
    ∀ pt ∈ p.pathPts, 0 ≤ pt.1 ∧ pt.1 ≤ p.dx ∧ 0 ≤ pt.2 ∧ pt.2 ≤ p.dy := by
  intro pt hpt
  simp only [Pen.pathPts] at hpt
  obtain ⟨⟨x, y⟩, hxy, e⟩ := List.mem_map.mp hpt
  have hx := (List.of_mem_zip hxy).1
  have hy := (List.of_mem_zip hxy).2
  obtain ⟨a1, _, a3, _⟩ := off_is_min p
  obtain ⟨b1, _, b3, _⟩ := offY_is_min p
  have := a1 x hx; have := a3 x hx; have := b1 y hy; have := b3 y hy
  subst e; simp only; omega

/-- `round()` on `n/d` is within half a unit of `n/d` -/
theorem roundHE_close (n : Int) (d : Nat) (hd : 0 < d) :
    2 * (roundHE n d * d - n) ≤ d ∧ -(d : Int) ≤ 2 * (roundHE n d * d - n) := by
  have hd' : (0 : Int) < d := by exact_mod_cast hd
  have h1 := Int.emod_nonneg n (Int.ne_of_gt hd')
  have h2 := Int.emod_lt_of_pos n hd'
  have h3 := Int.emod_add_mul_ediv n d
  simp only [roundHE]
  generalize n / (d : Int) = q at *
  generalize n % (d : Int) = r at *
  have hq : n = r + d * q := by omega
  have e1 : q * (d : Int) = d * q := Int.mul_comm _ _
  have e2 : (q + 1) * (d : Int) = d * q + d := by rw [Int.add_mul, Int.mul_comm]; simp
  subst hq
  split
  · rw [e1]; omega
  · split
    · rw [e2]; omega
    · split
      · rw [e1]; omega
      · rw [e2]; omega

end Pptx.C17
