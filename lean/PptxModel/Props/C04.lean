/-
  C04 — text assigned is the text read back, with only the documented translations.
  Model: `Model/Text.lean`.  All statements are for every string (`List Char`), every prior body.
-/
import PptxModel.Model.Text
import PptxModel.Lemmas.Str
namespace Pptx.C04
open Pptx Pptx.Text

/-- frame level: LF and VT survive as themselves, every other C0 control is escaped -/
def frameChar (c : Char) : Str := if c = '\n' then ['\n'] else if c = '\x0b' then ['\x0b'] else escChar c
/-- paragraph level: LF and VT both read back as VT -/
def paraChar (c : Char) : Str := if isBreak c then ['\x0b'] else escChar c

theorem text_piecesItems_cons (p : Str) (rest : List Str) :
    (piecesItems (p :: rest)).flatMap Item.text
      = escapeCtl p ++ rest.flatMap fun q => '\x0b' :: escapeCtl q := by
  have hrun : ∀ q : Str, (runOf q).flatMap Item.text = escapeCtl q := by
    intro q; simp only [runOf]; split
    · rename_i h; simp [h, escapeCtl]
    · simp [Item.text]
  simp only [piecesItems, List.flatMap_append, hrun]
  congr 1
  induction rest with
  | nil => simp
  | cons q t ih => simp [List.flatMap_cons, Item.text, hrun, ih]

/-- splitting at break characters, escaping the pieces and putting a VT between them is the
    character-wise map `paraChar` -/
theorem pieces_text (s : Str) :
    (piecesItems (splitOnP isBreak s)).flatMap Item.text = s.flatMap paraChar := by
  suffices h : ∀ s : Str, ∃ h t, splitOnP isBreak s = h :: t ∧
      escapeCtl h ++ (t.flatMap fun q => '\x0b' :: escapeCtl q) = s.flatMap paraChar by
    obtain ⟨h, t, e, hh⟩ := h s
    rw [e, text_piecesItems_cons, hh]
  intro s
  induction s with
  | nil => exact ⟨[], [], rfl, by simp [escapeCtl]⟩
  | cons x xs ih =>
    obtain ⟨h, t, e, hh⟩ := ih
    by_cases hx : isBreak x = true
    · refine ⟨[], h :: t, by simp [splitOnP, hx, e], ?_⟩
      simp [escapeCtl, List.flatMap_cons, paraChar, hx] at hh ⊢
      simpa [escapeCtl] using hh
    · refine ⟨x :: h, t, by simp [splitOnP, hx, e], ?_⟩
      have hx' : isBreak x = false := by simpa using hx
      simp only [List.flatMap_cons, paraChar, hx', Bool.false_eq_true, if_false]
      rw [← hh]; simp [escapeCtl, List.flatMap_cons, List.append_assoc]

/-- **Paragraph level**: for every string, whatever the paragraph held before, reading after
    assignment returns the string with LF and VT both as VT and every other C0 control (except
    TAB) as its `_xHHHH_` escape; everything else — leading, trailing, whitespace-only content,
    markup characters, astral code points — verbatim.  Paragraph properties are kept. -/
theorem para_roundtrip (p : Para) (s : Str) :
    (p.setText s).text = s.flatMap paraChar
      ∧ (p.setText s).pPr = p.pPr ∧ (p.setText s).endPr = p.endPr := by
  refine ⟨?_, rfl, rfl⟩
  simp only [Para.setText, Para.text, appendText, List.nil_append]
  exact pieces_text s

/-- joining the per-segment texts with LF is the character-wise map `frameChar` -/
theorem join_segments (s : Str) :
    joinC '\n' ((splitOnC '\n' s).map fun seg => seg.flatMap paraChar) = s.flatMap frameChar := by
  suffices h : ∀ s : Str, ∃ h t, splitOnC '\n' s = h :: t ∧
      joinC '\n' ((h :: t).map fun seg => seg.flatMap paraChar) = s.flatMap frameChar by
    obtain ⟨h, t, e, hh⟩ := h s
    rw [e, hh]
  intro s
  induction s with
  | nil => exact ⟨[], [], rfl, by simp [joinC]⟩
  | cons x xs ih =>
    obtain ⟨h, t, e, hh⟩ := ih
    by_cases hx : x = '\n'
    · refine ⟨[], h :: t, by simp [splitOnC, hx, e], ?_⟩
      simp only [List.map_cons] at hh ⊢
      simp only [joinC, List.flatMap_nil, List.nil_append, List.flatMap_cons]
      rw [hh]; simp [frameChar, hx]
    · refine ⟨x :: h, t, by simp [splitOnC, hx, e], ?_⟩
      have hp : paraChar x = frameChar x := by
        simp only [paraChar, frameChar, isBreak, hx, if_false]
        by_cases hv : x = '\x0b' <;> simp [hv, hx]
      simp only [List.map_cons, List.flatMap_cons] at hh ⊢
      cases t with
      | nil => simp only [List.map_nil, joinC] at hh ⊢; rw [hp, hh]
      | cons u v =>
        simp only [List.map_cons, joinC] at hh ⊢
        rw [hp, List.append_assoc, hh]

/-- **Frame / cell / shape level**: for every string and every prior body, reading the frame after
    assignment returns the string with LF (paragraph separator) and VT (line break) intact and
    every other C0 control except TAB escaped. -/
theorem frame_roundtrip (b : Body) (s : Str) : frameText (setFrame b s) = s.flatMap frameChar := by
  simp only [frameText, setFrame, List.map_map]
  have : ((fun p : Para => p.text) ∘ fun seg : Str =>
      ({ pPr := false, items := appendText [] seg, endPr := false } : Para))
      = fun seg => seg.flatMap paraChar := by
    funext seg
    simp only [Function.comp, Para.text, appendText, List.nil_append]
    exact pieces_text seg
  rw [show (Para.text ∘ fun seg : Str =>
      ({ pPr := false, items := appendText [] seg, endPr := false } : Para))
      = fun seg => seg.flatMap paraChar from this]
  exact join_segments s

theorem splitOnC_length (c : Char) (s : Str) : (splitOnC c s).length = s.count c + 1 := by
  induction s with
  | nil => simp [splitOnC]
  | cons x xs ih =>
    by_cases hx : x = c
    · simp [splitOnC, hx, ih]
    · cases hsp : splitOnC c xs with
      | nil => simp [hsp] at ih
      | cons h t =>
        rw [hsp] at ih
        simp only [List.length_cons] at ih
        have hxc : (x == c) = false := by simpa using hx
        simp only [splitOnC, hx, if_false, hsp, List.length_cons, List.count_cons, hxc]
        simp; omega

/-- **One paragraph per frame-level segment**: the body holds exactly `count "\n" + 1`
    paragraphs after a frame-level assignment, whatever it held before. -/
theorem frame_paragraph_count (b : Body) (s : Str) :
    (setFrame b s).length = s.count '\n' + 1 := by
  simp [setFrame, splitOnC_length]

/-! ### line breaks -/

theorem splitOnP_length (p : Char → Bool) (s : Str) : (splitOnP p s).length = (s.filter p).length + 1 := by
  induction s with
  | nil => simp [splitOnP]
  | cons x xs ih =>
    by_cases hx : p x = true
    · simp [splitOnP, hx, ih, List.filter_cons]
    · have hx' : p x = false := by simpa using hx
      cases hsp : splitOnP p xs with
      | nil => simp [hsp] at ih
      | cons h t =>
        rw [hsp] at ih
        simp only [splitOnP, hx', Bool.false_eq_true, if_false, hsp, List.length_cons, List.filter_cons] at ih ⊢
        exact ih

theorem br_runOf (q : Str) : ((runOf q).filter (· == Item.br)).length = 0 := by
  unfold runOf; split <;> simp

theorem br_flatMap (rest : List Str) :
    ((rest.flatMap fun q => Item.br :: runOf q).filter (· == Item.br)).length = rest.length := by
  induction rest with
  | nil => simp
  | cons q qs ih =>
    simp only [List.flatMap_cons, List.filter_append, List.length_append, ih, List.filter_cons]
    have := br_runOf q
    simp only [beq_self_eq_true, if_true, List.length_cons]
    omega

theorem br_piecesItems (ps : List Str) : ((piecesItems ps).filter (· == Item.br)).length = ps.length - 1 := by
  cases ps with
  | nil => simp [piecesItems]
  | cons p rest =>
    simp only [piecesItems, List.filter_append, List.length_append, br_flatMap, br_runOf, List.length_cons]
    omega

/-- a paragraph-level assignment produces one `a:br` per line feed or vertical tab of the string -/
theorem para_break_count (p : Para) (s : Str) :
    ((p.setText s).items.filter (· == Item.br)).length = (s.filter isBreak).length := by
  simp only [Para.setText, appendText, List.nil_append, br_piecesItems, splitOnP_length]
  omega

theorem sum_breaks_segments (s : Str) :
    ((splitOnC '\n' s).map fun seg => (seg.filter isBreak).length).sum = s.count '\x0b' := by
  induction s with
  | nil => simp [splitOnC]
  | cons x xs ih =>
    by_cases hx : x = '\n'
    · subst hx
      simp only [splitOnC, if_true, List.map_cons, List.sum_cons, ih]
      simp
    · cases hsp : splitOnC '\n' xs with
      | nil => exact absurd hsp (splitOnC_ne_nil '\n' xs)
      | cons h t =>
        rw [hsp] at ih
        simp only [splitOnC, hx, if_false, hsp, List.map_cons, List.sum_cons, List.filter_cons] at ih ⊢
        by_cases hv : x = '\x0b'
        · subst hv
          have : isBreak '\x0b' = true := by decide
          simp only [this, if_true, List.length_cons, List.count_cons, beq_self_eq_true]
          omega
        · have hb : isBreak x = false := by
            simp only [isBreak, Bool.or_eq_false_iff, beq_eq_false_iff_ne]
            exact ⟨hx, hv⟩
          have hc : (x == '\x0b') = false := by simpa using hv
          simp only [hb, Bool.false_eq_true, if_false, List.count_cons, hc]
          simpa using ih

/-- **One `a:br` per vertical tab** after a frame-level assignment (line feeds separate paragraphs instead), whatever
    the body held before -/
theorem frame_break_count (b : Body) (s : Str) : countBr (setFrame b s) = s.count '\x0b' := by
  simp only [countBr, setFrame, List.map_map]
  rw [← sum_breaks_segments s]
  congr 1
  apply List.map_congr_left
  intro seg _
  simp only [Function.comp, appendText, List.nil_append, br_piecesItems, splitOnP_length]
  omega

/-- **Run level**: LF and TAB stay characters, VT and every other C0 control are escaped;
    a string without such controls is stored and read back verbatim. -/
theorem run_roundtrip_plain (s : Str) (h : ∀ c ∈ s, isCtl c = false) : setRun s = s := by
  induction s with
  | nil => rfl
  | cons x xs ih =>
    have hx := h x (by simp)
    simp only [setRun, escapeCtl, List.flatMap_cons, escChar, hx, Bool.false_eq_true, if_false]
    have := ih (fun c hc => h c (by simp [hc]))
    simp only [setRun, escapeCtl] at this
    simp [this]

theorem run_escapes (c : Char) (h : isCtl c = true) :
    setRun [c] = '_' :: 'x' :: hex4 c.toNat ++ ['_'] := by
  simp [setRun, escapeCtl, escChar, h]

theorem lf_tab_not_ctl : isCtl '\n' = false ∧ isCtl '\t' = false ∧ isCtl '\x0b' = true
    ∧ isCtl '\r' = true ∧ isCtl ' ' = false := by decide

/-- non-vacuity / documented examples -/
example : frameText (setFrame [] " a\x0bb\n\n\x07 ".toList) = " a\x0bb\n\n_x0007_ ".toList := by decide
example : (setFrame [] "\x0babc\n".toList).length = 2 := by decide
example : ({ pPr := true, items := [.fld "x".toList, .br], endPr := true } : Para).setText "a\nb".toList
    = { pPr := true, items := [.run "a".toList, .br, .run "b".toList], endPr := true } := by decide
example : setRun "a\x0b\n".toList = "a_x000B_\n".toList := by decide

end Pptx.C04
