/-
  C09 — `FillFormat`: theorems over `Model/Fill` (every start fill, foreign ones included: gradients without `a:lin`,
  with `a:path`, without stops; patterns without colours; colours of any kind).
-/
import PptxModel.Model.Fill
import PptxModel.Props.C09C
namespace Pptx.Fill
open Pptx.PropStore Pptx.SimpleTypes

/-! ### the four type-changing calls -/

/-- each of `background()`, `solid()`, `gradient()`, `patterned()` always succeeds and leaves a fill of that kind -/
theorem kind_after_change (a1 : Option Nat) (f : F) :
    (step a1 f .background).2 = .ok ∧ kindOf (step a1 f .background).1 = .noFill ∧
    (step a1 f .solid).2 = .ok ∧ kindOf (step a1 f .solid).1 = .solid ∧
    (step a1 f .gradient).2 = .ok ∧ kindOf (step a1 f .gradient).1 = .grad ∧
    (step a1 f .patterned).2 = .ok ∧ kindOf (step a1 f .patterned).1 = .patt := by
  cases a1 <;> cases f <;> simp [step, kindOf, defaultGrad, templateGrad]

/-- a fill that already is of the kind asked for is kept as it is — colours, stops, angle, pattern and all -/
theorem change_same_kind (a1 : Option Nat) (f : F) :
    (kindOf f = .noFill → (step a1 f .background).1 = f) ∧ (kindOf f = .solid → (step a1 f .solid).1 = f) ∧
    (kindOf f = .grad → (step a1 f .gradient).1 = f) ∧ (kindOf f = .patt → (step a1 f .patterned).1 = f) := by
  cases f <;> simp [step, kindOf]

/-- a fill of another kind is replaced by the new kind's initial state: nothing of the old fill survives -/
theorem change_other_kind (a1 : Option Nat) (f : F) :
    (kindOf f ≠ .solid → (step a1 f .solid).1 = .solid none) ∧
    (kindOf f ≠ .grad → (step a1 f .gradient).1 = defaultGrad a1) ∧
    (kindOf f ≠ .patt → (step a1 f .patterned).1 = .patt none none none) ∧
    (kindOf f ≠ .noFill → (step a1 f .background).1 = .noFill) := by
  cases f <;> simp [step, kindOf]

/-- no other call changes the kind of the fill, accepted or refused -/
theorem kind_frame (a1 : Option Nat) (f : F) (op : Op)
    (h : op ≠ .background ∧ op ≠ .solid ∧ op ≠ .gradient ∧ op ≠ .patterned ∧ ∀ o, op ≠ .viaColor o) :
    kindOf (step a1 f op).1 = kindOf f := by
  obtain ⟨h1, h2, h3, h4, h5⟩ := h
  cases op with
  | viaColor o => exact absurd rfl (h5 o)
  | background => exact absurd rfl h1
  | solid => exact absurd rfl h2
  | gradient => exact absurd rfl h3
  | patterned => exact absurd rfl h4
  | pattern p => cases f <;> simp [step, kindOf]
  | fore o => cases f <;> simp [step, kindOf]
  | back o => cases f <;> simp [step, kindOf]
  | angle n d =>
    cases f with
    | grad stops lin path => cases lin <;> simp [step, kindOf]
    | _ => simp [step, kindOf]
  | stopClr i o =>
    cases f with
    | grad stops lin path => cases hs : stops[i]? <;> simp [step, kindOf, hs]
    | _ => simp [step, kindOf]
  | stopPos i n d =>
    cases f with
    | grad stops lin path =>
      cases hs : stops[i]? with
      | none => simp [step, kindOf, hs]
      | some s => by_cases hp : posOk n d = true <;> simp [step, kindOf, hs, hp]
    | _ => simp [step, kindOf]

/-- the owner's shortcut (`line.color`, `font.color`) followed by an assignment is `solid()` followed by the assignment
    through `fore_color` — "accessing this property causes the fill type to be set to SOLID" — whatever the fill was -/
theorem viaColor_spec (a1 : Option Nat) (f : F) (o : Color.Op) :
    step a1 f (.viaColor o) = step a1 (step a1 f .solid).1 (.fore o) ∧ kindOf (step a1 f (.viaColor o)).1 = .solid := by
  cases f <;> simp [step, kindOf]

/-! ### which calls are refused, exactly -/

theorem fore_typeError_iff (a1 : Option Nat) (f : F) (o : Color.Op) :
    (step a1 f (.fore o)).2 = .typeError ↔ (kindOf f ≠ .solid ∧ kindOf f ≠ .patt) := by
  cases f <;> simp [step, kindOf, colour] <;> (split <;> simp)

theorem back_typeError_iff (a1 : Option Nat) (f : F) (o : Color.Op) :
    (step a1 f (.back o)).2 = .typeError ↔ kindOf f ≠ .patt := by
  cases f <;> simp [step, kindOf, colour] <;> (split <;> simp)

theorem pattern_typeError_iff (a1 : Option Nat) (f : F) (p : Option Nat) :
    (step a1 f (.pattern p)).2 = .typeError ↔ kindOf f ≠ .patt := by
  cases f <;> simp [step, kindOf]

/-- the angle: TypeError exactly on a fill that is no gradient, ValueError exactly on a gradient without `a:lin`; a
    refused assignment leaves the fill as it was -/
theorem angle_refused (a1 : Option Nat) (f : F) (n : Int) (d : Nat) :
    ((step a1 f (.angle n d)).2 = .typeError ↔ kindOf f ≠ .grad) ∧
    ((step a1 f (.angle n d)).2 = .valueError ↔ ∃ stops path, f = .grad stops none path) ∧
    ((step a1 f (.angle n d)).2 ≠ .ok → (step a1 f (.angle n d)).1 = f) := by
  cases f with
  | grad stops lin path => cases lin <;> simp [step, kindOf]
  | _ => simp [step, kindOf]

/-! ### read-back -/

/-- an accepted angle assignment reads back within half of 1/60000 degree (modulo whole turns: `gradient_quantum`) and
    changes neither the stops nor the path -/
theorem angle_after_angle (a1 : Option Nat) (stops : List Stop) (a : Int) (path : Bool) (n : Int) (d : Nat) :
    step a1 (.grad stops (some a) path) (.angle n d) = (.grad stops (some (gradStore n d)) path, .ok) ∧
    (path = false → angleOf (step a1 (.grad stops (some a) path) (.angle n d)).1 = .angle (gradRead (gradStore n d))) := by
  refine ⟨rfl, ?_⟩
  intro hp; subst hp
  simp [step, angleOf]

/-- `fill.pattern = p` on a pattern fill reads back `p` (also `None`) and leaves both colours alone -/
theorem pattern_after_pattern (a1 : Option Nat) (p0 p : Option Nat) (fg bg : Option Color.St) :
    patternOf (step a1 (.patt p0 fg bg) (.pattern p)).1 = some p ∧
    foreOf (step a1 (.patt p0 fg bg) (.pattern p)).1 = foreOf (.patt p0 fg bg) ∧
    backOf (step a1 (.patt p0 fg bg) (.pattern p)).1 = backOf (.patt p0 fg bg) := by
  simp [step, patternOf, foreOf, backOf]

/-- a colour assignment through `fore_color` is the `ColorFormat` assignment on the colour `fore_color` reads (so every
    theorem of `Props/C09C` applies to it), it leaves the background colour and the pattern alone, and a refused one
    leaves the colour read as it was -/
theorem fore_is_colour_step (a1 : Option Nat) (f : F) (o : Color.Op) (c : Color.St) (h : foreOf f = some c) :
    foreOf (step a1 f (.fore o)).1 = some ((Color.step c o).getD c) ∧
    ((step a1 f (.fore o)).2 = .ok ↔ Color.step c o ≠ none) ∧
    backOf (step a1 f (.fore o)).1 = backOf f ∧ patternOf (step a1 f (.fore o)).1 = patternOf f := by
  cases f with
  | solid c0 =>
    simp only [foreOf, Option.some.injEq] at h; subst h
    cases hs : Color.step c0 o <;> simp [step, colour, hs, foreOf, backOf, patternOf]
  | patt p fg bg =>
    simp only [foreOf, Option.some.injEq] at h; subst h
    cases hs : Color.step (fg.getD black) o <;> simp [step, colour, hs, foreOf, backOf, patternOf]
  | _ => simp [foreOf] at h

theorem back_is_colour_step (a1 : Option Nat) (f : F) (o : Color.Op) (c : Color.St) (h : backOf f = some c) :
    backOf (step a1 f (.back o)).1 = some ((Color.step c o).getD c) ∧
    ((step a1 f (.back o)).2 = .ok ↔ Color.step c o ≠ none) ∧
    foreOf (step a1 f (.back o)).1 = foreOf f ∧ patternOf (step a1 f (.back o)).1 = patternOf f := by
  cases f with
  | patt p fg bg =>
    simp only [backOf, Option.some.injEq] at h; subst h
    cases hs : Color.step (bg.getD white) o <;> simp [step, colour, hs, foreOf, backOf, patternOf]
  | _ => simp [backOf] at h

/-- `fore_color.rgb = v` on a solid or patterned fill: the fill's foreground colour is RGB `v` afterwards -/
theorem fore_rgb (a1 : Option Nat) (f : F) (v : Nat) (h : kindOf f = .solid ∨ kindOf f = .patt) :
    (step a1 f (.fore (.rgb v))).2 = .ok ∧
    ∃ c, foreOf (step a1 f (.fore (.rgb v))).1 = some c ∧ Color.rgbOf c = some v ∧ Color.typeOf c = some .srgb := by
  have hc : ∃ c, foreOf f = some c := by
    cases f <;> simp [kindOf] at h <;> simp [foreOf]
  obtain ⟨c, hc⟩ := hc
  obtain ⟨h1, h2, _, _⟩ := fore_is_colour_step a1 f (.rgb v) c hc
  obtain ⟨s', hs, hr, ht, _⟩ := Color.rgb_after_rgb c v
  refine ⟨h2.mpr (by rw [hs]; simp), s', ?_, hr, ht⟩
  rw [h1, hs]; rfl

/-- hence `x.color.rgb = v` always leaves a solid fill whose colour is RGB `v` -/
theorem viaColor_rgb (a1 : Option Nat) (f : F) (v : Nat) :
    (step a1 f (.viaColor (.rgb v))).2 = .ok ∧
    ∃ c, foreOf (step a1 f (.viaColor (.rgb v))).1 = some c ∧ Color.rgbOf c = some v := by
  rw [(viaColor_spec a1 f (.rgb v)).1]
  obtain ⟨h1, c, h2, h3, _⟩ := fore_rgb a1 (step a1 f .solid).1 v (Or.inl (kind_after_change a1 f).2.2.2.1)
  exact ⟨h1, c, h2, h3⟩

/-! ### gradient stops -/

theorem setNth_length {α : Type} (l : List α) (i : Nat) (x : α) : (setNth l i x).length = l.length := by
  simp [setNth]

/-- assignments to one stop (colour or position, accepted or refused, any index) never change the NUMBER of stops, the
    angle or the path, and every OTHER stop stays as it was -/
theorem stop_frame (a1 : Option Nat) (stops : List Stop) (lin : Option Int) (path : Bool) (op : Op)
    (hop : (∃ i o, op = .stopClr i o) ∨ (∃ i n d, op = .stopPos i n d)) :
    ∃ stops', (step a1 (.grad stops lin path) op).1 = .grad stops' lin path ∧ stops'.length = stops.length ∧
      ∀ j, (∀ i o, op = .stopClr i o → j ≠ i) → (∀ i n d, op = .stopPos i n d → j ≠ i) → stops'[j]? = stops[j]? := by
  rcases hop with ⟨i, o, rfl⟩ | ⟨i, n, d, rfl⟩
  · cases hs : stops[i]? with
    | none => exact ⟨stops, by simp [step, hs], rfl, fun _ _ _ => rfl⟩
    | some s =>
      refine ⟨setNth stops i { s with clr := (colour s.clr o).1 }, by simp [step, hs], setNth_length .., ?_⟩
      intro j hj _
      have : j ≠ i := hj i o rfl
      simp [setNth, Ne.symm this]
  · cases hs : stops[i]? with
    | none => exact ⟨stops, by simp [step, hs], rfl, fun _ _ _ => rfl⟩
    | some s =>
      by_cases hp : posOk n d = true
      · refine ⟨setNth stops i { s with pos := pct n d }, by simp [step, hs, hp], setNth_length .., ?_⟩
        intro j _ hj
        have : j ≠ i := hj i n d rfl
        simp [setNth, Ne.symm this]
      · exact ⟨stops, by simp [step, hs, hp], rfl, fun _ _ _ => rfl⟩

/-- an accepted position assignment is read back within half of 1/100000 (`pct_quantum`) and leaves the stop's colour -/
theorem stopPos_after (a1 : Option Nat) (stops : List Stop) (lin : Option Int) (path : Bool) (i : Nat) (s : Stop)
    (n : Int) (d : Nat) (hs : stops[i]? = some s) (hp : posOk n d = true) :
    ∃ stops', step a1 (.grad stops lin path) (.stopPos i n d) = (.grad stops' lin path, .ok) ∧
      stops'[i]? = some ⟨pct n d, s.clr⟩ := by
  refine ⟨setNth stops i { s with pos := pct n d }, by simp [step, hs, hp], ?_⟩
  have hi : i < stops.length := by
    rcases Nat.lt_or_ge i stops.length with h | h
    · exact h
    · rw [List.getElem?_eq_none h] at hs; cases hs
  simp [setNth, hi]

/-! ### histories -/

/-- the kind the last type-changing call of a history asks for -/
def lastKind : List Op → Option Kind
  | [] => none
  | op :: rest =>
    match lastKind rest with
    | some k => some k
    | none => match op with
      | .background => some .noFill
      | .solid => some .solid
      | .gradient => some .grad
      | .patterned => some .patt
      | .viaColor _ => some .solid
      | _ => none

/-- after ANY history of calls (accepted and refused, from any start fill) the fill's kind is the one the last
    `background()` / `solid()` / `gradient()` / `patterned()` asked for; with none in the history it is the start fill's -/
theorem run_kind (a1 : Option Nat) (f : F) (ops : List Op) :
    kindOf (run a1 f ops) = (lastKind ops).getD (kindOf f) := by
  induction ops generalizing f with
  | nil => simp [run, lastKind]
  | cons op rest ih =>
    rw [run, ih]
    cases hl : lastKind rest with
    | some k => simp [lastKind, hl]
    | none =>
      obtain ⟨b1, b2, s1, s2, g1, g2, p1, p2⟩ := kind_after_change a1 f
      cases op with
      | background => simp [lastKind, hl, b2]
      | solid => simp [lastKind, hl, s2]
      | gradient => simp [lastKind, hl, g2]
      | patterned => simp [lastKind, hl, p2]
      | pattern p => simp [lastKind, hl, kind_frame a1 f (.pattern p) (by simp)]
      | fore o => simp [lastKind, hl, kind_frame a1 f (.fore o) (by simp)]
      | back o => simp [lastKind, hl, kind_frame a1 f (.back o) (by simp)]
      | angle n d => simp [lastKind, hl, kind_frame a1 f (.angle n d) (by simp)]
      | stopClr i o => simp [lastKind, hl, kind_frame a1 f (.stopClr i o) (by simp)]
      | stopPos i n d => simp [lastKind, hl, kind_frame a1 f (.stopPos i n d) (by simp)]
      | viaColor o => simp [lastKind, hl, (viaColor_spec a1 f o).2]

/-! ### non-vacuity -/

example : run (some 4) .none [.solid, .fore (.rgb 255), .patterned, .fore (.bright 1 2), .back (.theme 2), .pattern (some 7)] =
    .patt (some 7) (some (some ⟨.srgb, 0, [(0, 50000), (1, 50000)]⟩)) (some (some ⟨.scheme, 2, []⟩)) := by decide
example : (step (some 4) (.grad [] none true) (.angle 1 1)).2 = .valueError ∧ (step (some 4) .blip (.fore (.rgb 1))).2 = .typeError ∧
    (step (some 4) (templateGrad 4) (.stopPos 2 1 2)).2 = .indexError ∧ (step (some 4) (templateGrad 4) (.stopPos 1 3 2)).2 = .valueError ∧
    (step none .noFill .gradient).1 = .grad [] none false := by
  decide
example : angleOf (run (some 4) .noFill [.gradient, .angle 45 1]) = .angle 2700000 := by decide

end Pptx.Fill
