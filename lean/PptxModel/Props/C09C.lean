/-
  C09 — `ColorFormat`: theorems over `Model/Color` (for every start state, foreign ones included: any kind, any
  transform children in any order, several `a:lumMod`).
-/
import PptxModel.Model.Color
import PptxModel.Props.C09
namespace Pptx.Color
open Pptx.PropStore

/-! ### helper lemmas -/

theorem find_clear_none (c : Clr) (t : Nat) (ht : t = 0 ∨ t = 1) :
    (clearLum c).kids.find? (fun k => k.1 == t) = none := by
  simp only [clearLum, List.find?_eq_none, List.mem_filter]
  rintro k ⟨_, hk⟩ hkt
  simp only [isLum, Bool.not_eq_true', Bool.or_eq_false_iff] at hk
  rcases ht with rfl | rfl
  · rw [hk.1] at hkt; exact absurd hkt (by decide)
  · rw [hk.2] at hkt; exact absurd hkt (by decide)

theorem find_lumKids (p : Option Int × Option Int) :
    ((lumKids p).find? (fun k => k.1 == 0)).map (·.2) = p.1 ∧
    ((lumKids p).find? (fun k => k.1 == 1)).map (·.2) = p.2 := by
  rcases p with ⟨_ | m, _ | o⟩ <;> simp [lumKids, List.find?]

theorem lumMod_writeBright (c : Clr) (n : Int) (d : Nat) : lumMod (writeBright c n d) = (brightStore n d).1 := by
  simp only [lumMod, writeBright, List.find?_append, find_clear_none c 0 (Or.inl rfl), Option.none_or]
  exact (find_lumKids _).1

theorem lumOff_writeBright (c : Clr) (n : Int) (d : Nat) : lumOff (writeBright c n d) = (brightStore n d).2 := by
  simp only [lumOff, writeBright, List.find?_append, find_clear_none c 1 (Or.inr rfl), Option.none_or]
  exact (find_lumKids _).2

theorem filter_lumKids (p : Option Int × Option Int) : (lumKids p).filter (fun k => !isLum k) = [] := by
  rcases p with ⟨_ | m, _ | o⟩ <;> simp [lumKids, isLum]

theorem foreign_writeBright (c : Clr) (n : Int) (d : Nat) :
    foreign (some (writeBright c n d)) = foreign (some c) := by
  simp only [foreign, writeBright, clearLum, List.filter_append, filter_lumKids, List.append_nil, List.filter_filter,
    Bool.and_self]

/-! ### one assignment -/

/-- `color.rgb = v`: the colour is an RGB colour with that value, whatever was there -/
theorem rgb_after_rgb (s : St) (v : Nat) :
    ∃ s', step s (.rgb v) = some s' ∧ rgbOf s' = some v ∧ typeOf s' = some .srgb ∧ themeOf s' = .notTheme := by
  refine ⟨_, rfl, ?_⟩
  cases s with
  | none => simp [changeTo, rgbOf, typeOf, themeOf]
  | some c =>
    by_cases h : c.kind = .srgb
    · simp [changeTo, rgbOf, typeOf, themeOf, h]
    · simp [changeTo, rgbOf, typeOf, themeOf, h]

/-- `color.theme_color = t`: the colour is a theme colour with that value; it has no `rgb` -/
theorem theme_after_theme (s : St) (t : Nat) :
    ∃ s', step s (.theme t) = some s' ∧ themeOf s' = .theme t ∧ typeOf s' = some .scheme ∧ rgbOf s' = none := by
  refine ⟨_, rfl, ?_⟩
  cases s with
  | none => simp [changeTo, rgbOf, typeOf, themeOf]
  | some c =>
    by_cases h : c.kind = .scheme
    · simp [changeTo, rgbOf, typeOf, themeOf, h]
    · simp [changeTo, rgbOf, typeOf, themeOf, h]

/-- what an rgb / theme assignment does to the REST of the colour: an element of the same kind is kept with all its
    transform children (so the brightness reads as before); any other element, or none, gives a colour with no
    transform at all (brightness 0) — the documented "the brightness adjustment is removed when changing" -/
theorem rest_after_rgb (s : St) (v : Nat) :
    (typeOf s = some .srgb → brightOf (some { changeTo s .srgb with val := v }) = brightOf s ∧
        foreign (some { changeTo s .srgb with val := v }) = foreign s) ∧
    (typeOf s ≠ some .srgb → brightOf (some { changeTo s .srgb with val := v }) = some 0 ∧
        foreign (some { changeTo s .srgb with val := v }) = []) := by
  cases s with
  | none => simp [typeOf, changeTo, brightOf, foreign, lumMod, lumOff, brightRead]
  | some c =>
    by_cases h : c.kind = .srgb
    · simp [typeOf, changeTo, brightOf, foreign, lumMod, lumOff, h]
    · simp [typeOf, changeTo, brightOf, foreign, lumMod, lumOff, brightRead, h]

theorem rest_after_theme (s : St) (t : Nat) :
    (typeOf s = some .scheme → brightOf (some { changeTo s .scheme with val := t }) = brightOf s ∧
        foreign (some { changeTo s .scheme with val := t }) = foreign s) ∧
    (typeOf s ≠ some .scheme → brightOf (some { changeTo s .scheme with val := t }) = some 0 ∧
        foreign (some { changeTo s .scheme with val := t }) = []) := by
  cases s with
  | none => simp [typeOf, changeTo, brightOf, foreign, lumMod, lumOff, brightRead]
  | some c =>
    by_cases h : c.kind = .scheme
    · simp [typeOf, changeTo, brightOf, foreign, lumMod, lumOff, h]
    · simp [typeOf, changeTo, brightOf, foreign, lumMod, lumOff, brightRead, h]

/-- a brightness assignment is refused exactly when there is no colour element or the value is outside [-1, 1] -/
theorem bright_refused_iff (s : St) (n : Int) (d : Nat) :
    step s (.bright n d) = none ↔ s = none ∨ inRange n d = false := by
  cases s with
  | none => simp [step]
  | some c => cases h : inRange n d <;> simp [step, h]

/-- an accepted brightness assignment: the colour keeps its kind, its value and every transform the library does not
    know, in order; what is read afterwards is the stored form of the value assigned (hence within half of 1/100000 of
    it: `brightness_quantum`), whatever `a:lumMod` / `a:lumOff` children — any number, anywhere — were there before -/
theorem bright_after_bright (c : Clr) (n : Int) (d : Nat) (h : inRange n d = true) :
    ∃ c', step (some c) (.bright n d) = some (some c') ∧ c'.kind = c.kind ∧ c'.val = c.val ∧
      foreign (some c') = foreign (some c) ∧
      brightOf (some c') = some (brightRead (brightStore n d)) := by
  refine ⟨writeBright c n d, by simp [step, h], rfl, rfl, foreign_writeBright c n d, ?_⟩
  simp only [brightOf, Option.map_some, lumMod_writeBright, lumOff_writeBright]

theorem bright_after_bright_quantum (c : Clr) (n : Int) (d : Nat) (hd : 0 < d) (h : inRange n d = true) :
    ∃ c' b, step (some c) (.bright n d) = some (some c') ∧ brightOf (some c') = some b ∧
      2 * (b * d - n * 100000) ≤ d ∧ -(d : Int) ≤ 2 * (b * d - n * 100000) := by
  obtain ⟨c', h1, _, _, _, h5⟩ := bright_after_bright c n d h
  exact ⟨c', _, h1, h5, Pptx.C09.brightness_quantum n d hd⟩

/-- after an accepted brightness assignment the element holds at most one `a:lumMod` followed by at most one
    `a:lumOff`, after every other transform child: the order the schema's transform list is read in by PowerPoint -/
theorem writeBright_shape (c : Clr) (n : Int) (d : Nat) :
    (writeBright c n d).kids = (foreign (some c)) ++ lumKids (brightStore n d) := by
  simp [writeBright, clearLum, foreign]

/-! ### histories -/

/-- the kind and value the last rgb / theme assignment of a history gives -/
def lastColour : List Op → Option (Kind × Nat)
  | [] => none
  | op :: rest =>
    match lastColour rest with
    | some kv => some kv
    | none => match op with
      | .rgb v => some (.srgb, v)
      | .theme t => some (.scheme, t)
      | .bright _ _ => none

theorem step_kind_val (s : St) (op : Op) :
    ((step s op).getD s).map (fun c => (c.kind, c.val)) =
      match op with
      | .rgb v => some (.srgb, v)
      | .theme t => some (.scheme, t)
      | .bright _ _ => s.map (fun c => (c.kind, c.val)) := by
  cases op with
  | rgb v => cases s with
    | none => simp [step, changeTo]
    | some c => by_cases h : c.kind = .srgb <;> simp [step, changeTo, h]
  | theme t => cases s with
    | none => simp [step, changeTo]
    | some c => by_cases h : c.kind = .scheme <;> simp [step, changeTo, h]
  | bright n d => cases s with
    | none => simp [step]
    | some c => cases h : inRange n d <;> simp [step, h, writeBright, clearLum]

/-- ANY history of assignments (accepted and refused, from any start colour): the colour's kind and value are those of
    the last rgb / theme assignment; with none in the history they are the start colour's -/
theorem run_kind_val (s : St) (ops : List Op) :
    (run s ops).map (fun c => (c.kind, c.val)) =
      match lastColour ops with
      | some kv => some kv
      | none => s.map (fun c => (c.kind, c.val)) := by
  induction ops generalizing s with
  | nil => simp [run, lastColour]
  | cons op rest ih =>
    rw [run, ih]
    cases hl : lastColour rest with
    | some kv => simp [lastColour, hl]
    | none =>
      have := step_kind_val s op
      cases op <;> simpa [lastColour, hl] using this

/-- readers after any history, from the above -/
theorem run_rgb (s : St) (ops : List Op) (v : Nat) (h : lastColour ops = some (.srgb, v)) :
    rgbOf (run s ops) = some v ∧ typeOf (run s ops) = some .srgb := by
  have := run_kind_val s ops
  rw [h] at this
  cases hr : run s ops with
  | none => rw [hr] at this; simp at this
  | some c =>
    rw [hr] at this
    simp only [Option.map_some, Option.some.injEq, Prod.mk.injEq] at this
    simp [rgbOf, typeOf, this.1, this.2]

theorem run_theme (s : St) (ops : List Op) (t : Nat) (h : lastColour ops = some (.scheme, t)) :
    themeOf (run s ops) = .theme t ∧ typeOf (run s ops) = some .scheme ∧ rgbOf (run s ops) = none := by
  have := run_kind_val s ops
  rw [h] at this
  cases hr : run s ops with
  | none => rw [hr] at this; simp at this
  | some c =>
    rw [hr] at this
    simp only [Option.map_some, Option.some.injEq, Prod.mk.injEq] at this
    simp [rgbOf, typeOf, themeOf, this.1, this.2]

/-- the transforms the library does not know survive a step untouched or are dropped all together (with their element) -/
theorem step_foreign (s : St) (op : Op) :
    foreign ((step s op).getD s) = foreign s ∨ foreign ((step s op).getD s) = [] := by
  cases op with
  | rgb v =>
    by_cases h : typeOf s = some .srgb
    · exact Or.inl ((rest_after_rgb s v).1 h).2
    · exact Or.inr ((rest_after_rgb s v).2 h).2
  | theme t =>
    by_cases h : typeOf s = some .scheme
    · exact Or.inl ((rest_after_theme s t).1 h).2
    · exact Or.inr ((rest_after_theme s t).2 h).2
  | bright n d =>
    left
    cases s with
    | none => simp [step]
    | some c =>
      cases h : inRange n d
      · simp [step, h]
      · simp only [step, h, if_true, Option.getD_some]; exact foreign_writeBright c n d

theorem run_foreign (s : St) (ops : List Op) : foreign (run s ops) = foreign s ∨ foreign (run s ops) = [] := by
  induction ops generalizing s with
  | nil => exact Or.inl rfl
  | cons op rest ih =>
    rw [run]
    rcases ih ((step s op).getD s) with h | h
    · rcases step_foreign s op with h' | h'
      · exact Or.inl (h.trans h')
      · exact Or.inr (h.trans h')
    · exact Or.inr h

/-- brightness assignments alone never touch the colour: kind, value and unknown transforms are the start colour's
    after any number of them, accepted or refused -/
theorem run_bright_only (s : St) (ops : List Op) (h : ∀ op ∈ ops, ∃ n d, op = .bright n d) :
    (run s ops).map (fun c => (c.kind, c.val)) = s.map (fun c => (c.kind, c.val)) ∧ foreign (run s ops) = foreign s := by
  induction ops generalizing s with
  | nil => exact ⟨rfl, rfl⟩
  | cons op rest ih =>
    obtain ⟨n, d, rfl⟩ := h op (List.mem_cons_self ..)
    rw [run]
    obtain ⟨h1, h2⟩ := ih ((step s (.bright n d)).getD s) (fun o ho => h o (List.mem_cons_of_mem _ ho))
    refine ⟨h1.trans (by simpa using step_kind_val s (.bright n d)), h2.trans ?_⟩
    cases s with
    | none => simp [step]
    | some c =>
      cases hr : inRange n d
      · simp [step, hr]
      · simp only [step, hr, if_true, Option.getD_some]; exact foreign_writeBright c n d

/-- the last assignment of a history decides the brightness read when it is an accepted brightness assignment -/
theorem run_bright_last (s : St) (ops : List Op) (n : Int) (d : Nat) (hr : inRange n d = true)
    (hs : run s ops ≠ none) :
    brightOf (run s (ops ++ [.bright n d])) = some (brightRead (brightStore n d)) := by
  have hrun : ∀ (s : St) (ops : List Op) (op : Op), run s (ops ++ [op]) = (step (run s ops) op).getD (run s ops) := by
    intro s ops op
    induction ops generalizing s with
    | nil => rfl
    | cons o rest ih => simp only [List.cons_append, run]; exact ih _
  rw [hrun]
  cases hc : run s ops with
  | none => exact absurd hc hs
  | some c =>
    obtain ⟨c', h1, _, _, _, h5⟩ := bright_after_bright c n d hr
    rw [h1]; exact h5

/-! ### non-vacuity -/

example : brightOf (run (some ⟨.hsl, 7, [(5, 40000), (0, 50000), (0, 1)]⟩) [.bright 1 4]) = some 25000 ∧
    foreign (run (some ⟨.hsl, 7, [(5, 40000), (0, 50000), (0, 1)]⟩) [.bright 1 4]) = [(5, 40000)] := by decide
example : step none (.bright 1 4) = none ∧ step (some ⟨.srgb, 1, []⟩) (.bright 5 4) = none := by decide
example : rgbOf (run none [.theme 3, .bright (-1) 2, .rgb 255]) = some 255 ∧
    brightOf (run none [.theme 3, .bright (-1) 2, .rgb 255]) = some 0 := by decide

end Pptx.Color
