/-
  C07 — a chart's XML reports exactly the data it was given (data plane).
  Model: `Model/ChartData.lean`.
-/
import PptxModel.Model.ChartData
import PptxModel.Props.C06
namespace Pptx.C07
open Pptx Pptx.ChartData

theorem ptsFrom_idx_ge (k : Nat) (vs : List (Option Int)) : ∀ p ∈ ptsFrom k vs, k ≤ p.idx := by
  induction vs generalizing k with
  | nil => intro p hp; cases hp
  | cons x t ih =>
    intro p hp
    cases x with
    | none => have := ih (k + 1) p (by simpa [ptsFrom] using hp); omega
    | some v =>
      simp only [ptsFrom, List.mem_cons] at hp
      rcases hp with e | e
      · subst e; exact Nat.le_refl _
      · have := ih (k + 1) p e; omega

theorem ptV_ptsFrom (k i : Nat) (vs : List (Option Int)) :
    ptV (ptsFrom k vs) (k + i) = (vs[i]?).join := by
  induction vs generalizing k i with
  | nil => simp [ptsFrom, ptV]
  | cons x t ih =>
    cases i with
    | zero =>
      cases x with
      | none =>
        simp only [ptsFrom, Nat.add_zero, List.getElem?_cons_zero, Option.join]
        -- no later point has index k
        have : (ptsFrom (k + 1) t).find? (fun p => p.idx == k) = none := by
          apply List.find?_eq_none.mpr
          intro p hp
          have := ptsFrom_idx_ge (k + 1) t p hp
          simp; omega
        simp [ptV, this]
      | some v => simp [ptsFrom, ptV]
    | succ j =>
      have := ih (k + 1) j
      rw [show k + 1 + j = k + (j + 1) by omega] at this
      cases x with
      | none => simpa [ptsFrom] using this
      | some v =>
        simp only [ptsFrom, ptV, List.find?_cons]
        have hne : ((⟨k, v⟩ : Pt).idx == k + (j + 1)) = false := by simp
        simp only [hne]
        simpa [ptV] using this

/-- **Values round trip**: for every value list (any length, missing values anywhere, also all
    missing or empty) the reader applied to the cache the writer emits returns exactly the list
    supplied, `None` where a value was missing; the announced point count is the list's length. -/
theorem values_roundtrip (vs : List (Option Int)) :
    readValues (ptCache vs) = vs ∧ (ptCache vs).1 = vs.length := by
  refine ⟨?_, rfl⟩
  simp only [readValues, ptCache]
  apply List.ext_getElem?
  intro i
  by_cases hi : i < vs.length
  · simp only [List.getElem?_map, List.getElem?_range hi, Option.map_some]
    have := ptV_ptsFrom 0 i vs
    simp only [Nat.zero_add] at this
    rw [this, List.getElem?_eq_getElem hi]; simp
  · have h1 : vs[i]? = none := List.getElem?_eq_none (by omega)
    simp [h1, List.getElem?_eq_none, hi]

/-- **Series index / order values stay unique when series are cloned**: the value given to a
    cloned series is larger than every value in use -/
theorem nextIdx_fresh (used : List Nat) : nextIdx used ∉ used := by
  intro h
  have hne : used.isEmpty = false := by cases used <;> simp_all
  have := C06.le_foldl_max used 0 _ h
  simp only [nextIdx, hne, Bool.false_eq_true, if_false] at this
  omega

example : readValues (ptCache [some 3, none, some (-1), none]) = [some 3, none, some (-1), none] := by decide
example : ptCache [none, some 5] = (2, [⟨1, 5⟩]) := by decide

end Pptx.C07
