/-
  C18 — core document properties round-trip and stay valid.  Model: `Model/CoreProps.lean`.
-/
import PptxModel.Model.CoreProps
import Mathlib.Tactic.IntervalCases
namespace Pptx.C18
open Pptx Pptx.CoreProps

theorem toNat_ofNat_small (n : Nat) (h : n < 0xd800) : (Char.ofNat n).toNat = n := by
  have hv : n.isValidChar := Or.inl h
  rw [Char.ofNat, dif_pos hv]
  simp [Char.ofNatAux, Char.toNat]

theorem dig_spec (k : Nat) (h : k < 10) : isDig (dig k) = true ∧ dv (dig k) = k := by
  have := toNat_ofNat_small (48 + k) (by omega)
  simp only [isDig, dv, dig, this, Bool.and_eq_true, decide_eq_true_eq]
  omega

theorem dig_ne (k : Nat) (h : k < 10) (c : Char) (hc : c.toNat < 48 ∨ 57 < c.toNat) : dig k ≠ c := by
  intro e
  have := toNat_ofNat_small (48 + k) (by omega)
  simp only [dig] at e
  rw [e] at this; omega

/-- **A text property accepts exactly the strings of at most 255 characters and returns them
    unchanged** (a 256-character string is refused and nothing is written). -/
theorem text_rule (v : Str) :
    (v.length ≤ 255 → setText v = some v) ∧ (255 < v.length → setText v = none) := by
  simp only [setText]
  constructor <;> intro h <;> simp [h] <;> omega

/-- **Date round trip**: any valid instant of years 1..9999 is written in a form the reader parses
    back to exactly the same instant, to one-second resolution (with the four-digit year of the
    `fix:` for F-C18-1). -/
theorem date_roundtrip (t : DT) (hv : t.valid = true) : readW3C (fmt t) = .ok t := by
  obtain ⟨y, mo, d, h, mi, s⟩ := t
  have hv' := hv
  simp only [DT.valid, Bool.and_eq_true, decide_eq_true_eq] at hv
  obtain ⟨⟨⟨⟨⟨⟨⟨⟨h1, h2⟩, h3⟩, h4⟩, h5⟩, h6⟩, h7⟩, h8⟩, h9⟩ := hv
  have hd : d ≤ 31 := by
    have : daysIn y mo ≤ 31 := by simp only [daysIn]; split <;> (try split) <;> omega
    omega
  have Y1 := dig_spec (y / 1000 % 10) (by omega); have Y2 := dig_spec (y / 100 % 10) (by omega)
  have Y3 := dig_spec (y / 10 % 10) (by omega); have Y4 := dig_spec (y % 10) (by omega)
  have M1 := dig_spec (mo / 10 % 10) (by omega); have M2 := dig_spec (mo % 10) (by omega)
  have D1 := dig_spec (d / 10 % 10) (by omega); have D2 := dig_spec (d % 10) (by omega)
  have H1 := dig_spec (h / 10 % 10) (by omega); have H2 := dig_spec (h % 10) (by omega)
  have N1 := dig_spec (mi / 10 % 10) (by omega); have N2 := dig_spec (mi % 10) (by omega)
  have S1 := dig_spec (s / 10 % 10) (by omega); have S2 := dig_spec (s % 10) (by omega)
  have e4 : val4 (dig (y / 1000 % 10)) (dig (y / 100 % 10)) (dig (y / 10 % 10)) (dig (y % 10)) = y := by
    simp only [val4, Y1.2, Y2.2, Y3.2, Y4.2]; omega
  have em : val2 (dig (mo / 10 % 10)) (dig (mo % 10)) = mo := by simp only [val2, M1.2, M2.2]; omega
  have ed : val2 (dig (d / 10 % 10)) (dig (d % 10)) = d := by simp only [val2, D1.2, D2.2]; omega
  have eh : val2 (dig (h / 10 % 10)) (dig (h % 10)) = h := by simp only [val2, H1.2, H2.2]; omega
  have en : val2 (dig (mi / 10 % 10)) (dig (mi % 10)) = mi := by simp only [val2, N1.2, N2.2]; omega
  have es : val2 (dig (s / 10 % 10)) (dig (s % 10)) = s := by simp only [val2, S1.2, S2.2]; omega
  simp only [readW3C, fmt, pad4, pad2, List.cons_append, List.nil_append, List.take, List.drop,
    List.length_cons, List.length_nil]
  simp only [parseCanon, List.all_cons, List.all_nil, Y1.1, Y2.1, Y3.1, Y4.1, M1.1, M2.1, D1.1, D2.1,
    H1.1, H2.1, N1.1, N2.1, S1.1, S2.1, Bool.and_self, if_true, e4, em, ed, eh, en, es, hv']
  simp

/-- **Negative theorem** (before the fix): with the year written unpadded, as glibc's `%Y` does
    below 1000, the written value is not read back (`created = datetime(999, 1, 2, 3, 4, 5)` reads
    `None`). -/
theorem unpadded_year_not_read_back :
    readW3C (fmtUnpaddedYear ⟨999, 1, 2, 3, 4, 5⟩) = .unparseable
      ∧ readW3C (fmt ⟨999, 1, 2, 3, 4, 5⟩) = .ok ⟨999, 1, 2, 3, 4, 5⟩ := by decide

/-- offsets are read as the equivalent UTC time — instances at the extremes of the W3CDTF offset range and across
    month / year / leap-day boundaries, by kernel evaluation (the general statement is `offset_utc` below) -/
theorem offset_utc_instances :
    readW3C "2003-12-31T23:14:55-08:00".toList = .ok ⟨2004, 1, 1, 7, 14, 55⟩
    ∧ readW3C "2004-03-01T00:30:00+14:00".toList = .ok ⟨2004, 2, 29, 10, 30, 0⟩
    ∧ readW3C "2004-02-28T20:00:00-14:00".toList = .ok ⟨2004, 2, 29, 10, 0, 0⟩
    ∧ readW3C "1900-03-01T00:00:00+00:01".toList = .ok ⟨1900, 2, 28, 23, 59, 0⟩
    ∧ readW3C "2003-12-31T10:14:55Z".toList = .ok ⟨2003, 12, 31, 10, 14, 55⟩
    ∧ readW3C "2003-12".toList = .ok ⟨2003, 12, 1, 0, 0, 0⟩
    ∧ readW3C "0001-01-01T00:00:00+14:00".toList = .overflow := by decide

theorem era_year (doe yoe : Int) (h0 : 0 ≤ doe) (h1 : doe < 146097)
    (hyoe : yoe = (doe - doe / 1460 + doe / 36524 - doe / 146096) / 365) :
    0 ≤ yoe ∧ yoe ≤ 399 ∧ 0 ≤ doe - (365 * yoe + yoe / 4 - yoe / 100) ∧ doe - (365 * yoe + yoe / 4 - yoe / 100) ≤ 365 := by
  obtain ⟨f, hf⟩ : ∃ f, f = doe / 36524 := ⟨_, rfl⟩
  obtain ⟨g, hg⟩ : ∃ g, g = doe / 146096 := ⟨_, rfl⟩
  obtain ⟨c, hc⟩ : ∃ c, c = yoe / 100 := ⟨_, rfl⟩
  rw [← hf, ← hg] at hyoe
  rw [← hc]
  have hf0 : 0 ≤ f := by omega
  have hf4 : f ≤ 4 := by omega
  have hg0 : 0 ≤ g := by omega
  have hg1 : g ≤ 1 := by omega
  have hc0 : 0 ≤ c := by omega
  have hc4 : c ≤ 4 := by omega
  interval_cases f <;> interval_cases g <;> interval_cases c <;> omega

theorem era_month (doy mp d m : Int) (h0 : 0 ≤ doy) (h1 : doy ≤ 365)
    (hmp : mp = (5 * doy + 2) / 153) (hd : d = doy - (153 * mp + 2) / 5 + 1)
    (hm : m = if mp < 10 then mp + 3 else mp - 9) :
    1 ≤ m ∧ m ≤ 12 ∧ 1 ≤ d ∧ d ≤ 31 ∧ (153 * (if m > 2 then m - 3 else m + 9) + 2) / 5 + d - 1 = doy := by
  have hmp0 : 0 ≤ mp := by omega
  have hmp11 : mp ≤ 11 := by omega
  interval_cases mp <;> simp at hm <;> subst hm <;> simp <;> omega

/-- **The civil-date conversion is exact** (Hinnant's algorithm, which `datetime` arithmetic is modelled by): the day
    number of the date computed for day number `z` is `z`, for EVERY integer `z` (proleptic Gregorian calendar), and
    the date has a month in 1..12 and a day in 1..31 -/
theorem civil_roundtrip (z : Int) :
    daysFromCivil (civilFromDays z).1 (civilFromDays z).2.1 (civilFromDays z).2.2 = z ∧
    1 ≤ (civilFromDays z).2.1 ∧ (civilFromDays z).2.1 ≤ 12 ∧ 1 ≤ (civilFromDays z).2.2 ∧ (civilFromDays z).2.2 ≤ 31 := by
  obtain ⟨era, hera⟩ : ∃ era, era = (z + 719468) / 146097 := ⟨_, rfl⟩
  obtain ⟨doe, hdoe⟩ : ∃ doe, doe = z + 719468 - era * 146097 := ⟨_, rfl⟩
  obtain ⟨yoe, hyoe⟩ : ∃ yoe, yoe = (doe - doe / 1460 + doe / 36524 - doe / 146096) / 365 := ⟨_, rfl⟩
  obtain ⟨doy, hdoy⟩ : ∃ doy, doy = doe - (365 * yoe + yoe / 4 - yoe / 100) := ⟨_, rfl⟩
  obtain ⟨mp, hmp⟩ : ∃ mp, mp = (5 * doy + 2) / 153 := ⟨_, rfl⟩
  obtain ⟨d, hd⟩ : ∃ d, d = doy - (153 * mp + 2) / 5 + 1 := ⟨_, rfl⟩
  obtain ⟨m, hm⟩ : ∃ m, m = if mp < 10 then mp + 3 else mp - 9 := ⟨_, rfl⟩
  have hc : civilFromDays z = (if m ≤ 2 then yoe + era * 400 + 1 else yoe + era * 400, m, d) := by
    subst hm hd hmp hdoy hyoe hdoe hera; rfl
  rw [hc]
  have hz := Int.emod_add_mul_ediv (z + 719468) 146097
  have hlt := Int.emod_lt_of_pos (z + 719468) (show (0 : Int) < 146097 by decide)
  have hge := Int.emod_nonneg (z + 719468) (show (146097 : Int) ≠ 0 by decide)
  have hdoe0 : 0 ≤ doe ∧ doe < 146097 := by omega
  obtain ⟨y0, y399, dy0, dy365⟩ := era_year doe yoe hdoe0.1 hdoe0.2 hyoe
  rw [← hdoy] at dy0 dy365
  obtain ⟨m1, m12, d1, d31, hback⟩ := era_month doy mp d m dy0 dy365 hmp hd hm
  refine ⟨?_, m1, m12, d1, d31⟩
  simp only [daysFromCivil]
  by_cases hm2 : m ≤ 2
  · have hm' : ¬ m > 2 := by omega
    simp only [hm2, if_true, hm', if_false] at hback ⊢
    have e2 : yoe + era * 400 + 1 - 1 = yoe + era * 400 := by omega
    rw [e2]
    have e1 : (yoe + era * 400) / 400 = era := by omega
    rw [e1]
    have e3 : yoe + era * 400 - era * 400 = yoe := by omega
    rw [e3]
    omega
  · have hm' : m > 2 := by omega
    simp only [hm2, if_false, hm', if_true] at hback ⊢
    have e1 : (yoe + era * 400) / 400 = era := by omega
    rw [e1]
    have e3 : yoe + era * 400 - era * 400 = yoe := by omega
    rw [e3]
    omega


/-- what `fromSecs` returns is the instant it was given, as a calendar date and time of day -/
theorem fromSecs_spec (x : Int) (u : DT) (h : fromSecs x = some u) :
    toSecs u = x ∧ 1 ≤ u.y ∧ u.y ≤ 9999 ∧ 1 ≤ u.mo ∧ u.mo ≤ 12 ∧ 1 ≤ u.d ∧ u.d ≤ 31 ∧ u.h < 24 ∧ u.mi < 60 ∧ u.s < 60 := by
  obtain ⟨hrt, m1, m12, d1, d31⟩ := civil_roundtrip (x / 86400)
  simp only [fromSecs] at h
  generalize hy : (civilFromDays (x / 86400)).1 = y at h hrt
  generalize hm : (civilFromDays (x / 86400)).2.1 = m at h hrt m1 m12
  generalize hd : (civilFromDays (x / 86400)).2.2 = d at h hrt d1 d31
  by_cases hr : 1 ≤ y ∧ y ≤ 9999
  · rw [if_pos hr] at h
    have hu : u = ⟨y.toNat, m.toNat, d.toNat, (x % 86400 / 3600).toNat, (x % 86400 % 3600 / 60).toNat, (x % 86400 % 60).toNat⟩ := by
      simpa using h.symm
    subst hu
    have r0 := Int.emod_nonneg x (show (86400 : Int) ≠ 0 by decide)
    have r1 := Int.emod_lt_of_pos x (show (0 : Int) < 86400 by decide)
    have e := Int.emod_add_mul_ediv x 86400
    simp only [toSecs]
    have cy : ((y.toNat : Nat) : Int) = y := Int.toNat_of_nonneg (by omega)
    have cm : ((m.toNat : Nat) : Int) = m := Int.toNat_of_nonneg (by omega)
    have cd : ((d.toNat : Nat) : Int) = d := Int.toNat_of_nonneg (by omega)
    have ch : (((x % 86400 / 3600).toNat : Nat) : Int) = x % 86400 / 3600 := Int.toNat_of_nonneg (by omega)
    have cmi : (((x % 86400 % 3600 / 60).toNat : Nat) : Int) = x % 86400 % 3600 / 60 := Int.toNat_of_nonneg (by omega)
    have cs : (((x % 86400 % 60).toNat : Nat) : Int) = x % 86400 % 60 := Int.toNat_of_nonneg (by omega)
    rw [cy, cm, cd, ch, cmi, cs, hrt]
    refine ⟨by omega, ?_, ?_, ?_, ?_, ?_, ?_, ?_, ?_, ?_⟩ <;> omega
  · rw [if_neg hr] at h; cases h

/-- **Offsets are read as the equivalent UTC time, for every timestamp and every offset**: when the first 19 characters
    parse to `t` and the 6-character remainder to an offset of `delta` seconds, the value read denotes exactly the
    instant `t + delta`, with every field in range; the only other outcome is the overflow of `datetime`'s year range -/
theorem offset_utc (s : Str) (t : DT) (delta : Int)
    (ht : parseCanon (s.take 19) = some t) (hlen : (s.drop 19).length = 6) (ho : parseOffset (s.drop 19) = some delta) :
    (∃ u, readW3C s = .ok u ∧ toSecs u = toSecs t + delta ∧ 1 ≤ u.y ∧ u.y ≤ 9999 ∧ 1 ≤ u.mo ∧ u.mo ≤ 12 ∧ 1 ≤ u.d ∧ u.d ≤ 31 ∧
      u.h < 24 ∧ u.mi < 60 ∧ u.s < 60) ∨ readW3C s = .overflow := by
  simp only [readW3C, ht, hlen, if_true, ho]
  cases hf : fromSecs (toSecs t + delta) with
  | none => right; rfl
  | some u => left; exact ⟨u, rfl, fromSecs_spec _ u hf⟩

/-- **A datetime carrying a UTC offset is stored as the same instant**: what is written is the canonical text of a
    calendar time `u` whose second count is the assigned time's minus the offset, with every field in range, for every
    time and every offset; the only other outcome is the refusal of an instant outside years 1..9999 -/
theorem writeAware_instant (t : DT) (offMin : Int) (s : Str) (h : writeAware t offMin = some s) :
    ∃ u, s = fmt u ∧ toSecs u = toSecs t - offMin * 60 ∧ 1 ≤ u.y ∧ u.y ≤ 9999 ∧ 1 ≤ u.mo ∧ u.mo ≤ 12 ∧ 1 ≤ u.d ∧ u.d ≤ 31 ∧
      u.h < 24 ∧ u.mi < 60 ∧ u.s < 60 := by
  simp only [writeAware, Option.map_eq_some_iff] at h
  obtain ⟨u, hu, rfl⟩ := h
  exact ⟨u, rfl, fromSecs_spec _ u hu⟩

example : writeAware ⟨2020, 1, 1, 12, 0, 5⟩ 120 = some "2020-01-01T10:00:05Z".toList := by decide
example : writeAware ⟨2020, 1, 1, 0, 30, 0⟩ 60 = some "2019-12-31T23:30:00Z".toList := by decide
example : writeAware ⟨1, 1, 1, 0, 0, 0⟩ 60 = none := by decide

/-- revision: stored text of a positive integer reads back as that integer; anything else as 0 -/
theorem revision_examples : revisionOf (some "42".toList) = 42 ∧ revisionOf (some "-3".toList) = 0
    ∧ revisionOf (some "x".toList) = 0 ∧ revisionOf none = 0 ∧ revisionOf (some [] ) = 0 := by decide

/-- the decimal digits of a number: never empty, never starting with a sign, all digits, worth the number -/
theorem natStr_facts (n : Nat) : natStr n ≠ [] ∧ (natStr n).all isDig = true ∧ digitsVal (natStr n) = n
    ∧ (natStr n).head? ≠ some '-' ∧ (natStr n).head? ≠ some '+' := by
  have hdig : ∀ c ∈ natStr n, c.isDigit = true := by
    intro c hc
    unfold natStr at hc; rw [Nat.toList_repr] at hc
    exact Nat.isDigit_of_mem_toDigits (b := 10) (by omega) (by omega) hc
  have hne : natStr n ≠ [] := by
    unfold natStr; rw [Nat.toList_repr]; exact Nat.toDigits_ne_nil
  have hval : digitsVal (natStr n) = n := by
    unfold digitsVal natStr
    rw [Nat.toList_repr]
    have := Nat.ofDigitChars_ten_toDigits (n := n)
    rw [Nat.ofDigitChars_eq_foldl] at this
    have e : (fun (acc : Nat) (d : Char) => acc * 10 + (d.toNat - '0'.toNat)) = fun sofar c => 10 * sofar + (c.toNat - '0'.toNat) := by
      funext a c; rw [Nat.mul_comm]
    rw [e]; exact this
  have hall : (natStr n).all isDig = true := by
    apply List.all_eq_true.2
    intro c hc
    have := hdig c hc
    simp only [Char.isDigit, Bool.and_eq_true, decide_eq_true_eq] at this
    unfold isDig
    have a : '0'.val ≤ c.val := this.1
    have b : c.val ≤ '9'.val := this.2
    rw [UInt32.le_iff_toNat_le] at a b
    have h0 : ('0' : Char).val.toNat = 48 := by decide
    have h9 : ('9' : Char).val.toNat = 57 := by decide
    simp only [Bool.and_eq_true, decide_eq_true_eq, Char.toNat]
    omega
  refine ⟨hne, hall, hval, ?_, ?_⟩
  · intro h
    cases hh : natStr n with
    | nil => exact hne hh
    | cons x xs =>
      rw [hh] at h; simp only [List.head?_cons, Option.some.injEq] at h
      have := hdig x (by rw [hh]; simp); rw [h] at this; revert this; decide
  · intro h
    cases hh : natStr n with
    | nil => exact hne hh
    | cons x xs =>
      rw [hh] at h; simp only [List.head?_cons, Option.some.injEq] at h
      have := hdig x (by rw [hh]; simp); rw [h] at this; revert this; decide

/-- **revision**: every positive integer is accepted and read back as itself; every other integer is refused -/
theorem revision_roundtrip (v : Int) :
    (1 ≤ v → ∃ s, writeRevision v = some s ∧ (revisionOf (some s) : Int) = v) ∧ (v < 1 → writeRevision v = none) := by
  constructor
  · intro hv
    have hnot : ¬ v < 1 := by omega
    refine ⟨natStr v.toNat, by simp [writeRevision, hnot], ?_⟩
    obtain ⟨hne, hall, hval, hm, hp⟩ := natStr_facts v.toNat
    unfold revisionOf
    simp only [hm, hp, false_or, if_false, hall, hval, Bool.and_true]
    have : (natStr v.toNat).isEmpty = false := by
      cases h : natStr v.toNat with
      | nil => exact absurd h hne
      | cons _ _ => rfl
    simp only [this, Bool.not_false, if_true, decide_false, Bool.false_eq_true, if_false]
    omega
  · intro hv; simp [writeRevision, hv]

example : (⟨2024, 2, 29, 23, 59, 59⟩ : DT).valid = true := by decide
example : fmt ⟨7, 1, 2, 3, 4, 5⟩ = "0007-01-02T03:04:05Z".toList := by decide

end Pptx.C18
