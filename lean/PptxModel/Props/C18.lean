/-
  C18 — core document properties round-trip and stay valid.  Model: `Model/CoreProps.lean`.
-/
import PptxModel.Model.CoreProps
namespace Pptx.C18
open Pptx Pptx.CoreProps

theorem toNat_ofNat_small (n : Nat) (h : n < 0xd800) : (Char.ofNat n).toNat = n := by
  have hv : n.isValidChar := Or.inl h
  rw [Char.ofNat, dif_pos hv]
  simp [Char.ofNatAux, Char.toNat]

theorem dig_spec (k : Nat) (h : k < 10) : isDig (dig k) = true ∧ dv (dig k) = k := by
  have := toNat_ofNat_small (48 + k) (by omega)
  simp only [isDig, dv, dig, this, Bool.and_eq_true, decide_eq_true_eq]
  omega

theorem dig_ne (k : Nat) (h : k < 10) (c : Char) (hc : c.toNat < 48 ∨ 57 < c.toNat) : dig k ≠ c := by
  intro e
  have := toNat_ofNat_small (48 + k) (by omega)
  simp only [dig] at e
  rw [e] at this; omega

/-- **A text property accepts exactly the strings of at most 255 characters and returns them
    unchanged** (a 256-character string is refused and nothing is written). -/
theorem text_rule (v : Str) :
    (v.length ≤ 255 → setText v = some v) ∧ (255 < v.length → setText v = none) := by
  simp only [setText]
  constructor <;> intro h <;> simp [h] <;> omega

/-- **Date round trip**: any valid instant of years 1..9999 is written in a form the reader parses
    back to exactly the same instant, to one-second resolution (with the four-digit year of the
    `fix:` for F-C18-1). -/
theorem date_roundtrip (t : DT) (hv : t.valid = true) : readW3C (fmt t) = .ok t := by
  obtain ⟨y, mo, d, h, mi, s⟩ := t
  have hv' := hv
  simp only [DT.valid, Bool.and_eq_true, decide_eq_true_eq] at hv
  obtain ⟨⟨⟨⟨⟨⟨⟨⟨h1, h2⟩, h3⟩, h4⟩, h5⟩, h6⟩, h7⟩, h8⟩, h9⟩ := hv
  have hd : d ≤ 31 := by
    have : daysIn y mo ≤ 31 := by simp only [daysIn]; split <;> (try split) <;> omega
    omega
  have Y1 := dig_spec (y / 1000 % 10) (by omega); have Y2 := dig_spec (y / 100 % 10) (by omega)
  have Y3 := dig_spec (y / 10 % 10) (by omega); have Y4 := dig_spec (y % 10) (by omega)
  have M1 := dig_spec (mo / 10 % 10) (by omega); have M2 := dig_spec (mo % 10) (by omega)
  have D1 := dig_spec (d / 10 % 10) (by omega); have D2 := dig_spec (d % 10) (by omega)
  have H1 := dig_spec (h / 10 % 10) (by omega); have H2 := dig_spec (h % 10) (by omega)
  have N1 := dig_spec (mi / 10 % 10) (by omega); have N2 := dig_spec (mi % 10) (by omega)
  have S1 := dig_spec (s / 10 % 10) (by omega); have S2 := dig_spec (s % 10) (by omega)
  have e4 : val4 (dig (y / 1000 % 10)) (dig (y / 100 % 10)) (dig (y / 10 % 10)) (dig (y % 10)) = y := by
    simp only [val4, Y1.2, Y2.2, Y3.2, Y4.2]; omega
  have em : val2 (dig (mo / 10 % 10)) (dig (mo % 10)) = mo := by simp only [val2, M1.2, M2.2]; omega
  have ed : val2 (dig (d / 10 % 10)) (dig (d % 10)) = d := by simp only [val2, D1.2, D2.2]; omega
  have eh : val2 (dig (h / 10 % 10)) (dig (h % 10)) = h := by simp only [val2, H1.2, H2.2]; omega
  have en : val2 (dig (mi / 10 % 10)) (dig (mi % 10)) = mi := by simp only [val2, N1.2, N2.2]; omega
  have es : val2 (dig (s / 10 % 10)) (dig (s % 10)) = s := by simp only [val2, S1.2, S2.2]; omega
  simp only [readW3C, fmt, pad4, pad2, List.cons_append, List.nil_append, List.take, List.drop,
    List.length_cons, List.length_nil]
  simp only [parseCanon, List.all_cons, List.all_nil, Y1.1, Y2.1, Y3.1, Y4.1, M1.1, M2.1, D1.1, D2.1,
    H1.1, H2.1, N1.1, N2.1, S1.1, S2.1, Bool.and_self, if_true, e4, em, ed, eh, en, es, hv']
  simp

/-- **Negative theorem** (before the fix): with the year written unpadded, as glibc's `%Y` does
    below 1000, the written value is not read back (`created = datetime(999, 1, 2, 3, 4, 5)` reads
    `None`). -/
theorem unpadded_year_not_read_back :
    readW3C (fmtUnpaddedYear ⟨999, 1, 2, 3, 4, 5⟩) = .unparseable
      ∧ readW3C (fmt ⟨999, 1, 2, 3, 4, 5⟩) = .ok ⟨999, 1, 2, 3, 4, 5⟩ := by decide

/-- **Offsets are read as the equivalent UTC time** — checked instances at the extremes of the
    W3CDTF offset range and across month/year/leap-day boundaries (kernel evaluation; the general
    statement needs the inverse law of the civil-date conversion, which is not proved here:
    `_partial`, the conversion itself is compared with `datetime` arithmetic by the correspondence). -/
theorem offset_utc_instances_partial :
    readW3C "2003-12-31T23:14:55-08:00".toList = .ok ⟨2004, 1, 1, 7, 14, 55⟩
    ∧ readW3C "2004-03-01T00:30:00+14:00".toList = .ok ⟨2004, 2, 29, 10, 30, 0⟩
    ∧ readW3C "2004-02-28T20:00:00-14:00".toList = .ok ⟨2004, 2, 29, 10, 0, 0⟩
    ∧ readW3C "1900-03-01T00:00:00+00:01".toList = .ok ⟨1900, 2, 28, 23, 59, 0⟩
    ∧ readW3C "2003-12-31T10:14:55Z".toList = .ok ⟨2003, 12, 31, 10, 14, 55⟩
    ∧ readW3C "2003-12".toList = .ok ⟨2003, 12, 1, 0, 0, 0⟩
    ∧ readW3C "0001-01-01T00:00:00+14:00".toList = .overflow := by decide

/-- revision: stored text of a positive integer reads back as that integer; anything else as 0 -/
theorem revision_examples : revisionOf (some "42".toList) = 42 ∧ revisionOf (some "-3".toList) = 0
    ∧ revisionOf (some "x".toList) = 0 ∧ revisionOf none = 0 ∧ revisionOf (some [] ) = 0 := by decide

example : (⟨2024, 2, 29, 23, 59, 59⟩ : DT).valid = true := by decide
example : fmt ⟨7, 1, 2, 3, 4, 5⟩ = "0007-01-02T03:04:05Z".toList := by decide

end Pptx.C18
