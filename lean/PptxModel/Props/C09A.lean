/-
  C09 — `shape.adjustments`: theorems over `Model/Adjust` (any guides to start from: missing ones, several under one name,
  names that are no adjustment of the shape).
-/
import PptxModel.Model.Adjust
namespace Pptx.Adjust

theorem actual_not_mem (ns : List Nat) (vs : List Int) (nm : Nat) (h : nm ∉ ns) : actual (ns.zip vs) nm = none := by
  induction ns generalizing vs with
  | nil => simp [actual]
  | cons n ns ih =>
    cases vs with
    | nil => simp [actual]
    | cons v vs =>
      simp only [List.mem_cons, not_or] at h
      simp only [List.zip_cons_cons, actual, ih vs h.2]
      simp [Ne.symm h.1]

/-- guides written one per name (distinct names): each name reads its own value -/
theorem actual_zip (ns : List Nat) (vs : List Int) (hn : ns.Nodup) (hl : ns.length = vs.length) (j : Nat) (hj : j < ns.length) :
    actual (ns.zip vs) ns[j] = some (vs[j]'(hl ▸ hj)) := by
  induction ns generalizing vs j with
  | nil => simp at hj
  | cons n ns ih =>
    cases vs with
    | nil => simp at hl
    | cons v vs =>
      have hn' := List.nodup_cons.1 hn
      cases j with
      | zero =>
        simp only [List.zip_cons_cons, actual, List.getElem_cons_zero, actual_not_mem ns vs n hn'.1]
        simp
      | succ j =>
        have hj' : j < ns.length := by simpa using hj
        have := ih vs hn'.2 (by simpa using hl) j hj'
        simp only [List.zip_cons_cons, actual, List.getElem_cons_succ, this]

theorem readAll_length (d : Defs) (g : Guides) : (readAll d g).length = d.length := by simp [readAll]

/-- after an assignment every adjustment of the shape has exactly one guide, in the adjustments' order: guides under other
    names and repeated guides are gone -/
theorem write_names (d : Defs) (g g' : Guides) (i : Nat) (v : Int) (h : write d g i v = some g') :
    g'.map (·.1) = d.map (·.1) := by
  unfold write at h
  split at h
  · cases h
    rw [List.map_fst_zip]
    simp [setAt, readAll_length]
  · cases h

/-- what every adjustment reads after `adjustments[i] = v`: `v` for `i`, what it read before for every other one -
    whatever the guides were -/
theorem read_write (d : Defs) (hn : (d.map (·.1)).Nodup) (g g' : Guides) (i : Nat) (v : Int) (h : write d g i v = some g')
    (j : Nat) (hj : j < d.length) :
    read d g' j = if j = i then some v else read d g j := by
  unfold write at h
  split at h
  · rename_i hi
    cases h
    have hl : (d.map (·.1)).length = (setAt (readAll d g) i v).length := by simp [setAt, readAll_length]
    have hj' : j < (d.map (·.1)).length := by simpa using hj
    have key := actual_zip (d.map (·.1)) (setAt (readAll d g) i v) hn hl j hj'
    have hnm : (d.map (·.1))[j] = d[j].1 := by simp
    rw [hnm] at key
    simp only [read, List.getElem?_eq_getElem hj, Option.map_some, valueOf, key, Option.getD_some]
    by_cases e : j = i
    · subst e; simp [setAt]
    · have e' : i ≠ j := fun h => e h.symm
      simp [setAt, e, e', readAll, valueOf]
  · cases h

theorem read_write_self (d : Defs) (hn : (d.map (·.1)).Nodup) (g g' : Guides) (i : Nat) (v : Int)
    (h : write d g i v = some g') : read d g' i = some v := by
  have hi : i < d.length := by
    unfold write at h; split at h
    · assumption
    · cases h
  simpa using read_write d hn g g' i v h i hi

/-- an index outside the adjustments is refused and nothing is written -/
theorem write_none_iff (d : Defs) (g : Guides) (i : Nat) (v : Int) : write d g i v = none ↔ d.length ≤ i := by
  unfold write; split <;> simp <;> omega

/-- the last value assigned to index `j` in a history of assignments that were accepted -/
def lastAt (j : Nat) : List (Nat × Int) → Option Int
  | [] => none
  | (i, v) :: rest => match lastAt j rest with
    | some w => some w
    | none => if i = j then some v else none

/-- ANY history of assignments (through however many proxies - the state is the guides in the XML): each adjustment reads the
    last value assigned to it, and what it read at the start if none was -/
theorem run_read (d : Defs) (hn : (d.map (·.1)).Nodup) (g : Guides) (ops : List (Nat × Int)) (j : Nat) (hj : j < d.length)
    (hops : ∀ o ∈ ops, o.1 < d.length) :
    read d (run d g ops) j = match lastAt j ops with | some w => some w | none => read d g j := by
  induction ops generalizing g with
  | nil => simp [run, lastAt]
  | cons o rest ih =>
    obtain ⟨i, v⟩ := o
    have hi : i < d.length := hops (i, v) (List.mem_cons_self ..)
    have hw : ∃ g', write d g i v = some g' := by
      unfold write; simp [hi]
    obtain ⟨g', hg'⟩ := hw
    rw [run, hg', Option.getD_some, ih g' (fun o ho => hops o (List.mem_cons_of_mem _ ho))]
    simp only [lastAt]
    cases hl : lastAt j rest with
    | some w => simp
    | none =>
      simp only []
      rw [read_write d hn g g' i v hg' j hj]
      by_cases e : j = i
      · subst e; simp
      · have e' : ¬ i = j := fun h => e h.symm
        simp [e, e']

/-- the collection BEFORE its repair wrote back the values it had read when it was made: with a second proxy in between,
    an assignment undoes the other proxy's (the history of the finding: proxy A made, B assigns index 1, A assigns index 2) -/
theorem stale_cache_loses_an_assignment :
    let d : Defs := [(0, 10800000), (1, 0), (2, 25000)]
    let cacheA := readAll d []                              -- A is made: reads the defaults
    let g1 := (write d [] 1 70000).getD []                  -- B: adjustments[1] = 0.7
    read d g1 1 = some 70000 ∧ read d (writeStale d cacheA 2 10000) 1 = some 0 ∧
    read d ((write d g1 2 10000).getD []) 1 = some 70000 := by decide

example : read [(0, 5), (1, 6)] [(7, 1), (1, 9), (1, 8)] 1 = some 8 ∧ read [(0, 5), (1, 6)] [(7, 1), (1, 9), (1, 8)] 0 = some 5 ∧
    write [(0, 5), (1, 6)] [(7, 1), (1, 9), (1, 8)] 0 3 = some [(0, 3), (1, 8)] := by decide

end Pptx.Adjust
