/-
  C08 — date serial numbers: theorems over `Model/Serial`.
-/
import Mathlib.Tactic.IntervalCases
import PptxModel.Model.Serial
import PptxModel.Props.C18
namespace Pptx.Serial
open Pptx Pptx.CoreProps

/-! ### the civil-date conversion is exact the other way round too -/

theorem era_year_inv (yoe doy doe : Int) (h0 : 0 ≤ yoe) (h1 : yoe ≤ 399) (hd0 : 0 ≤ doy)
    (hd1 : doy ≤ 364 ∨ (doy = 365 ∧ (yoe + 1) % 4 = 0 ∧ ((yoe + 1) % 100 ≠ 0 ∨ yoe = 399)))
    (hdoe : doe = yoe * 365 + yoe / 4 - yoe / 100 + doy) :
    (doe - doe / 1460 + doe / 36524 - doe / 146096) / 365 = yoe ∧ 0 ≤ doe ∧ doe < 146097 := by
  obtain ⟨c, hc⟩ : ∃ c, c = yoe / 100 := ⟨_, rfl⟩
  obtain ⟨f, hf⟩ : ∃ f, f = doe / 36524 := ⟨_, rfl⟩
  obtain ⟨g, hg⟩ : ∃ g, g = doe / 146096 := ⟨_, rfl⟩
  rw [← hc] at hdoe
  rw [← hf, ← hg]
  have hc0 : 0 ≤ c := by omega
  have hc3 : c ≤ 3 := by omega
  have hdoe0 : 0 ≤ doe := by omega
  have hdoe1 : doe ≤ 146096 := by omega
  have hf0 : 0 ≤ f := by omega
  have hf4 : f ≤ 4 := by omega
  have hg0 : 0 ≤ g := by omega
  have hg1 : g ≤ 1 := by omega
  refine ⟨?_, hdoe0, by omega⟩
  interval_cases c <;> interval_cases f <;> interval_cases g <;> omega

/-- month-of-(March-based)-year and day recovered from the day of the year -/
theorem era_month_inv (mp d doy : Int) (h0 : 0 ≤ mp) (h1 : mp ≤ 11) (hd0 : 1 ≤ d)
    (hd1 : d ≤ (if mp = 1 ∨ mp = 3 ∨ mp = 6 ∨ mp = 8 then 30 else if mp = 11 then 29 else 31))
    (hdoy : doy = (153 * mp + 2) / 5 + d - 1) :
    (5 * doy + 2) / 153 = mp ∧ doy - (153 * mp + 2) / 5 + 1 = d := by
  interval_cases mp <;> simp at hd1 <;> omega

theorem isLeap_iff (y : Int) : isLeap y = true ↔ y % 4 = 0 ∧ (y % 100 ≠ 0 ∨ y % 400 = 0) := by
  simp [isLeap]

/-- **`civilFromDays` is a left inverse of `daysFromCivil` on every calendar date** (any year, proleptic Gregorian):
    together with `C18.civil_roundtrip` the two are mutually inverse bijections between day numbers and valid dates, so
    `datetime.date` subtraction is exactly a difference of day numbers -/
theorem civil_left_inverse (y m d : Int) (hv : validDate y m d = true) :
    civilFromDays (daysFromCivil y m d) = (y, m, d) := by
  simp only [validDate, Bool.and_eq_true, decide_eq_true_eq] at hv
  obtain ⟨⟨⟨hm1, hm12⟩, hd1⟩, hdl⟩ := hv
  obtain ⟨y', hy'⟩ : ∃ y', y' = if m ≤ 2 then y - 1 else y := ⟨_, rfl⟩
  obtain ⟨era, hera⟩ : ∃ era, era = y' / 400 := ⟨_, rfl⟩
  obtain ⟨yoe, hyoe⟩ : ∃ yoe, yoe = y' - era * 400 := ⟨_, rfl⟩
  obtain ⟨mp, hmp⟩ : ∃ mp, mp = if m > 2 then m - 3 else m + 9 := ⟨_, rfl⟩
  obtain ⟨doy, hdoy⟩ : ∃ doy, doy = (153 * mp + 2) / 5 + d - 1 := ⟨_, rfl⟩
  obtain ⟨doe, hdoe⟩ : ∃ doe, doe = yoe * 365 + yoe / 4 - yoe / 100 + doy := ⟨_, rfl⟩
  have hz : daysFromCivil y m d = era * 146097 + doe - 719468 := by
    subst hdoe hdoy hmp hyoe hera hy'; rfl
  have hyoe0 : 0 ≤ yoe ∧ yoe ≤ 399 := by omega
  have hmp0 : 0 ≤ mp ∧ mp ≤ 11 := by
    by_cases h : m > 2 <;> simp only [h, if_true, if_false] at hmp <;> omega
  -- the length of the month, in terms of mp
  have hlen : d ≤ (if mp = 1 ∨ mp = 3 ∨ mp = 6 ∨ mp = 8 then 30 else if mp = 11 then 29 else 31) := by
    unfold monthLen at hdl
    by_cases h : m > 2
    · simp only [h, if_true] at hmp
      have hm2 : ¬ m = 2 := by omega
      simp only [hm2, if_false] at hdl
      by_cases h30 : m = 4 ∨ m = 6 ∨ m = 9 ∨ m = 11
      · simp only [h30, if_true] at hdl
        have : mp = 1 ∨ mp = 3 ∨ mp = 6 ∨ mp = 8 := by omega
        simp only [this, if_true]; exact hdl
      · simp only [h30, if_false] at hdl
        have h1 : ¬ (mp = 1 ∨ mp = 3 ∨ mp = 6 ∨ mp = 8) := by omega
        have h2 : ¬ mp = 11 := by omega
        simp only [h1, h2, if_false]; exact hdl
    · simp only [h, if_false] at hmp
      have h1 : ¬ (mp = 1 ∨ mp = 3 ∨ mp = 6 ∨ mp = 8) := by omega
      simp only [h1, if_false]
      by_cases hm2 : m = 2
      · have : mp = 11 := by omega
        simp only [this, if_true]
        simp only [hm2, if_true] at hdl
        split at hdl <;> omega
      · have h2 : ¬ mp = 11 := by omega
        simp only [h2, if_false]
        have h30 : ¬ (m = 4 ∨ m = 6 ∨ m = 9 ∨ m = 11) := by omega
        simp only [hm2, h30, if_false] at hdl; exact hdl
  obtain ⟨hmpb, hdb⟩ := era_month_inv mp d doy hmp0.1 hmp0.2 hd1 hlen hdoy
  -- day 365 of a March-based year exists only before a leap February
  have hdoy0 : 0 ≤ doy := by
    have : 0 ≤ (153 * mp + 2) / 5 := by omega
    omega
  have hdoy1 : doy ≤ 364 ∨ (doy = 365 ∧ (yoe + 1) % 4 = 0 ∧ ((yoe + 1) % 100 ≠ 0 ∨ yoe = 399)) := by
    by_cases h11 : mp = 11
    · by_cases h29 : d = 29
      · right
        have hm2 : m = 2 := by
          by_cases h : m > 2 <;> simp only [h, if_true, if_false] at hmp <;> omega
        have hleap : isLeap y = true := by
          unfold monthLen at hdl
          simp only [hm2, if_true] at hdl
          by_cases hl : isLeap y = true
          · exact hl
          · have hl' : isLeap y = false := by simpa using hl
            simp only [hl', Bool.false_eq_true, if_false] at hdl; omega
        rw [isLeap_iff] at hleap
        obtain ⟨hl4, hl100⟩ := hleap
        have hy1 : y' = y - 1 := by simp only [hm2] at hy'; simpa using hy'
        have hdv : doy = 365 := by subst h11 h29; omega
        have h4 : (yoe + 1) % 4 = 0 := by omega
        refine ⟨hdv, h4, ?_⟩
        rcases hl100 with h | h
        · left; omega
        · right; omega
      · left
        have h1 : ¬ (mp = 1 ∨ mp = 3 ∨ mp = 6 ∨ mp = 8) := by omega
        simp only [h11, if_true] at hlen
        omega
    · left
      have : mp ≤ 10 := by omega
      have : d ≤ 31 := by
        by_cases c1 : (mp = 1 ∨ mp = 3 ∨ mp = 6 ∨ mp = 8) <;> simp only [c1, h11, if_true, if_false] at hlen <;> omega
      omega
  obtain ⟨hyb, hdoe0, hdoe1⟩ := era_year_inv yoe doy doe hyoe0.1 hyoe0.2 hdoy0 hdoy1 hdoe
  -- now run civilFromDays on era * 146097 + doe - 719468
  rw [hz]
  have e0 : era * 146097 + doe - 719468 + 719468 = era * 146097 + doe := by omega
  have e1 : (era * 146097 + doe) / 146097 = era := by omega
  have e2 : era * 146097 + doe - era * 146097 = doe := by omega
  have hdoyb : doe - (365 * yoe + yoe / 4 - yoe / 100) = doy := by omega
  simp only [civilFromDays, e0, e1, e2, hyb, hdoyb, hmpb, hdb]
  by_cases h : m > 2
  · simp only [h, if_true] at hmp
    have hy : y' = y := by
      have : ¬ m ≤ 2 := by omega
      simp only [this, if_false] at hy'; exact hy'
    have c1 : mp < 10 := by omega
    have c2 : ¬ mp + 3 ≤ 2 := by omega
    simp only [c1, if_true, c2, if_false]
    refine Prod.ext ?_ (Prod.ext ?_ rfl) <;> simp <;> omega
  · simp only [h, if_false] at hmp
    have hy : y' = y - 1 := by
      have : m ≤ 2 := by omega
      simp only [this, if_true] at hy'; exact hy'
    have c1 : ¬ mp < 10 := by omega
    have c2 : mp - 9 ≤ 2 := by omega
    simp only [c1, if_false, c2, if_true]
    refine Prod.ext ?_ (Prod.ext ?_ rfl) <;> simp <;> omega

/-! ### serial numbers -/

theorem epoch_values : epochDays false = -25568 ∧ epochDays true = -24107 := by decide

/-- **every date decodes from its serial number**, in both date systems, for every calendar date of any year -/
theorem serial_roundtrip (b : Bool) (y m d : Int) (hv : validDate y m d = true) :
    dateOfSerial b (excelDateNumber b y m d) = (y, m, d) := by
  have hi := civil_left_inverse y m d hv
  unfold dateOfSerial excelDateNumber
  cases b
  · simp only [Bool.not_false, Bool.true_and, decide_eq_true_eq]
    by_cases h : daysFromCivil y m d - epochDays false > 59
    · have h2 : daysFromCivil y m d - epochDays false + 1 > 60 := by omega
      simp only [h, if_true, h2]
      have : daysFromCivil y m d - epochDays false + 1 - 1 + epochDays false = daysFromCivil y m d := by omega
      rw [this]; exact hi
    · have h2 : ¬ daysFromCivil y m d - epochDays false > 60 := by omega
      simp only [h, if_false, h2]
      have : daysFromCivil y m d - epochDays false + epochDays false = daysFromCivil y m d := by omega
      rw [this]; exact hi
  · simp only [Bool.not_true, Bool.false_and, Bool.false_eq_true, if_false]
    have : daysFromCivil y m d - epochDays true + epochDays true = daysFromCivil y m d := by omega
    rw [this]; exact hi

/-- the 1900 system never yields 60, the day that never was -/
theorem serial_ne_60 (y m d : Int) : excelDateNumber false y m d ≠ 60 := by
  unfold excelDateNumber
  simp only [Bool.not_false, Bool.true_and, decide_eq_true_eq]
  split <;> omega

/-- a later day has a larger serial number (both systems): sorting by serial is sorting by date -/
theorem serial_strictMono (b : Bool) (y m d y' m' d' : Int) (h : daysFromCivil y m d < daysFromCivil y' m' d') :
    excelDateNumber b y m d < excelDateNumber b y' m' d' := by
  unfold excelDateNumber
  cases b
  · simp only [Bool.not_false, Bool.true_and, decide_eq_true_eq]
    split <;> split <;> omega
  · simp only [Bool.not_true, Bool.false_and, Bool.false_eq_true, if_false]
    omega

/-- the two systems differ by 1462 from 1900-03-01 on and by 1461 before -/
theorem serial_systems (y m d : Int) :
    excelDateNumber false y m d - excelDateNumber true y m d =
      if daysFromCivil y m d > daysFromCivil 1900 2 28 then 1462 else 1461 := by
  have e := epoch_values
  have f : daysFromCivil 1900 2 28 = -25509 := by decide
  unfold excelDateNumber
  simp only [Bool.not_false, Bool.true_and, decide_eq_true_eq, Bool.not_true, Bool.false_and, Bool.false_eq_true, if_false, e.1, e.2, f]
  split <;> split <;> omega

theorem serial_examples :
    excelDateNumber false 1900 1 1 = 1 ∧ excelDateNumber false 1900 2 28 = 59 ∧ excelDateNumber false 1900 3 1 = 61 ∧
    excelDateNumber false 2000 1 1 = 36526 ∧ excelDateNumber true 2000 1 1 = 35064 ∧ excelDateNumber true 1904 1 1 = 0 ∧
    excelDateNumber false 1 1 1 = -693594 ∧ excelDateNumber false 9999 12 31 = 2958465 ∧
    serialText 36526 = "36526.0".toList ∧ serialText (-5) = "-5.0".toList ∧ serialText 0 = "0.0".toList := by decide

end Pptx.Serial
