/-
  C12 — inspecting a presentation does not change it.
  Model: `Model/Effects.lean`.  What is proved is the lift from per-accessor effects to arbitrary read histories:
  if every accessor called does nothing but insert erasable subtrees (empty, attribute-less containers) — at any
  node, at any depth, even inside containers added by earlier reads — then after ANY sequence of reads, in any order
  and with any repetition, with any number of saves in between (a save does not change the state), every part is the
  same up to `canon`.  The per-accessor effect table is observed on the real code on every run (`Gen/C12.lean`) and the
  obligation "every observed effect is pure, adds-empty or a documented creator" is closed by kernel evaluation.
-/
import PptxModel.Model.Effects
import PptxModel.Props.C03
namespace Pptx.C12
open Pptx Pptx.XTree Pptx.Effects

theorem allEmpty_mk (C : Containers) (tag : Nat) (as : List (Nat × Str)) (ks : List XT) :
    allEmpty C (.mk tag as ks) = (as.isEmpty && (C.roots.contains tag || C.inner.contains tag) && allEmptyL C ks) := by
  simp [allEmpty]

theorem canon_mk (C : Containers) (tag : Nat) (as : List (Nat × Str)) (ks : List XT) :
    canon C (.mk tag as ks) = .mk tag as (canonL C ks) := by
  simp [canon]

theorem allEmptyL_insert (C : Containers) (p : XT → Bool) (e : XT) (he : allEmpty C e = true) (ks : List XT) :
    allEmptyL C (insertBeforeP p e ks) = allEmptyL C ks := by
  induction ks with
  | nil => simp [insertBeforeP, allEmptyL, he]
  | cons k ks ih =>
    simp only [insertBeforeP]
    split
    · simp [allEmptyL, he]
    · simp [allEmptyL, ih]

/-- inserting an erasable subtree among the children changes nothing that `canon` keeps -/
theorem canonL_insert (C : Containers) (p : XT → Bool) (e : XT) (he : erasable C e = true) (ks : List XT) :
    canonL C (insertBeforeP p e ks) = canonL C ks := by
  induction ks with
  | nil => simp [insertBeforeP, canonL, he]
  | cons k ks ih =>
    simp only [insertBeforeP]
    split
    · simp [canonL, he]
    · simp [canonL, ih]

/-- the three facts that make an edit invisible, wherever in the tree it happens -/
structure Invisible (C : Containers) (f : XT → XT) : Prop where
  canon_eq : ∀ t, canon C (f t) = canon C t
  empty_eq : ∀ t, allEmpty C (f t) = allEmpty C t
  tag_eq : ∀ t, (f t).tag = t.tag

theorem insKid_invisible (C : Containers) (succ : List Nat) (e : XT) (he : erasable C e = true) :
    Invisible C (insKid succ e) := by
  have hall : allEmpty C e = true := by
    simp only [erasable, Bool.and_eq_true] at he; exact he.2
  refine ⟨?_, ?_, ?_⟩
  · intro t; obtain ⟨tag, as, ks⟩ := t
    show canon C (.mk tag as (insertBeforeP _ e ks)) = _
    rw [canon_mk, canon_mk, canonL_insert C _ e he]
  · intro t; obtain ⟨tag, as, ks⟩ := t
    show allEmpty C (.mk tag as (insertBeforeP _ e ks)) = _
    rw [allEmpty_mk, allEmpty_mk, allEmptyL_insert C _ e hall]
  · intro t; obtain ⟨tag, as, ks⟩ := t; rfl

theorem modify_invisible (C : Containers) (g : XT → XT) (hg : Invisible C g) (i : Nat) (ks : List XT) :
    canonL C (ks.modify i g) = canonL C ks ∧ allEmptyL C (ks.modify i g) = allEmptyL C ks := by
  induction ks generalizing i with
  | nil => simp
  | cons k ks ih =>
    cases i with
    | zero =>
      refine ⟨?_, ?_⟩ <;> simp [canonL, allEmptyL, erasable, hg.canon_eq, hg.empty_eq, hg.tag_eq]
    | succ i =>
      refine ⟨?_, ?_⟩ <;> simp [canonL, allEmptyL, (ih i).1, (ih i).2]

/-- an invisible edit stays invisible at any depth -/
theorem editAt_invisible (C : Containers) (f : XT → XT) (hf : Invisible C f) :
    ∀ path : List Nat, Invisible C (editAt path f) := by
  intro path
  induction path with
  | nil => exact ⟨fun t => by simp [editAt, hf.canon_eq], fun t => by simp [editAt, hf.empty_eq], fun t => by simp [editAt, hf.tag_eq]⟩
  | cons i rest ih =>
    refine ⟨?_, ?_, ?_⟩
    · intro t; obtain ⟨tag, as, ks⟩ := t
      show canon C (.mk tag as (ks.modify i (editAt rest f))) = _
      rw [canon_mk, canon_mk, (modify_invisible C _ ih i ks).1]
    · intro t; obtain ⟨tag, as, ks⟩ := t
      show allEmpty C (.mk tag as (ks.modify i (editAt rest f))) = _
      rw [allEmpty_mk, allEmpty_mk, (modify_invisible C _ ih i ks).2]
    · intro t; obtain ⟨tag, as, ks⟩ := t; rfl

/-- **Reading preserves every part up to empty containers**: any history of reads whose effects are insertions of
    erasable subtrees — anywhere, in any order, any number of times — leaves the canonical form unchanged. -/
theorem runReads_canon (C : Containers) (reads : List Ins) (hall : ∀ i ∈ reads, erasable C i.sub = true) :
    ∀ t, canon C (runReads t reads) = canon C t := by
  induction reads with
  | nil => intro t; rfl
  | cons i rest ih =>
    intro t
    simp only [runReads]
    rw [ih (fun j hj => hall j (List.mem_cons_of_mem _ hj))]
    exact (editAt_invisible C _ (insKid_invisible C i.succ i.sub (hall i List.mem_cons_self)) i.path).canon_eq t

/-- the whole package: reads hit parts in any interleaving; a save in between leaves the state as it is -/
inductive Op where
  | read (part : Nat) (i : Ins)
  | save

def stepPkg (pkg : List XT) : Op → List XT
  | .read p i => pkg.modify p (applyIns i)
  | .save => pkg

def runPkg (pkg : List XT) : List Op → List XT
  | [] => pkg
  | o :: rest => runPkg (stepPkg pkg o) rest

theorem map_canon_modify (C : Containers) (g : XT → XT) (hg : ∀ t, canon C (g t) = canon C t) (p : Nat) (pkg : List XT) :
    (pkg.modify p g).map (canon C) = pkg.map (canon C) := by
  induction pkg generalizing p with
  | nil => simp
  | cons t ts ih =>
    cases p with
    | zero => simp [hg]
    | succ p => simp [ih]

theorem runPkg_canon (C : Containers) (ops : List Op)
    (hall : ∀ o ∈ ops, ∀ p i, o = Op.read p i → erasable C i.sub = true) :
    ∀ pkg, (runPkg pkg ops).map (canon C) = pkg.map (canon C) ∧ (runPkg pkg ops).length = pkg.length := by
  induction ops with
  | nil => intro pkg; exact ⟨rfl, rfl⟩
  | cons o rest ih =>
    intro pkg
    simp only [runPkg]
    have ih' := ih (fun o' ho' => hall o' (List.mem_cons_of_mem _ ho')) (stepPkg pkg o)
    cases o with
    | save => simpa [stepPkg] using ih'
    | read p i =>
      have he := hall (Op.read p i) List.mem_cons_self p i rfl
      have hinv := (editAt_invisible C _ (insKid_invisible C i.succ i.sub he) i.path).canon_eq
      constructor
      · rw [ih'.1]; exact map_canon_modify C (applyIns i) hinv p pkg
      · rw [ih'.2]; simp [stepPkg]

/-! ### `canon` is a canonical form: nothing erasable is left, and it is idempotent -/

theorem canon_tag (C : Containers) (t : XT) : (canon C t).tag = t.tag := by
  obtain ⟨tag, as, ks⟩ := t; simp [canon, XT.tag]

theorem allEmptyL_cons (C : Containers) (k : XT) (ks : List XT) :
    allEmptyL C (k :: ks) = (allEmpty C k && allEmptyL C ks) := by simp [allEmptyL]

mutual
theorem allEmpty_of_canon (C : Containers) : ∀ t : XT, allEmpty C (canon C t) = true → allEmpty C t = true
  | .mk tag as ks, h => by
    rw [canon_mk, allEmpty_mk, Bool.and_eq_true] at h
    rw [allEmpty_mk, Bool.and_eq_true]
    exact ⟨h.1, allEmptyL_of_canonL C ks h.2⟩
theorem allEmptyL_of_canonL (C : Containers) : ∀ ks : List XT, allEmptyL C (canonL C ks) = true → allEmptyL C ks = true
  | [], _ => by simp [allEmptyL]
  | k :: ks, h => by
    rw [allEmptyL_cons, Bool.and_eq_true]
    by_cases he : erasable C k = true
    · have hk : allEmpty C k = true := by
        simp only [erasable, Bool.and_eq_true] at he; exact he.2
      have : canonL C (k :: ks) = canonL C ks := by simp [canonL, he]
      rw [this] at h
      exact ⟨hk, allEmptyL_of_canonL C ks h⟩
    · have : canonL C (k :: ks) = canon C k :: canonL C ks := by simp [canonL, he]
      rw [this, allEmptyL_cons, Bool.and_eq_true] at h
      exact ⟨allEmpty_of_canon C k h.1, allEmptyL_of_canonL C ks h.2⟩
end

/-- what `canon` keeps is not erasable afterwards either -/
theorem not_erasable_canon (C : Containers) (t : XT) (h : erasable C t = false) : erasable C (canon C t) = false := by
  cases he : erasable C (canon C t) with
  | false => rfl
  | true =>
    simp only [erasable, Bool.and_eq_true, canon_tag] at he
    have : erasable C t = true := by
      simp only [erasable, Bool.and_eq_true]
      exact ⟨he.1, allEmpty_of_canon C t he.2⟩
    rw [this] at h; cases h

mutual
/-- **`canon` is idempotent**: canonicalising twice is canonicalising once -/
theorem canon_idem (C : Containers) : ∀ t : XT, canon C (canon C t) = canon C t
  | .mk tag as ks => by
    rw [canon_mk, canon_mk, canonL_idem C ks]
theorem canonL_idem (C : Containers) : ∀ ks : List XT, canonL C (canonL C ks) = canonL C ks
  | [] => by simp [canonL]
  | k :: ks => by
    by_cases he : erasable C k = true
    · have : canonL C (k :: ks) = canonL C ks := by simp [canonL, he]
      rw [this]; exact canonL_idem C ks
    · have he' : erasable C k = false := by simpa using he
      have h1 : canonL C (k :: ks) = canon C k :: canonL C ks := by simp [canonL, he]
      rw [h1]
      have h2 : canonL C (canon C k :: canonL C ks) = canon C (canon C k) :: canonL C (canonL C ks) := by
        simp [canonL, not_erasable_canon C k he']
      rw [h2, canon_idem C k, canonL_idem C ks]
end

/-! ### the executable tree equality used by the driver and the examples is equality -/

mutual
theorem same_sound : ∀ a b : XT, same a b = true → a = b
  | .mk t1 a1 k1, .mk t2 a2 k2, h => by
    simp only [same, Bool.and_eq_true, beq_iff_eq] at h
    obtain ⟨⟨ht, ha⟩, hk⟩ := h
    rw [ht, ha, sameL_sound k1 k2 hk]
theorem sameL_sound : ∀ a b : List XT, sameL a b = true → a = b
  | [], [], _ => rfl
  | x :: xs, y :: ys, h => by
    simp only [sameL, Bool.and_eq_true] at h
    rw [same_sound x y h.1, sameL_sound xs ys h.2]
  | [], _ :: _, h => by simp [sameL] at h
  | _ :: _, [], h => by simp [sameL] at h
end

mutual
theorem same_refl : ∀ a : XT, same a a = true
  | .mk t as ks => by simp [same, sameL_refl ks]
theorem sameL_refl : ∀ l : List XT, sameL l l = true
  | [] => rfl
  | x :: xs => by simp [sameL, same_refl x, sameL_refl xs]
end

/-- `same` decides equality of trees -/
theorem same_iff (a b : XT) : same a b = true ↔ a = b :=
  ⟨same_sound a b, fun h => h ▸ same_refl a⟩

/-! ### non-vacuity -/

/-- tags: 1 = a:p, 2 = a:pPr (rootable), 3 = a:defRPr (inner), 4 = a:r, 5 = p:txBody -/
def demoC : Containers := { roots := [2], inner := [3] }
def para : XT := .mk 1 [] [.mk 4 [] []]
def body : XT := .mk 5 [] [para]

/-- `paragraph.font` on a paragraph without properties: adds a:pPr, then a:defRPr inside it — two reads, the second
    inside the container the first one added; the canonical form is unchanged, the raw tree is not -/
example : same (canon demoC (runReads body [⟨[0], [4], .mk 2 [] []⟩, ⟨[0, 0], [], .mk 3 [] []⟩])) (canon demoC body) = true := by decide
example : (runReads body [⟨[0], [4], .mk 2 [] []⟩]).kids.map (fun k => k.kids.length) = [2] := by decide
/-- a "getter" that adds a paragraph is NOT canonicalised away -/
example : same (canon demoC (runReads body [⟨[], [], .mk 1 [] []⟩])) (canon demoC body) = false := by decide

end Pptx.C12
