/-
  C10 — a child is inserted where the schema allows it, whatever siblings exist.
  Model: `Model/Slots.lean`.  The theorems below are generic (any content model, any successor
  list, ANY conforming sibling list — including siblings python-pptx never writes); the
  per-declaration side condition `Row.adequate = true` is closed by kernel evaluation over the
  table regenerated from the live element classes and the XSDs (`GenProps/C10.lean`).
-/
import PptxModel.Model.Slots
namespace Pptx.C10
open Pptx.Slots

/-- children are in schema order -/
def Sorted (r : Row) (cs : List Nat) : Prop := cs.Pairwise fun a b => r.slot a ≤ r.slot b

/-- a parent's children conform to the content model (everything except the lower bound of the
    inserted child's own slot, which the insertion is about to satisfy) -/
structure Conf (r : Row) (cs : List Nat) : Prop where
  inModel : ∀ e ∈ cs, r.inModel e = true
  sorted : Sorted r cs
  single : ∀ a b, a ∈ cs → b ∈ cs → a ≠ b → r.slot a = r.slot b → r.single.contains (r.slot a) = false
  required : ∀ s ∈ r.required, s ≠ r.slot r.child → ∃ e ∈ cs, r.slot e = s

theorem mem_insertBeforeTag (t c a : Nat) (cs : List Nat) :
    a ∈ insertBeforeTag t c cs ↔ a = c ∨ a ∈ cs := by
  induction cs with
  | nil => simp [insertBeforeTag]
  | cons x xs ih =>
    simp only [insertBeforeTag]; split
    · simp
    · simp [ih]; constructor
      · rintro (h | h | h) <;> simp [h]
      · rintro (h | h | h) <;> simp [h]

/-- inserting before the first `t` keeps order when the new child fits between the prefix and `t` -/
theorem insertBeforeTag_sorted (f : Nat → Nat) (t c : Nat) (cs : List Nat)
    (hs : cs.Pairwise fun a b => f a ≤ f b) (ht : t ∈ cs) (hct : f c ≤ f t)
    (hpre : ∀ e ∈ cs.takeWhile (· ≠ t), f e ≤ f c) :
    (insertBeforeTag t c cs).Pairwise fun a b => f a ≤ f b := by
  induction cs with
  | nil => cases ht
  | cons x xs ih =>
    simp only [insertBeforeTag]
    by_cases hx : x = t
    · subst hx
      simp only [if_true]
      refine List.Pairwise.cons ?_ hs
      intro a ha
      rcases List.mem_cons.mp ha with e | e
      · rw [e]; exact hct
      · have := (List.pairwise_cons.mp hs).1 a e; omega
    · simp only [hx, if_false]
      have htx : t ∈ xs := by
        rcases List.mem_cons.mp ht with e | e
        · exact absurd e.symm hx
        · exact e
      have htw : List.takeWhile (· ≠ t) (x :: xs) = x :: List.takeWhile (· ≠ t) xs := by
        simp [List.takeWhile_cons, hx]
      have hxc : f x ≤ f c := hpre x (by rw [htw]; simp)
      refine List.Pairwise.cons ?_ (ih (List.pairwise_cons.mp hs).2 htx ?_)
      · intro a ha
        rcases (mem_insertBeforeTag t c a xs).mp ha with e | e
        · rw [e]; exact hxc
        · exact (List.pairwise_cons.mp hs).1 a e
      · intro e he
        exact hpre e (by rw [htw]; exact List.mem_cons_of_mem _ he)

theorem append_sorted (f : Nat → Nat) (c : Nat) (cs : List Nat)
    (hs : cs.Pairwise fun a b => f a ≤ f b) (h : ∀ e ∈ cs, f e ≤ f c) :
    (cs ++ [c]).Pairwise fun a b => f a ≤ f b := by
  rw [List.pairwise_append]
  exact ⟨hs, by simp, by intro a ha b hb; simp at hb; subst hb; exact h a ha⟩

/-- elements before the first `t` of a sorted list are not ordered after `t` -/
theorem prefix_le (f : Nat → Nat) (t : Nat) (cs : List Nat)
    (hs : cs.Pairwise fun a b => f a ≤ f b) (ht : t ∈ cs) :
    ∀ e ∈ cs.takeWhile (· ≠ t), f e ≤ f t ∧ e ≠ t ∧ e ∈ cs := by
  induction cs with
  | nil => cases ht
  | cons x xs ih =>
    intro e he
    by_cases hx : x = t
    · simp [List.takeWhile_cons, hx] at he
    · simp only [List.takeWhile_cons, hx, ne_eq, not_false_eq_true, decide_true, if_true,
        List.mem_cons] at he
      have htx : t ∈ xs := by
        rcases List.mem_cons.mp ht with h | h
        · exact absurd h.symm hx
        · exact h
      rcases he with h | h
      · subst h
        exact ⟨(List.pairwise_cons.mp hs).1 t htx, hx, by simp⟩
      · obtain ⟨a, b, c⟩ := ih (List.pairwise_cons.mp hs).2 htx e h
        exact ⟨a, b, List.mem_cons_of_mem _ c⟩

/-- `find?` over a list in `R`-order returns an element `R`-before every other satisfying one -/
theorem find_first (R : Nat → Nat → Prop) (p : Nat → Bool) (l : List Nat) (hl : l.Pairwise R)
    (t e : Nat) (hf : l.find? p = some t) (he : e ∈ l) (hp : p e = true) : t = e ∨ R t e := by
  induction l with
  | nil => cases he
  | cons x xs ih =>
    simp only [List.find?_cons] at hf
    by_cases hx : p x = true
    · simp only [hx] at hf
      injection hf with hf; subst hf
      rcases List.mem_cons.mp he with h | h
      · exact Or.inl h.symm
      · exact Or.inr ((List.pairwise_cons.mp hl).1 e h)
    · have hx' : p x = false := by simpa using hx
      simp only [hx'] at hf
      rcases List.mem_cons.mp he with h | h
      · subst h; rw [hp] at hx'; cases hx'
      · exact ih (List.pairwise_cons.mp hl).2 hf h

theorem lookup_mem (l : List (Nat × Nat)) (k v : Nat) (h : l.lookup k = some v) : (k, v) ∈ l := by
  induction l with
  | nil => simp [List.lookup] at h
  | cons x xs ih =>
    obtain ⟨a, b⟩ := x
    simp only [List.lookup] at h
    split at h
    · rename_i heq
      injection h with h; subst h
      have : k = a := by simpa using heq
      subst this; simp
    · exact List.mem_cons_of_mem _ (ih h)

theorem inModel_mem (r : Row) (e : Nat) (h : r.inModel e = true) : (e, r.slot e) ∈ r.tags := by
  simp only [Row.inModel, Option.isSome_iff_exists] at h
  obtain ⟨v, hv⟩ := h
  have := lookup_mem r.tags e v hv
  simp [Row.slot, hv, this]

theorem barrier_spec (r : Row) (b : Nat) (h : r.barrier = some b) :
    b ∈ r.required ∧ r.slot r.child < b := by
  simp only [Row.barrier] at h
  generalize hl : r.required.filter (fun s => decide (r.slot r.child < s)) = later at h
  have hmem : ∀ s ∈ later, s ∈ r.required ∧ r.slot r.child < s := by
    intro s hs; rw [← hl] at hs
    have := List.mem_filter.mp hs
    exact ⟨this.1, by simpa using this.2⟩
  -- the fold returns a member of `later`
  have aux : ∀ (l : List Nat) (acc : Option Nat),
      (∀ a, acc = some a → a ∈ r.required ∧ r.slot r.child < a) →
      (∀ s ∈ l, s ∈ r.required ∧ r.slot r.child < s) →
      ∀ b, l.foldl (fun acc s => match acc with | none => some s | some b => some (min b s)) acc = some b →
        b ∈ r.required ∧ r.slot r.child < b := by
    intro l
    induction l with
    | nil => intro acc hacc _ b hb; exact hacc b hb
    | cons x xs ih =>
      intro acc hacc hl b hb
      simp only [List.foldl_cons] at hb
      refine ih _ ?_ (fun s hs => hl s (List.mem_cons_of_mem _ hs)) b hb
      intro a ha
      cases acc with
      | none => simp at ha; subst ha; exact hl x (by simp)
      | some c0 =>
        simp at ha
        have h1 := hacc c0 rfl
        have h2 := hl x (by simp)
        by_cases hc : c0 ≤ x
        · rw [Nat.min_eq_left hc] at ha; subst ha; exact h1
        · rw [Nat.min_eq_right (by omega)] at ha; subst ha; exact h2
  exact aux later none (by intro a ha; cases ha) hmem b h

/-- elements before the first child satisfying `p` do not satisfy `p` -/
theorem takeWhile_not_found (p : Nat → Bool) (cs : List Nat) (t : Nat) (h : cs.find? p = some t) :
    cs.takeWhile (· ≠ t) = cs.takeWhile (· ≠ t) ∧ ∀ e ∈ cs.takeWhile (· ≠ t), p e = false := by
  refine ⟨rfl, ?_⟩
  induction cs with
  | nil => simp at h
  | cons x xs ih =>
    intro e he
    simp only [List.find?_cons] at h
    by_cases hx : p x = true
    · simp only [hx] at h; injection h with h; subst h
      simp [List.takeWhile_cons] at he
    · have hx' : p x = false := by simpa using hx
      simp only [hx'] at h
      by_cases hxt : x = t
      · subst hxt; simp [List.takeWhile_cons] at he
      · have htw : List.takeWhile (· ≠ t) (x :: xs) = x :: List.takeWhile (· ≠ t) xs := by
          simp [List.takeWhile_cons, hxt]
        rw [htw] at he
        rcases List.mem_cons.mp he with e1 | e1
        · rw [e1]; exact hx'
        · exact ih h e e1

/-- **Insertion keeps schema order, for every conforming sibling list.**  If the declaration's
    successor list is adequate for the parent's content model then inserting the child into a
    parent holding ANY conforming combination of other children (any tags of the model, in any
    permitted multiplicity and — for repeatable mixed content — any interleaving) leaves the
    children in schema order: the new child is never placed after an element the schema orders
    later nor before one it orders earlier. -/
theorem insertTag_sorted (r : Row) (cs : List Nat) (ha : r.adequate = true) (hc : Conf r cs) :
    Sorted r (insertTag r.succ r.child cs) := by
  simp only [Row.adequate, Bool.and_eq_true, decide_eq_true_eq] at ha
  obtain ⟨⟨⟨_, hA1⟩, hCmp⟩, _⟩ := ha
  have A1 : ∀ t ∈ r.succ, r.slot r.child ≤ r.slot t := by
    intro t ht
    have := List.all_eq_true.mp hA1 t ht
    simp only [Bool.and_eq_true, decide_eq_true_eq] at this
    exact this.2
  have Cmp : ∀ e, r.inModel e = true → r.slot r.child < r.slot e →
      (match r.barrier with | none => True | some b => r.slot e ≤ b) → e ∈ r.succ := by
    intro e hin hlt hb
    have hm := inModel_mem r e hin
    have := List.all_eq_true.mp hCmp (e, r.slot e) hm
    simp only [Bool.or_eq_true, Bool.not_eq_true', Bool.and_eq_false_iff, decide_eq_false_iff_not] at this
    rcases this with (h | h) | h
    · exact absurd hlt h
    · cases hbar : r.barrier with
      | none => simp [hbar] at h
      | some b => simp [hbar] at h hb; omega
    · simpa using h
  -- if a later required slot exists, one of its tags is present and listed
  have hbarrier : ∀ b, r.barrier = some b → ∃ e ∈ cs, e ∈ r.succ ∧ r.slot e = b := by
    intro b hb
    obtain ⟨h1, h2⟩ := barrier_spec r b hb
    obtain ⟨e, he, hs⟩ := hc.required b h1 (by omega)
    exact ⟨e, he, Cmp e (hc.inModel e he) (by omega) (by simp [hb, hs]), hs⟩
  unfold insertTag
  cases hfp : firstPresent r.succ cs with
  | none =>
    simp only
    refine append_sorted r.slot r.child cs hc.sorted ?_
    intro e he
    apply Classical.byContradiction
    intro hlt
    have hlt : r.slot r.child < r.slot e := by omega
    have hnone : ∀ x ∈ cs, r.succ.contains x = false := by
      intro x hx
      have := List.find?_eq_none.mp hfp x hx
      simpa using this
    cases hbar : r.barrier with
    | none =>
      have := Cmp e (hc.inModel e he) hlt (by simp [hbar])
      have h2 := hnone e he
      simp at h2; exact h2 this
    | some b =>
      obtain ⟨e', he', hs', _⟩ := hbarrier b hbar
      have h2 := hnone e' he'
      simp at h2; exact h2 hs'
  | some t =>
    simp only
    have htC : t ∈ cs := List.mem_of_find?_eq_some hfp
    have htS : t ∈ r.succ := by
      have := List.find?_some hfp; simpa using this
    refine insertBeforeTag_sorted r.slot t r.child cs hc.sorted htC (A1 t htS) ?_
    intro e he
    obtain ⟨hle, hne, heC⟩ := prefix_le r.slot t cs hc.sorted htC e he
    have hnotS : r.succ.contains e = false :=
      (takeWhile_not_found (fun e => r.succ.contains e) cs t hfp).2 e he
    apply Classical.byContradiction
    intro hlt
    have hlt : r.slot r.child < r.slot e := by omega
    -- `t` is not beyond the barrier: the required sibling is a successor child too, and `t` is
    -- the first successor child in document order
    have hbound : match r.barrier with | none => True | some b => r.slot e ≤ b := by
      cases hbar : r.barrier with
      | none => trivial
      | some b =>
        simp only
        obtain ⟨e', he', hs', hsl⟩ := hbarrier b hbar
        have := find_first (fun a b => r.slot a ≤ r.slot b) (fun e => r.succ.contains e) cs
          hc.sorted t e' hfp he' (by simpa using hs')
        rcases this with h | h
        · subst h; omega
        · omega
    have heS : e ∈ r.succ := Cmp e (hc.inModel e heC) hlt hbound
    have : r.succ.contains e = true := by simpa using heS
    rw [this] at hnotS; cases hnotS

/-- `remove_all` removes every child of that kind and keeps the others in order -/
theorem removeAll_spec (r : Row) (t : Nat) (cs : List Nat) (hs : Sorted r cs) :
    t ∉ removeAll t cs ∧ Sorted r (removeAll t cs) ∧ ∀ e, e ≠ t → (e ∈ removeAll t cs ↔ e ∈ cs) := by
  refine ⟨by simp [removeAll], List.Pairwise.filter _ hs, ?_⟩
  intro e he; simp [removeAll, he]

/-- `get_or_add` creates at most one child: when one is present nothing changes, otherwise
    exactly one is inserted -/
theorem getOrAdd_spec (succ : List Nat) (c : Nat) (cs : List Nat) :
    (c ∈ cs → getOrAdd succ c cs = cs) ∧
    (c ∉ cs → (getOrAdd succ c cs).count c = 1) := by
  constructor
  · intro h; simp [getOrAdd, h]
  · intro h
    have hcnt : cs.count c = 0 := List.count_eq_zero.mpr h
    simp only [getOrAdd]
    have : cs.contains c = false := by simpa using h
    simp only [this, Bool.false_eq_true, if_false, insertTag]
    have ins : ∀ t (l : List Nat), (insertBeforeTag t c l).count c = l.count c + 1 := by
      intro t l
      induction l with
      | nil => simp [insertBeforeTag]
      | cons x xs ih =>
        simp only [insertBeforeTag]; split
        · simp [List.count_cons]
        · simp [List.count_cons, ih]; omega
    cases firstPresent succ cs with
    | none => simp [List.count_append, hcnt]
    | some t => simp [ins, hcnt]

theorem filter_insertBeforeTag_length (p : Nat → Bool) (t c : Nat) (hp : p c = true) (l : List Nat) :
    ((insertBeforeTag t c l).filter p).length = (l.filter p).length + 1 := by
  induction l with
  | nil => simp [insertBeforeTag, List.filter_cons, hp]
  | cons x xs ih =>
    simp only [insertBeforeTag]
    by_cases hx : x = t
    · simp only [hx, if_true]
      rw [List.filter_cons, hp]; simp
    · simp only [hx, if_false]
      by_cases hpx : p x = true
      · rw [List.filter_cons, hpx, List.filter_cons, hpx]; simp [ih]
      · have hpx' : p x = false := by simpa using hpx
        rw [List.filter_cons, hpx', List.filter_cons, hpx']; simpa using ih

/-- `get_or_change_to` leaves exactly one member of its choice group -/
theorem changeTo_spec (group succ : List Nat) (c : Nat) (cs : List Nat) (hg : c ∈ group)
    (hone : (cs.filter fun e => group.contains e).length ≤ 1) :
    ((changeTo group succ c cs).filter fun e => group.contains e).length = 1 := by
  generalize hpdef : (fun e => group.contains e) = p at *
  have hpc : p c = true := by rw [← hpdef]; simpa using hg
  simp only [changeTo]
  by_cases h : cs.contains c = true
  · simp only [h, if_true]
    have hc : c ∈ cs := by simpa using h
    have : c ∈ cs.filter p := List.mem_filter.mpr ⟨hc, hpc⟩
    have := List.length_pos_of_mem this
    omega
  · have h' : cs.contains c = false := by simpa using h
    simp only [h', Bool.false_eq_true, if_false, insertTag]
    have hq : (fun e => !group.contains e) = fun e => !p e := by rw [← hpdef]
    rw [hq]
    have hnone : ((cs.filter fun e => !p e).filter p) = [] := by
      rw [List.filter_filter]
      apply List.filter_eq_nil_iff.mpr
      intro a _; cases p a <;> simp
    cases firstPresent succ (cs.filter fun e => !p e) with
    | none =>
      simp only [List.filter_append, hnone, List.nil_append]
      rw [List.filter_cons, hpc]; simp
    | some t =>
      simp only [filter_insertBeforeTag_length p t c hpc, hnone]; simp

/-- removing the members of the child's own choice group keeps the sibling list conforming -/
theorem conf_filter_group (r : Row) (group cs : List Nat) (hc : Conf r cs)
    (hgrp : ∀ g ∈ group, r.slot g = r.slot r.child) :
    Conf r (cs.filter fun e => !group.contains e) := by
  refine ⟨?_, ?_, ?_, ?_⟩
  · intro e he; exact hc.inModel e (List.mem_filter.mp he).1
  · exact List.Pairwise.filter _ hc.sorted
  · intro a b ha hb hne hs
    exact hc.single a b (List.mem_filter.mp ha).1 (List.mem_filter.mp hb).1 hne hs
  · intro s hs hne
    obtain ⟨e, he, hes⟩ := hc.required s hs hne
    refine ⟨e, List.mem_filter.mpr ⟨he, ?_⟩, hes⟩
    have : e ∉ group := by
      intro hg
      exact hne (by rw [← hes, hgrp e hg])
    simpa using this

/-- **A choice replacement keeps schema order**: `get_or_change_to_x` — the other members of the choice group removed,
    `x` inserted by its (adequate) successor list — leaves the children in schema order, whatever conforming siblings
    exist; when `x` is already there nothing changes. -/
theorem changeTo_sorted (r : Row) (group cs : List Nat) (ha : r.adequate = true) (hc : Conf r cs)
    (hgrp : ∀ g ∈ group, r.slot g = r.slot r.child) :
    Sorted r (changeTo group r.succ r.child cs) := by
  simp only [changeTo]
  by_cases h : cs.contains r.child = true
  · simp only [h, if_true]; exact hc.sorted
  · have h' : cs.contains r.child = false := by simpa using h
    simp only [h', Bool.false_eq_true, if_false]
    exact insertTag_sorted r _ ha (conf_filter_group r group cs hc hgrp)

/-- the same with the group condition as a checkable table predicate (closed per declaration by kernel evaluation) -/
theorem changeTo_sorted_of_groupOk (r : Row) (group cs : List Nat) (ha : r.adequate = true) (hg : r.groupOk group = true)
    (hc : Conf r cs) : Sorted r (changeTo group r.succ r.child cs) := by
  apply changeTo_sorted r group cs ha hc
  intro g hgm
  simp only [Row.groupOk, List.all_eq_true, beq_iff_eq] at hg
  exact hg g hgm

/-! ### the defect the proof exposed (F-C10-1), as a theorem -/

/-- `a:p` content: `a:pPr`(0) then any mix of `a:r`(1) / `a:br`(2) / `a:fld`(3) in one repeatable
    slot, then `a:endParaRPr`(4). -/
def paraRow : Row :=
  { tags := [(0, 0), (1, 1), (2, 1), (3, 1), (4, 2)], single := [0, 2], required := [],
    child := 0, succ := [1, 2, 3, 4] }

/-- **Negative theorem** (the code before the `fix:` for F-C10-1).  Scanning successor *tags* in
    list order puts `a:pPr` after a leading `a:br` when a run follows it (`"\vabc"` then any
    paragraph property): the result is out of schema order although the sibling list conformed
    and the successor list is adequate; the document-order scan gets the same case right. -/
theorem tagScan_breaks_order :
    Conf paraRow [2, 1] ∧ ¬ Sorted paraRow (insertTagOrder paraRow.succ paraRow.child [2, 1]) := by
  refine ⟨⟨by decide, by unfold Sorted; decide, ?_, by intro s hs; cases hs⟩, ?_⟩
  · intro a b ha hb hne _
    simp only [List.mem_cons, List.not_mem_nil, or_false] at ha hb
    rcases ha with rfl | rfl <;> rcases hb with rfl | rfl <;> first | exact absurd rfl hne | decide
  · unfold Sorted; decide

example : paraRow.adequate = true := by decide
example : insertTag paraRow.succ paraRow.child [2, 1] = [0, 2, 1] := by decide

/-- non-vacuity of `insertTag_sorted`: an adequate row and a conforming parent -/
def demoRow : Row :=
  { tags := [(0, 0), (1, 1), (2, 2)], single := [0, 1, 2], required := [2], child := 0, succ := [1, 2] }
example : demoRow.adequate = true := by decide
example : insertTag demoRow.succ demoRow.child [2] = [0, 2] := by decide

end Pptx.C10
