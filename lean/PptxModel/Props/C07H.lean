/-
  C07 (multi-level categories): the flattened labels the reader reports are exactly the root-to-leaf paths of the
  category tree that was supplied, for every forest of uniform depth, any branching, any number of leaves.
  Model: `Model/Hierarchy.lean`.
-/
import PptxModel.Model.Hierarchy
namespace Pptx.C07H
open Pptx.Hierarchy

variable {α : Type}

/-! ### basic facts -/

theorem leafCount_leaf (l : α) : leafCount (Cat.mk l []) = 1 := by simp [leafCount]
theorem leafCount_node (l : α) (s : Cat α) (ss : List (Cat α)) : leafCount (Cat.mk l (s :: ss)) = leafCountL (s :: ss) := by
  simp [leafCount]

theorem leafCount_pos : ∀ c : Cat α, 0 < leafCount c
  | .mk l [] => by simp [leafCount]
  | .mk l (s :: ss) => by
    rw [leafCount_node]; simp only [leafCountL]
    have := leafCount_pos s
    omega

mutual
theorem paths_length : ∀ c : Cat α, (paths c).length = leafCount c
  | .mk l [] => by simp [paths, leafCount]
  | .mk l (s :: ss) => by
    rw [leafCount_node]
    simp only [paths, List.length_map]
    exact pathsL_length (s :: ss)
theorem pathsL_length : ∀ cs : List (Cat α), (pathsL cs).length = leafCountL cs
  | [] => by simp [pathsL, leafCountL]
  | c :: cs => by simp [pathsL, leafCountL, paths_length c, pathsL_length cs]
end

/-! ### scanning -/

theorem scan_append_stop (i : Nat) (A B : List (Nat × α)) (cur : α)
    (hB : ∀ ix l B', B = (ix, l) :: B' → ix > i) : scan i cur (A ++ B) = scan i cur A := by
  induction A generalizing cur with
  | nil =>
    cases B with
    | nil => rfl
    | cons e B' =>
      obtain ⟨ix, l⟩ := e
      have := hB ix l B' rfl
      simp [scan, this]
  | cons e A ih =>
    obtain ⟨ix, l⟩ := e
    simp only [List.cons_append, scan]
    split
    · rfl
    · exact ih l

theorem scan_append_pass (i : Nat) (A : List (Nat × α)) (ix : Nat) (l : α) (B' : List (Nat × α)) (cur : α)
    (hA : ∀ e ∈ A, e.1 ≤ i) (hix : ix ≤ i) : scan i cur (A ++ (ix, l) :: B') = scan i l B' := by
  induction A generalizing cur with
  | nil => simp [scan]; omega
  | cons e A ih =>
    obtain ⟨jx, m⟩ := e
    have h1 : jx ≤ i := hA (jx, m) List.mem_cons_self
    simp only [List.cons_append, scan]
    rw [if_neg (by omega)]
    exact ih m (fun e he => hA e (List.mem_cons_of_mem _ he))

/-- the leaf lies under the first block: the later block does not matter -/
theorem parentOf_append_left (A B : List (Nat × α)) (i : Nat) (hA : A ≠ [])
    (hB : ∀ ix l B', B = (ix, l) :: B' → ix > i) : parentOf (A ++ B) i = parentOf A i := by
  cases A with
  | nil => exact absurd rfl hA
  | cons e A =>
    obtain ⟨ix, l⟩ := e
    simp only [parentOf, List.cons_append]
    rw [← List.cons_append, scan_append_stop i ((ix, l) :: A) B l hB]

/-- the leaf lies beyond the first block: the first block does not matter -/
theorem parentOf_append_right (A : List (Nat × α)) (ix : Nat) (l : α) (B' : List (Nat × α)) (i : Nat)
    (hA : ∀ e ∈ A, e.1 ≤ i) (hix : ix ≤ i) : parentOf (A ++ (ix, l) :: B') i = parentOf ((ix, l) :: B') i := by
  have hr : parentOf ((ix, l) :: B') i = some (scan i l B') := by
    simp [parentOf, scan]; omega
  rw [hr]
  cases A with
  | nil => simp [parentOf, scan]; omega
  | cons e A =>
    obtain ⟨jx, m⟩ := e
    simp only [parentOf, List.cons_append]
    rw [← List.cons_append, scan_append_pass i ((jx, m) :: A) ix l B' m hA hix]

/-! ### the entries of a level -/

theorem entries_nil (off j : Nat) : entries off j ([] : List (Cat α)) = [] := by
  cases j <;> simp [entries, walk]

theorem entries_zero_cons (off : Nat) (c : Cat α) (cs : List (Cat α)) :
    entries off 0 (c :: cs) = (off, c.label) :: entries (off + leafCount c) 0 cs := by
  simp [entries, walk]

theorem entries_succ_cons (off j : Nat) (c : Cat α) (cs : List (Cat α)) :
    entries off (j + 1) (c :: cs) = entries off j c.subs ++ entries (off + leafCount c) (j + 1) cs := by
  simp [entries, walk]

theorem leafCount_subs (c : Cat α) (h : c.subs ≠ []) : leafCount c = leafCountL c.subs := by
  obtain ⟨l, subs⟩ := c
  cases subs with
  | nil => exact absurd rfl h
  | cons s ss => simp [leafCount, Cat.subs]

/-- every idx of a level lies inside the leaf interval of the forest -/
theorem entries_bounds : ∀ (j off : Nat) (cats : List (Cat α)) (e : Nat × α),
    e ∈ entries off j cats → off ≤ e.1 ∧ e.1 < off + leafCountL cats := by
  intro j
  induction j with
  | zero =>
    intro off cats
    induction cats generalizing off with
    | nil => intro e he; simp [entries_nil] at he
    | cons c cs ih =>
      intro e he
      rw [entries_zero_cons] at he
      have hp := leafCount_pos c
      simp only [leafCountL]
      rcases List.mem_cons.mp he with rfl | he
      · simp; omega
      · have := ih (off + leafCount c) e he; omega
  | succ j ihj =>
    intro off cats
    induction cats generalizing off with
    | nil => intro e he; simp [entries_nil] at he
    | cons c cs ih =>
      intro e he
      rw [entries_succ_cons] at he
      simp only [leafCountL]
      rcases List.mem_append.mp he with he | he
      · have := ihj off c.subs e he
        by_cases hs : c.subs = []
        · rw [hs, entries_nil] at he; simp at he
        · rw [leafCount_subs c hs]; omega
      · have := ih (off + leafCount c) e he; omega

theorem uniform_succ (d : Nat) (c : Cat α) (h : uniform (d + 2) c = true) :
    c.subs ≠ [] ∧ uniformL (d + 1) c.subs = true := by
  obtain ⟨l, subs⟩ := c
  simp only [uniform, Bool.and_eq_true, Bool.not_eq_true', List.isEmpty_eq_false_iff] at h
  exact ⟨h.1, h.2⟩

/-- a level that exists starts with the idx of the forest's first leaf -/
theorem entries_head : ∀ (j d off : Nat) (c : Cat α) (cs : List (Cat α)), j < d → uniformL d (c :: cs) = true →
    ∃ l rest, entries off j (c :: cs) = (off, l) :: rest := by
  intro j
  induction j with
  | zero => intro d off c cs _ _; exact ⟨c.label, _, entries_zero_cons off c cs⟩
  | succ j ih =>
    intro d off c cs hj hu
    simp only [uniformL, Bool.and_eq_true] at hu
    obtain ⟨d', rfl⟩ : ∃ d', d = d' + 2 := ⟨d - 2, by omega⟩
    obtain ⟨hne, hsub⟩ := uniform_succ d' c hu.1
    rw [entries_succ_cons]
    cases hs : c.subs with
    | nil => exact absurd hs hne
    | cons s ss =>
      rw [hs] at hsub
      obtain ⟨l, rest, h⟩ := ih (d' + 1) off s ss (by omega) hsub
      exact ⟨l, rest ++ _, by rw [h]; rfl⟩

/-! ### paths -/

theorem paths_node (l : α) (s : Cat α) (ss : List (Cat α)) :
    paths (Cat.mk l (s :: ss)) = (pathsL (s :: ss)).map (l :: ·) := by simp [paths]

theorem paths_head (c : Cat α) : ∀ p ∈ paths c, p[0]? = some c.label := by
  obtain ⟨l, subs⟩ := c
  cases subs with
  | nil => intro p hp; simp [paths] at hp; subst hp; rfl
  | cons s ss =>
    intro p hp
    rw [paths_node] at hp
    obtain ⟨q, _, rfl⟩ := List.mem_map.mp hp
    rfl

mutual
theorem paths_depth : ∀ (d : Nat) (c : Cat α), uniform d c = true → ∀ p ∈ paths c, p.length = d
  | 0, c, h => by simp [uniform] at h
  | 1, .mk l subs, h => by
    simp only [uniform, List.isEmpty_iff] at h
    subst h
    intro p hp; simp [paths] at hp; subst hp; rfl
  | d + 2, .mk l [], h => by simp [uniform] at h
  | d + 2, .mk l (s :: ss), h => by
    simp only [uniform, List.isEmpty_cons, Bool.not_false, Bool.true_and] at h
    intro p hp
    rw [paths_node] at hp
    obtain ⟨q, hq, rfl⟩ := List.mem_map.mp hp
    have := pathsL_depth (d + 1) (s :: ss) h q hq
    simp [this]
theorem pathsL_depth : ∀ (d : Nat) (cs : List (Cat α)), uniformL d cs = true → ∀ p ∈ pathsL cs, p.length = d
  | _, [], _ => by intro p hp; simp [pathsL] at hp
  | d, c :: cs, h => by
    simp only [uniformL, Bool.and_eq_true] at h
    intro p hp
    simp only [pathsL, List.mem_append] at hp
    rcases hp with hp | hp
    · exact paths_depth d c h.1 p hp
    · exact pathsL_depth d cs h.2 p hp
end

/-! ### the reader finds the ancestors -/

/-- **Key lemma**: in the level `j` steps below the top, the scan for leaf `i` stops at the ancestor of that leaf -/
theorem parent_is_ancestor : ∀ (j d off : Nat) (cats : List (Cat α)) (i : Nat) (p : List α) (a : α),
    j < d → uniformL d cats = true → (pathsL cats)[i]? = some p → p[j]? = some a →
    parentOf (entries off j cats) (off + i) = some a := by
  intro j
  induction j with
  | zero =>
    intro d off cats
    induction cats generalizing off with
    | nil => intro i p a _ _ hp _; simp [pathsL] at hp
    | cons c cs ih =>
      intro i p a hj hu hp ha
      simp only [uniformL, Bool.and_eq_true] at hu
      rw [entries_zero_cons]
      simp only [pathsL] at hp
      by_cases hi : i < leafCount c
      · rw [List.getElem?_append_left (by rw [paths_length]; exact hi)] at hp
        have hmem : p ∈ paths c := List.mem_of_getElem? hp
        have hl := paths_head c p hmem
        rw [ha] at hl
        have hal : a = c.label := by simpa using hl
        subst hal
        have := parentOf_append_left [(off, c.label)] (entries (off + leafCount c) 0 cs) (off + i) (by simp)
          (by
            intro ix l B' hB
            have hm : (ix, l) ∈ entries (off + leafCount c) 0 cs := by rw [hB]; exact List.mem_cons_self
            have := (entries_bounds 0 (off + leafCount c) cs (ix, l) hm).1
            simp only at this; omega)
        simp only [List.singleton_append] at this
        rw [this]
        simp [parentOf, scan]
      · have hge : leafCount c ≤ i := Nat.le_of_not_lt hi
        rw [List.getElem?_append_right (by rw [paths_length]; exact hge), paths_length] at hp
        cases cs with
        | nil => simp [pathsL] at hp
        | cons c2 cs2 =>
          obtain ⟨l, rest, hB⟩ := entries_head 0 d (off + leafCount c) c2 cs2 hj hu.2
          have key := ih (off + leafCount c) (i - leafCount c) p a hj hu.2 hp ha
          rw [show off + leafCount c + (i - leafCount c) = off + i by omega] at key
          rw [← key, hB]
          have := parentOf_append_right [(off, c.label)] (off + leafCount c) l rest (off + i)
            (by intro e he; simp at he; subst he; simp) (by omega)
          simpa using this
  | succ j ihj =>
    intro d off cats
    induction cats generalizing off with
    | nil => intro i p a _ _ hp _; simp [pathsL] at hp
    | cons c cs ih =>
      intro i p a hj hu hp ha
      simp only [uniformL, Bool.and_eq_true] at hu
      obtain ⟨d', rfl⟩ : ∃ d', d = d' + 2 := ⟨d - 2, by omega⟩
      obtain ⟨hne, hsub⟩ := uniform_succ d' c hu.1
      rw [entries_succ_cons]
      simp only [pathsL] at hp
      by_cases hi : i < leafCount c
      · rw [List.getElem?_append_left (by rw [paths_length]; exact hi)] at hp
        obtain ⟨lab, subs⟩ := c
        cases subs with
        | nil => exact absurd rfl hne
        | cons s ss =>
          simp only [Cat.subs] at hsub ⊢
          rw [paths_node] at hp
          rw [List.getElem?_map] at hp
          cases hq : (pathsL (s :: ss))[i]? with
          | none => rw [hq] at hp; simp at hp
          | some q =>
            rw [hq] at hp
            have hpq : p = lab :: q := by simpa using hp.symm
            subst hpq
            have ha' : q[j]? = some a := by simpa using ha
            have hA := ihj (d' + 1) off (s :: ss) i q a (by omega) hsub hq ha'
            obtain ⟨l0, rest0, hhead⟩ := entries_head j (d' + 1) off s ss (by omega) hsub
            rw [parentOf_append_left _ _ (off + i) (by rw [hhead]; simp)
              (by
                intro ix l B' hB
                have hm : (ix, l) ∈ entries (off + leafCount (Cat.mk lab (s :: ss))) (j + 1) cs := by
                  rw [hB]; exact List.mem_cons_self
                have := (entries_bounds (j + 1) _ cs (ix, l) hm).1
                simp only at this; omega)]
            exact hA
      · have hge : leafCount c ≤ i := Nat.le_of_not_lt hi
        rw [List.getElem?_append_right (by rw [paths_length]; exact hge), paths_length] at hp
        cases cs with
        | nil => simp [pathsL] at hp
        | cons c2 cs2 =>
          obtain ⟨l, rest, hB⟩ := entries_head (j + 1) (d' + 2) (off + leafCount c) c2 cs2 hj hu.2
          have key := ih (off + leafCount c) (i - leafCount c) p a hj hu.2 hp ha
          rw [show off + leafCount c + (i - leafCount c) = off + i by omega] at key
          rw [← key, hB]
          apply parentOf_append_right
          · intro e he
            have := (entries_bounds j off c.subs e he).2
            rw [← leafCount_subs c hne] at this
            omega
          · omega

/-- **Flattened labels are the root-to-leaf paths**: for every forest of uniform depth `d` (any branching, any number
    of leaves) and every leaf `i`, what the reader reports from the levels the writer emits is the path of labels from
    the top-level category down to that leaf. -/
theorem flattened_spec (d : Nat) (cats : List (Cat α)) (hu : uniformL d cats = true) (i : Nat) (p : List α)
    (hp : (pathsL cats)[i]? = some p) : flattened d cats i = p.map some := by
  have hlen : p.length = d := pathsL_depth d cats hu p (List.mem_of_getElem? hp)
  apply List.ext_getElem?
  intro j
  simp only [flattened, List.getElem?_map, List.getElem?_range]
  by_cases hj : j < d
  · have hjp : j < p.length := by omega
    have ha : p[j]? = some p[j] := List.getElem?_eq_getElem hjp
    rw [ha]
    simp only [hj, List.getElem?_range, Option.map_some]
    have := parent_is_ancestor j d 0 cats i p p[j] hj hu hp ha
    simp only [Nat.zero_add] at this
    simp [List.getElem?_range hj, this]
  · have : p[j]? = none := by simp; omega
    simp [this, hj]

/-! ### non-vacuity -/

def demo : List (Cat Nat) :=
  [.mk 1 [.mk 11 [.mk 111 [], .mk 112 []], .mk 12 [.mk 121 []]], .mk 2 [.mk 21 [.mk 211 [], .mk 212 [], .mk 213 []]]]

example : uniformL 3 demo = true := by decide
example : pathsL demo = [[1, 11, 111], [1, 11, 112], [1, 12, 121], [2, 21, 211], [2, 21, 212], [2, 21, 213]] := by decide
example : flattened 3 demo 2 = [some 1, some 12, some 121] := by decide
example : entries 0 1 demo = [(0, 11), (2, 12), (3, 21)] := by decide

end Pptx.C07H
