/-
  C03 — every XML part stays valid under any sequence of edits.
  Model: `Model/XTree.lean` (trees, schema tables, validity, the primitive edits of `oxml/xmlchemy.py`).

  The theorems are generic in the schema: they hold for ANY table of complex and simple types, hence for
  the one the translator regenerates from /repo/spec on every run.  What they establish is closure:
  a valid tree stays valid under any sequence of edits, at any depth, each of which meets its local side
  condition (`Edit.ok`) — an adequate successor list (C10), an accepted attribute value (C11), a valid
  grafted template instance, lower bounds kept by removals.  A rejected attribute value is a no-op.
-/
import PptxModel.Model.XTree
import PptxModel.Props.C10
namespace Pptx.C03
open Pptx Pptx.Slots Pptx.XTree

/-! ### unfolding lemmas -/

theorem valid_mk (S : Schema) (full : Bool) (ty tag : Nat) (as : List (Nat × Str)) (ks : List XT) :
    valid S full ty (.mk tag as ks) = (nodeOk S full ty (.mk tag as ks) && validKids S full (S.ct ty) ks) := by
  simp [valid]

theorem validKids_iff (S : Schema) (full : Bool) (c : CT) (ks : List XT) :
    validKids S full c ks = true ↔ ∀ k ∈ ks, ∀ cty, kidType S c k.tag = some cty → valid S full cty k = true := by
  induction ks with
  | nil => simp [validKids]
  | cons k ks ih =>
    simp only [validKids, Bool.and_eq_true, ih, List.mem_cons]
    constructor
    · rintro ⟨h1, h2⟩ k' hk' cty hc
      rcases hk' with rfl | hk'
      · simp [hc] at h1; exact h1
      · exact h2 k' hk' cty hc
    · intro h
      refine ⟨?_, fun k' hk' => h k' (Or.inr hk')⟩
      cases hc : kidType S c k.tag with
      | none => rfl
      | some cty => exact h k (Or.inl rfl) cty hc

/-! ### the edit algebra -/

inductive Edit where
  | setAttr (a : Nat) (v : Str)
  | delAttr (a : Nat)
  | insKid (succ : List Nat) (sub : XT)
  | delKids (tags : List Nat)
  | changeKid (group succ : List Nat) (sub : XT)

/-- what the code does (unconditionally) at a node of type `ty` -/
def Edit.apply (S : Schema) (ty : Nat) : Edit → XT → XT
  | .setAttr a v, t => XTree.setAttr S ty a v t
  | .delAttr a, t => XTree.delAttr a t
  | .insKid succ sub, t => XTree.insKid succ sub t
  | .delKids tags, t => XTree.delKids tags t
  | .changeKid group succ sub, t => XTree.changeKid group succ sub t

/-- the successor-list row of C10 for inserting `child` into a node of complex type `c` -/
def rowOf (c : CT) (child : Nat) (succ : List Nat) : Row :=
  { tags := c.kids.map fun e => (e.1, e.2.1)
    single := (c.smax.filter fun e => e.2 == 1).map (·.1)
    required := c.smin.map (·.1)
    child := child
    succ := succ }

/-- lower bounds of every slot except the one `child` goes into -/
def minExcept (c : CT) (child : Nat) (tags : List Nat) : Bool :=
  c.smin.all fun (s, _) => s == c.slotD child || decide (1 ≤ c.countIn s tags)

/-- there is room for one more child in `child`'s slot -/
def room (c : CT) (child : Nat) (tags : List Nat) : Bool :=
  c.smax.all fun (s, m) => !(c.slotOf child == some s) || decide (c.countIn s tags < m)

/-- side condition of an insertion into a node whose child tags are `tags` -/
def insOk (S : Schema) (full : Bool) (c : CT) (succ : List Nat) (sub : XT) (tags : List Nat) : Bool :=
  (c.openKids || ((rowOf c sub.tag succ).adequate && minExcept c sub.tag tags && room c sub.tag tags)) &&
  (match kidType S c sub.tag with | some cty => valid S full cty sub | none => true)

/-- the local side condition of an edit at a node `t` of type `ty` -/
def Edit.ok (S : Schema) (full : Bool) (ty : Nat) (t : XT) : Edit → Bool
  | .setAttr _ _ => true
  | .delAttr a => !full || (S.ct ty).attrs.all fun e => !(e.1 == a && e.2.2)
  | .insKid succ sub => insOk S full (S.ct ty) succ sub (t.kids.map XT.tag)
  | .delKids tags => !full || (S.ct ty).kidsMin ((XTree.delKids tags t).kids.map XT.tag)
  | .changeKid group succ sub =>
      insOk S full (S.ct ty) succ sub ((XTree.delKids group t).kids.map XT.tag) &&
      (!full || (S.ct ty).kidsMin ((XTree.changeKid group succ sub t).kids.map XT.tag))

/-! ### list lemmas -/

theorem sortedBy_iff (f : Nat → Nat) (l : List Nat) : sortedBy f l = true ↔ l.Pairwise fun a b => f a ≤ f b := by
  induction l with
  | nil => simp [sortedBy]
  | cons a l ih =>
    cases l with
    | nil => simp [sortedBy]
    | cons b rest =>
      simp only [sortedBy, Bool.and_eq_true, decide_eq_true_eq, ih, List.pairwise_cons]
      constructor
      · rintro ⟨hab, hb, hrest⟩
        refine ⟨?_, hb, hrest⟩
        intro x hx
        rcases List.mem_cons.mp hx with rfl | hx
        · exact hab
        · exact Nat.le_trans hab (hb x hx)
      · rintro ⟨ha, hb, hrest⟩
        exact ⟨ha b (List.mem_cons_self), hb, hrest⟩

theorem insertBeforeP_map {α β : Type} (g : α → β) (p : β → Bool) (c : α) (l : List α) :
    (insertBeforeP (fun x => p (g x)) c l).map g = insertBeforeP p (g c) (l.map g) := by
  induction l with
  | nil => simp [insertBeforeP]
  | cons x xs ih =>
    simp only [insertBeforeP, List.map_cons]
    split
    · simp
    · simp [ih]

theorem mem_insertBeforeP {α : Type} (p : α → Bool) (c a : α) (l : List α) :
    a ∈ insertBeforeP p c l ↔ a = c ∨ a ∈ l := by
  induction l with
  | nil => simp [insertBeforeP]
  | cons x xs ih =>
    simp only [insertBeforeP]
    split
    · simp
    · simp only [List.mem_cons, ih]
      constructor
      · rintro (h | h | h)
        · exact Or.inr (Or.inl h)
        · exact Or.inl h
        · exact Or.inr (Or.inr h)
      · rintro (h | h | h)
        · exact Or.inr (Or.inl h)
        · exact Or.inl h
        · exact Or.inr (Or.inr h)

/-- the position-free formulation agrees with C10's `insertTag` -/
theorem insertBeforeP_eq_insertTag (succ : List Nat) (c : Nat) (cs : List Nat) :
    insertBeforeP (fun t => succ.contains t) c cs = insertTag succ c cs := by
  induction cs with
  | nil => simp [insertBeforeP, insertTag, firstPresent]
  | cons x xs ih =>
    simp only [insertBeforeP]
    by_cases hx : succ.contains x = true
    · have hx2 : x ∈ succ := by simpa using hx
      simp [hx, hx2, insertTag, firstPresent, List.find?_cons, insertBeforeTag]
    · have hx' : succ.contains x = false := by simpa using hx
      simp only [hx', Bool.false_eq_true, if_false, ih]
      simp only [insertTag, firstPresent, List.find?_cons, hx']
      cases hf : xs.find? (fun e => succ.contains e) with
      | none => simp
      | some t =>
        have ht : succ.contains t = true := by simpa using List.find?_some hf
        have hne : x ≠ t := by intro h; rw [h, ht] at hx'; cases hx'
        simp [insertBeforeTag, hne]

theorem filter_insertBeforeP_length {α : Type} (q p : α → Bool) (c : α) (l : List α) :
    ((insertBeforeP p c l).filter q).length = (l.filter q).length + (if q c then 1 else 0) := by
  induction l with
  | nil => simp [insertBeforeP, List.filter_cons]; split <;> simp
  | cons x xs ih =>
    simp only [insertBeforeP]
    by_cases hp : p x = true
    · simp only [hp, if_true]
      rw [List.filter_cons]
      split <;> simp
    · have hp' : p x = false := by simpa using hp
      simp only [hp', Bool.false_eq_true, if_false]
      rw [List.filter_cons, List.filter_cons (x := x)]
      split
      · simp [ih]; omega
      · simpa using ih

theorem lookup_filter_ne {β : Type} (a b : Nat) (l : List (Nat × β)) (h : b ≠ a) :
    (l.filter (·.1 != a)).lookup b = l.lookup b := by
  induction l with
  | nil => rfl
  | cons x xs ih =>
    obtain ⟨k, v⟩ := x
    by_cases hk : k = a
    · subst hk
      have : (b == k) = false := by simpa using h
      simp [List.filter_cons, List.lookup_cons, this, ih]
    · have h1 : (k != a) = true := by simpa using hk
      simp only [List.filter_cons, h1, if_true, List.lookup_cons]
      cases hb : (b == k) <;> simp [ih]

theorem two_le_length {α : Type} (l : List α) (a b : α) (ha : a ∈ l) (hb : b ∈ l) (hne : a ≠ b) : 2 ≤ l.length := by
  match l, ha, hb with
  | [x], ha, hb =>
    have h1 : a = x := by simpa using ha
    have h2 : b = x := by simpa using hb
    exact absurd (h1.trans h2.symm) hne
  | _ :: _ :: _, _, _ => simp only [List.length_cons]; omega

/-! ### the C10 row of a complex type -/

theorem lookup_map_slot (kids : List (Nat × Nat × Nat)) (t : Nat) :
    (kids.map fun e => (e.1, e.2.1)).lookup t = (kids.lookup t).map (·.1) := by
  induction kids with
  | nil => rfl
  | cons x xs ih =>
    obtain ⟨k, s, ty⟩ := x
    simp only [List.map_cons, List.lookup_cons]
    cases (t == k) <;> simp [ih]

theorem rowOf_slot (c : CT) (child : Nat) (succ : List Nat) (t : Nat) : (rowOf c child succ).slot t = c.slotD t := by
  simp [Row.slot, rowOf, lookup_map_slot, CT.slotD, CT.slotOf]

theorem rowOf_inModel (c : CT) (child : Nat) (succ : List Nat) (t : Nat) :
    (rowOf c child succ).inModel t = (c.slotOf t).isSome := by
  simp [Row.inModel, rowOf, lookup_map_slot, CT.slotOf]

theorem slotOf_of_slotD (c : CT) (t : Nat) (h : (c.slotOf t).isSome = true) : c.slotOf t = some (c.slotD t) := by
  cases hs : c.slotOf t with
  | none => simp [hs] at h
  | some x => simp [CT.slotD, hs]

/-- a conforming (upper-bound) child list of a closed content model is a `Conf` of C10, given the lower bounds of
    the other slots -/
theorem conf_of_kidsUp (c : CT) (child : Nat) (succ tags : List Nat) (hopen : c.openKids = false)
    (hup : c.kidsUp tags = true) (hmin : minExcept c child tags = true) :
    C10.Conf (rowOf c child succ) tags := by
  simp only [CT.kidsUp, hopen, Bool.false_or, Bool.and_eq_true, List.all_eq_true, decide_eq_true_eq] at hup
  obtain ⟨⟨hmod, hsorted⟩, hmax⟩ := hup
  refine ⟨?_, ?_, ?_, ?_⟩
  · intro e he; rw [rowOf_inModel]; exact hmod e he
  · have := (sortedBy_iff c.slotD tags).mp hsorted
    unfold C10.Sorted
    refine List.Pairwise.imp ?_ this
    intro a b hab; rw [rowOf_slot, rowOf_slot]; exact hab
  · intro a b ha hb hne hslot
    rw [rowOf_slot] at hslot ⊢
    rw [rowOf_slot] at hslot
    cases hsing : (rowOf c child succ).single.contains (c.slotD a) with
    | false => rfl
    | true =>
      exfalso
      have hmem : c.slotD a ∈ (rowOf c child succ).single := by simpa using hsing
      simp only [rowOf, List.mem_map, List.mem_filter] at hmem
      obtain ⟨⟨s, m⟩, ⟨hsm, hm1⟩, hs⟩ := hmem
      have hm1' : m = 1 := by simpa using hm1
      have hs' : s = c.slotD a := hs
      have hle := hmax (s, m) hsm
      simp only at hle
      have hfa : a ∈ tags.filter (fun t => c.slotOf t == some s) := by
        refine List.mem_filter.mpr ⟨ha, ?_⟩
        rw [slotOf_of_slotD c a (hmod a ha), hs']; simp
      have hfb : b ∈ tags.filter (fun t => c.slotOf t == some s) := by
        refine List.mem_filter.mpr ⟨hb, ?_⟩
        rw [slotOf_of_slotD c b (hmod b hb), hs', hslot]; simp
      have := two_le_length _ a b hfa hfb hne
      unfold CT.countIn at hle
      omega
  · intro s hs hne
    rw [rowOf_slot, show (rowOf c child succ).child = child from rfl] at hne
    simp only [rowOf, List.mem_map] at hs
    obtain ⟨⟨s', m⟩, hsm, hs'⟩ := hs
    have hs'' : s' = s := hs'
    subst hs''
    simp only [minExcept, List.all_eq_true, Bool.or_eq_true, decide_eq_true_eq] at hmin
    rcases hmin (s', m) hsm with h | h
    · exact absurd (by simpa using h) hne
    · unfold CT.countIn at h
      simp only at h
      have hpos : 0 < (tags.filter fun t => c.slotOf t == some s').length := by omega
      obtain ⟨e, he⟩ := List.exists_mem_of_length_pos hpos
      obtain ⟨het, hes⟩ := List.mem_filter.mp he
      refine ⟨e, het, ?_⟩
      rw [rowOf_slot]
      have : c.slotOf e = some s' := by simpa using hes
      simp [CT.slotD, this]

/-- **Insertion keeps order and upper bounds** (node level): for a closed content model, an adequate successor list
    (C10), the lower bounds of the other slots and room in the child's own slot. -/
theorem kidsUp_insert (c : CT) (succ : List Nat) (child : Nat) (tags : List Nat)
    (hup : c.kidsUp tags = true)
    (hok : c.openKids = true ∨
      ((rowOf c child succ).adequate = true ∧ minExcept c child tags = true ∧ room c child tags = true)) :
    c.kidsUp (insertBeforeP (fun t => succ.contains t) child tags) = true := by
  cases hopen : c.openKids with
  | true => simp [CT.kidsUp, hopen]
  | false =>
    rcases hok with h | ⟨hadq, hmin, hroom⟩
    · rw [hopen] at h; cases h
    have hconf := conf_of_kidsUp c child succ tags hopen hup hmin
    have hsorted := C10.insertTag_sorted (rowOf c child succ) tags hadq hconf
    have hchild : (c.slotOf child).isSome = true := by
      have := hadq
      simp only [Row.adequate, Bool.and_eq_true] at this
      have h1 := this.1.1.1
      rw [show (rowOf c child succ).child = child from rfl, rowOf_inModel] at h1
      exact h1
    simp only [CT.kidsUp, hopen, Bool.false_or, Bool.and_eq_true, List.all_eq_true, decide_eq_true_eq] at hup ⊢
    obtain ⟨⟨hmod, _⟩, hmax⟩ := hup
    refine ⟨⟨?_, ?_⟩, ?_⟩
    · intro e he
      rcases (mem_insertBeforeP _ _ _ _).mp he with rfl | he
      · exact hchild
      · exact hmod e he
    · rw [insertBeforeP_eq_insertTag]
      apply (sortedBy_iff _ _).mpr
      have hs : (rowOf c child succ).succ = succ := rfl
      have hc : (rowOf c child succ).child = child := rfl
      rw [hs, hc] at hsorted
      unfold C10.Sorted at hsorted
      refine List.Pairwise.imp ?_ hsorted
      intro a b hab; rw [rowOf_slot, rowOf_slot] at hab; exact hab
    · intro ⟨s, m⟩ hsm
      simp only
      unfold CT.countIn
      rw [filter_insertBeforeP_length]
      have hle := hmax (s, m) hsm
      simp only at hle
      unfold CT.countIn at hle
      simp only [room, List.all_eq_true, Bool.or_eq_true, Bool.not_eq_true', decide_eq_true_eq] at hroom
      rcases hroom (s, m) hsm with h | h
      · simp only at h; rw [h]; simpa using hle
      · simp only at h
        unfold CT.countIn at h
        split <;> omega

/-! ### node-level lemmas for removal and attribute edits -/

theorem map_tag_filter (p : Nat → Bool) (ks : List XT) :
    (ks.filter fun k => p k.tag).map XT.tag = (ks.map XT.tag).filter p := by
  induction ks with
  | nil => rfl
  | cons k ks ih =>
    simp only [List.filter_cons, List.map_cons]
    split <;> simp [ih]

theorem countIn_filter_le (c : CT) (s : Nat) (p : Nat → Bool) (tags : List Nat) :
    c.countIn s (tags.filter p) ≤ c.countIn s tags := by
  unfold CT.countIn
  rw [List.filter_filter]
  induction tags with
  | nil => simp
  | cons x xs ih =>
    simp only [List.filter_cons]
    split <;> split <;> simp_all <;> omega

/-- removal keeps order and upper bounds -/
theorem kidsUp_filter (c : CT) (p : Nat → Bool) (tags : List Nat) (hup : c.kidsUp tags = true) :
    c.kidsUp (tags.filter p) = true := by
  cases hopen : c.openKids with
  | true => simp [CT.kidsUp, hopen]
  | false =>
    simp only [CT.kidsUp, hopen, Bool.false_or, Bool.and_eq_true, List.all_eq_true, decide_eq_true_eq] at hup ⊢
    obtain ⟨⟨hmod, hsorted⟩, hmax⟩ := hup
    refine ⟨⟨fun e he => hmod e (List.mem_filter.mp he).1, ?_⟩, ?_⟩
    · exact (sortedBy_iff _ _).mpr (List.Pairwise.filter _ ((sortedBy_iff _ _).mp hsorted))
    · intro ⟨s, m⟩ hsm
      have := hmax (s, m) hsm
      simp only at this ⊢
      exact Nat.le_trans (countIn_filter_le c s p tags) this

theorem validKids_of_subset (S : Schema) (full : Bool) (c : CT) (ks ks' : List XT) (hsub : ∀ k ∈ ks', k ∈ ks)
    (hv : validKids S full c ks = true) : validKids S full c ks' = true := by
  rw [validKids_iff] at hv ⊢
  intro k hk; exact hv k (hsub k hk)

theorem kidsMin_insert (c : CT) (p : Nat → Bool) (child : Nat) (tags : List Nat) (h : c.kidsMin tags = true) :
    c.kidsMin (insertBeforeP p child tags) = true := by
  cases hopen : c.openKids with
  | true => simp [CT.kidsMin, hopen]
  | false =>
    simp only [CT.kidsMin, hopen, Bool.false_or, List.all_eq_true, decide_eq_true_eq] at h ⊢
    intro ⟨s, m⟩ hsm
    have := h (s, m) hsm
    simp only at this ⊢
    unfold CT.countIn at this ⊢
    rw [filter_insertBeforeP_length]; omega

theorem attrsUp_of_subset (S : Schema) (c : CT) (as as' : List (Nat × Str)) (hsub : ∀ x ∈ as', x ∈ as)
    (h : attrsUp S c as = true) : attrsUp S c as' = true := by
  simp only [attrsUp, List.all_eq_true] at h ⊢
  intro x hx; exact h x (hsub x hx)

/-! ### every edit that meets its side condition keeps the node — hence the subtree — valid -/

theorem nodeOk_parts (S : Schema) (full : Bool) (ty : Nat) (n : XT) :
    nodeOk S full ty n = true ↔
      (S.ct ty).kidsUp (n.kids.map XT.tag) = true ∧ attrsUp S (S.ct ty) n.attrs = true ∧
      (full = true → (S.ct ty).kidsMin (n.kids.map XT.tag) = true ∧ (S.ct ty).attrsMin n.attrs = true) := by
  cases full <;> simp [nodeOk, Bool.and_eq_true, and_assoc]

theorem insKid_valid (S : Schema) (full : Bool) (ty tag : Nat) (as : List (Nat × Str)) (ks : List XT)
    (succ : List Nat) (sub : XT)
    (hup : (S.ct ty).kidsUp (ks.map XT.tag) = true) (hkids : validKids S full (S.ct ty) ks = true)
    (hok : insOk S full (S.ct ty) succ sub (ks.map XT.tag) = true) :
    (S.ct ty).kidsUp ((insertBeforeP (fun k => succ.contains k.tag) sub ks).map XT.tag) = true ∧
    validKids S full (S.ct ty) (insertBeforeP (fun k => succ.contains k.tag) sub ks) = true := by
  simp only [insOk, Bool.and_eq_true, Bool.or_eq_true] at hok
  obtain ⟨hstat, hsub⟩ := hok
  constructor
  · rw [insertBeforeP_map XT.tag (fun t => succ.contains t) sub ks]
    apply kidsUp_insert _ _ _ _ hup
    rcases hstat with h | h
    · exact Or.inl h
    · exact Or.inr ⟨h.1.1, h.1.2, h.2⟩
  · rw [validKids_iff] at hkids ⊢
    intro k hk cty hc
    rcases (mem_insertBeforeP _ _ _ _).mp hk with rfl | hk
    · simp [hc] at hsub; exact hsub
    · exact hkids k hk cty hc

/-- **One edit, one node**: a valid subtree stays valid, and keeps its tag, under any edit that meets its local side
    condition. -/
theorem apply_valid (S : Schema) (full : Bool) (ty : Nat) (t : XT) (e : Edit)
    (hv : valid S full ty t = true) (hok : e.ok S full ty t = true) :
    valid S full ty (e.apply S ty t) = true ∧ (e.apply S ty t).tag = t.tag := by
  obtain ⟨tag, as, ks⟩ := t
  rw [valid_mk, Bool.and_eq_true, nodeOk_parts] at hv
  obtain ⟨⟨hup, hau, hmin⟩, hkids⟩ := hv
  cases e with
  | setAttr a v =>
    show valid S full ty (XTree.setAttr S ty a v (.mk tag as ks)) = true ∧ (XTree.setAttr S ty a v (.mk tag as ks)).tag = tag
    have hsame : valid S full ty (.mk tag as ks) = true := by
      rw [valid_mk, Bool.and_eq_true, nodeOk_parts]; exact ⟨⟨hup, hau, hmin⟩, hkids⟩
    unfold XTree.setAttr
    cases hl : (S.ct ty).attrs.lookup a with
    | none => exact ⟨hsame, rfl⟩
    | some e =>
      obtain ⟨st, req⟩ := e
      simp only
      by_cases hacc : (S.simple.getD st [Atom.any]).accepts v = true
      · rw [if_pos hacc]
        refine ⟨?_, rfl⟩
        rw [valid_mk, Bool.and_eq_true, nodeOk_parts]
        refine ⟨⟨hup, ?_, ?_⟩, hkids⟩
        · show attrsUp S (S.ct ty) ((a, v) :: as.filter (·.1 != a)) = true
          have hrest := attrsUp_of_subset S (S.ct ty) as (as.filter (·.1 != a)) (fun x hx => (List.mem_filter.mp hx).1) hau
          unfold attrsUp at hrest ⊢
          rw [List.all_cons, Bool.and_eq_true]
          refine ⟨?_, hrest⟩
          simp only [hl]; exact hacc
        · intro hf
          obtain ⟨h1, h2⟩ := hmin hf
          refine ⟨h1, ?_⟩
          show (S.ct ty).attrsMin ((a, v) :: as.filter (·.1 != a)) = true
          simp only [CT.attrsMin, List.all_eq_true, Bool.or_eq_true, Bool.not_eq_true'] at h2 ⊢
          intro ⟨b, st', req'⟩ hb
          rcases h2 (b, st', req') hb with h | h
          · exact Or.inl h
          · right
            simp only at h ⊢
            by_cases hba : b = a
            · subst hba; simp [List.lookup_cons]
            · have : (b == a) = false := by simpa using hba
              simp only [List.lookup_cons, this]
              rw [lookup_filter_ne a b as hba]; exact h
      · rw [if_neg hacc]; exact ⟨hsame, rfl⟩
  | delAttr a =>
    show valid S full ty (.mk tag (as.filter (·.1 != a)) ks) = true ∧ _
    refine ⟨?_, rfl⟩
    rw [valid_mk, Bool.and_eq_true, nodeOk_parts]
    refine ⟨⟨hup, attrsUp_of_subset S _ as _ (fun x hx => (List.mem_filter.mp hx).1) hau, ?_⟩, hkids⟩
    intro hf
    obtain ⟨h1, h2⟩ := hmin hf
    refine ⟨h1, ?_⟩
    show (S.ct ty).attrsMin (as.filter (·.1 != a)) = true
    simp only [Edit.ok, hf, Bool.not_true, Bool.false_or, List.all_eq_true, Bool.not_eq_true',
      Bool.and_eq_false_iff] at hok
    simp only [CT.attrsMin, List.all_eq_true, Bool.or_eq_true, Bool.not_eq_true'] at h2 ⊢
    intro ⟨b, st', req'⟩ hb
    rcases h2 (b, st', req') hb with h | h
    · exact Or.inl h
    · simp only at h ⊢
      rcases hok (b, st', req') hb with hne | hreq
      · right
        have hba : b ≠ a := by simpa using hne
        rw [lookup_filter_ne a b as hba]; exact h
      · exact Or.inl hreq
  | insKid succ sub =>
    show valid S full ty (.mk tag as (insertBeforeP (fun k => succ.contains k.tag) sub ks)) = true ∧ _
    refine ⟨?_, rfl⟩
    have hok' : insOk S full (S.ct ty) succ sub (ks.map XT.tag) = true := hok
    obtain ⟨h1, h2⟩ := insKid_valid S full ty tag as ks succ sub hup hkids hok'
    rw [valid_mk, Bool.and_eq_true, nodeOk_parts]
    refine ⟨⟨h1, hau, ?_⟩, h2⟩
    intro hf
    obtain ⟨hm1, hm2⟩ := hmin hf
    refine ⟨?_, hm2⟩
    show (S.ct ty).kidsMin ((insertBeforeP (fun k => succ.contains k.tag) sub ks).map XT.tag) = true
    rw [insertBeforeP_map XT.tag (fun t => succ.contains t) sub ks]
    exact kidsMin_insert _ _ _ _ hm1
  | delKids tags =>
    show valid S full ty (.mk tag as (ks.filter fun k => !tags.contains k.tag)) = true ∧ _
    refine ⟨?_, rfl⟩
    have hok' : (!full || (S.ct ty).kidsMin ((ks.filter fun k => !tags.contains k.tag).map XT.tag)) = true := hok
    rw [valid_mk, Bool.and_eq_true, nodeOk_parts]
    refine ⟨⟨?_, hau, ?_⟩, ?_⟩
    · show (S.ct ty).kidsUp ((ks.filter fun k => !tags.contains k.tag).map XT.tag) = true
      rw [map_tag_filter (fun t => !tags.contains t)]; exact kidsUp_filter _ _ _ hup
    · intro hf
      obtain ⟨_, hm2⟩ := hmin hf
      simp only [hf, Bool.not_true, Bool.false_or] at hok'
      exact ⟨hok', hm2⟩
    · exact validKids_of_subset S full _ ks _ (fun k hk => (List.mem_filter.mp hk).1) hkids
  | changeKid group succ sub =>
    show valid S full ty (.mk tag as (insertBeforeP (fun k => succ.contains k.tag) sub
      (ks.filter fun k => !group.contains k.tag))) = true ∧ _
    refine ⟨?_, rfl⟩
    have hok' : (insOk S full (S.ct ty) succ sub ((ks.filter fun k => !group.contains k.tag).map XT.tag) &&
      (!full || (S.ct ty).kidsMin ((insertBeforeP (fun k => succ.contains k.tag) sub
        (ks.filter fun k => !group.contains k.tag)).map XT.tag))) = true := hok
    rw [Bool.and_eq_true] at hok'
    obtain ⟨hins, hfull⟩ := hok'
    have hup' : (S.ct ty).kidsUp ((ks.filter fun k => !group.contains k.tag).map XT.tag) = true := by
      rw [map_tag_filter (fun t => !group.contains t)]; exact kidsUp_filter _ _ _ hup
    have hkids' := validKids_of_subset S full (S.ct ty) ks (ks.filter fun k => !group.contains k.tag)
      (fun k hk => (List.mem_filter.mp hk).1) hkids
    obtain ⟨h1, h2⟩ := insKid_valid S full ty tag as _ succ sub hup' hkids' hins
    rw [valid_mk, Bool.and_eq_true, nodeOk_parts]
    refine ⟨⟨h1, hau, ?_⟩, h2⟩
    intro hf
    obtain ⟨_, hm2⟩ := hmin hf
    simp only [hf, Bool.not_true, Bool.false_or] at hfull
    exact ⟨hfull, hm2⟩

/-- a value outside the lexical space of the attribute's type is rejected before anything is written -/
theorem setAttr_rejected_noop (S : Schema) (ty a st : Nat) (req : Bool) (v : Str) (t : XT)
    (hdecl : (S.ct ty).attrs.lookup a = some (st, req))
    (hrej : (S.simple.getD st [Atom.any]).accepts v = false) :
    XTree.setAttr S ty a v t = t := by
  obtain ⟨tag, as, ks⟩ := t
  simp only [XTree.setAttr, hdecl, hrej, Bool.false_eq_true, if_false]

/-! ### edits at any depth, and any sequence of them -/

/-- descend along child positions; the type of each node is the one the schema gives it under its parent -/
def applyAt (S : Schema) (e : Edit) : List Nat → Nat → XT → XT
  | [], ty, t => e.apply S ty t
  | i :: rest, ty, .mk tag as ks =>
    .mk tag as (ks.modify i fun k => match kidType S (S.ct ty) k.tag with
      | some cty => applyAt S e rest cty k
      | none => k)

/-- the side condition, evaluated at the node the path leads to (a path that leaves the typed part of the tree,
    i.e. enters wildcard content, is not an edit the model covers) -/
def okAt (S : Schema) (full : Bool) (e : Edit) : List Nat → Nat → XT → Bool
  | [], ty, t => e.ok S full ty t
  | i :: rest, ty, .mk _ _ ks => match ks[i]? with
    | some k => (match kidType S (S.ct ty) k.tag with
      | some cty => okAt S full e rest cty k
      | none => false)
    | none => false

theorem map_tag_modify (f : XT → XT) (hf : ∀ k, (f k).tag = k.tag) (i : Nat) (ks : List XT) :
    (ks.modify i f).map XT.tag = ks.map XT.tag := by
  induction ks generalizing i with
  | nil => simp
  | cons k ks ih =>
    cases i with
    | zero => simp [hf]
    | succ i => simp [ih]

theorem validKids_modify (S : Schema) (full : Bool) (c : CT) (f : XT → XT) (hf : ∀ k, (f k).tag = k.tag)
    (i : Nat) (ks : List XT) (hv : validKids S full c ks = true)
    (hk : ∀ k, ks[i]? = some k → ∀ cty, kidType S c k.tag = some cty → valid S full cty (f k) = true) :
    validKids S full c (ks.modify i f) = true := by
  induction ks generalizing i with
  | nil => simpa using hv
  | cons k ks ih =>
    simp only [validKids, Bool.and_eq_true] at hv
    cases i with
    | zero =>
      simp only [List.modify_zero_cons, validKids, Bool.and_eq_true]
      refine ⟨?_, hv.2⟩
      rw [hf k]
      cases hc : kidType S c k.tag with
      | none => rfl
      | some cty => exact hk k (by simp) cty hc
    | succ i =>
      simp only [List.modify_succ_cons, validKids, Bool.and_eq_true]
      exact ⟨hv.1, ih i hv.2 (fun k' hk' => hk k' (by simpa using hk'))⟩

/-- **One edit anywhere in the tree**: validity of the whole tree is kept, the root keeps its tag. -/
theorem applyAt_valid (S : Schema) (full : Bool) (e : Edit) :
    ∀ (path : List Nat) (ty : Nat) (t : XT), valid S full ty t = true → okAt S full e path ty t = true →
      valid S full ty (applyAt S e path ty t) = true ∧ (applyAt S e path ty t).tag = t.tag := by
  intro path
  induction path with
  | nil => intro ty t hv hok; exact apply_valid S full ty t e hv hok
  | cons i rest ih =>
    intro ty t hv hok
    obtain ⟨tag, as, ks⟩ := t
    refine ⟨?_, rfl⟩
    simp only [okAt] at hok
    cases hki : ks[i]? with
    | none => simp [hki] at hok
    | some k =>
      simp only [hki] at hok
      cases hct : kidType S (S.ct ty) k.tag with
      | none => simp [hct] at hok
      | some cty =>
        simp only [hct] at hok
        rw [valid_mk, Bool.and_eq_true] at hv
        obtain ⟨hnode, hkids⟩ := hv
        have hkv : valid S full cty k = true := (validKids_iff S full _ ks).mp hkids k (List.mem_of_getElem? hki) cty hct
        have hftag : ∀ k' : XT, (match kidType S (S.ct ty) k'.tag with
            | some cty => applyAt S e rest cty k'
            | none => k').tag = k'.tag := by
          intro k'
          -- the tag is preserved whatever the subtree looks like: by the same induction on a valid or invalid
          -- subtree we only need it for the one child that is edited; for the others `modify` does not apply `f`
          cases hc' : kidType S (S.ct ty) k'.tag with
          | none => rfl
          | some cty' =>
            simp only
            exact applyAt_tag S e rest cty' k'
        show valid S full ty (.mk tag as (ks.modify i _)) = true
        rw [valid_mk, Bool.and_eq_true]
        constructor
        · rw [nodeOk_parts] at hnode ⊢
          simp only [XT.kids, XT.attrs] at hnode ⊢
          rw [map_tag_modify _ hftag]; exact hnode
        · apply validKids_modify S full _ _ hftag i ks hkids
          intro k' hk' cty' hc'
          rw [hki] at hk'
          have : k' = k := by simpa using hk'.symm
          subst this
          rw [hct] at hc'
          have : cty' = cty := by simpa using hc'.symm
          subst this
          simp only [hct]
          exact (ih cty' k' hkv hok).1
where
  applyAt_tag (S : Schema) (e : Edit) : ∀ (path : List Nat) (ty : Nat) (t : XT), (applyAt S e path ty t).tag = t.tag := by
    intro path
    cases path with
    | nil =>
      intro ty t
      obtain ⟨tag, as, ks⟩ := t
      cases e with
      | setAttr a v =>
        show (XTree.setAttr S ty a v (.mk tag as ks)).tag = tag
        unfold XTree.setAttr
        cases (S.ct ty).attrs.lookup a with
        | none => rfl
        | some x => simp only; split <;> rfl
      | delAttr a => rfl
      | insKid succ sub => rfl
      | delKids tags => rfl
      | changeKid g succ sub => rfl
    | cons i rest => intro ty t; obtain ⟨tag, as, ks⟩ := t; rfl

/-- a history of edits: (path, edit) pairs applied in order to the part whose root has type `ty` -/
def run (S : Schema) (ty : Nat) (t : XT) : List (List Nat × Edit) → XT
  | [] => t
  | (p, e) :: rest => run S ty (applyAt S e p ty t) rest

/-- every edit of the history meets its side condition in the state it is applied to -/
def runOk (S : Schema) (full : Bool) (ty : Nat) (t : XT) : List (List Nat × Edit) → Bool
  | [] => true
  | (p, e) :: rest => okAt S full e p ty t && runOk S full ty (applyAt S e p ty t) rest

/-- **Any history**: a valid part stays valid under every sequence of edits, of any length, at any depths, in any
    order, provided each meets its local side condition when it is applied. -/
theorem run_valid (S : Schema) (full : Bool) (ty : Nat) (es : List (List Nat × Edit)) :
    ∀ t, valid S full ty t = true → runOk S full ty t es = true → valid S full ty (run S ty t es) = true := by
  induction es with
  | nil => intro t hv _; exact hv
  | cons pe rest ih =>
    intro t hv hok
    obtain ⟨p, e⟩ := pe
    simp only [runOk, Bool.and_eq_true] at hok
    exact ih _ (applyAt_valid S full e p ty t hv hok.1).1 hok.2

/-! ### full validity implies upper-bound validity -/

theorem nodeOk_mono (S : Schema) (ty : Nat) (n : XT) (h : nodeOk S true ty n = true) : nodeOk S false ty n = true := by
  rw [nodeOk_parts] at h ⊢
  exact ⟨h.1, h.2.1, fun hf => by cases hf⟩

mutual
theorem valid_mono (S : Schema) : ∀ (ty : Nat) (t : XT), valid S true ty t = true → valid S false ty t = true
  | ty, .mk tag as ks, h => by
    rw [valid_mk, Bool.and_eq_true] at h ⊢
    exact ⟨nodeOk_mono S ty _ h.1, validKids_mono S (S.ct ty) ks h.2⟩
theorem validKids_mono (S : Schema) : ∀ (c : CT) (ks : List XT), validKids S true c ks = true → validKids S false c ks = true
  | _, [], _ => by simp [validKids]
  | c, k :: ks, h => by
    simp only [validKids, Bool.and_eq_true] at h ⊢
    refine ⟨?_, validKids_mono S c ks h.2⟩
    cases hk : kidType S c k.tag with
    | none => rfl
    | some cty =>
      have h1 := h.1
      rw [hk] at h1
      exact valid_mono S cty k h1
end

/-! ### the pattern matcher is the regular language it denotes (Brzozowski derivatives are correct) -/

/-- denotation of a regular expression over code points -/
inductive Lang : Re → Str → Prop
  | eps : Lang .eps []
  | range (lo hi : Nat) (c : Char) (h1 : lo ≤ c.toNat) (h2 : c.toNat ≤ hi) : Lang (.range lo hi) [c]
  | seq (a b : Re) (s t : Str) : Lang a s → Lang b t → Lang (.seq a b) (s ++ t)
  | altL (a b : Re) (s : Str) : Lang a s → Lang (.alt a b) s
  | altR (a b : Re) (s : Str) : Lang b s → Lang (.alt a b) s
  | starNil (a : Re) : Lang (.star a) []
  | starCons (a : Re) (s t : Str) : Lang a s → Lang (.star a) t → Lang (.star a) (s ++ t)

theorem nullable_iff (r : Re) : r.nullable = true ↔ Lang r [] := by
  induction r with
  | empty => exact ⟨fun h => (by cases h), fun h => (by cases h)⟩
  | eps => exact ⟨fun _ => Lang.eps, fun _ => rfl⟩
  | range lo hi => exact ⟨fun h => (by cases h), fun h => (by cases h)⟩
  | seq a b iha ihb =>
    simp only [Re.nullable, Bool.and_eq_true]
    constructor
    · rintro ⟨ha, hb⟩
      have := Lang.seq a b [] [] (iha.mp ha) (ihb.mp hb)
      simpa using this
    · intro h
      generalize hw : ([] : Str) = w at h
      cases h with
      | seq _ _ s t hs ht =>
        have hst : s = [] ∧ t = [] := by
          have := congrArg List.length hw
          simp at this
          exact ⟨List.eq_nil_of_length_eq_zero (by omega), List.eq_nil_of_length_eq_zero (by omega)⟩
        obtain ⟨rfl, rfl⟩ := hst
        exact ⟨iha.mpr hs, ihb.mpr ht⟩
  | alt a b iha ihb =>
    simp only [Re.nullable, Bool.or_eq_true]
    constructor
    · rintro (h | h)
      · exact Lang.altL a b [] (iha.mp h)
      · exact Lang.altR a b [] (ihb.mp h)
    · intro h
      cases h with
      | altL _ _ _ h => exact Or.inl (iha.mpr h)
      | altR _ _ _ h => exact Or.inr (ihb.mpr h)
  | star a _ => exact ⟨fun _ => Lang.starNil a, fun _ => rfl⟩

/-- a non-empty word of `a*` starts with a non-empty word of `a` -/
theorem star_cons_split (a : Re) (w : Str) (h : Lang (.star a) w) :
    ∀ c s, w = c :: s → ∃ s1 s2, s = s1 ++ s2 ∧ Lang a (c :: s1) ∧ Lang (.star a) s2 := by
  generalize hr : Re.star a = r at h
  induction h with
  | eps => cases hr
  | range => cases hr
  | seq => cases hr
  | altL => cases hr
  | altR => cases hr
  | starNil => intro c s h; cases h
  | starCons a' s t hs ht _ iht =>
    cases hr
    intro c u hw
    cases s with
    | nil => exact iht rfl c u (by simpa using hw)
    | cons c' s' =>
      have : c' = c ∧ s' ++ t = u := by simpa using hw
      obtain ⟨rfl, rfl⟩ := this
      exact ⟨s', t, rfl, hs, ht⟩

theorem deriv_iff (r : Re) : ∀ (c : Char) (s : Str), Lang (r.deriv c.toNat) s ↔ Lang r (c :: s) := by
  induction r with
  | empty => intro c s; exact ⟨fun h => (by cases h), fun h => (by cases h)⟩
  | eps => intro c s; exact ⟨fun h => (by cases h), fun h => (by cases h)⟩
  | range lo hi =>
    intro c s
    simp only [Re.deriv]
    constructor
    · intro h
      by_cases hin : (decide (lo ≤ c.toNat) && decide (c.toNat ≤ hi)) = true
      · rw [if_pos hin] at h
        cases h
        simp only [Bool.and_eq_true, decide_eq_true_eq] at hin
        exact Lang.range lo hi c hin.1 hin.2
      · rw [if_neg hin] at h; cases h
    · intro h
      cases h with
      | range _ _ _ h1 h2 =>
        have : (decide (lo ≤ c.toNat) && decide (c.toNat ≤ hi)) = true := by simp [h1, h2]
        rw [if_pos this]; exact Lang.eps
  | seq a b iha ihb =>
    intro c s
    have key : Lang (.seq a b) (c :: s) ↔
        (∃ s1 s2, s = s1 ++ s2 ∧ Lang a (c :: s1) ∧ Lang b s2) ∨ (Lang a [] ∧ Lang b (c :: s)) := by
      constructor
      · intro h
        generalize hw : c :: s = w at h
        cases h with
        | seq _ _ s1 s2 h1 h2 =>
          cases s1 with
          | nil => right; simp at hw; subst hw; exact ⟨h1, h2⟩
          | cons c' s1' =>
            have : c = c' ∧ s = s1' ++ s2 := by simpa using hw
            obtain ⟨rfl, rfl⟩ := this
            left; exact ⟨s1', s2, rfl, h1, h2⟩
      · rintro (⟨s1, s2, rfl, h1, h2⟩ | ⟨h1, h2⟩)
        · have := Lang.seq a b (c :: s1) s2 h1 h2
          simpa using this
        · have := Lang.seq a b [] (c :: s) h1 h2
          simpa using this
    rw [key]
    simp only [Re.deriv]
    by_cases hn : a.nullable = true
    · rw [if_pos hn]
      constructor
      · intro h
        cases h with
        | altL _ _ _ h =>
          generalize hw : s = w at h
          cases h with
          | seq _ _ s1 s2 h1 h2 => left; exact ⟨s1, s2, rfl, (iha c s1).mp h1, h2⟩
        | altR _ _ _ h => right; exact ⟨(nullable_iff a).mp hn, (ihb c s).mp h⟩
      · rintro (⟨s1, s2, rfl, h1, h2⟩ | ⟨_, h2⟩)
        · exact Lang.altL _ _ _ (Lang.seq _ _ s1 s2 ((iha c s1).mpr h1) h2)
        · exact Lang.altR _ _ _ ((ihb c s).mpr h2)
    · rw [if_neg hn]
      constructor
      · intro h
        generalize hw : s = w at h
        cases h with
        | seq _ _ s1 s2 h1 h2 => left; exact ⟨s1, s2, rfl, (iha c s1).mp h1, h2⟩
      · rintro (⟨s1, s2, rfl, h1, h2⟩ | ⟨h1, _⟩)
        · exact Lang.seq _ _ s1 s2 ((iha c s1).mpr h1) h2
        · exact absurd ((nullable_iff a).mpr h1) hn
  | alt a b iha ihb =>
    intro c s
    simp only [Re.deriv]
    constructor
    · intro h
      cases h with
      | altL _ _ _ h => exact Lang.altL _ _ _ ((iha c s).mp h)
      | altR _ _ _ h => exact Lang.altR _ _ _ ((ihb c s).mp h)
    · intro h
      cases h with
      | altL _ _ _ h => exact Lang.altL _ _ _ ((iha c s).mpr h)
      | altR _ _ _ h => exact Lang.altR _ _ _ ((ihb c s).mpr h)
  | star a iha =>
    intro c s
    simp only [Re.deriv]
    constructor
    · intro h
      generalize hw : s = w at h
      cases h with
      | seq _ _ s1 s2 h1 h2 =>
        have := Lang.starCons a (c :: s1) s2 ((iha c s1).mp h1) h2
        simpa using this
    · intro h
      obtain ⟨s1, s2, rfl, h1, h2⟩ := star_cons_split a (c :: s) h c s rfl
      exact Lang.seq _ _ s1 s2 ((iha c s1).mpr h1) h2

/-- **The pattern matcher is exact**: `matches` accepts a string iff it belongs to the language the pattern denotes. -/
theorem matches_iff (s : Str) : ∀ r : Re, r.matches s = true ↔ Lang r s := by
  induction s with
  | nil => intro r; simpa [Re.matches] using nullable_iff r
  | cons c s ih =>
    intro r
    have : r.matches (c :: s) = (r.deriv c.toNat).matches s := by simp [Re.matches]
    rw [this, ih, deriv_iff]

/-! ### non-vacuity: a small schema on which the hypotheses are met and the conclusion is not trivial -/

/-- type 0 = a paragraph-like element: children pPr(tag 1, slot 0, max 1), r/br (tags 2 3, slot 1), end (tag 4, slot 2,
    max 1); attribute 7 of type int 0..8; type 1 = leaf -/
def demoSchema : Schema :=
  { types := #[
      { kids := [(1, 0, 1), (2, 1, 1), (3, 1, 1), (4, 2, 1)], smin := [], smax := [(0, 1), (2, 1)], openKids := false,
        attrs := [(7, 0, false)], openAttrs := false },
      { kids := [], smin := [], smax := [], openKids := false, attrs := [], openAttrs := false }],
    simple := #[[Atom.int (some 0) (some 8)]],
    roots := [(9, 0)] }

def leaf (t : Nat) : XT := .mk t [] []
def demoTree : XT := .mk 9 [] [leaf 3, leaf 2, leaf 4]

example : validRoot demoSchema true demoTree = true := by decide
/-- inserting pPr with the successor list (r, br, end) into a paragraph that STARTS WITH A LINE BREAK: ok, valid -/
example : okAt demoSchema true (.insKid [2, 3, 4] (leaf 1)) [] 0 demoTree = true := by decide
example : validRoot demoSchema true (applyAt demoSchema (.insKid [2, 3, 4] (leaf 1)) [] 0 demoTree) = true := by decide
/-- a successor list that forgets `br` is not adequate, and the result is indeed out of order -/
example : okAt demoSchema true (.insKid [2, 4] (leaf 1)) [] 0 demoTree = false := by decide
example : validRoot demoSchema false (applyAt demoSchema (.insKid [2, 4] (leaf 1)) [] 0 demoTree) = false := by decide
/-- a rejected attribute value changes nothing; an accepted one is stored -/
example : (applyAt demoSchema (.setAttr 7 "9".toList) [] 0 demoTree).attrs = [] := by decide
example : (applyAt demoSchema (.setAttr 7 "8".toList) [] 0 demoTree).attrs = [(7, "8".toList)] := by decide

end Pptx.C03
