/-
  C19 — part-name arithmetic is exact.  Property theorems only (helper lemmas live in
  `Lemmas/PackUri.lean`).  Model: `Model/PackUri.lean` (transcription of `opc/packuri.py` and the
  `posixpath` functions it calls).

  Part names are rendered from component lists: `render [a, b, c] = "/a/b/c"`, `render [] = "/"`
  (the package pseudo-name).  `Clean P` says every component is non-empty, has no slash and is
  neither `.` nor `..` — what OPC requires of part-name segments.  Depth and segment contents are
  unbounded.
-/
import PptxModel.Lemmas.PackUri
namespace Pptx.C19
open Pptx Pptx.PackUri

/-- **Round trip.** For every directory `P` and every part name `Q` (any depth, any clean
    segments; `P = []` is the package root, `Q = []` the pseudo-name), resolving against `P` the
    relative reference computed from `P` to `Q` yields `Q`. -/
theorem fromRelRef_relativeRef (P Q : List Str) (hP : Clean P) (hQ : Clean Q) :
    fromRelRef (render P) (relativeRef (render Q) (render P)) = some (render Q) := by
  by_cases hne : P = []
  · -- base "/" : the reference is the name without its leading slash
    subst hne
    have hbase : render [] = ['/'] := by simp [render, joinC]
    simp only [relativeRef, hbase, if_true]
    have hj : join2 ['/'] ((render Q).drop 1) = render Q := by
      by_cases hq : Q = []
      · subst hq; simp [render, joinC, join2]
      · obtain ⟨x, rest, e, hx⟩ := joinC_ne_slash_head Q hQ hq
        simp [render, e, join2, hx]
    simp only [fromRelRef, hj, normpath_render Q hQ]
    simp [render, mk]
  · have hbase : render P ≠ ['/'] := by
      obtain ⟨x, rest, e, _⟩ := joinC_ne_slash_head P hP hne
      simp [render, e]
    simp only [relativeRef, hbase, if_false, relpath, normpath_render P hP, normpath_render Q hQ,
      comps_render P hP, comps_render Q hQ]
    generalize hrel : List.replicate (P.length - commonPrefixLen P Q) dotdot
      ++ Q.drop (commonPrefixLen P Q) = rel
    have hround := normComps_roundtrip P Q hP hQ
    rw [hrel] at hround
    have hrelS : ∀ s ∈ rel, '/' ∉ s := by
      intro s hs; rw [← hrel] at hs
      rcases List.mem_append.mp hs with h | h
      · rw [(List.mem_replicate.mp h).2]; simp [dotdot]
      · exact (hQ s (List.mem_of_mem_drop h)).2.1
    -- the reference actually used: "." when `rel` is empty
    have key : ∀ R : List Str, R ≠ [] → (∀ s ∈ R, '/' ∉ s) → (∀ s ∈ R.head?, s ≠ []) →
        normComps true ([] :: (P ++ R)) = Q →
        fromRelRef (render P) (joinC '/' R) = some (render Q) := by
      intro R hR hRs hhead hN
      have hr : (joinC '/' R).head? ≠ some '/' := by
        match R, hR with
        | s :: t, _ =>
          have hs : '/' ∉ s := hRs s (by simp)
          have hs0 : s ≠ [] := hhead s (by simp)
          match s, hs0 with
          | x :: xs, _ =>
            have hx : x ≠ '/' := by intro e; apply hs; simp [e]
            cases t <;> simp [joinC, hx]
      have hj := join2_render P hne hP _ hr
      have hn := normpath_render_append P R hP hne hR hRs Q hN
      simp only [fromRelRef, hj, hn]
      simp [render, mk]
    by_cases hr0 : rel = []
    · simp only [hr0, if_true]
      have : normComps true ([] :: (P ++ [dot])) = Q := by
        rw [hr0] at hround
        simpa [normComps, List.foldl_append, normStep_dot, normStep_nil] using hround
      have := key [dot] (by simp) (by simp [dot]) (by simp [dot]) this
      simpa [joinC] using this
    · simp only [hr0, if_false]
      refine key rel hr0 hrelS ?_ hround
      intro s hs
      rw [← hrel] at hs
      by_cases hk : P.length - commonPrefixLen P Q = 0
      · simp only [hk, List.replicate_zero, List.nil_append] at hs
        have : s ∈ Q.drop (commonPrefixLen P Q) := by
          cases h : Q.drop (commonPrefixLen P Q) with
          | nil => simp [h] at hs
          | cons a b => simp [h] at hs; simp [hs]
        exact (hQ s (List.mem_of_mem_drop this)).1
      · obtain ⟨n, hn⟩ := Nat.exists_eq_succ_of_ne_zero hk
        simp [hn, List.replicate_succ] at hs
        simp [← hs, dotdot]

/-- non-vacuity: the hypotheses are met by real part names, and the round trip computes -/
example : fromRelRef "/ppt/slides".toList
    (relativeRef "/ppt/slideLayouts/slideLayout1.xml".toList "/ppt/slides".toList)
    = some "/ppt/slideLayouts/slideLayout1.xml".toList := by decide
example : Clean ["ppt".toList, "slides".toList] := by
  intro s hs; simp at hs; rcases hs with h | h <;> subst h <;> simp [CleanSeg, dot, dotdot]

/-- RFC 3986 §5.2.4 `remove_dot_segments`, on path segments: `.` is dropped, `..` removes the last
    output segment (if any), anything else is appended. -/
def removeDots : List Str → List Str → List Str
  | [], out => out.reverse
  | s :: rest, out =>
    if s = dot then removeDots rest out
    else if s = dotdot then removeDots rest out.tail
    else removeDots rest (s :: out)

theorem removeDots_eq_normComps (cs st : List Str) (hcs : ∀ s ∈ cs, s ≠ [])
    (hst : dotdot ∉ st) : removeDots cs st = (cs.foldl (normStep true) st).reverse := by
  induction cs generalizing st with
  | nil => simp [removeDots]
  | cons c rest ih =>
    have hc : c ≠ [] := hcs c (by simp)
    have hrest : ∀ s ∈ rest, s ≠ [] := fun s hs => hcs s (by simp [hs])
    simp only [removeDots, List.foldl_cons]
    by_cases h1 : c = dot
    · simp only [h1, if_true, normStep_dot]; exact ih st hrest hst
    · by_cases h2 : c = dotdot
      · have hd : dotdot ≠ dot := by simp [dot, dotdot]
        have hd0 : dotdot ≠ ([] : Str) := by simp [dotdot]
        have hhead : st.head? ≠ some dotdot := by
          cases st with
          | nil => simp
          | cons a b => simp; intro e; apply hst; simp [e]
        have : normStep true st dotdot = st.tail := by simp [normStep, hd, hd0, hhead]
        simp only [h2, hd, if_false, if_true, this]
        exact ih st.tail hrest (fun h => hst (List.mem_of_mem_tail h))
      · have : normStep true st c = c :: st := by simp [normStep, hc, h1, h2]
        simp only [h1, h2, if_false, this]
        exact ih (c :: st) hrest (by simp [hst]; exact fun e => h2 e.symm)

/-- **Dot segments and RFC 3986.**  For a clean non-root base directory `P` and any reference made
    of non-empty segments `R` (including `.` and `..`, in any number and position, so also
    references that climb above the root), `from_rel_ref` returns the RFC 3986 resolution:
    merge (`P ++ R`) then `remove_dot_segments`.

    `_partial`: the full RFC statement also covers references ending in `/`, `.` or `..` for which
    RFC 3986 keeps a trailing slash; a part name cannot end in a slash and `normpath` drops it, so
    those shapes agree with the RFC only up to that trailing slash.  Empty segments (`a//b`) are
    collapsed by the code and kept by the RFC; they are excluded by `hR0`. -/
theorem fromRelRef_dots_partial (P R : List Str) (hP : Clean P) (hne : P ≠ []) (hR : R ≠ [])
    (hRs : ∀ s ∈ R, '/' ∉ s) (hR0 : ∀ s ∈ R, s ≠ []) :
    fromRelRef (render P) (joinC '/' R) = some (render (removeDots (P ++ R) [])) := by
  have hr : (joinC '/' R).head? ≠ some '/' := by
    match R, hR with
    | s :: t, _ =>
      have hs : '/' ∉ s := hRs s (by simp)
      have hs0 : s ≠ [] := hR0 s (by simp)
      match s, hs0 with
      | x :: xs, _ =>
        have hx : x ≠ '/' := by intro e; apply hs; simp [e]
        cases t <;> simp [joinC, hx]
  have hall : ∀ s ∈ P ++ R, s ≠ [] := by
    intro s hs; rcases List.mem_append.mp hs with h | h
    · exact (hP s h).1
    · exact hR0 s h
  have hN : normComps true ([] :: (P ++ R)) = removeDots (P ++ R) [] := by
    rw [removeDots_eq_normComps (P ++ R) [] hall (by simp)]
    simp [normComps, normStep_nil]
  have hj := join2_render P hne hP _ hr
  have hn := normpath_render_append P R hP hne hR hRs _ hN
  simp only [fromRelRef, hj, hn]
  simp [render, mk]

example : fromRelRef "/ppt/slides".toList "../media/./x/../image1.png".toList
    = some "/ppt/media/image1.png".toList := by decide
example : removeDots ["ppt".toList, "slides".toList, dotdot, "media".toList] []
    = ["ppt".toList, "media".toList] := by decide

/-- **Root-absolute reference**: whatever the base, a reference that is itself a clean absolute
    name resolves to that name. -/
theorem fromRelRef_absolute (base : Str) (Q : List Str) (hQ : Clean Q) :
    fromRelRef base (render Q) = some (render Q) := by
  have hj : join2 base (render Q) = render Q := by simp [join2, render]
  simp only [fromRelRef, hj, normpath_render Q hQ]
  simp [render, mk]

/-- **Rejection**: a pack URI is accepted iff it begins with a slash. -/
theorem mk_accepts_iff (s : Str) : (mk s).isSome ↔ s.head? = some '/' := by
  unfold mk
  split
  · simp
  · rename_i h
    cases s with
    | nil => simp
    | cons x xs =>
      simp
      intro e; exact h xs (by rw [e])

/-- membername strips exactly the leading slash -/
theorem membername_render (Q : List Str) : membername (render Q) = joinC '/' Q := by
  simp [membername, render]

/-- **Directory and file name** of the part name `/P…/f` are `/P…` and `f` (OPC: the part name
    minus its last segment; the last segment) — any depth, `P = []` gives the root `/`. -/
theorem baseURI_filename_spec (P : List Str) (f : Str) (hP : Clean P) (hf : CleanSeg f) :
    baseURI (render (P ++ [f])) = render P ∧ filename (render (P ++ [f])) = f := by
  simp [baseURI, filename, split_render P f hP hf.2.1 hf.1]

/-- the pseudo-name `/` has directory `/` and an empty file name -/
theorem baseURI_filename_root : baseURI (render []) = render [] ∧ filename (render []) = [] := by
  decide

/-- **Relationship item name** (OPC §9.3.3): for `/P…/f` it is `/P…/_rels/f.rels`; for the package
    it is `/_rels/.rels`. -/
theorem relsUri_spec (P : List Str) (f : Str) (hP : Clean P) (hf : CleanSeg f) :
    relsUri (render (P ++ [f])) = some (render (P ++ ["_rels".toList, f ++ ".rels".toList])) := by
  have ⟨hb, hfn⟩ := baseURI_filename_spec P f hP hf
  simp only [relsUri, hb, hfn]
  have hhead : (f ++ ".rels".toList).head? ≠ some '/' := by
    obtain ⟨h0, hs, _, _⟩ := hf
    match f, h0 with
    | x :: xs, _ => simp; intro e; apply hs; simp [e]
  by_cases hne : P = []
  · subst hne
    have h1 : join2 (render []) "_rels".toList = "/_rels".toList := by decide
    have hlast : ("/_rels".toList).getLast? ≠ some '/' := by decide
    rw [h1]
    simp only [join2, hhead, if_false]
    have hnn : "/_rels".toList ≠ [] := by decide
    simp only [hnn, hlast, false_or, if_false]
    simp [render, joinC, mk]
  · have h1 : join2 (render P) "_rels".toList = render P ++ '/' :: "_rels".toList :=
      join2_render P hne hP _ (by simp)
    have hlast : (render P ++ '/' :: "_rels".toList).getLast? ≠ some '/' := by
      rw [show render P ++ '/' :: "_rels".toList = (render P ++ "/_rel".toList) ++ ['s'] by simp,
        List.getLast?_append]; simp
    rw [h1]
    simp only [join2, hhead, if_false]
    have hnn : render P ++ '/' :: "_rels".toList ≠ [] := by simp [render]
    simp only [hnn, hlast, false_or, if_false]
    have : render (P ++ ["_rels".toList, f ++ ".rels".toList])
        = render P ++ '/' :: "_rels".toList ++ '/' :: (f ++ ".rels".toList) := by
      simp only [render]
      rw [joinC_append '/' P _ hne (by simp)]
      simp [joinC]
    rw [this]; simp [mk, render]

theorem relsUri_root : relsUri (render []) = some "/_rels/.rels".toList := by decide

example : relsUri "/ppt/slides/slide1.xml".toList = some "/ppt/slides/_rels/slide1.xml.rels".toList := by
  decide

end Pptx.C19
