/-
  C20 — enumerations and the preset-shape table agree with the standard.
  Generic lemmas (proved once); the per-table side conditions are in `GenProps/C20.lean`,
  regenerated from the live enum classes, `autoshape_types`, the shipped XSDs and
  `presetShapeDefinitions.xml` on every run and closed by kernel evaluation.
-/
import PptxModel.Model.Tables
namespace Pptx.C20
open Pptx.Tables

theorem nodupB_sound (l : List Tok) (h : nodupB l = true) : l.Nodup := by
  induction l with
  | nil => exact List.nodup_nil
  | cons x xs ih =>
    simp only [nodupB, Bool.and_eq_true, Bool.not_eq_true'] at h
    refine List.nodup_cons.mpr ⟨?_, ih h.2⟩
    intro hm
    have : xs.contains x = true := by simpa using hm
    rw [this] at h; cases h.1

theorem findIdx_go_spec (toks : List Tok) (t : Tok) (base : Nat) :
    ∀ i, toks[i]? = some t → (∀ j, j < i → toks[j]? ≠ some t) →
      findIdx.go t toks base = some (base + i) := by
  induction toks generalizing base with
  | nil => intro i h; simp at h
  | cons x xs ih =>
    intro i h hfirst
    cases i with
    | zero =>
      simp at h; simp [findIdx.go, h]
    | succ k =>
      have hx : x ≠ t := by
        have := hfirst 0 (by omega); simpa using this
      simp only [findIdx.go, hx, if_false]
      have := ih (base + 1) k (by simpa using h) (fun j hj => by
        have := hfirst (j + 1) (by omega); simpa using this)
      rw [this]; congr 1; omega

/-- **Round trip from distinctness**: if the XML tokens of an enumeration are pairwise distinct
    then for every member `i`, `from_xml(to_xml(i)) = i`. -/
theorem roundtrip_of_nodup (toks : List Tok) (h : toks.Nodup) (i : Nat) (hi : i < toks.length) :
    findIdx toks toks[i] = some i := by
  have := findIdx_go_spec toks toks[i] 0 i (by simp [hi]) (by
    intro j hj hje
    have hj' : j < toks.length := by omega
    rw [List.getElem?_eq_getElem hj'] at hje
    injection hje with hje
    have := (List.getElem_inj (h₀ := hj') (h₁ := hi) h).mp hje
    omega)
  simpa [findIdx] using this

theorem findIdx_go_le (toks : List Tok) (t : Tok) (base j : Nat) (h : toks[j]? = some t) :
    ∃ k, k ≤ j ∧ findIdx.go t toks base = some (base + k) := by
  induction toks generalizing base j with
  | nil => simp at h
  | cons x xs ih =>
    by_cases hx : x = t
    · exact ⟨0, Nat.zero_le _, by simp [findIdx.go, hx]⟩
    · cases j with
      | zero => simp at h; exact absurd h hx
      | succ m =>
        obtain ⟨k, hk, e⟩ := ih (base + 1) m (by simpa using h)
        exact ⟨k + 1, by omega, by simp only [findIdx.go, hx, if_false]; rw [e]; congr 1; omega⟩

/-- a member whose token already occurs earlier does **not** map back to itself -/
theorem later_dup_not_roundtrip (toks : List Tok) (i j : Nat) (hj : j < i) (hi : i < toks.length)
    (he : toks[j]'(by omega) = toks[i]) : findIdx toks toks[i] ≠ some i := by
  intro h
  obtain ⟨k, hk, e⟩ := findIdx_go_le toks toks[i] 0 j (by
    rw [List.getElem?_eq_getElem (by omega)]; simp [he])
  simp only [findIdx] at h
  rw [e] at h
  injection h with h; omega

theorem subsetB_sound (a b : List Tok) (h : subsetB a b = true) : ∀ t ∈ a, t ∈ b := by
  intro t ht
  have := List.all_eq_true.mp h t ht
  simpa using this

example : findIdx [[1], [2], [1]] [1] = some 0 := by decide
example : nodupB [[1], [2], [3]] = true := by decide

end Pptx.C20
