/-
  C02 — every saved file is a closed, self-consistent package, after any history.
  Model: `Model/Pkg.lean`.  The closure invariant of the in-memory package graph is preserved by
  every well-formed delta, hence — by induction — holds at EVERY prefix of EVERY history whose
  steps are well-formed; the writer (C01's model and theorems) then turns a closed graph into a
  closed zip.  Whether the steps of the real library are well-formed is what the correspondence
  checks, step by step, on the observed deltas.
-/
import PptxModel.Model.Pkg
namespace Pptx.C02
open Pptx Pptx.Pkg

structure Inv (s : St) : Prop where
  ids_nodup : (ids s).Nodup
  names_nodup : (names s).Nodup                                   -- part names unique in the package
  refs_ok : ∀ p ∈ s, ∀ r ∈ p.refs, r ∈ keys p                       -- every r:* id used is a relationship of that part
  tgts_ok : ∀ p ∈ s, ∀ e ∈ p.rels, ∀ t, e.2 = Tgt.int t → t ∈ ids s  -- every internal target is a part of the package

theorem ids_upd (s : St) (i : Nat) (f : PartRec → PartRec) (hf : ∀ p, (f p).id = p.id) :
    ids (upd s i f) = ids s := by
  simp only [ids, upd, List.map_map]
  apply List.map_congr_left
  intro p _; simp only [Function.comp]; split <;> simp [hf]

theorem names_upd (s : St) (i : Nat) (f : PartRec → PartRec) (hf : ∀ p, (f p).name = p.name) :
    names (upd s i f) = names s := by
  simp only [names, upd, List.map_map]
  apply List.map_congr_left
  intro p _; simp only [Function.comp]; split <;> simp [hf]

theorem mem_upd (s : St) (i : Nat) (f : PartRec → PartRec) (q : PartRec) (h : q ∈ upd s i f) :
    (q ∈ s ∧ q.id ≠ i) ∨ ∃ p ∈ s, p.id = i ∧ q = f p := by
  simp only [upd, List.mem_map] at h
  obtain ⟨p, hp, e⟩ := h
  by_cases hi : p.id = i
  · right; exact ⟨p, hp, hi, by simp [hi] at e; exact e.symm⟩
  · left; simp [hi] at e; subst e; exact ⟨hp, hi⟩

theorem allB_id {s : St} {i : Nat} {P : PartRec → Bool}
    (h : (s.all fun p => p.id != i || P p) = true) (p : PartRec) (hp : p ∈ s) (hi : p.id = i) :
    P p = true := by
  have := List.all_eq_true.mp h p hp
  simpa [hi] using this

/-- invariant preservation for a change that touches only relationships / references of part `i` -/
theorem inv_upd (s : St) (i : Nat) (f : PartRec → PartRec) (inv : Inv s)
    (hid : ∀ p, (f p).id = p.id) (hname : ∀ p, (f p).name = p.name)
    (hrefs : ∀ p ∈ s, p.id = i → ∀ r ∈ (f p).refs, r ∈ keys (f p))
    (htg : ∀ p ∈ s, p.id = i → ∀ e ∈ (f p).rels, ∀ t, e.2 = Tgt.int t → t ∈ ids s) :
    Inv (upd s i f) := by
  refine ⟨by rw [ids_upd s i f hid]; exact inv.ids_nodup,
          by rw [names_upd s i f hname]; exact inv.names_nodup, ?_, ?_⟩
  · intro q hq r hr
    rcases mem_upd s i f q hq with ⟨h1, _⟩ | ⟨p, hp, hi, e⟩
    · exact inv.refs_ok q h1 r hr
    · subst e; exact hrefs p hp hi r hr
  · intro q hq e he t ht
    rw [ids_upd s i f hid]
    rcases mem_upd s i f q hq with ⟨h1, _⟩ | ⟨p, hp, hi, e'⟩
    · exact inv.tgts_ok q h1 e he t ht
    · subst e'; exact htg p hp hi e he t ht

theorem tgtOk_mem (s : St) (t : Nat) (h : tgtOk s (Tgt.int t) = true) : t ∈ ids s := by
  simpa [tgtOk] using h

/-- **One well-formed delta keeps the package graph closed.** -/
theorem step_inv (s : St) (d : Delta) (inv : Inv s) (h : wf s d = true) : Inv (app s d) := by
  cases d with
  | addPart i n =>
    simp only [wf, Bool.and_eq_true, Bool.not_eq_true'] at h
    have hi : i ∉ ids s := by simpa using h.1
    have hn : n ∉ names s := by simpa using h.2
    simp only [app]
    refine ⟨?_, ?_, ?_, ?_⟩
    · simp only [ids, List.map_append, List.map_cons, List.map_nil]
      rw [List.nodup_append]
      exact ⟨inv.ids_nodup, by simp, by intro a ha b hb; simp at hb; subst hb; intro e; subst e; exact hi ha⟩
    · simp only [names, List.map_append, List.map_cons, List.map_nil]
      rw [List.nodup_append]
      exact ⟨inv.names_nodup, by simp, by intro a ha b hb; simp at hb; subst hb; intro e; subst e; exact hn ha⟩
    · intro p hp r hr
      rcases List.mem_append.mp hp with h1 | h1
      · exact inv.refs_ok p h1 r hr
      · simp at h1; subst h1; simp at hr
    · intro p hp e he t ht
      simp only [ids, List.map_append, List.mem_append]
      rcases List.mem_append.mp hp with h1 | h1
      · left; exact inv.tgts_ok p h1 e he t ht
      · simp at h1; subst h1; simp at he
  | rename l =>
    simp only [wf, decide_eq_true_eq] at h
    simp only [app]
    refine ⟨?_, ?_, ?_, ?_⟩
    · simp only [ids, List.map_map]; exact inv.ids_nodup
    · simp only [names, List.map_map]; exact h
    · intro q hq r hr
      obtain ⟨p, hp, rfl⟩ := List.mem_map.mp hq
      exact inv.refs_ok p hp r hr
    · intro q hq e he t ht
      obtain ⟨p, hp, rfl⟩ := List.mem_map.mp hq
      have := inv.tgts_ok p hp e he t ht
      simpa [ids, List.map_map] using this
  | addRel i rid t =>
    simp only [wf, Bool.and_eq_true] at h
    simp only [app]
    apply inv_upd s i (fun p => { p with rels := p.rels ++ [(rid, t)] }) inv (fun _ => rfl) (fun _ => rfl)
    · intro p hp _ r hr
      have := inv.refs_ok p hp r hr
      simp only [keys, List.map_append, List.mem_append]; left; exact this
    · intro p hp _ e he u hu
      rcases List.mem_append.mp he with h1 | h1
      · exact inv.tgts_ok p hp e h1 u hu
      · simp at h1; subst h1; simp at hu; subst hu; exact tgtOk_mem s u h.1.2
  | retarget i rid t =>
    simp only [wf, Bool.and_eq_true] at h
    simp only [app]
    apply inv_upd s i (fun p => { p with rels := p.rels.map fun e => if e.1 = rid then (rid, t) else e }) inv (fun _ => rfl) (fun _ => rfl)
    · intro p hp _ r hr
      have := inv.refs_ok p hp r hr
      simp only [keys, List.map_map] at this ⊢
      obtain ⟨e, he, rfl⟩ := List.mem_map.mp this
      apply List.mem_map.mpr
      refine ⟨e, he, ?_⟩
      simp only [Function.comp]; split
      · rename_i h1; exact h1.symm
      · rfl
    · intro p hp _ e he u hu
      obtain ⟨e0, he0, rfl⟩ := List.mem_map.mp he
      split at hu
      · simp at hu; subst hu; exact tgtOk_mem s u h.1.2
      · exact inv.tgts_ok p hp e0 he0 u hu
  | addRef i rid =>
    simp only [wf, Bool.and_eq_true] at h
    simp only [app]
    apply inv_upd s i (fun p => { p with refs := rid :: p.refs }) inv (fun _ => rfl) (fun _ => rfl)
    · intro p hp hi r hr
      rcases List.mem_cons.mp hr with e | e
      · subst e
        have := allB_id h.2 p hp hi
        simpa [keys] using this
      · exact inv.refs_ok p hp r e
    · intro p hp _ e he u hu; exact inv.tgts_ok p hp e he u hu
  | dropRef i rid =>
    simp only [app]
    apply inv_upd s i (fun p => { p with refs := p.refs.erase rid }) inv (fun _ => rfl) (fun _ => rfl)
    · intro p hp _ r hr; exact inv.refs_ok p hp r (List.mem_of_mem_erase hr)
    · intro p hp _ e he u hu; exact inv.tgts_ok p hp e he u hu
  | dropRel i rid =>
    simp only [wf, Bool.and_eq_true] at h
    simp only [app]
    apply inv_upd s i (fun p => { p with rels := p.rels.filter fun e => e.1 != rid }) inv (fun _ => rfl) (fun _ => rfl)
    · intro p hp hi r hr
      have hk := inv.refs_ok p hp r hr
      have hne : r ≠ rid := by
        intro e; subst e
        have := allB_id h.2 p hp hi
        simp at this; exact this hr
      simp only [keys] at hk ⊢
      obtain ⟨e, he, rfl⟩ := List.mem_map.mp hk
      exact List.mem_map.mpr ⟨e, List.mem_filter.mpr ⟨he, by simpa using hne⟩, rfl⟩
    · intro p hp _ e he u hu; exact inv.tgts_ok p hp e (List.mem_filter.mp he).1 u hu
  | dropParts is =>
    simp only [wf, Bool.and_eq_true] at h
    simp only [app]
    have hsub : ∀ p, p ∈ s.filter (fun p => !is.contains p.id) → p ∈ s ∧ is.contains p.id = false := by
      intro p hp; have := List.mem_filter.mp hp; exact ⟨this.1, by simpa using this.2⟩
    refine ⟨?_, ?_, ?_, ?_⟩
    · simp only [ids]; exact List.Nodup.sublist (List.Sublist.map _ (List.filter_sublist)) inv.ids_nodup
    · simp only [names]; exact List.Nodup.sublist (List.Sublist.map _ (List.filter_sublist)) inv.names_nodup
    · intro p hp r hr; exact inv.refs_ok p (hsub p hp).1 r hr
    · intro p hp e he t ht
      obtain ⟨hps, hpi⟩ := hsub p hp
      have hts := inv.tgts_ok p hps e he t ht
      -- the target is not among the dropped parts: no remaining part refers to them
      have hne : is.contains t = false := by
        have := List.all_eq_true.mp h.2 p hps
        simp only [Bool.or_eq_true] at this
        rcases this with h1 | h1
        · rw [hpi] at h1; cases h1
        · have := List.all_eq_true.mp h1 e he
          rw [ht] at this; simpa using this
      obtain ⟨q, hq, e2⟩ := List.mem_map.mp hts
      have hne' : ¬ t ∈ is := by simpa using hne
      exact List.mem_map.mpr ⟨q, List.mem_filter.mpr ⟨hq, by simp [e2, hne']⟩, e2⟩

/-- **Every prefix of every history**: if every step's deltas are well-formed (checked one by one,
    in order), the package graph is closed after each of them — in particular at every point where
    the history saves. -/
theorem run_inv (ds : List Delta) (s s' : St) (k : Nat) (inv : Inv s) (h : runD s ds k = .ok s') :
    Inv s' := by
  induction ds generalizing s k with
  | nil => simp [runD] at h; subst h; exact inv
  | cons d rest ih =>
    simp only [runD] at h
    split at h
    · rename_i hw; exact ih (app s d) (k + 1) (step_inv s d inv hw) h
    · cases h

theorem invB_sound (s : St) (h : invB s = true) : Inv s := by
  simp only [invB, Bool.and_eq_true, decide_eq_true_eq] at h
  obtain ⟨⟨⟨h1, h2⟩, h3⟩, h4⟩ := h
  refine ⟨h1, h2, ?_, ?_⟩
  · intro p hp r hr
    have := List.all_eq_true.mp (List.all_eq_true.mp h3 p hp) r hr
    simpa using this
  · intro p hp e he t ht
    have := List.all_eq_true.mp (List.all_eq_true.mp h4 p hp) e he
    rw [ht] at this; exact tgtOk_mem s t this

/-! ### slide part numbering (`rename_slide_parts`, `_next_slide_partname`) -/

theorem addSlide_eq (n k : Nat) :
    addSlide { listed := List.range' 1 n, unlisted := List.range' (n + 1) k } =
      { listed := List.range' 1 (n + 1), unlisted := List.range' (n + 2) k } := by
  unfold addSlide
  by_cases hk : k = 0
  · subst hk
    simp [nextSlideNumber, List.range'_concat]; omega
  · simp [hk, nextSlideNumber, renameSlides, List.range'_concat]; omega

theorem numbersAfter_eq (n k j : Nat) :
    numbersAfter n k j = { listed := List.range' 1 (n + j), unlisted := List.range' (n + j + 1) k } := by
  induction j with
  | zero => simp [numbersAfter, renamedNumbers, renameSlides]
  | succ j ih =>
    simp only [numbersAfter, ih]
    rw [addSlide_eq]
    rfl

/-- **Slide parts are named slide1..n in presentation order and no two slide parts ever share a name**: after the
    renaming at the first access to the slide collection and any number of added slides, the listed slide parts hold
    exactly 1..n+j in list order, all numbers in use (listed and unlisted) are pairwise distinct, and the number the next
    new slide gets is taken by no listed part and - once `add_slide` has moved the unlisted parts up - by no part at
    all; this also when the package holds slide parts that are not in the slide-id list -/
theorem slide_numbers_nodup (n k j : Nat) :
    (numbersAfter n k j).listed = List.range' 1 (n + j) ∧
    ((numbersAfter n k j).listed ++ (numbersAfter n k j).unlisted).Nodup ∧
    nextSlideNumber (numbersAfter n k j) ∉ (numbersAfter n k j).listed ∧
    nextSlideNumber (numbersAfter n k j) ∉
      (numbersAfter n k (j + 1)).listed.dropLast ++ (numbersAfter n k (j + 1)).unlisted := by
  rw [numbersAfter_eq, numbersAfter_eq]
  refine ⟨rfl, ?_, ?_, ?_⟩
  · have : List.range' 1 (n + j) ++ List.range' (n + j + 1) k = List.range' 1 (n + j + k) := by
      rw [show n + j + 1 = 1 + (n + j) by omega, List.range'_append_1]
    rw [this]; exact List.nodup_range'
  · simp only [nextSlideNumber, List.length_range', List.mem_range'_1]; omega
  · simp only [nextSlideNumber, List.length_range']
    rw [show n + (j + 1) = (n + j) + 1 by omega, List.range'_concat, List.dropLast_concat]
    simp only [List.mem_append, List.mem_range'_1]
    omega

/-- before the `fix:` the unlisted parts kept their old numbers and the next slide got `n + j + 1`: with one unlisted
    part numbered 3 in a deck of two listed slides the new slide collides with it -/
example : (2 + 0 + 1 : Nat) ∈ [1, 2, 3] := by decide

example : numbersAfter 2 1 2 = { listed := [1, 2, 3, 4], unlisted := [5] } := by decide

/-- non-vacuity and the classic way to break closure: a relationship dropped while its id is still
    referenced is NOT a well-formed step -/
def demo : St :=
  [{ id := 0, name := ['/'], rels := [("rId1".toList, .int 1)], refs := [] },
   { id := 1, name := "/ppt/presentation.xml".toList, rels := [("rId2".toList, .int 2)], refs := ["rId2".toList] },
   { id := 2, name := "/ppt/slides/slide1.xml".toList, rels := [("rId1".toList, .ext)],
     refs := ["rId1".toList, "rId1".toList] }]

example : invB demo = true := by decide
example : wf demo (.dropRel 2 "rId1".toList) = false := by decide
example : wf (app demo (.dropRef 2 "rId1".toList)) (.dropRel 2 "rId1".toList) = false := by decide
example : (runD demo [.addPart 3 "/ppt/media/image1.png".toList, .addRel 2 "rId2".toList (.int 3),
    .addRef 2 "rId2".toList] 0).toOption.isSome = true := by decide

end Pptx.C02
