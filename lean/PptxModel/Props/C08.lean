/-
  C08 — the chart's cached values and its embedded workbook agree cell for cell (layout).
  Model: `Model/ChartData.lean`.
-/
import PptxModel.Model.ChartData
namespace Pptx.C08
open Pptx Pptx.ChartData

theorem toNat_ofNat_small (n : Nat) (h : n < 0xd800) : (Char.ofNat n).toNat = n := by
  have hv : n.isValidChar := Or.inl h
  rw [Char.ofNat, dif_pos hv]
  simp [Char.ofNatAux, Char.toNat]

theorem colNum_foldl (acc : Nat) (s : Str) :
    s.foldl (fun a c => a * 26 + (c.toNat - 64)) acc = acc * 26 ^ s.length + colNum s := by
  induction s generalizing acc with
  | nil => simp [colNum]
  | cons c t ih =>
    simp only [List.foldl_cons, colNum, List.length_cons]
    rw [ih (acc * 26 + (c.toNat - 64)), ih (0 * 26 + (c.toNat - 64))]
    simp only [Nat.zero_mul, Nat.zero_add, Nat.pow_succ]
    rw [Nat.add_mul, Nat.mul_assoc, Nat.mul_comm 26, Nat.add_assoc]

theorem colNum_cons (c : Char) (t : Str) : colNum (c :: t) = (c.toNat - 64) * 26 ^ t.length + colNum t := by
  have := colNum_foldl (0 * 26 + (c.toNat - 64)) t
  simp only [Nat.zero_mul, Nat.zero_add] at this
  simpa [colNum] using this

theorem colRefAux_spec (fuel n : Nat) (acc : Str) (h : n ≤ fuel) :
    colNum (colRefAux fuel n acc) = n * 26 ^ acc.length + colNum acc := by
  induction fuel generalizing n acc with
  | zero =>
    have : n = 0 := by omega
    subst this; simp [colRefAux]
  | succ f ih =>
    simp only [colRefAux]
    by_cases hn : n = 0
    · subst hn; simp
    · simp only [hn, if_false]
      have hr : 1 ≤ (if n % 26 = 0 then 26 else n % 26) ∧ (if n % 26 = 0 then 26 else n % 26) ≤ 26 := by
        split <;> omega
      generalize hrdef : (if n % 26 = 0 then 26 else n % 26) = r at hr
      have hdecomp : n = 26 * ((n - 1) / 26) + r := by
        rw [← hrdef]; split <;> omega
      have hle : (n - 1) / 26 ≤ f := by omega
      rw [ih ((n - 1) / 26) _ hle, colNum_cons, toNat_ofNat_small (64 + r) (by omega)]
      simp only [List.length_cons, Nat.pow_succ, Nat.add_sub_cancel_left]
      generalize (n - 1) / 26 = q at *
      generalize 26 ^ acc.length = P
      subst hdecomp
      rw [Nat.add_mul, Nat.mul_comm P 26, ← Nat.mul_assoc, Nat.mul_comm q 26, Nat.add_assoc]

/-- **Column letters are exact for every column**: the letters computed for column `n` name column
    `n`, for all `n` (beyond Z, ZZ, any length) — so references of different series never collide -/
theorem colNum_colRef (n : Nat) : colNum (colRef n) = n := by
  have := colRefAux_spec n n [] (Nat.le_refl _)
  simpa [colRef, colNum] using this

theorem colRef_injective (m n : Nat) (h : colRef m = colRef n) : m = n := by
  have := congrArg colNum h
  rwa [colNum_colRef, colNum_colRef] at this

/-- **Every value reference addresses exactly the cells written** (category charts): for every
    category depth, series position and length, position `i` of the `values_ref` range is the
    cell `_write_series` wrote value `i` to, the range has as many rows as there are values, and
    the series-name reference is the cell the name was written to. -/
theorem values_ref_matches_cells (depth j len i : Nat) (hi : i < len) :
    let (col, top, bottom) := valuesRef depth j len
    excelAddr (writeValueCell depth j i) = (col, top + i) ∧ bottom + 1 - top = len
      ∧ excelAddr (0, depth + j) = seriesNameRef depth j := by
  simp only [valuesRef, excelAddr, writeValueCell, seriesColNumber, seriesNameRef]
  refine ⟨?_, by omega, ?_⟩
  · rw [show depth + j + 1 = 1 + depth + j by omega, show 1 + i + 1 = 2 + i by omega]
  · rw [show depth + j + 1 = 1 + depth + j by omega]

/-- categories at every depth: level `lvl` (0 = leaf level) is written to the column the
    categories reference spans down to, rows 2 .. leafCount+1 -/
theorem categories_ref_matches_cells (depth leafCount lvl off : Nat) (hl : lvl < depth) (ho : off < leafCount) :
    let (_, top, _, bottom) := categoriesRef depth leafCount
    let cell := writeCatCell depth lvl off
    top ≤ cell.1 + 1 ∧ cell.1 + 1 ≤ bottom ∧ cell.2 + 1 ≤ depth ∧ 1 ≤ cell.2 + 1 := by
  simp only [categoriesRef, writeCatCell]; omega

/-- **XY / bubble charts with unequal lengths**: the row offsets accumulate over the preceding
    series so that the tables of different series never overlap, and each reference covers
    exactly the rows its points were written to. -/
theorem xy_offsets (lens : List Nat) (j : Nat) (hj : j + 1 < lens.length + 1) :
    xyRowOffset lens (j + 1) = xyRowOffset lens j + lens.getD j 0 + 2 := by
  simp only [xyRowOffset]
  have hj' : j < lens.length := by omega
  have : (lens.take (j + 1)).sum = (lens.take j).sum + lens.getD j 0 := by
    rw [List.take_succ, List.sum_append]
    simp [List.getElem?_eq_getElem hj', List.getD_eq_getElem?_getD]
  omega

theorem xy_ref_matches_cells (lens : List Nat) (j i : Nat) (hi : i < lens.getD j 0) :
    let (top, bottom) := xyRef lens j
    xyWriteRow lens j i + 1 = top + i ∧ bottom + 1 - top = lens.getD j 0 := by
  simp only [xyRef, xyWriteRow]; omega

example : colRef 1 = "A".toList ∧ colRef 26 = "Z".toList ∧ colRef 27 = "AA".toList ∧ colRef 702 = "ZZ".toList
    ∧ colRef 703 = "AAA".toList := by decide
example : xyRowOffset [3, 0, 2] 2 = 7 := by decide

end Pptx.C08
