/-
  C14 — tables stay rectangular and merges consistent.  Model: `Model/Table.lean`.
  The span attributes of a table reachable by merges and splits are a *rendering* of a set of
  pairwise disjoint rectangles (refinement); the property's clauses are corollaries.
-/
import PptxModel.Model.Table
namespace Pptx.C14
open Pptx Pptx.Table

/-- the attributes `_Cell.merge` gives the cell at `(r,c)` of region `S` -/
def flagsIn (S : Rect) (r c : Nat) : Flags :=
  ⟨if c = S.left then S.w else 1, if r = S.top then S.h else 1, decide (c ≠ S.left), decide (r ≠ S.top)⟩

/-- the grid's attributes are exactly the rendering of the region set -/
def Repr (F : Nat → Nat → Flags) (regs : List Rect) : Prop :=
  (∀ S ∈ regs, ∀ r c, S.mem r c → F r c = flagsIn S r c) ∧
  (∀ r c, (∀ S ∈ regs, ¬ S.mem r c) → F r c = plain)

def Disj (regs : List Rect) : Prop :=
  regs.Pairwise fun A B => ∀ r c, ¬ (A.mem r c ∧ B.mem r c)

/-- a real merged region: at least 1×1 and more than one cell -/
def Big (S : Rect) : Prop := 1 ≤ S.h ∧ 1 ≤ S.w ∧ (1 < S.h ∨ 1 < S.w)

structure Inv (F : Nat → Nat → Flags) (regs : List Rect) : Prop where
  repr : Repr F regs
  disj : Disj regs
  big : ∀ S ∈ regs, Big S

def nonDefault (f : Flags) : Bool :=
  decide (f.gridSpan > 1) || decide (f.rowSpan > 1) || f.hMerge || f.vMerge

theorem nonDefault_plain : nonDefault plain = false := by decide

theorem nonDefault_flagsIn (S : Rect) (r c : Nat) (hb : Big S) (hm : S.mem r c) :
    nonDefault (flagsIn S r c) = true := by
  obtain ⟨h1, h2, h3⟩ := hb
  simp only [nonDefault, flagsIn]
  by_cases hc : c = S.left <;> by_cases hr : r = S.top <;> simp [hc, hr]
  rcases h3 with h | h
  · right; exact h
  · left; exact h

theorem mem_cells (R : Rect) (r c : Nat) : (r, c) ∈ R.cells ↔ R.mem r c := by
  simp only [Rect.cells, List.mem_flatMap, List.mem_map, List.mem_range, Prod.mk.injEq, Rect.mem]
  constructor
  · rintro ⟨dr, hdr, dc, hdc, e1, e2⟩; omega
  · intro h
    exact ⟨r - R.top, by omega, c - R.left, by omega, by omega, by omega⟩

theorem containsMerged_iff (F : Nat → Nat → Flags) (R : Rect) :
    containsMerged F R = true ↔ ∃ r c, R.mem r c ∧ nonDefault (F r c) = true := by
  simp only [containsMerged, List.any_eq_true]
  constructor
  · rintro ⟨⟨r, c⟩, hm, hn⟩
    exact ⟨r, c, (mem_cells R r c).mp hm, by simpa [nonDefault] using hn⟩
  · rintro ⟨r, c, hm, hn⟩
    exact ⟨(r, c), (mem_cells R r c).mpr hm, by simpa [nonDefault] using hn⟩

/-- under the invariant a cell carries a non-default attribute iff it lies in a region -/
theorem nonDefault_iff {F : Nat → Nat → Flags} {regs : List Rect} (inv : Inv F regs) (r c : Nat) :
    nonDefault (F r c) = true ↔ ∃ S ∈ regs, S.mem r c := by
  constructor
  · intro h
    apply Classical.byContradiction
    intro hno
    have : F r c = plain := inv.repr.2 r c (fun S hS hm => hno ⟨S, hS, hm⟩)
    rw [this, nonDefault_plain] at h; cases h
  · rintro ⟨S, hS, hm⟩
    rw [inv.repr.1 S hS r c hm]; exact nonDefault_flagsIn S r c (inv.big S hS) hm

/-- **A merge is refused exactly when its range overlaps an existing merged region.** -/
theorem merge_refused_iff_overlap {F : Nat → Nat → Flags} {regs : List Rect} (inv : Inv F regs)
    (R : Rect) :
    containsMerged F R = true ↔ ∃ S ∈ regs, ∃ r c, S.mem r c ∧ R.mem r c := by
  rw [containsMerged_iff]
  constructor
  · rintro ⟨r, c, hm, hn⟩
    obtain ⟨S, hS, hSm⟩ := (nonDefault_iff inv r c).mp hn
    exact ⟨S, hS, r, c, hSm, hm⟩
  · rintro ⟨S, hS, r, c, hSm, hm⟩
    exact ⟨r, c, hm, (nonDefault_iff inv r c).mpr ⟨S, hS, hSm⟩⟩

theorem mergeFlagsAt_plain (R : Rect) (r c : Nat) : mergeFlagsAt R r c plain = flagsIn R r c := by
  simp only [mergeFlagsAt, flagsIn, plain]
  by_cases hc : c = R.left <;> by_cases hr : r = R.top <;> simp [hc, hr]

/-- **An accepted merge adds exactly its rectangle to the region set** (nothing when the range is
    a single cell) and keeps the invariant. -/
theorem merge_inv {F : Nat → Nat → Flags} {regs : List Rect} (inv : Inv F regs) (R : Rect)
    (hh : 1 ≤ R.h) (hw : 1 ≤ R.w) (hok : containsMerged F R = false) :
    Inv (mergeF F R) (if 1 < R.h ∨ 1 < R.w then R :: regs else regs) := by
  have hfree : ∀ S ∈ regs, ∀ r c, ¬ (R.mem r c ∧ S.mem r c) := by
    intro S hS r c ⟨h1, h2⟩
    have := (merge_refused_iff_overlap inv R).mpr ⟨S, hS, r, c, h2, h1⟩
    rw [hok] at this; cases this
  have hplain : ∀ r c, R.mem r c → F r c = plain := by
    intro r c hm
    exact inv.repr.2 r c (fun S hS hSm => hfree S hS r c ⟨hm, hSm⟩)
  by_cases hbig : 1 < R.h ∨ 1 < R.w
  · simp only [hbig, if_true]
    refine ⟨⟨?_, ?_⟩, ?_, ?_⟩
    · intro S hS r c hm
      rcases List.mem_cons.mp hS with e | hS'
      · subst e; simp only [mergeF, hm, if_true, hplain r c hm, mergeFlagsAt_plain]
      · have : ¬ R.mem r c := fun h => hfree S hS' r c ⟨h, hm⟩
        simp only [mergeF, this, if_false]; exact inv.repr.1 S hS' r c hm
    · intro r c hno
      have hR : ¬ R.mem r c := hno R (by simp)
      simp only [mergeF, hR, if_false]
      exact inv.repr.2 r c (fun S hS => hno S (by simp [hS]))
    · exact List.Pairwise.cons (fun S hS r c => hfree S hS r c) inv.disj
    · intro S hS
      rcases List.mem_cons.mp hS with e | hS'
      · subst e; exact ⟨hh, hw, hbig⟩
      · exact inv.big S hS'
  · simp only [hbig, if_false]
    -- a 1×1 range: the four loops assign the default values
    have h1 : R.h = 1 := by omega
    have w1 : R.w = 1 := by omega
    have hsame : ∀ r c, mergeF F R r c = F r c := by
      intro r c
      simp only [mergeF]
      split
      · rename_i hm
        rw [hplain r c hm, mergeFlagsAt_plain]
        have : r = R.top ∧ c = R.left := by unfold Rect.mem at hm; omega
        simp [flagsIn, plain, this.1, this.2, h1, w1]
      · rfl
    have : mergeF F R = F := by funext r c; exact hsame r c
    rw [this]; exact inv

/-- **Origin cells**: under the invariant `is_merge_origin` holds exactly at the top-left cell of
    a region, and there the reported spans are the region's height and width. -/
theorem origin_iff {F : Nat → Nat → Flags} {regs : List Rect} (inv : Inv F regs) (r c : Nat) :
    (F r c).isOrigin = true ↔ ∃ S ∈ regs, S.top = r ∧ S.left = c := by
  constructor
  · intro h
    have hn : nonDefault (F r c) = true := by
      simp only [Flags.isOrigin, Bool.or_eq_true, Bool.and_eq_true, decide_eq_true_eq] at h
      simp only [nonDefault, Bool.or_eq_true, decide_eq_true_eq]
      rcases h with h | h
      · left; left; left; exact h.1
      · left; left; right; exact h.1
    obtain ⟨S, hS, hm⟩ := (nonDefault_iff inv r c).mp hn
    refine ⟨S, hS, ?_⟩
    rw [inv.repr.1 S hS r c hm] at h
    simp only [Flags.isOrigin, flagsIn] at h
    by_cases hc : c = S.left <;> by_cases hr : r = S.top <;> simp [hc, hr] at h ⊢
  · rintro ⟨S, hS, e1, e2⟩
    obtain ⟨b1, b2, b3⟩ := inv.big S hS
    have hm : S.mem r c := by unfold Rect.mem; omega
    rw [inv.repr.1 S hS r c hm]
    simp only [Flags.isOrigin, flagsIn, e1, e2]
    rcases b3 with h | h <;> simp [h]

theorem origin_spans {F : Nat → Nat → Flags} {regs : List Rect} (inv : Inv F regs) (S : Rect)
    (hS : S ∈ regs) : (F S.top S.left).rowSpan = S.h ∧ (F S.top S.left).gridSpan = S.w := by
  obtain ⟨b1, b2, _⟩ := inv.big S hS
  have hm : S.mem S.top S.left := by unfold Rect.mem; omega
  rw [inv.repr.1 S hS _ _ hm]; simp [flagsIn]

/-- **Spanned cells**: `is_spanned` holds exactly at the non-origin cells of a region. -/
theorem spanned_iff {F : Nat → Nat → Flags} {regs : List Rect} (inv : Inv F regs) (r c : Nat) :
    (F r c).isSpanned = true ↔ ∃ S ∈ regs, S.mem r c ∧ ¬ (S.top = r ∧ S.left = c) := by
  constructor
  · intro h
    have hn : nonDefault (F r c) = true := by
      simp only [Flags.isSpanned, Bool.or_eq_true] at h
      simp only [nonDefault, Bool.or_eq_true]
      rcases h with h | h
      · left; right; exact h
      · right; exact h
    obtain ⟨S, hS, hm⟩ := (nonDefault_iff inv r c).mp hn
    refine ⟨S, hS, hm, ?_⟩
    rw [inv.repr.1 S hS r c hm] at h
    simp only [Flags.isSpanned, flagsIn, Bool.or_eq_true, decide_eq_true_eq] at h
    rintro ⟨e1, e2⟩; rcases h with h | h
    · exact h e2.symm
    · exact h e1.symm
  · rintro ⟨S, hS, hm, hne⟩
    rw [inv.repr.1 S hS r c hm]
    simp only [Flags.isSpanned, flagsIn, Bool.or_eq_true, decide_eq_true_eq]
    by_cases hc : c = S.left
    · right; intro hr; exact hne ⟨hr.symm, hc.symm⟩
    · left; exact hc

theorem pairwise_sym_mem {α : Type} {R : α → α → Prop} (hsym : ∀ a b, R a b → R b a)
    {l : List α} (h : l.Pairwise R) {a b : α} (ha : a ∈ l) (hb : b ∈ l) (hne : a ≠ b) :
    R a b := by
  induction h with
  | nil => cases ha
  | cons hx _ ih =>
    rcases List.mem_cons.mp ha with ea | ha' <;> rcases List.mem_cons.mp hb with eb | hb'
    · exact absurd (ea.trans eb.symm) hne
    · subst ea; exact hx b hb'
    · subst eb; exact hsym _ _ (hx a ha')
    · exact ih ha' hb'

/-- **Split removes exactly the region whose origin is split, restoring independent cells.** -/
theorem split_inv {F : Nat → Nat → Flags} {regs : List Rect} (inv : Inv F regs) (S : Rect)
    (hS : S ∈ regs) :
    Inv (splitF F S.top S.left) (regs.filter (· ≠ S))
      ∧ ∀ r c, S.mem r c → splitF F S.top S.left r c = plain := by
  obtain ⟨e1, e2⟩ := origin_spans inv S hS
  have hR : (⟨S.top, S.left, (F S.top S.left).rowSpan, (F S.top S.left).gridSpan⟩ : Rect) = S := by
    cases S; simp_all
  have hdisj : ∀ T ∈ regs, T ≠ S → ∀ r c, ¬ (S.mem r c ∧ T.mem r c) := by
    intro T hT hne
    exact pairwise_sym_mem (fun A B h r c hab => h r c ⟨hab.2, hab.1⟩) inv.disj hS hT
      (fun e => hne e.symm)
  refine ⟨⟨⟨?_, ?_⟩, ?_, ?_⟩, ?_⟩
  · intro T hT r c hm
    obtain ⟨hT', hne⟩ := List.mem_filter.mp hT
    have hne : T ≠ S := by simpa using hne
    have hnS : ¬ S.mem r c := fun h => hdisj T hT' hne r c ⟨h, hm⟩
    simp only [splitF, hR, hnS, if_false]
    exact inv.repr.1 T hT' r c hm
  · intro r c hno
    simp only [splitF, hR]
    split
    · rfl
    · rename_i hnS
      apply inv.repr.2 r c
      intro T hT hm
      by_cases hTS : T = S
      · subst hTS; exact hnS hm
      · exact hno T (List.mem_filter.mpr ⟨hT, by simpa using hTS⟩) hm
  · exact List.Pairwise.filter _ inv.disj
  · intro T hT; exact inv.big T (List.mem_filter.mp hT).1
  · intro r c hm
    simp only [splitF, hR, hm, if_true]

/-- a rejected operation changes nothing (merge refused, split of a non-origin cell, bad index) -/
theorem rejected_unchanged (t : Tbl) (op : Op) (h : (t.step op).2 ≠ none) : (t.step op).1 = t := by
  cases op with
  | merge r1 c1 r2 c2 =>
    simp only [Tbl.step] at h ⊢
    cases hm : t.merge r1 c1 r2 c2 with
    | ok t' => rw [hm] at h; simp at h
    | error e => rfl
  | split r c =>
    simp only [Tbl.step] at h ⊢
    cases hm : t.split r c with
    | ok t' => rw [hm] at h; simp at h
    | error e => rfl

theorem ofCorners_pos (r1 c1 r2 c2 : Nat) :
    1 ≤ (Rect.ofCorners r1 c1 r2 c2).h ∧ 1 ≤ (Rect.ofCorners r1 c1 r2 c2).w := by
  simp [Rect.ofCorners]

theorem merge_ok_inv (t t' : Tbl) (r1 c1 r2 c2 : Nat) (regs : List Rect) (inv : Inv t.F regs)
    (h : t.merge r1 c1 r2 c2 = .ok t') :
    (∃ regs', Inv t'.F regs') ∧ t'.rows = t.rows ∧ t'.cols = t.cols := by
  unfold Tbl.merge at h
  split at h
  · cases h
  · by_cases hc : containsMerged t.F (Rect.ofCorners r1 c1 r2 c2) = true
    · simp [hc] at h
    · have hc' : containsMerged t.F (Rect.ofCorners r1 c1 r2 c2) = false := by simpa using hc
      simp only [hc', Bool.false_eq_true, if_false] at h
      injection h with h; subst h
      obtain ⟨hh, hw⟩ := ofCorners_pos r1 c1 r2 c2
      exact ⟨⟨_, merge_inv inv _ hh hw hc'⟩, rfl, rfl⟩

theorem split_ok_inv (t t' : Tbl) (r c : Nat) (regs : List Rect) (inv : Inv t.F regs)
    (h : t.split r c = .ok t') :
    (∃ regs', Inv t'.F regs') ∧ t'.rows = t.rows ∧ t'.cols = t.cols := by
  unfold Tbl.split at h
  split at h
  · cases h
  · by_cases ho : (t.F r c).isOrigin = true
    · simp only [ho, Bool.not_true, Bool.false_eq_true, if_false] at h
      injection h with h; subst h
      obtain ⟨S, hS, e1, e2⟩ := (origin_iff inv r c).mp ho
      subst e1; subst e2
      exact ⟨⟨_, (split_inv inv S hS).1⟩, rfl, rfl⟩
    · have : (t.F r c).isOrigin = false := by simpa using ho
      simp [this] at h

/-- one operation keeps the invariant and the grid dimensions -/
theorem step_inv (t : Tbl) (op : Op) (regs : List Rect) (inv : Inv t.F regs) :
    (∃ regs', Inv (t.step op).1.F regs') ∧ (t.step op).1.rows = t.rows
      ∧ (t.step op).1.cols = t.cols := by
  cases op with
  | merge r1 c1 r2 c2 =>
    simp only [Tbl.step]
    cases hm : t.merge r1 c1 r2 c2 with
    | ok t' => exact merge_ok_inv t t' r1 c1 r2 c2 regs inv hm
    | error e => exact ⟨⟨regs, inv⟩, rfl, rfl⟩
  | split r c =>
    simp only [Tbl.step]
    cases hm : t.split r c with
    | ok t' => exact split_ok_inv t t' r c regs inv hm
    | error e => exact ⟨⟨regs, inv⟩, rfl, rfl⟩

theorem inv_new (rows cols : Nat) : Inv (Tbl.new rows cols).F [] :=
  ⟨⟨by simp, by intro r c _; rfl⟩, List.Pairwise.nil, by simp⟩

def run (t : Tbl) (ops : List Op) : Tbl := ops.foldl (fun t op => (t.step op).1) t

/-- **Any sequence of merges and splits** (accepted or refused, any length) on a new `r × c`
    table leaves a grid of the same dimensions whose span attributes are the rendering of a set
    of pairwise disjoint rectangles.  With `origin_iff`, `origin_spans`, `spanned_iff`,
    `merge_refused_iff_overlap` this gives every merge clause of the property at every point of
    every history. -/
theorem run_inv (rows cols : Nat) (ops : List Op) :
    (∃ regs, Inv (run (Tbl.new rows cols) ops).F regs)
      ∧ (run (Tbl.new rows cols) ops).rows = rows ∧ (run (Tbl.new rows cols) ops).cols = cols := by
  suffices h : ∀ (t : Tbl), (∃ regs, Inv t.F regs) →
      (∃ regs, Inv (run t ops).F regs) ∧ (run t ops).rows = t.rows ∧ (run t ops).cols = t.cols by
    simpa [Tbl.new] using h (Tbl.new rows cols) ⟨[], inv_new rows cols⟩
  induction ops with
  | nil => intro t h; exact ⟨h, rfl, rfl⟩
  | cons op rest ih =>
    intro t ⟨regs, inv⟩
    obtain ⟨h1, h2, h3⟩ := step_inv t op regs inv
    obtain ⟨g1, g2, g3⟩ := ih (t.step op).1 h1
    simp only [run, List.foldl_cons] at g1 g2 g3 ⊢
    exact ⟨g1, g2.trans h2, g3.trans h3⟩

/-- non-vacuity: a real merge, an overlapping merge that is refused, a split -/
example : ((Tbl.new 3 3).step (.merge 0 0 1 1)).2 = none := by decide
example : (((Tbl.new 3 3).step (.merge 1 1 0 0)).1.step (.merge 1 1 2 2)).2 = some .refused := by
  decide
example : ((((Tbl.new 3 3).step (.merge 1 1 0 0)).1.step (.split 0 0)).1.F 1 1) = plain := by decide

/-! ### sizes -/

theorem sumL_append_one (l : List Int) (x : Int) : sumL (l ++ [x]) = sumL l + x := by
  simp [sumL, List.foldl_append]

theorem sumL_const (m : Nat) (q : Int) (f : Nat → Int) (hf : ∀ i, i < m → f i = q) :
    sumL ((List.range m).map f) = m * q := by
  induction m with
  | zero => simp [sumL]
  | succ k ih =>
    rw [List.range_succ, List.map_append, List.map_singleton, sumL_append_one,
      ih (fun i hi => hf i (by omega)), hf k (by omega)]
    rw [Int.natCast_succ, Int.add_mul]; simp

/-- **Column widths (row heights) of a new table sum to the requested width (height)** for every
    count `n ≥ 1` and every total, divisible or not. -/
theorem new_sums (n : Nat) (total : Int) (hn : 0 < n) : sumL (newSizes n total) = total := by
  obtain ⟨m, rfl⟩ : ∃ m, n = m + 1 := ⟨n - 1, by omega⟩
  simp only [newSizes]
  rw [List.range_succ, List.map_append, List.map_singleton, sumL_append_one,
    sumL_const m (total / ((m + 1 : Nat) : Int)) _ (fun i hi => by simp; omega)]
  simp only [Int.natCast_succ, Int.add_sub_cancel, if_true]
  generalize total / ((m : Int) + 1) = q
  omega

theorem new_sizes_length (n : Nat) (total : Int) : (newSizes n total).length = n := by
  simp [newSizes]

example : newSizes 3 10 = [3, 3, 4] := by decide

/-! ### text -/

/-- the paragraphs a cell contributes to a merge: none when its body is the single empty one -/
def bodyParas (ps : Paras) : Paras := if isEmptyBody ps then [] else ps

theorem bodyParas_ne_single_empty (ps : Paras) : bodyParas ps ≠ [[]] := by
  simp only [bodyParas]; split
  · simp
  · rename_i h; simpa [isEmptyBody] using h

theorem fold_appendPs (srcs : List Paras) (acc : Paras) (hs : ∀ s ∈ srcs, s ≠ []) :
    srcs.foldl (fun acc s => (appendPsFrom acc s).1) acc =
      if srcs.flatMap bodyParas = [] then acc else bodyParas acc ++ srcs.flatMap bodyParas := by
  induction srcs generalizing acc with
  | nil => simp
  | cons s rest ih =>
    have hrest : ∀ x ∈ rest, x ≠ [] := fun x hx => hs x (by simp [hx])
    have hs0 : s ≠ [] := hs s (by simp)
    simp only [List.foldl_cons, List.flatMap_cons]
    rw [ih _ hrest]
    by_cases he : isEmptyBody s = true
    · simp [appendPsFrom, he, bodyParas]
    · have he' : isEmptyBody s = false := by simpa using he
      have hb : bodyParas s = s := by simp [bodyParas, he']
      -- the new accumulator
      have hacc : (appendPsFrom acc s).1 = bodyParas acc ++ s := by
        simp only [appendPsFrom, he', Bool.false_eq_true, if_false, bodyParas]
        have : (if isEmptyBody acc = true then [] else acc) ++ s ≠ [] := by simp [hs0]
        simp [this]
      have hne : bodyParas acc ++ s ≠ [] := by simp [hs0]
      have hfix : bodyParas (bodyParas acc ++ s) = bodyParas acc ++ s := by
        have : isEmptyBody (bodyParas acc ++ s) = false := by
          simp only [isEmptyBody, beq_eq_false_iff_ne, ne_eq]
          intro h
          rcases List.append_eq_cons_iff.mp h with ⟨h1, h2⟩ | ⟨a, h1, h2⟩
          · rw [h2] at he'; simp [isEmptyBody] at he'
          · have : s = [] := by
              have := List.append_eq_nil_iff.mp h2.symm; exact this.2
            exact hs0 this
        rw [bodyParas, this]; simp
      rw [hacc, hfix, hb]
      have : s ++ List.flatMap bodyParas rest ≠ [] := by simp [hs0]
      simp only [this, if_false]
      split
      · rename_i h0; simp [h0]
      · simp [List.append_assoc]

theorem cells_head (R : Rect) (hh : 1 ≤ R.h) (hw : 1 ≤ R.w) :
    R.cells = (R.top, R.left) :: R.cells.drop 1 := by
  obtain ⟨h', eh⟩ : ∃ k, R.h = k + 1 := ⟨R.h - 1, by omega⟩
  obtain ⟨w', ew⟩ : ∃ k, R.w = k + 1 := ⟨R.w - 1, by omega⟩
  simp only [Rect.cells, eh, ew, List.range_succ_eq_map, List.flatMap_cons, List.map_cons]
  simp

/-- **All text present before a merge is in the origin cell afterwards, in reading order**: the
    origin's paragraphs become the concatenation, over the range's cells left-to-right,
    top-to-bottom, of every non-empty cell's paragraphs (unchanged when no other cell has text),
    and every other cell of the range is left with a single empty paragraph. -/
theorem text_preserved (P : Nat → Nat → Paras) (R : Rect) (hh : 1 ≤ R.h) (hw : 1 ≤ R.w)
    (hP : ∀ r c, P r c ≠ []) :
    moveContent P R R.top R.left =
      (if (R.cells.drop 1).flatMap (fun rc => bodyParas (P rc.1 rc.2)) = [] then P R.top R.left
       else R.cells.flatMap (fun rc => bodyParas (P rc.1 rc.2)))
    ∧ ∀ r c, R.mem r c → ¬ (r = R.top ∧ c = R.left) → moveContent P R r c = [[]] := by
  constructor
  · simp only [moveContent, and_self, if_true]
    have := fold_appendPs ((R.cells.drop 1).map fun rc => P rc.1 rc.2) (P R.top R.left)
      (by intro s hs; obtain ⟨rc, _, e⟩ := List.mem_map.mp hs; rw [← e]; exact hP _ _)
    rw [List.foldl_map] at this
    rw [this, List.flatMap_map]
    split
    · rfl
    · conv => rhs; rw [cells_head R hh hw]
      simp [List.flatMap_cons]
  · intro r c hm hne
    simp only [moveContent, hne, if_false, hm, if_true, appendPsFrom]
    split
    · rename_i h; simpa [isEmptyBody] using h
    · rfl

/-! ### "changing a row height or column width keeps the frame size equal to the sum" -/

/-- an accepted assignment: the frame is the sum of the items, the item reads the value, every other item is untouched,
    and both the value and the sum are writable -/
theorem setItem_spec (s s' : Sizes) (i : Nat) (v : Int) (h : setItem s i v = some s') :
    s'.frame = sumL s'.items ∧ s'.items = s.items.set i v ∧ i < s.items.length ∧ coordOk v = true ∧ posOk s'.frame = true := by
  unfold setItem at h
  split at h
  · rename_i hc
    simp only [] at h
    split at h
    · rename_i hp
      simp only [Option.some.injEq] at h
      subst h
      exact ⟨rfl, rfl, hc.1, hc.2, hp⟩
    · simp at h
  · simp at h

/-- refused exactly when the index, the value or the resulting total is out of range -/
theorem setItem_none_iff (s : Sizes) (i : Nat) (v : Int) :
    setItem s i v = none ↔ ¬ (i < s.items.length ∧ coordOk v = true ∧ posOk (sumL (s.items.set i v)) = true) := by
  unfold setItem
  by_cases hc : i < s.items.length ∧ coordOk v = true
  · simp only [hc, and_self, if_true]
    by_cases hp : posOk (sumL (s.items.set i v)) = true
    · simp [hp, hc]
    · simp [hp]
  · simp only [hc, if_false, true_iff]
    intro h; exact hc ⟨h.1, h.2.1⟩

/-- any history of assignments, accepted and refused: the frame equals the sum of the items at every point where it did at
    the start (a new table: `new_sums`) -/
theorem runSizes_frame (s : Sizes) (ops : List (Nat × Int)) (h : s.frame = sumL s.items) :
    (runSizes s ops).frame = sumL (runSizes s ops).items := by
  unfold runSizes
  induction ops generalizing s with
  | nil => exact h
  | cons op ops ih =>
    simp only [List.foldl_cons]
    apply ih
    unfold stepSizes
    cases hs : setItem s op.1 op.2 with
    | none => simpa using h
    | some s' => simpa using (setItem_spec s s' op.1 op.2 hs).1

/-- a refused assignment changes nothing -/
theorem stepSizes_refused (s : Sizes) (op : Nat × Int) (h : setItem s op.1 op.2 = none) : stepSizes s op = s := by
  simp [stepSizes, h]

example : setItem ⟨[500, -1], 499⟩ 0 0 = none ∧ setItem ⟨[500, 500], 1000⟩ 1 (-1) = some ⟨[500, -1], 499⟩ := by decide

end Pptx.C14
