/-
  Model for C05: what an XML parser reads back from a caller string that was spliced into an XML
  template after a per-character escaping map σ.  Two contexts: the value of a double-quoted
  attribute, and character data.  The reader is a small lexer for exactly these contexts
  (XML 1.0: entity and character references, attribute-value normalisation §3.3.3, line-end
  normalisation §2.11, the `]]>` rule §2.4).
-/
import PptxModel.Model.Str
namespace Pptx.Escape
open Pptx

inductive Ctx | attr | text
deriving DecidableEq, Repr

/-- lexer state: outside a reference (with the number of immediately preceding `]`, capped at 2),
    or inside `&…;` with the reference name so far (reversed) -/
inductive LexSt
  | normal (brackets : Nat)
  | ref (acc : Str)
deriving DecidableEq, Repr

/-- value of a reference name: the five predefined entities and decimal / hex character references -/
def refVal (name : Str) : Option Char :=
  if name = "lt".toList then some '<'
  else if name = "gt".toList then some '>'
  else if name = "amp".toList then some '&'
  else if name = "quot".toList then some '"'
  else if name = "apos".toList then some '\''
  else match name with
    | '#' :: 'x' :: hex =>
        if hex.isEmpty then none else
        hex.foldl (fun acc c => acc.bind fun n =>
          if c.isDigit then some (n * 16 + (c.toNat - 48))
          else if 'a' ≤ c ∧ c ≤ 'f' then some (n * 16 + (c.toNat - 87))
          else if 'A' ≤ c ∧ c ≤ 'F' then some (n * 16 + (c.toNat - 55)) else none) (some 0) |>.map Char.ofNat
    | '#' :: ds => if !ds.isEmpty && ds.all Char.isDigit then some (Char.ofNat (digitsVal ds)) else none
    | _ => none

/-- one character of input: new state and the characters delivered to the application;
    `none` = not well-formed here, or the template's own delimiter was hit inside the value -/
def lexStep (ctx : Ctx) : LexSt → Char → Option (LexSt × Str)
  | .ref acc, c => if c = ';' then (refVal acc.reverse).map fun v => (.normal 0, [v])
                   else some (.ref (c :: acc), [])
  | .normal k, c =>
    if c = '&' then some (.ref [], [])
    else if c = '<' then none
    else if c = '"' ∧ ctx = .attr then none                      -- would close the attribute
    else if c = '>' ∧ ctx = .text ∧ k ≥ 2 then none               -- `]]>` in character data
    else if c = '\r' then some (.normal 0, [if ctx = .attr then ' ' else '\n'])
    else if (c = '\n' ∨ c = '\t') ∧ ctx = .attr then some (.normal 0, [' '])
    else if c = ']' then some (.normal (min 2 (k + 1)), [c])
    else some (.normal 0, [c])

def lexRun (ctx : Ctx) : LexSt → Str → Option (LexSt × Str)
  | st, [] => some (st, [])
  | st, c :: rest =>
    match lexStep ctx st c with
    | none => none
    | some (st', out) =>
      match lexRun ctx st' rest with
      | none => none
      | some (st'', out') => some (st'', out ++ out')

/-- the per-character escaping map of a sink: a finite table, identity elsewhere -/
def sigma (tbl : List (Char × Str)) (c : Char) : Str := (tbl.lookup c).getD [c]

/-- the characters on which the lexer is not the identity in some state -/
def specials : List Char := ['&', '<', '>', '"', '\'', '\t', '\n', '\r', ']']

def nextK (c : Char) (k : Nat) : Nat := if c = ']' then min 2 (k + 1) else 0

/-- a table is safe for a context when, from every bracket state, each special character is
    rendered to something the lexer reads back as exactly that character -/
def safeTbl (ctx : Ctx) (tbl : List (Char × Str)) : Bool :=
  (tbl.map (·.1)).all (fun c => specials.contains c) &&
  specials.all fun c => [0, 1, 2].all fun k =>
    lexRun ctx (.normal k) (sigma tbl c) == some (.normal (nextK c k), [c])

end Pptx.Escape
