/-
  C02 — what three public-API operations DO to the package graph, predicted (not observed):

  * `addSlide`    `PresentationPart.add_slide` / `SlidePart.new`: a slide part named after the slide-id list, related to its
                  layout under rId1, related from the presentation part under `_next_rId`, named by a new `p:sldId/@r:id`
  * `addPicture`  `SlidePart.get_or_add_image_part` + `relate_to` + `a:blip/@r:embed`: an image part is added only when no
                  part holds these bytes yet (name: `/ppt/media/image<first free index>.<ext>`), the relationship is re-used
                  when the slide already has one to that part
  * `addChart`    `ChartPart.new` + `EmbeddedXlsxPart.new` + `relate_to`: a chart part and its workbook part under
                  `next_partname`, chart → workbook under rId1 named by `c:externalData/@r:id`, slide → chart under `_next_rId`

  Each operation is a function from the package graph (`Model/Pkg`) to a list of primitive deltas; `Props/C02P` proves every
  predicted delta well-formed (hence the closure invariant after the call), the harness compares the predicted graph with
  the real one after every such call.
-/
import PptxModel.Model.Pkg
import PptxModel.Model.Ids
import PptxModel.Model.PackUri
namespace Pptx.PkgOps
open Pptx Pptx.Pkg Pptx.Ids

def rIdStr (n : Nat) : Str := "rId".toList ++ natStr n

def partOf (s : St) (i : Nat) : Option PartRec := s.find? fun p => p.id = i

/-- `_next_rId` on the part `i` (its keys as they are now); `rId1` for a part that has none -/
def nextRId (s : St) (i : Nat) : Str :=
  match partOf s i with
  | none => rIdStr 1
  | some p => match nextRIdNum (keys p) with
    | some n => rIdStr n
    | none => rIdStr 1          -- never: `nextRId_fresh`

/-- `_get_matching` for an internal target: the first relationship of `i` that targets `t` -/
def matching (s : St) (i t : Nat) : Option Str :=
  (partOf s i).bind fun p => (p.rels.find? fun e => e.2 = Tgt.int t).map (·.1)

def slideName (n : Nat) : Str := "/ppt/slides/slide".toList ++ natStr n ++ ".xml".toList

/-- `Package.next_image_partname(ext)`: first free index over the image part names in use -/
def imageName (s : St) (ext : Str) : Str :=
  let idxs := (names s).filterMap fun n => if "/ppt/media/image".toList.isPrefixOf n then PackUri.idx n else none
  "/ppt/media/image".toList ++ natStr (firstFreeIdx idxs) ++ '.' :: ext

/-- `OpcPackage.next_partname(tmpl)` -/
def nextName (s : St) (pre post : Str) : Str :=
  match nextPartnameNum pre post ((names s).filter fun n => pre.isPrefixOf n) with
  | some n => pre ++ natStr n ++ post
  | none => pre ++ natStr 1 ++ post   -- never: `nextPartname_fresh`

inductive Op
  /-- presentation part, layout part, identity of the new slide part, length of the slide-id list before the call -/
  | addSlide (pres layout new listed : Nat)
  /-- slide part, the part already holding these bytes (if any), identity of a new image part, extension of the format -/
  | addPicture (slide : Nat) (existing : Option Nat) (new : Nat) (ext : Str)
  /-- slide part, identities of the new chart part and of its workbook part -/
  | addChart (slide chart xlsx : Nat)
  /-- `slide.notes_slide` on a slide that has none: presentation part, slide part, the notes master the presentation part is
      related to (if any), identities of a new notes master, its theme and the new notes slide part -/
  | addNotes (pres slide : Nat) (master : Option Nat) (newMaster newTheme newNotes : Nat)
  /-- `shapes.add_ole_object`: slide part, identity of the new embedded part, its name template (`pre%dpost`, chosen by the
      prog id), then the icon image exactly as a picture (part already holding the bytes / identity of a new image part /
      extension) -/
  | addOle (slide ole : Nat) (pre post : Str) (existing : Option Nat) (newImg : Nat) (ext : Str)
deriving Repr

def masterName : Str := "/ppt/notesMasters/notesMaster1.xml".toList
def notesPre : Str := "/ppt/notesSlides/notesSlide".toList
def themePre : Str := "/ppt/theme/theme".toList
def xmlPost : Str := ".xml".toList

/-- `SlidePart.notes_slide` → `NotesSlidePart.new`: the notes master is the one the presentation part is related to, else
    `NotesMasterPart.create_default` (a part under the FIXED name notesMaster1.xml and a theme part under `next_partname`,
    master → theme under rId1, presentation → master under `_next_rId`); then the notes slide part under `next_partname`,
    related to the master (rId1) and to the slide (rId2), and the slide related to it under `_next_rId`.  None of these
    relationships is named by an `r:id` in any part's XML. -/
def predictNotes (s : St) (pres slide : Nat) (master : Option Nat) (nm nt nn : Nat) : List Delta :=
  match master with
  | some m =>
      [.addPart nn (nextName s notesPre xmlPost), .addRel nn (rIdStr 1) (.int m), .addRel nn (rIdStr 2) (.int slide),
       .addRel slide (nextRId s slide) (.int nn)]
  | none =>
      [.addPart nm masterName, .addPart nt (nextName s themePre xmlPost), .addRel nm (rIdStr 1) (.int nt),
       .addRel pres (nextRId s pres) (.int nm),
       .addPart nn (nextName s notesPre xmlPost), .addRel nn (rIdStr 1) (.int nm), .addRel nn (rIdStr 2) (.int slide),
       .addRel slide (nextRId s slide) (.int nn)]

/-- `SlidePart.get_or_add_image_part` + the `r:embed` that names the relationship -/
def predictPic (s : St) (slide : Nat) : Option Nat → Nat → Str → List Delta
  | some img, _, _ =>
      match matching s slide img with
      | some k => [.addRef slide k]
      | none => let k := nextRId s slide; [.addRel slide k (.int img), .addRef slide k]
  | none, new, ext =>
      let k := nextRId s slide
      [.addPart new (imageName s ext), .addRel slide k (.int new), .addRef slide k]

def predict (s : St) : Op → List Delta
  | .addSlide pres layout new listed =>
      let k := nextRId s pres
      [.addPart new (slideName (listed + 1)), .addRel new (rIdStr 1) (.int layout), .addRel pres k (.int new), .addRef pres k]
  | .addPicture slide existing new ext => predictPic s slide existing new ext
  | .addChart slide chart xlsx =>
      let k := nextRId s slide
      let cn := nextName s "/ppt/charts/chart".toList ".xml".toList
      let xn := nextName s "/ppt/embeddings/Microsoft_Excel_Sheet".toList ".xlsx".toList
      [.addPart chart cn, .addPart xlsx xn, .addRel chart (rIdStr 1) (.int xlsx), .addRef chart (rIdStr 1),
       .addRel slide k (.int chart), .addRef slide k]
  | .addNotes pres slide master nm nt nn => predictNotes s pres slide master nm nt nn
  | .addOle slide ole pre post existing ni ext =>
      -- `_ole_object_rId` is evaluated first (the embedded part under `next_partname`, related under `_next_rId`, named by
      -- `p:oleObj/@r:id`), then `_icon_rId`: `get_or_add_image_part` on the graph as it is THEN
      let k := nextRId s slide
      let d1 : List Delta := [.addPart ole (nextName s pre post), .addRel slide k (.int ole), .addRef slide k]
      match runD s d1 0 with
      | .ok s1 => d1 ++ predictPic s1 slide existing ni ext
      | .error _ => d1

/-- the graph after the call (`none`: some predicted delta is ill-formed - excluded by `predict_ok`) -/
def step (s : St) (op : Op) : Option St :=
  match runD s (predict s op) 0 with
  | .ok s' => some s'
  | .error _ => none

end Pptx.PkgOps
