/-
  C06 / C02 / C05 — relationships shared by several references inside ONE part: hyperlinks on runs and shapes, slide jumps.

  What the library does (opc/package.py `Part.relate_to`, `_Relationships.get_or_add / get_or_add_ext_rel / _get_matching /
  _next_rId`, `XmlPart.drop_rel / _rel_ref_count`; text/text.py `_Hyperlink.address` setter; action.py
  `ActionSetting.target_slide` / `Hyperlink.address` setters):

  * setting a link on a holder (a run's `a:hlinkClick`, a shape's `a:hlinkClick`): an existing link of that holder is
    cleared first - `part.drop_rel(rId)` and THEN the referring element is removed; then `relate_to(target)` RE-USES a
    relationship with the same type, target and mode when the part has one, else adds one under `_next_rId`; then the
    holder gets an element carrying that rId;
  * `drop_rel(rId)` removes the relationship only if fewer than two `r:id` attributes in the part's XML name it.

  The part is modelled by its relationships in insertion order (a Python dict) and the `r:id` references its XML holds,
  one per holder.  Targets are opaque: (relationship type, external?, identity of the URL or part).
-/
import PptxModel.Model.Ids
namespace Pptx.Links
open Pptx Pptx.Ids

structure Target where
  rt : Nat          -- relationship type
  ext : Bool        -- TargetMode = External
  id : Nat          -- which URL / which part
  deriving DecidableEq, Repr

structure Rel where
  key : Str
  tgt : Target
  deriving DecidableEq, Repr

structure Part where
  rels : List Rel             -- insertion order
  refs : List (Nat × Str)     -- (holder, rId): the r:id attributes in the XML
  deriving Repr

def keyOf : List (Nat × Str) → Nat → Option Str
  | [], _ => none
  | (h', k) :: r, h => if h' = h then some k else keyOf r h

def tgtOf : List Rel → Str → Option Target
  | [], _ => none
  | r :: rs, k => if r.key = k then some r.tgt else tgtOf rs k

/-- `_get_matching`: the first relationship (insertion order) with this type, target and mode -/
def matchOf : List Rel → Target → Option Str
  | [], _ => none
  | r :: rs, t => if r.tgt = t then some r.key else matchOf rs t

/-- `_rel_ref_count` -/
def count (p : Part) (k : Str) : Nat := (p.refs.filter fun r => r.2 = k).length

/-- `XmlPart.drop_rel` -/
def dropRel (p : Part) (k : Str) : Part :=
  if count p k < 2 then { p with rels := p.rels.filter fun r => r.key ≠ k } else p

abbrev rIdStr (n : Nat) : Str := "rId".toList ++ natStr n

/-- `Part.relate_to`: (part afterwards, rId handed out); `none` never happens (`nextRId_fresh`) -/
def relateTo (p : Part) (t : Target) : Part × Option Str :=
  match matchOf p.rels t with
  | some k => (p, some k)
  | none =>
    match nextRIdNum (p.rels.map (·.key)) with
    | some n => ({ p with rels := p.rels ++ [⟨rIdStr n, t⟩] }, some (rIdStr n))
    | none => (p, none)

/-- the holder's link is cleared: `drop_rel` first, then the referring element goes -/
def clearLink (p : Part) (h : Nat) : Part :=
  match keyOf p.refs h with
  | none => p
  | some k => { rels := (dropRel p k).rels, refs := p.refs.filter fun r => r.1 ≠ h }

/-- the same two steps in the other order (what a tidy-looking refactoring produces): the element goes first, so the
    holder's own reference is no longer counted when `drop_rel` looks -/
def clearLinkWrongOrder (p : Part) (h : Nat) : Part :=
  match keyOf p.refs h with
  | none => p
  | some k => dropRel { p with refs := p.refs.filter fun r => r.1 ≠ h } k

/-- the `address` / `target_slide` setter: `none` clears -/
def setLink (p : Part) (h : Nat) (t : Option Target) : Part :=
  let p1 := clearLink p h
  match t with
  | none => p1
  | some t =>
    match relateTo p1 t with
    | (p2, some k) => { p2 with refs := p2.refs ++ [(h, k)] }
    | (p2, none) => p2

/-- the getter: the holder's rId looked up in the part's relationships -/
def address (p : Part) (h : Nat) : Option Target := (keyOf p.refs h).bind (tgtOf p.rels)

def run (p : Part) : List (Nat × Option Target) → Part
  | [] => p
  | (h, t) :: ops => run (setLink p h t) ops

/-- what the caller last asked for -/
def lastSet (ops : List (Nat × Option Target)) (h : Nat) : Option (Option Target) :=
  (ops.reverse.find? fun o => o.1 = h).map (·.2)

end Pptx.Links
