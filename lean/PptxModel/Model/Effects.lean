/-
  Model for C12: what reading a presentation may do to its parts.

  Parts are trees (`XTree.XT`).  Many getters of the object model are implemented with `get_or_add_*`
  (`_Paragraph._pPr`, `_Run.font`, `Shape.line`, `_Cell.fill`, `TextFrame` on a shape without a text body, the
  `font` accessors of chart objects): they add EMPTY, ATTRIBUTE-LESS container elements and nothing else.
  `canon` erases exactly those: every subtree whose root is a *rootable* container and all of whose nodes are
  attribute-less elements from the container sets.  An effect is a list of insertions of such subtrees at any
  nodes.
-/
import PptxModel.Model.XTree
namespace Pptx.Effects
open Pptx Pptx.XTree

/-- the container sets: `roots` may start an erasable subtree, `inner` may only occur inside one -/
structure Containers where
  roots : List Nat
  inner : List Nat

mutual
/-- all nodes attribute-less, all tags containers (root or inner) -/
def allEmpty (C : Containers) : XT → Bool
  | .mk tag as ks => as.isEmpty && (C.roots.contains tag || C.inner.contains tag) && allEmptyL C ks
def allEmptyL (C : Containers) : List XT → Bool
  | [] => true
  | k :: ks => allEmpty C k && allEmptyL C ks
end

/-- a subtree that `canon` removes -/
def erasable (C : Containers) (t : XT) : Bool := C.roots.contains t.tag && allEmpty C t

mutual
def canon (C : Containers) : XT → XT
  | .mk tag as ks => .mk tag as (canonL C ks)
def canonL (C : Containers) : List XT → List XT
  | [] => []
  | k :: ks => if erasable C k then canonL C ks else canon C k :: canonL C ks
end

mutual
/-- structural equality of trees (executable; `XT` is a nested inductive type) -/
def same : XT → XT → Bool
  | .mk t1 a1 k1, .mk t2 a2 k2 => t1 == t2 && a1 == a2 && sameL k1 k2
def sameL : List XT → List XT → Bool
  | [], [] => true
  | x :: xs, y :: ys => same x y && sameL xs ys
  | _, _ => false
end

/-- an effect of a read accessor: erasable subtrees inserted at nodes given by child-position paths (the successor
    list decides where among the siblings) -/
structure Ins where
  path : List Nat
  succ : List Nat
  sub : XT

def applyIns (i : Ins) (t : XT) : XT := editAt i.path (insKid i.succ i.sub) t

/-- a read history on one part: accessors with effects, in any order, with any repetition -/
def runReads (t : XT) : List Ins → XT
  | [] => t
  | i :: rest => runReads (applyIns i t) rest

end Pptx.Effects
