/-
  Model for C06: the id / name allocators.
  * `CT_GroupShape.max_shape_id`, `_BaseShapes._next_shape_id` (max+1, or the turbo cache)
  * `CT_GroupShape._next_shape_id` (first gap)
  * `CT_SlideIdList._next_id`
  * `_Relationships._next_rId`, `OpcPackage.next_partname` (search downwards from len+1)
  * `Package.next_image_partname` / `next_media_partname` (first free index of a sorted list)
  * `CT_TimeNodeList._next_cTn_id`
  Ids are natural numbers (the code filters `@id` strings with `str.isdigit`).
-/
import PptxModel.Model.Str
namespace Pptx.Ids
open Pptx

def maxL (ids : List Nat) : Nat := ids.foldl max 0

/-- `_BaseShapes._next_shape_id` without turbo: `max_shape_id + 1` -/
def maxIdPlus1 (ids : List Nat) : Nat := maxL ids + 1

/-- `CT_GroupShape._next_shape_id`: first `n` in `1 .. len+1` not in use -/
def firstGapFrom (ids : List Nat) (n fuel : Nat) : Nat :=
  match fuel with
  | 0 => n
  | fuel + 1 => if n ∈ ids then firstGapFrom ids (n + 1) fuel else n

def firstGap (ids : List Nat) : Nat := firstGapFrom ids 1 (ids.length + 1)

def MIN_SLIDE_ID : Nat := 256
def MAX_SLIDE_ID : Nat := 2147483647

/-- first index (from `start`) at which the sorted list departs from `start, start+1, …` -/
def firstMismatch (start : Nat) : List Nat → Option Nat
  | [] => none
  | u :: rest => if start ≠ u then some start else firstMismatch (start + 1) rest

/-- insertion sort (Python `sorted`) -/
def insertSorted (x : Nat) : List Nat → List Nat
  | [] => [x]
  | y :: ys => if x ≤ y then x :: y :: ys else y :: insertSorted x ys
def sortNat (l : List Nat) : List Nat := l.foldr insertSorted []

/-- `CT_SlideIdList._next_id`; `none` models the `StopIteration` the generator raises when every
    candidate equals the used id at its position -/
def nextSlideId (used : List Nat) : Option Nat :=
  let simple := maxL ((MIN_SLIDE_ID - 1) :: used) + 1
  if simple ≤ MAX_SLIDE_ID then some simple else
  let valid := sortNat (used.filter fun i => MIN_SLIDE_ID ≤ i ∧ i ≤ MAX_SLIDE_ID)
  if valid = [] then some 256 else firstMismatch MIN_SLIDE_ID valid

/-- search `n, n-1, …, 1` for the first candidate that is free -/
def searchDown (free : Nat → Bool) : Nat → Option Nat
  | 0 => none
  | n + 1 => if free (n + 1) then some (n + 1) else searchDown free n

/-- `_Relationships._next_rId` over the current keys -/
def nextRIdNum (keys : List Str) : Option Nat :=
  searchDown (fun n => !(keys.contains ("rId".toList ++ natStr n))) (keys.length + 1)

/-- `OpcPackage.next_partname(tmpl)`: `pre ++ n ++ post` is the template with `%d` replaced;
    `names` are the part names starting with the template's prefix -/
def nextPartnameNum (pre post : Str) (names : List Str) : Option Nat :=
  searchDown (fun n => !(names.contains (pre ++ natStr n ++ post))) (names.length + 1)

/-- `first_available_image_idx` / `first_available_media_idx` over the (unsorted) used indexes -/
def firstFreeIdxAux : Nat → List Nat → Nat
  | i, [] => i
  | i, u :: rest => if i < u then i else firstFreeIdxAux (i + 1) rest
def firstFreeIdx (idxs : List Nat) : Nat := firstFreeIdxAux 1 (sortNat idxs)

/-- the shape-id side of a slide-like part: every numeric `@id`, and the turbo cache -/
structure ShapeIds where
  ids : List Nat
  cache : Option Nat     -- `_cached_max_shape_id` of the slide-level shapes collection

inductive AllocOp
  | viaCollection      -- `_BaseShapes._next_shape_id` on the collection that may have turbo on
  | viaOtherProxy      -- the same on another collection object (a group's `.shapes`): never cached
  | viaElement         -- `CT_GroupShape._next_shape_id` (add_group_shape, freeform)
  | turboOn | turboOff
deriving Repr, DecidableEq

def ShapeIds.step (s : ShapeIds) : AllocOp → ShapeIds × Option Nat
  | .viaCollection =>
    match s.cache with
    | some c => ({ ids := (c + 1) :: s.ids, cache := some (c + 1) }, some (c + 1))
    | none => let i := maxIdPlus1 s.ids; ({ s with ids := i :: s.ids }, some i)
  | .viaOtherProxy => let i := maxIdPlus1 s.ids; ({ s with ids := i :: s.ids }, some i)
  | .viaElement =>
    -- `_resync_cached_max_shape_id`: the cache is raised to the new maximum
    let i := firstGap s.ids
    ({ ids := i :: s.ids, cache := s.cache.map fun c => max c (maxL (i :: s.ids)) }, some i)
  | .turboOn => ({ s with cache := some (maxL s.ids) }, none)
  | .turboOff => ({ s with cache := none }, none)

end Pptx.Ids
