/-
  Model for C17: connector end points (`shapes/connector.py`, `shapetree._add_cxnSp`), group
  extents (`oxml/shapes/groupshape.py: recalculate_extents/_child_extents`) and freeform geometry
  (`shapes/freeform.py`).  Integers are unbounded `Int` (EMU); scales and fractional vertices are
  exact rationals `n/d`.
-/
namespace Pptx.Geometry

/-! ### rounding: Python `round()` on an exact rational `n/d` (half to even) -/

def roundHE (n : Int) (d : Nat) : Int :=
  let q := n / (d : Int)        -- floor division (d > 0)
  let r := n % (d : Int)        -- 0 ≤ r < d
  if 2 * r < d then q
  else if 2 * r > d then q + 1
  else if q % 2 = 0 then q else q + 1

/-! ### connectors: one axis of a connector (`x, cx, flipH` or `y, cy, flipV`) -/

structure Axis where
  pos : Int
  ext : Int
  flip : Bool
deriving Repr, DecidableEq

/-- `Connector.begin_x` / `begin_y` getter -/
def Axis.beginPt (a : Axis) : Int := if a.flip then a.pos + a.ext else a.pos
/-- `Connector.end_x` / `end_y` getter -/
def Axis.endPt (a : Axis) : Int := if a.flip then a.pos else a.pos + a.ext

def iabs (i : Int) : Int := if i < 0 then -i else i

/-- `Connector.begin_x` / `begin_y` setter, branch for branch -/
def Axis.setBegin (a : Axis) (v : Int) : Axis :=
  if a.flip then
    let old := a.pos + a.ext
    let d := iabs (v - old)
    if v ≥ old then { a with ext := a.ext + d }
    else if d ≤ a.ext then { a with ext := a.ext - d }
    else { flip := false, pos := v, ext := d - a.ext }
  else
    let d := iabs (v - a.pos)
    if v ≤ a.pos then { a with pos := v, ext := a.ext + d }
    else if d ≤ a.ext then { a with pos := v, ext := a.ext - d }
    else { flip := true, pos := a.pos + a.ext, ext := d - a.ext }

/-- `Connector.end_x` / `end_y` setter -/
def Axis.setEnd (a : Axis) (v : Int) : Axis :=
  if a.flip then
    let d := iabs (v - a.pos)
    if v ≤ a.pos then { a with pos := v, ext := a.ext + d }
    else if d ≤ a.ext then { a with pos := v, ext := a.ext - d }
    else { flip := false, pos := a.pos + a.ext, ext := d - a.ext }
  else
    let old := a.pos + a.ext
    let d := iabs (v - old)
    if v ≥ old then { a with ext := a.ext + d }
    else if d ≤ a.ext then { a with ext := a.ext - d }
    else { flip := true, pos := v, ext := d - a.ext }

/-- the range of `ST_Coordinate` (offsets) and `ST_PositiveCoordinate` (extents), in EMU -/
def coordMax : Int := 27273042316900
def coordMin : Int := -27273042329600
def inCoord (v : Int) : Bool := decide (coordMin ≤ v) && decide (v ≤ coordMax)
def inPos (v : Int) : Bool := decide (0 ≤ v) && decide (v ≤ coordMax)

/-- an axis all of whose stored values lie in their XML types -/
def Axis.writable (a : Axis) : Bool := inCoord a.pos && inPos a.ext

/-- `Connector._validate_span(new, other)`: the offset (the lesser end) and the extent (their distance) of the
    connector that would result can be written -/
def spanOk (new other : Int) : Bool := inCoord (min new other) && inPos (iabs (new - other))

/-- the begin setter as the library runs it: `none` (a `ValueError`, NOTHING changed) unless the new coordinate and
    the resulting span can be written -/
def Axis.setBeginChecked (a : Axis) (v : Int) : Option Axis :=
  if inCoord v && spanOk v a.endPt then some (a.setBegin v) else none

def Axis.setEndChecked (a : Axis) (v : Int) : Option Axis :=
  if inCoord v && spanOk v a.beginPt then some (a.setEnd v) else none

/-- `_BaseGroupShapes._add_cxnSp`: one axis from begin and end coordinate -/
def Axis.new (b e : Int) : Axis :=
  { flip := decide (b > e), pos := min b e, ext := iabs (e - b) }

structure Cxn where
  h : Axis
  v : Axis
deriving Repr, DecidableEq

inductive CxnOp
  | beginX (v : Int) | beginY (v : Int) | endX (v : Int) | endY (v : Int)
deriving Repr

def Cxn.step (c : Cxn) : CxnOp → Cxn
  | .beginX v => { c with h := c.h.setBegin v }
  | .beginY v => { c with v := c.v.setBegin v }
  | .endX v => { c with h := c.h.setEnd v }
  | .endY v => { c with v := c.v.setEnd v }

/-- one checked assignment: the connector is unchanged when the assignment is refused -/
def Cxn.stepChecked (c : Cxn) : CxnOp → Cxn × Bool
  | .beginX v => match c.h.setBeginChecked v with | some a => ({ c with h := a }, true) | none => (c, false)
  | .beginY v => match c.v.setBeginChecked v with | some a => ({ c with v := a }, true) | none => (c, false)
  | .endX v => match c.h.setEndChecked v with | some a => ({ c with h := a }, true) | none => (c, false)
  | .endY v => match c.v.setEndChecked v with | some a => ({ c with v := a }, true) | none => (c, false)

def Cxn.new (bx by_ ex ey : Int) : Cxn := { h := Axis.new bx ex, v := Axis.new by_ ey }

/-- the four readings `(begin_x, begin_y, end_x, end_y)` -/
def Cxn.readings (c : Cxn) : Int × Int × Int × Int :=
  (c.h.beginPt, c.v.beginPt, c.h.endPt, c.v.endPt)

/-! ### groups -/

structure Box where
  x : Int
  y : Int
  cx : Int
  cy : Int
deriving Repr, DecidableEq

def minL : List Int → Int
  | [] => 0
  | [a] => a
  | a :: t => min a (minL t)

def maxL : List Int → Int
  | [] => 0
  | [a] => a
  | a :: t => max a (maxL t)

/-- `CT_GroupShape._child_extents` over the boxes of the child shapes -/
def childExtents (bs : List Box) : Box :=
  if bs = [] then ⟨0, 0, 0, 0⟩ else
  let minx := minL (bs.map (·.x))
  let miny := minL (bs.map (·.y))
  let maxx := maxL (bs.map fun b => b.x + b.cx)
  let maxy := maxL (bs.map fun b => b.y + b.cy)
  ⟨minx, miny, maxx - minx, maxy - miny⟩

/-- a shape tree: a leaf shape with its box, or a group with its stored frame (`a:off`/`a:ext`),
    its child coordinate space (`a:chOff`/`a:chExt`) and members -/
inductive G where
  | leaf (b : Box)
  | grp (b : Box) (ch : Box) (kids : List G)
deriving Repr

def G.box : G → Box
  | .leaf b => b
  | .grp b _ _ => b

/-- add `new` to the group addressed by `path` (child indices from this group down) and
    recalculate extents from that group upwards (`recalculate_extents` is recursive upwards and
    assigns both the frame and the child coordinate space).
    An index that does not address a group leaves the tree unchanged. -/
def G.addAt : List Nat → G → G → G
  | _, _, .leaf b => .leaf b
  | [], new, .grp _ _ kids =>
      let kids' := kids ++ [new]
      let e := childExtents (kids'.map G.box)
      .grp e e kids'
  | i :: path, new, .grp b ch kids =>
      match kids[i]? with
      | some k =>
        let kids' := kids.set i (G.addAt path new k)
        let e := childExtents (kids'.map G.box)
        .grp e e kids'
      | none => .grp b ch kids

/-- assigning `left/top/width/height` of the shape addressed by `path` through the public setters:
    only that shape's own frame changes; nothing is recalculated -/
def G.setBoxAt : List Nat → Box → G → G
  | [], nb, .leaf _ => .leaf nb
  | [], nb, .grp _ ch kids => .grp nb ch kids
  | _ :: _, _, .leaf b => .leaf b
  | i :: path, nb, .grp b ch kids =>
      match kids[i]? with
      | some k => .grp b ch (kids.set i (G.setBoxAt path nb k))
      | none => .grp b ch kids

/-- a freshly added empty group: `new_grpSp` has off/ext/chOff/chExt all zero -/
def G.emptyGrp : G := .grp ⟨0, 0, 0, 0⟩ ⟨0, 0, 0, 0⟩ []

/-! ### freeform -/

inductive PenOp
  | line (x y : Int) | move (x y : Int) | close
deriving Repr

structure Pen where
  startX : Int
  startY : Int
  ops : List PenOp
deriving Repr

def Pen.xs (p : Pen) : List Int :=
  p.startX :: p.ops.filterMap fun | .line x _ => some x | .move x _ => some x | .close => none
def Pen.ys (p : Pen) : List Int :=
  p.startY :: p.ops.filterMap fun | .line _ y => some y | .move _ y => some y | .close => none

/-- `shape_offset_x`: running minimum starting from the start point -/
def foldMin (init : Int) (l : List Int) : Int := l.foldl min init
def foldMax (init : Int) (l : List Int) : Int := l.foldl max init

def Pen.offX (p : Pen) : Int := foldMin p.startX p.xs.tail
def Pen.offY (p : Pen) : Int := foldMin p.startY p.ys.tail
def Pen.dx (p : Pen) : Int := foldMax p.startX p.xs.tail - foldMin p.startX p.xs.tail
def Pen.dy (p : Pen) : Int := foldMax p.startY p.ys.tail - foldMin p.startY p.ys.tail

/-- the path's points in shape coordinates: start `moveTo` then every non-close operation -/
def Pen.pathPts (p : Pen) : List (Int × Int) :=
  (p.xs.zip p.ys).map fun (x, y) => (x - p.offX, y - p.offY)

/-- `(left, top, width, height)` of the shape for origin `(ox, oy)` and scales `sxn/sxd`, `syn/syd` -/
def Pen.shapeBox (p : Pen) (ox oy : Int) (sxn : Int) (sxd : Nat) (syn : Int) (syd : Nat) : Box :=
  ⟨ox + roundHE (p.offX * sxn) sxd, oy + roundHE (p.offY * syn) syd,
   roundHE (p.dx * sxn) sxd, roundHE (p.dy * syn) syd⟩

end Pptx.Geometry
