/-
  C09 — `shape.adjustments` (`shapes/autoshape.py`: `AdjustmentCollection`, `oxml/shapes/autoshape.py`: `rewrite_guides`).

  A preset shape has a fixed list of adjustments (name, default), `a:avLst` holds guides `a:gd name=… fmla="val N"` in
  document order.  Reading adjustment `i`: the value of the LAST guide carrying its name (`_update_adjustments_with_actuals`
  walks the guides in order), else the default.  Assigning: the actual values are read from the guides as they are now,
  the one assigned is replaced, and ALL guides are rewritten - one per adjustment, in the adjustments' order; guides under
  names that are no adjustment of the shape are dropped by that.

  Values are the integers of `fmla` (`Adjustment._denormalize` = `PropStore.adjStore` gives them for a float).
-/
import PptxModel.Model.PropStore
namespace Pptx.Adjust

abbrev Defs := List (Nat × Int)       -- (name, default) per adjustment
abbrev Guides := List (Nat × Int)     -- (name, value) per a:gd, document order

/-- the value the guides give a name: the LAST guide under it -/
def actual : Guides → Nat → Option Int
  | [], _ => none
  | e :: rest, nm =>
    match actual rest nm with
    | some v => some v
    | none => if e.1 = nm then some e.2 else none

def valueOf (g : Guides) (e : Nat × Int) : Int := (actual g e.1).getD e.2

/-- `adjustments[i]` in 1/100000; `none` = IndexError -/
def read (d : Defs) (g : Guides) (i : Nat) : Option Int := d[i]?.map (valueOf g)

/-- all adjustments as they read now -/
def readAll (d : Defs) (g : Guides) : List Int := d.map (valueOf g)

def setAt (l : List Int) (i : Nat) (v : Int) : List Int := l.set i v

/-- `adjustments[i] = v` (`none` = IndexError, nothing written) -/
def write (d : Defs) (g : Guides) (i : Nat) (v : Int) : Option Guides :=
  if i < d.length then some ((d.map (·.1)).zip (setAt (readAll d g) i v)) else none

/-- a history of assignments; refused ones leave the guides -/
def run (d : Defs) (g : Guides) : List (Nat × Int) → Guides
  | [] => g
  | (i, v) :: rest => run d ((write d g i v).getD g) rest

/-- what the collection did BEFORE its repair: the values read when the proxy was made (`cache`) are what is written back -/
def writeStale (d : Defs) (cache : List Int) (i : Nat) (v : Int) : Guides := (d.map (·.1)).zip (setAt cache i v)

end Pptx.Adjust
