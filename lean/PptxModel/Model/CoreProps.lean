/-
  Model for C18: `oxml/coreprops.py` — the 255-character rule for text properties, the W3CDTF
  writer (`_set_element_datetime`) and reader (`_parse_W3CDTF_to_datetime`, `_offset_dt`), the
  revision number.  Calendar arithmetic for time-zone offsets uses the civil-date algorithms of
  H. Hinnant (days_from_civil / civil_from_days).
-/
import PptxModel.Model.Str
namespace Pptx.CoreProps
open Pptx

def dig (k : Nat) : Char := Char.ofNat (48 + k)
def pad2 (n : Nat) : Str := [dig (n / 10 % 10), dig (n % 10)]
def pad4 (n : Nat) : Str := [dig (n / 1000 % 10), dig (n / 100 % 10), dig (n / 10 % 10), dig (n % 10)]

structure DT where
  y : Nat
  mo : Nat
  d : Nat
  h : Nat
  mi : Nat
  s : Nat
deriving DecidableEq, Repr

/-- `value.strftime("%Y-%m-%dT%H:%M:%SZ")` with a four-digit year (after the `fix:` for F-C18-1) -/
def fmt (t : DT) : Str :=
  pad4 t.y ++ '-' :: pad2 t.mo ++ '-' :: pad2 t.d ++ 'T' :: pad2 t.h ++ ':' :: pad2 t.mi ++ ':' :: pad2 t.s ++ ['Z']

/-- what glibc's `strftime("%Y")` gives: the year without padding -/
def fmtUnpaddedYear (t : DT) : Str :=
  natStr t.y ++ '-' :: pad2 t.mo ++ '-' :: pad2 t.d ++ 'T' :: pad2 t.h ++ ':' :: pad2 t.mi ++ ':' :: pad2 t.s ++ ['Z']

def isDig (c : Char) : Bool := 48 ≤ c.toNat && c.toNat ≤ 57
def dv (c : Char) : Nat := c.toNat - 48
def val2 (a b : Char) : Nat := dv a * 10 + dv b
def val4 (a b c d : Char) : Nat := dv a * 1000 + dv b * 100 + dv c * 10 + dv d

def isLeap (y : Nat) : Bool := (y % 4 == 0 && y % 100 != 0) || y % 400 == 0
def daysIn (y m : Nat) : Nat :=
  if m = 2 then (if isLeap y then 29 else 28) else if m = 4 ∨ m = 6 ∨ m = 9 ∨ m = 11 then 30 else 31

/-- what `datetime.strptime` accepts as a calendar instant (no leap seconds: `%S` allows 60/61 but
    `datetime` rejects them) -/
def DT.valid (t : DT) : Bool :=
  1 ≤ t.y && t.y ≤ 9999 && 1 ≤ t.mo && t.mo ≤ 12 && 1 ≤ t.d && t.d ≤ daysIn t.y t.mo
  && t.h ≤ 23 && t.mi ≤ 59 && t.s ≤ 59

/-- the four W3CDTF templates on canonical (zero-padded) forms -/
def parseCanon (p : Str) : Option DT :=
  let ok (t : DT) : Option DT := if t.valid then some t else none
  match p with
  | [y1, y2, y3, y4, '-', m1, m2, '-', d1, d2, 'T', h1, h2, ':', n1, n2, ':', s1, s2] =>
      if [y1, y2, y3, y4, m1, m2, d1, d2, h1, h2, n1, n2, s1, s2].all isDig then
        ok ⟨val4 y1 y2 y3 y4, val2 m1 m2, val2 d1 d2, val2 h1 h2, val2 n1 n2, val2 s1 s2⟩
      else none
  | [y1, y2, y3, y4, '-', m1, m2, '-', d1, d2] =>
      if [y1, y2, y3, y4, m1, m2, d1, d2].all isDig then ok ⟨val4 y1 y2 y3 y4, val2 m1 m2, val2 d1 d2, 0, 0, 0⟩ else none
  | [y1, y2, y3, y4, '-', m1, m2] =>
      if [y1, y2, y3, y4, m1, m2].all isDig then ok ⟨val4 y1 y2 y3 y4, val2 m1 m2, 1, 0, 0, 0⟩ else none
  | [y1, y2, y3, y4] =>
      if [y1, y2, y3, y4].all isDig then ok ⟨val4 y1 y2 y3 y4, 1, 1, 0, 0, 0⟩ else none
  | _ => none

/-- days since 1970-01-01 (proleptic Gregorian), Hinnant's `days_from_civil` -/
def daysFromCivil (y m d : Int) : Int :=
  let y := if m ≤ 2 then y - 1 else y
  let era := y / 400
  let yoe := y - era * 400
  let doy := (153 * (if m > 2 then m - 3 else m + 9) + 2) / 5 + d - 1
  let doe := yoe * 365 + yoe / 4 - yoe / 100 + doy
  era * 146097 + doe - 719468

def civilFromDays (z : Int) : Int × Int × Int :=
  let z := z + 719468
  let era := z / 146097
  let doe := z - era * 146097
  let yoe := (doe - doe / 1460 + doe / 36524 - doe / 146096) / 365
  let y := yoe + era * 400
  let doy := doe - (365 * yoe + yoe / 4 - yoe / 100)
  let mp := (5 * doy + 2) / 153
  let d := doy - (153 * mp + 2) / 5 + 1
  let m := if mp < 10 then mp + 3 else mp - 9
  (if m ≤ 2 then y + 1 else y, m, d)

def toSecs (t : DT) : Int :=
  daysFromCivil t.y t.mo t.d * 86400 + t.h * 3600 + t.mi * 60 + t.s

/-- `None` = outside `datetime`'s year range 1..9999 (the code raises `OverflowError` there) -/
def fromSecs (x : Int) : Option DT :=
  let days := x / 86400
  let r := x % 86400
  let (y, m, d) := civilFromDays days
  if 1 ≤ y ∧ y ≤ 9999 then
    some ⟨y.toNat, m.toNat, d.toNat, (r / 3600).toNat, (r % 3600 / 60).toNat, (r % 60).toNat⟩
  else none

/-- `_set_element_datetime` on a datetime that carries a UTC offset of `offMin` minutes: the equivalent UTC time is
    written (`value.astimezone(timezone.utc)`); `none` = that time lies outside `datetime`'s year range (`ValueError`) -/
def writeAware (t : DT) (offMin : Int) : Option Str := (fromSecs (toSecs t - offMin * 60)).map fmt

/-- `_offset_dt`: `[+-]dd:dd`; a `+` offset is SUBTRACTED to get UTC -/
def parseOffset (o : Str) : Option Int :=
  match o with
  | [sg, h1, h2, ':', m1, m2] =>
      if (sg = '+' ∨ sg = '-') ∧ [h1, h2, m1, m2].all isDig then
        let mins : Int := (val2 h1 h2 * 60 + val2 m1 m2 : Nat)
        some (if sg = '+' then -mins * 60 else mins * 60)
      else none
  | _ => none

inductive Res
  | ok (t : DT)
  | unparseable            -- the getter returns `None`
  | overflow               -- the code raises `OverflowError`
deriving Repr, DecidableEq

/-- `_parse_W3CDTF_to_datetime` on canonical inputs: the first 19 characters carry the timestamp,
    a remainder of exactly 6 characters is a numeric offset, anything else is ignored -/
def readW3C (s : Str) : Res :=
  match parseCanon (s.take 19) with
  | none => .unparseable
  | some t =>
    let off := s.drop 19
    if off.length = 6 then
      match parseOffset off with
      | none => .unparseable
      | some delta => match fromSecs (toSecs t + delta) with
        | some u => .ok u
        | none => .overflow
    else .ok t

/-- `_set_element_text`: values longer than 255 characters are refused -/
def setText (v : Str) : Option Str := if v.length > 255 then none else some v

/-- `revision_number` getter on the stored text -/
def revisionOf (txt : Option Str) : Nat :=
  match txt with
  | none => 0
  | some s =>
    let neg := s.head? = some '-'
    let ds := if neg ∨ s.head? = some '+' then s.drop 1 else s
    if !ds.isEmpty && ds.all isDig then (if neg then 0 else digitsVal ds) else 0

/-- `revision_number` setter: a positive integer is stored as its decimal text (`str(int(value))`), anything else is
    refused (`none`); the argument is the integer VALUE (a bool, a float, a string never get here: refused by type) -/
def writeRevision (v : Int) : Option Str := if v < 1 then none else some (natStr v.toNat)

end Pptx.CoreProps
