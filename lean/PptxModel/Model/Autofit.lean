/-
  C09 — `TextFrame.auto_size` (`text/text.py`, `oxml/text.py`: `CT_TextBodyProperties.autofit`).

  `a:bodyPr` holds at most one of `a:noAutofit`, `a:normAutofit` (with optional `fontScale` / `lnSpcReduction`), `a:spAutoFit`;
  a file may hold several.  The model keeps the autofit children in document order.  Reading: NONE when any `a:noAutofit` is
  there, else TEXT_TO_FIT_SHAPE for any `a:normAutofit`, else SHAPE_TO_FIT_TEXT for any `a:spAutoFit`, else None.
  Assigning: anything but None or a member is a ValueError before the XML is touched; else ALL autofit children are removed
  and a bare one of the kind is added (so a `fontScale` PowerPoint computed is dropped, also when the kind stays).
-/
namespace Pptx.Autofit

inductive Kind | no | norm | sp
deriving DecidableEq, Repr

structure El where
  kind : Kind
  scale : Option Nat
  reduc : Option Nat
deriving DecidableEq, Repr

abbrev St := List El

/-- a value assigned: None, a member, or something else -/
inductive Val | none | member (k : Kind) | other
deriving DecidableEq, Repr

def has (s : St) (k : Kind) : Bool := s.any (·.kind == k)

def read (s : St) : Option Kind :=
  if has s .no then some .no else if has s .norm then some .norm else if has s .sp then some .sp else none

/-- one assignment: the new children and whether it was accepted -/
def step (s : St) : Val → St × Bool
  | .none => ([], true)
  | .member k => ([⟨k, none, none⟩], true)
  | .other => (s, false)

def run (s : St) : List Val → St
  | [] => s
  | v :: rest => run (step s v).1 rest

/-- the last accepted value of a history, as it reads -/
def last (init : Option Kind) : List Val → Option Kind
  | [] => init
  | .none :: rest => last none rest
  | .member k :: rest => last (some k) rest
  | .other :: rest => last init rest

end Pptx.Autofit
