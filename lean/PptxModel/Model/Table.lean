/-
  Model for C14: `oxml/table.py` (`CT_Table.new_tbl`, `CT_TableCell.append_ps_from /
  is_merge_origin / is_spanned`, `TcRange`) and `table.py` (`_Cell.merge`, `_Cell.split`,
  row-height / column-width notification).

  A table has a fixed `rows × cols` grid (no public operation adds or removes cells); the span
  attributes and the paragraph texts of each cell are functions of the grid position.
-/
import PptxModel.Model.Str
namespace Pptx.Table
open Pptx

structure Flags where
  gridSpan : Nat
  rowSpan : Nat
  hMerge : Bool
  vMerge : Bool
deriving DecidableEq, Repr

def plain : Flags := ⟨1, 1, false, false⟩

/-- `CT_TableCell.is_merge_origin` -/
def Flags.isOrigin (f : Flags) : Bool :=
  (decide (f.gridSpan > 1) && !f.vMerge) || (decide (f.rowSpan > 1) && !f.hMerge)
/-- `CT_TableCell.is_spanned` -/
def Flags.isSpanned (f : Flags) : Bool := f.hMerge || f.vMerge

/-- a rectangular block of cells -/
structure Rect where
  top : Nat
  left : Nat
  h : Nat
  w : Nat
deriving DecidableEq, Repr

def Rect.mem (R : Rect) (r c : Nat) : Prop :=
  R.top ≤ r ∧ r < R.top + R.h ∧ R.left ≤ c ∧ c < R.left + R.w

instance (R : Rect) (r c : Nat) : Decidable (R.mem r c) := by unfold Rect.mem; infer_instance

/-- `TcRange._extents`: normalised from two corner cells given in any order -/
def Rect.ofCorners (r1 c1 r2 c2 : Nat) : Rect :=
  { top := min r1 r2, left := min c1 c2,
    h := (if r1 ≤ r2 then r2 - r1 else r1 - r2) + 1,
    w := (if c1 ≤ c2 then c2 - c1 else c1 - c2) + 1 }

/-- row-major list of the positions in a rectangle (`TcRange.iter_tcs`) -/
def Rect.cells (R : Rect) : List (Nat × Nat) :=
  (List.range R.h).flatMap fun dr => (List.range R.w).map fun dc => (R.top + dr, R.left + dc)

abbrev Paras := List Str

/-- `CT_TextBody.is_empty`: exactly one paragraph and its text is empty -/
def isEmptyBody (ps : Paras) : Bool := ps == [[]]

structure Tbl where
  rows : Nat
  cols : Nat
  F : Nat → Nat → Flags
  P : Nat → Nat → Paras

/-- `TcRange.contains_merged_cell` -/
def containsMerged (F : Nat → Nat → Flags) (R : Rect) : Bool :=
  R.cells.any fun (r, c) =>
    let f := F r c
    decide (f.gridSpan > 1) || decide (f.rowSpan > 1) || f.hMerge || f.vMerge

/-- the four attribute loops of `_Cell.merge` applied to one cell of the range -/
def mergeFlagsAt (R : Rect) (r c : Nat) (f : Flags) : Flags :=
  let f := if r = R.top then { f with rowSpan := R.h } else f         -- iter_top_row_tcs
  let f := if c = R.left then { f with gridSpan := R.w } else f       -- iter_left_col_tcs
  let f := if c ≠ R.left then { f with hMerge := true } else f        -- iter_except_left_col_tcs
  let f := if r ≠ R.top then { f with vMerge := true } else f         -- iter_except_top_row_tcs
  f

def mergeF (F : Nat → Nat → Flags) (R : Rect) : Nat → Nat → Flags :=
  fun r c => if R.mem r c then mergeFlagsAt R r c (F r c) else F r c

/-- `CT_TableCell.append_ps_from` on (target paragraphs, source paragraphs): new (target, source) -/
def appendPsFrom (target source : Paras) : Paras × Paras :=
  if isEmptyBody source then (target, source)
  else
    let t := if isEmptyBody target then [] else target
    let t := t ++ source
    -- both bodies are "uncleared": a body left without paragraphs gets one empty paragraph
    (if t = [] then [[]] else t, [[]])

/-- `TcRange.move_content_to_origin`: fold `append_ps_from` over the non-origin cells in reading
    order; returns the origin's paragraphs and the new paragraph function -/
def moveContent (P : Nat → Nat → Paras) (R : Rect) : Nat → Nat → Paras :=
  let others := R.cells.drop 1
  let origin := others.foldl (fun acc (rc : Nat × Nat) => (appendPsFrom acc (P rc.1 rc.2)).1)
    (P R.top R.left)
  fun r c =>
    if r = R.top ∧ c = R.left then origin
    else if R.mem r c then (appendPsFrom [] (P r c)).2
    else P r c

inductive Err | refused | notOrigin | index
deriving Repr, DecidableEq

/-- `_Cell.merge(other)` for cells `(r1,c1)` and `(r2,c2)` of the same table -/
def Tbl.merge (t : Tbl) (r1 c1 r2 c2 : Nat) : Except Err Tbl :=
  if r1 ≥ t.rows ∨ r2 ≥ t.rows ∨ c1 ≥ t.cols ∨ c2 ≥ t.cols then .error .index else
  let R := Rect.ofCorners r1 c1 r2 c2
  if containsMerged t.F R then .error .refused
  else .ok { t with P := moveContent t.P R, F := mergeF t.F R }

def splitF (F : Nat → Nat → Flags) (r c : Nat) : Nat → Nat → Flags :=
  let R : Rect := ⟨r, c, (F r c).rowSpan, (F r c).gridSpan⟩   -- TcRange.from_merge_origin
  fun r' c' => if R.mem r' c' then plain else F r' c'

/-- `_Cell.split()` -/
def Tbl.split (t : Tbl) (r c : Nat) : Except Err Tbl :=
  if r ≥ t.rows ∨ c ≥ t.cols then .error .index else
  if !(t.F r c).isOrigin then .error .notOrigin
  else .ok { t with F := splitF t.F r c }

inductive Op
  | merge (r1 c1 r2 c2 : Nat)
  | split (r c : Nat)
deriving Repr

/-- a rejected operation leaves the table unchanged -/
def Tbl.step (t : Tbl) : Op → Tbl × Option Err
  | .merge r1 c1 r2 c2 => match t.merge r1 c1 r2 c2 with
      | .ok t' => (t', none) | .error e => (t, some e)
  | .split r c => match t.split r c with
      | .ok t' => (t', none) | .error e => (t, some e)

/-! ### creation and sizes -/

/-- column widths written by `CT_Table.new_tbl` (`width // cols`, last absorbs the remainder);
    `Int` because `//` is floor division and the arguments are EMU integers -/
def newSizes (n : Nat) (total : Int) : List Int :=
  let q := total / (n : Int)
  (List.range n).map fun i => if i + 1 = n then total - ((n : Int) - 1) * q else q

def sumL (l : List Int) : Int := l.foldl (· + ·) 0

def Tbl.new (rows cols : Nat) : Tbl :=
  { rows := rows, cols := cols, F := fun _ _ => plain, P := fun _ _ => [[]] }

/-! ### row heights / column widths and the frame size derived from them (`_Row.height`, `_Column.width`,
      `Table.notify_height_changed / notify_width_changed`) -/

/-- the row heights (column widths) and the frame's height (width) -/
structure Sizes where
  items : List Int
  frame : Int
deriving Repr, DecidableEq

/-- `ST_Coordinate` (a:tr/@h, a:gridCol/@w) -/
def coordOk (v : Int) : Bool := decide (-27273042329600 ≤ v ∧ v ≤ 27273042316900)
/-- `ST_PositiveCoordinate` (the frame's a:ext) -/
def posOk (v : Int) : Bool := decide (0 ≤ v ∧ v ≤ 27273042316900)

/-- one assignment: the item is written, the frame becomes the sum; when the value or the sum cannot be written the call
    is refused (`none`) and - the setter restores what it had written - nothing has changed -/
def setItem (s : Sizes) (i : Nat) (v : Int) : Option Sizes :=
  if i < s.items.length ∧ coordOk v = true then
    let it := s.items.set i v
    if posOk (sumL it) then some { items := it, frame := sumL it } else none
  else none

def stepSizes (s : Sizes) (op : Nat × Int) : Sizes := (setItem s op.1 op.2).getD s

def runSizes (s : Sizes) (ops : List (Nat × Int)) : Sizes := ops.foldl stepSizes s

end Pptx.Table
