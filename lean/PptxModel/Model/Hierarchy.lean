/-
  Model for C07 (multi-level categories): the writer side of `chart/data.py` (`Categories.levels`,
  `Category.idx`, `leaf_count`) and the reader side of `chart/category.py`
  (`Categories._parentage`: the parent of a leaf in a level is the last entry, scanning in order and stopping at the
  first entry whose idx exceeds the leaf's idx).
-/
namespace Pptx.Hierarchy

/-- a category with its sub-categories -/
inductive Cat (α : Type) where
  | mk (label : α) (subs : List (Cat α))

variable {α : Type}

def Cat.label : Cat α → α | .mk l _ => l
def Cat.subs : Cat α → List (Cat α) | .mk _ s => s

mutual
/-- `Category.leaf_count`: 1 for a category without sub-categories -/
def leafCount : Cat α → Nat
  | .mk _ [] => 1
  | .mk _ (s :: ss) => leafCountL (s :: ss)
def leafCountL : List (Cat α) → Nat
  | [] => 0
  | c :: cs => leafCount c + leafCountL cs
end

mutual
/-- every category of the forest has `d` levels below and including itself -/
def uniform : Nat → Cat α → Bool
  | 0, _ => false
  | 1, .mk _ subs => subs.isEmpty
  | d + 2, .mk _ subs => !subs.isEmpty && uniformL (d + 1) subs
def uniformL : Nat → List (Cat α) → Bool
  | _, [] => true
  | d, c :: cs => uniform d c && uniformL d cs
end

/-- concatenate `f off c` over the categories of a forest, `off` advancing by each category's leaf count -/
def walk (f : Nat → Cat α → List (Nat × α)) : Nat → List (Cat α) → List (Nat × α)
  | _, [] => []
  | off, c :: cs => f off c ++ walk f (off + leafCount c) cs

/-- the (idx, label) entries of the level `j` steps below the top level, for a forest whose first leaf has
    offset `off` (`Categories.levels`: idx = offset of the category's first leaf) -/
def entries : Nat → Nat → List (Cat α) → List (Nat × α)
  | off, 0, cats => walk (fun o c => [(o, c.label)]) off cats
  | off, j + 1, cats => walk (fun o c => entries o j c.subs) off cats

/-- `_parentage` for one level: scan in document order, stop at the first entry whose idx exceeds `i` -/
def scan (i : Nat) : α → List (Nat × α) → α
  | cur, [] => cur
  | cur, (ix, l) :: rest => if ix > i then cur else scan i l rest

/-- the parent of leaf `i` in a level (the first entry is the default) -/
def parentOf (es : List (Nat × α)) (i : Nat) : Option α :=
  match es with
  | [] => none
  | (_, l) :: _ => some (scan i l es)

mutual
/-- root-to-leaf label paths, in leaf order -/
def paths : Cat α → List (List α)
  | .mk l [] => [[l]]
  | .mk l (s :: ss) => (pathsL (s :: ss)).map (l :: ·)
def pathsL : List (Cat α) → List (List α)
  | [] => []
  | c :: cs => paths c ++ pathsL cs
end

/-- what the reader reports for leaf `i` of a forest of depth `d`: the parents in the levels from the top down -/
def flattened (d : Nat) (cats : List (Cat α)) (i : Nat) : List (Option α) :=
  (List.range d).map fun j => parentOf (entries 0 j cats) i

end Pptx.Hierarchy
