/-
  Basic string utilities over `List Char` (strings are modelled as code-point lists, the way
  Python `str` is a sequence of code points).  Executable definitions only; no Mathlib.
-/
namespace Pptx

abbrev Str := List Char

/-- Python `s.split(c)` for a one-character separator: always at least one piece. -/
def splitOnC (c : Char) : Str → List Str
  | [] => [[]]
  | x :: xs =>
    if x = c then [] :: splitOnC c xs
    else match splitOnC c xs with
      | [] => [[x]]            -- unreachable: `splitOnC` never returns `[]`
      | h :: t => (x :: h) :: t

/-- Python `c.join(pieces)`. -/
def joinC (c : Char) : List Str → Str
  | [] => []
  | [s] => s
  | s :: t => s ++ c :: joinC c t

/-- Python `str.startswith`. -/
def startsWith : Str → Str → Bool
  | _, [] => true
  | [], _ :: _ => false
  | x :: xs, p :: ps => x == p && startsWith xs ps

def isAsciiDigit (c : Char) : Bool := '0' ≤ c && c ≤ '9'
def isAsciiAlpha (c : Char) : Bool := ('a' ≤ c && c ≤ 'z') || ('A' ≤ c && c ≤ 'Z')

/-- value of an ASCII digit string, most significant first (Python `int(s)` on `[0-9]+`). -/
def digitsVal (ds : Str) : Nat := ds.foldl (fun acc d => acc * 10 + (d.toNat - '0'.toNat)) 0

/-- decimal rendering of a natural number, as a code-point list (Python `str(n)` / `"%d" % n`). -/
def natStr (n : Nat) : Str := (Nat.repr n).toList

def intStr (i : Int) : Str := if i < 0 then '-' :: natStr i.natAbs else natStr i.natAbs

/-- rstrip of one character -/
def rstripC (c : Char) (s : Str) : Str := (s.reverse.dropWhile (· == c)).reverse

def lowerAscii (c : Char) : Char := if 'A' ≤ c ∧ c ≤ 'Z' then Char.ofNat (c.toNat + 32) else c

end Pptx

namespace Pptx

/-- Python `re.split` on a single-character class: split at every character satisfying `p`;
    always at least one piece. -/
def splitOnP (p : Char → Bool) : Str → List Str
  | [] => [[]]
  | x :: xs =>
    if p x then [] :: splitOnP p xs
    else match splitOnP p xs with
      | [] => [[x]]
      | h :: t => (x :: h) :: t

def hexDigitU (n : Nat) : Char :=
  if n < 10 then Char.ofNat (48 + n) else Char.ofNat (55 + n)

/-- `"%04X" % n` for `n < 65536` -/
def hex4 (n : Nat) : Str :=
  [hexDigitU (n / 4096 % 16), hexDigitU (n / 256 % 16), hexDigitU (n / 16 % 16), hexDigitU (n % 16)]

end Pptx
