/-
  Model for C13: a new slide mirrors its layout's placeholders.
  * `slide.py: SlideLayout.iter_cloneable_placeholders`, `NotesSlide.clone_master_placeholders`
  * `shapes/shapetree.py: clone_placeholder`, `_next_ph_name`, `ph_basename`
  * `shapes/placeholder.py: _InheritsDimensions._effective_value`
  Placeholder types are the XML tokens (`title`, `body`, `dt`, …); the basename table is an input
  (read off the live code by the harness).
-/
import PptxModel.Model.Ids
namespace Pptx.Placeholder
open Pptx

structure Key where
  ty : Str
  idx : Nat
  vert : Bool
  sz : Str
deriving DecidableEq, Repr

structure SPh where
  key : Key
  id : Nat
  name : Str
deriving DecidableEq, Repr

/-- the shape-tree side of a slide-like part: every numeric id in use, every `p:cNvPr/@name`, and
    its placeholders in document order -/
structure SlideSt where
  ids : List Nat
  names : List Str
  phs : List SPh
deriving Repr

/-- search `start, start+1, …` for the first free number -/
def searchUp (free : Nat → Bool) : Nat → Nat → Option Nat
  | _, 0 => none
  | n, fuel + 1 => if free n then some n else searchUp free (n + 1) fuel

def phName (base : Str) (n : Nat) : Str := base ++ ' ' :: natStr n

/-- `_next_ph_name`: `"<basename> <id-1>"`, the number incremented until the name is unused in the part -/
def nextPhName (base : Str) (id : Nat) (names : List Str) : Option Str :=
  (searchUp (fun n => !(names.contains (phName base n))) (id - 1) (names.length + 1)).map (phName base)

def vertPrefix : Str := "Vertical ".toList

/-- the basename used for the name: prefixed for vertical placeholders -/
def fullBase (base : Str) (vert : Bool) : Str := if vert then vertPrefix ++ base else base

/-- `clone_placeholder`; `none` models the `KeyError` of a placeholder type without a basename -/
def clone (basename : Str → Option Str) (s : SlideSt) (k : Key) : Option SlideSt :=
  match basename k.ty with
  | none => none
  | some base =>
    match nextPhName (fullBase base k.vert) (Ids.maxIdPlus1 s.ids) s.names with
    | none => none
    | some name =>
      some { ids := Ids.maxIdPlus1 s.ids :: s.ids, names := s.names ++ [name],
             phs := s.phs ++ [{ key := k, id := Ids.maxIdPlus1 s.ids, name := name }] }

def cloneAll (basename : Str → Option Str) (s : SlideSt) : List Key → Option SlideSt
  | [] => some s
  | k :: rest => match clone basename s k with
    | some s' => cloneAll basename s' rest
    | none => none

/-- latent placeholders of a slide layout are not cloned -/
def latentLayout (ty : Str) : Bool := ty == "dt".toList || ty == "ftr".toList || ty == "sldNum".toList
/-- only these placeholders of the notes master are cloned to a notes slide -/
def cloneableNotes (ty : Str) : Bool := ty == "sldImg".toList || ty == "body".toList || ty == "sldNum".toList

/-- `_effective_value`: own value, else the layout placeholder's, else the master's -/
def effective (own layout master : Option Int) : Option Int :=
  match own with
  | some v => some v
  | none => match layout with
    | some v => some v
    | none => master

/-- `LayoutPlaceholder._base_placeholder`: the type of the master placeholder a layout placeholder of type `ty`
    inherits from (`none`: nothing to inherit from) -/
def masterType (ty : Str) : Option Str :=
  if ty == "title".toList || ty == "ctrTitle".toList then some "title".toList
  else if ty == "dt".toList then some "dt".toList
  else if ty == "ftr".toList then some "ftr".toList
  else if ty == "sldNum".toList then some "sldNum".toList
  else if ty == "body".toList || ty == "chart".toList || ty == "clipArt".toList || ty == "dgm".toList
       || ty == "media".toList || ty == "obj".toList || ty == "pic".toList || ty == "subTitle".toList
       || ty == "tbl".toList then some "body".toList
  else none

/-- `placeholders.get(...)`: the FIRST placeholder, in document order, that matches -/
def firstWith {α : Type} (p : α → Bool) (l : List α) : Option α := l.find? p

/-- geometry a slide placeholder reports for one attribute: `own`, else that of the first layout placeholder with the
    same idx (`lay`: (idx, type, value) in document order), whose own value wins over that of the first master
    placeholder (`mas`: (type, value)) of the mapped type -/
def reported (own : Option Int) (idx : Nat) (lay : List (Nat × Str × Option Int)) (mas : List (Str × Option Int)) : Option Int :=
  match own with
  | some v => some v
  | none => match firstWith (fun e => e.1 == idx) lay with
    | none => none
    | some (_, ty, lv) => match lv with
      | some v => some v
      | none => match masterType ty with
        | none => none
        | some mt => match firstWith (fun e => e.1 == mt) mas with
          | none => none
          | some (_, mv) => mv

/-! ### overriding inherited geometry (`_InheritsDimensions._set_dimension`) -/

/-- a placeholder's own `a:xfrm`: `a:off` and `a:ext` each hold BOTH values of their pair or are absent -/
structure OwnGeom where
  off : Option (Int × Int)
  ext : Option (Int × Int)
deriving Repr, DecidableEq

/-- what the placeholder it inherits from reports: left, top, width, height -/
structure Inh where
  left : Option Int
  top : Option Int
  width : Option Int
  height : Option Int
deriving Repr, DecidableEq

inductive Dim | left | top | width | height
deriving Repr, DecidableEq

/-- the four effective readings: the own value when the element is there, otherwise the inherited one -/
def readDim (o : OwnGeom) (i : Inh) : Dim → Option Int
  | .left => match o.off with | some (x, _) => some x | none => i.left
  | .top => match o.off with | some (_, y) => some y | none => i.top
  | .width => match o.ext with | some (w, _) => some w | none => i.width
  | .height => match o.ext with | some (_, h) => some h | none => i.height

/-- `_set_dimension`: the value is written into the element of its pair; when that element did not exist its other
    value is what the placeholder reported so far (0 when it reported nothing: `a:off` / `a:ext` cannot hold one value) -/
def setDim (o : OwnGeom) (i : Inh) (d : Dim) (v : Int) : OwnGeom :=
  match d with
  | .left => { o with off := some (v, match o.off with | some (_, y) => y | none => i.top.getD 0) }
  | .top => { o with off := some (match o.off with | some (x, _) => x | none => i.left.getD 0, v) }
  | .width => { o with ext := some (v, match o.ext with | some (_, h) => h | none => i.height.getD 0) }
  | .height => { o with ext := some (match o.ext with | some (w, _) => w | none => i.width.getD 0, v) }

def runDims (o : OwnGeom) (i : Inh) (ops : List (Dim × Int)) : OwnGeom := ops.foldl (fun o op => setDim o i op.1 op.2) o

end Pptx.Placeholder
