/-
  Model for C13: a new slide mirrors its layout's placeholders.
  * `slide.py: SlideLayout.iter_cloneable_placeholders`, `NotesSlide.clone_master_placeholders`
  * `shapes/shapetree.py: clone_placeholder`, `_next_ph_name`, `ph_basename`
  * `shapes/placeholder.py: _InheritsDimensions._effective_value`
  Placeholder types are the XML tokens (`title`, `body`, `dt`, …); the basename table is an input
  (read off the live code by the harness).
-/
import PptxModel.Model.Ids
namespace Pptx.Placeholder
open Pptx

structure Key where
  ty : Str
  idx : Nat
  vert : Bool
  sz : Str
deriving DecidableEq, Repr

structure SPh where
  key : Key
  id : Nat
  name : Str
deriving DecidableEq, Repr

/-- the shape-tree side of a slide-like part: every numeric id in use, every `p:cNvPr/@name`, and
    its placeholders in document order -/
structure SlideSt where
  ids : List Nat
  names : List Str
  phs : List SPh
deriving Repr

/-- search `start, start+1, …` for the first free number -/
def searchUp (free : Nat → Bool) : Nat → Nat → Option Nat
  | _, 0 => none
  | n, fuel + 1 => if free n then some n else searchUp free (n + 1) fuel

def phName (base : Str) (n : Nat) : Str := base ++ ' ' :: natStr n

/-- `_next_ph_name`: `"<basename> <id-1>"`, the number incremented until the name is unused in the part -/
def nextPhName (base : Str) (id : Nat) (names : List Str) : Option Str :=
  (searchUp (fun n => !(names.contains (phName base n))) (id - 1) (names.length + 1)).map (phName base)

def vertPrefix : Str := "Vertical ".toList

/-- the basename used for the name: prefixed for vertical placeholders -/
def fullBase (base : Str) (vert : Bool) : Str := if vert then vertPrefix ++ base else base

/-- `clone_placeholder`; `none` models the `KeyError` of a placeholder type without a basename -/
def clone (basename : Str → Option Str) (s : SlideSt) (k : Key) : Option SlideSt :=
  match basename k.ty with
  | none => none
  | some base =>
    match nextPhName (fullBase base k.vert) (Ids.maxIdPlus1 s.ids) s.names with
    | none => none
    | some name =>
      some { ids := Ids.maxIdPlus1 s.ids :: s.ids, names := s.names ++ [name],
             phs := s.phs ++ [{ key := k, id := Ids.maxIdPlus1 s.ids, name := name }] }

def cloneAll (basename : Str → Option Str) (s : SlideSt) : List Key → Option SlideSt
  | [] => some s
  | k :: rest => match clone basename s k with
    | some s' => cloneAll basename s' rest
    | none => none

/-- latent placeholders of a slide layout are not cloned -/
def latentLayout (ty : Str) : Bool := ty == "dt".toList || ty == "ftr".toList || ty == "sldNum".toList
/-- only these placeholders of the notes master are cloned to a notes slide -/
def cloneableNotes (ty : Str) : Bool := ty == "sldImg".toList || ty == "body".toList || ty == "sldNum".toList

/-- `_effective_value`: own value, else the layout placeholder's, else the master's -/
def effective (own layout master : Option Int) : Option Int :=
  match own with
  | some v => some v
  | none => match layout with
    | some v => some v
    | none => master

end Pptx.Placeholder
