/-
  C09 — `ColorFormat` (`dml/color.py`, `oxml/dml/color.py`): the colour of a font, a fill, a line, a gradient stop.

  The parent element (`a:solidFill`, `a:gs`, `a:fgClr` ...) holds at most one element of the colour choice group
  (`a:scrgbClr a:srgbClr a:hslClr a:sysClr a:schemeClr a:prstClr`); that element has one value (`@val` for the two kinds the
  library writes) and a list of colour-transform children in document order, of which the library reads and writes two,
  `a:lumMod` and `a:lumOff`.

  * `ColorFormat.rgb = v`         `get_or_change_to_srgbClr()` (the element present is KEPT when it already is an
                                  `a:srgbClr`, with its transform children; any other element is replaced by an empty one),
                                  then `@val`
  * `ColorFormat.theme_color = t` the same with `a:schemeClr`
  * `ColorFormat.brightness = b`  refused without a colour element or outside [-1, 1]; `clear_lum()` removes every
                                  `a:lumMod` and `a:lumOff`, then `a:lumMod` (shade) or `a:lumMod` + `a:lumOff` (tint) are
                                  APPENDED after the transform children that stay; 0 only clears
  * readers: `type` (none without an element), `rgb` (only an `a:srgbClr` has one), `theme_color` (the value of an
    `a:schemeClr`, NOT_THEME_COLOR for the other kinds, an error without an element), `brightness` (first `a:lumOff`,
    else first `a:lumMod` - 1, else 0)

  Values of transform children are in 1/100000; a brightness is the exact rational `n / d` of the float the caller passed.
-/
import PptxModel.Model.PropStore
namespace Pptx.Color
open Pptx.PropStore

inductive Kind | scrgb | srgb | hsl | sys | scheme | prst
deriving DecidableEq, Repr

/-- tags of transform children: 0 = `a:lumMod`, 1 = `a:lumOff`, anything else = a transform the library does not touch -/
abbrev Kid := Nat × Int

structure Clr where
  kind : Kind
  val : Nat
  kids : List Kid
deriving DecidableEq, Repr

abbrev St := Option Clr

def isLum (k : Kid) : Bool := k.1 == 0 || k.1 == 1

def lumMod (c : Clr) : Option Int := (c.kids.find? fun k => k.1 == 0).map (·.2)
def lumOff (c : Clr) : Option Int := (c.kids.find? fun k => k.1 == 1).map (·.2)

/-- `clear_lum()` -/
def clearLum (c : Clr) : Clr := { c with kids := c.kids.filter fun k => !isLum k }

/-- the children `_tint` / `_shade` append -/
def lumKids : Option Int × Option Int → List Kid
  | (some m, some o) => [(0, m), (1, o)]
  | (some m, none) => [(0, m)]
  | (none, some o) => [(1, o)]
  | (none, none) => []

/-- `_Color.brightness` setter on the element present -/
def writeBright (c : Clr) (n : Int) (d : Nat) : Clr :=
  { clearLum c with kids := (clearLum c).kids ++ lumKids (brightStore n d) }

/-- `get_or_change_to_<kind>()` -/
def changeTo (s : St) (k : Kind) : Clr :=
  match s with
  | some c => if c.kind = k then c else ⟨k, 0, []⟩
  | none => ⟨k, 0, []⟩

inductive Op
  | rgb (v : Nat)
  | theme (t : Nat)
  | bright (n : Int) (d : Nat)
deriving Repr

/-- is a brightness `n / d` inside [-1, 1] -/
def inRange (n : Int) (d : Nat) : Bool := decide (-(d : Int) ≤ n) && decide (n ≤ (d : Int))

/-- one assignment; `none` = refused (ValueError), the colour is as before -/
def step (s : St) : Op → Option St
  | .rgb v => some (some { changeTo s .srgb with val := v })
  | .theme t => some (some { changeTo s .scheme with val := t })
  | .bright n d =>
      match s with
      | none => none
      | some c => if inRange n d then some (some (writeBright c n d)) else none

/-- a history; refused assignments leave the state -/
def run (s : St) : List Op → St
  | [] => s
  | op :: rest => run ((step s op).getD s) rest

/-! ### readers -/

def typeOf (s : St) : Option Kind := s.map (·.kind)

/-- `ColorFormat.rgb`: `none` = AttributeError -/
def rgbOf (s : St) : Option Nat :=
  match s with
  | some c => if c.kind = .srgb then some c.val else none
  | none => none

inductive ThemeRead | error | notTheme | theme (t : Nat)
deriving DecidableEq, Repr

def themeOf (s : St) : ThemeRead :=
  match s with
  | none => .error
  | some c => if c.kind = .scheme then .theme c.val else .notTheme

/-- `ColorFormat.brightness` in 1/100000; `none` = AttributeError (without a colour element there is nothing to ask
    for `lumMod`) -/
def brightOf (s : St) : Option Int :=
  s.map fun c => brightRead (lumMod c, lumOff c)

/-- the transform children the library does not touch -/
def foreign (s : St) : List Kid :=
  match s with
  | none => []
  | some c => c.kids.filter fun k => !isLum k

end Pptx.Color
