/-
  C09 — `FillFormat` (`dml/fill.py`, `oxml/dml/fill.py`): the fill of a shape, a line, a font, a table cell, a chart
  element.  The parent (`p:spPr`, `a:ln`, `a:rPr`, `a:tcPr`, `c:spPr`) holds at most one element of the fill choice group.

  * `background()` / `solid()` / `gradient()` / `patterned()` = `get_or_change_to_<kind>()`: an element of that kind is
    KEPT as it is, any other (or none) is replaced by a new one — empty, except `a:gradFill`, which starts as the two-stop
    default gradient with an `a:lin` (not under `a:ln`: a line's new gradient is a bare `a:gradFill`)
  * `fore_color` — a solid fill's colour (the colour choice inside `a:solidFill`) or a pattern's `a:fgClr`; `back_color` —
    a pattern's `a:bgClr`; asking a pattern for one CREATES the element when absent (`000000` / `FFFFFF`), also when
    the assignment that follows is refused; any other fill kind: TypeError
  * `pattern` (get / set, `None` removes `@prst`): TypeError unless patterned
  * `gradient_angle`: TypeError unless a gradient; reading: ValueError with an `a:path`, `None` without `a:lin`, else
    `360 - ang` (0 for 0); writing: ValueError without `a:lin`, else `ang = 360 - v` through `ST_PositiveFixedAngle`
  * `gradient_stops[i].color` / `.position`: TypeError unless a gradient, IndexError outside the list

  Colours are `Color.St` (Model/Color), assignments to them `Color.Op`.
-/
import PptxModel.Model.Color
namespace Pptx.Fill
open Pptx.PropStore Pptx.SimpleTypes

structure Stop where
  pos : Int
  clr : Color.St
deriving DecidableEq, Repr

inductive F
  | none | noFill | blip | grp
  | solid (c : Color.St)
  | grad (stops : List Stop) (lin : Option Int) (path : Bool)
  | patt (prst : Option Nat) (fg bg : Option Color.St)
deriving DecidableEq, Repr

inductive Kind | none | noFill | blip | grp | solid | grad | patt
deriving DecidableEq, Repr

def kindOf : F → Kind
  | .none => .none | .noFill => .noFill | .blip => .blip | .grp => .grp
  | .solid _ => .solid | .grad .. => .grad | .patt .. => .patt

/-- tags of the transforms in the default gradient (the harness's numbering): satMod 3, shade 4, tint 5 -/
def templateGrad (accent1 : Nat) : F :=
  .grad [⟨0, some ⟨.scheme, accent1, [(5, 100000), (4, 100000), (3, 130000)]⟩⟩,
         ⟨100000, some ⟨.scheme, accent1, [(5, 50000), (4, 100000), (3, 350000)]⟩⟩] (some 0) false

/-- what `get_or_change_to_gradFill()` creates: the two-stop template under `p:spPr`, `p:bgPr`, `a:rPr`, `a:tcPr`
    (`a1 = some accent1`), a bare `a:gradFill` under `a:ln`, which does not override `_new_gradFill` (`a1 = none`) -/
def defaultGrad : Option Nat → F
  | some accent1 => templateGrad accent1
  | none => .grad [] none false

def black : Color.St := some ⟨.srgb, 0, []⟩
def white : Color.St := some ⟨.srgb, 0xFFFFFF, []⟩

inductive Op
  | background | solid | gradient | patterned
  | pattern (p : Option Nat)
  | fore (op : Color.Op)
  | back (op : Color.Op)
  | angle (n : Int) (d : Nat)
  | stopClr (i : Nat) (op : Color.Op)
  | stopPos (i : Nat) (n : Int) (d : Nat)
  /-- `line.color` / `font.color` followed by an assignment: "accessing this property causes the fill type to be set to
      SOLID" (documented), then it is `fill.fore_color` -/
  | viaColor (op : Color.Op)
deriving Repr

inductive Res | ok | typeError | valueError | indexError
deriving DecidableEq, Repr

/-- a colour assignment on a colour that exists as an element -/
def colour (c : Color.St) (op : Color.Op) : Color.St × Res :=
  match Color.step c op with
  | some c' => (c', .ok)
  | none => (c, .valueError)

/-- `ST_PositiveFixedPercentage` of a gradient stop position `n / d` in [0, 1] -/
def posOk (n : Int) (d : Nat) : Bool := decide (0 ≤ n) && decide (n ≤ (d : Int))

def setNth {α : Type} (l : List α) (i : Nat) (x : α) : List α := l.set i x

/-- one call; the fill afterwards and what the call did -/
def step (a1 : Option Nat) (f : F) : Op → F × Res
  | .background => (match f with | .noFill => f | _ => .noFill, .ok)
  | .solid => (match f with | .solid _ => f | _ => .solid none, .ok)
  | .gradient => (match f with | .grad .. => f | _ => defaultGrad a1, .ok)
  | .patterned => (match f with | .patt .. => f | _ => .patt none none none, .ok)
  | .pattern p =>
      match f with
      | .patt _ fg bg => (.patt p fg bg, .ok)
      | _ => (f, .typeError)
  | .fore op =>
      match f with
      | .solid c => let (c', r) := colour c op; (.solid c', r)
      | .patt p fg bg => let (c', r) := colour (fg.getD black) op; (.patt p (some c') bg, r)
      | _ => (f, .typeError)
  | .back op =>
      match f with
      | .patt p fg bg => let (c', r) := colour (bg.getD white) op; (.patt p fg (some c'), r)
      | _ => (f, .typeError)
  | .angle n d =>
      match f with
      | .grad stops lin path =>
          match lin with
          | some _ => (.grad stops (some (gradStore n d)) path, .ok)
          | none => (f, .valueError)
      | _ => (f, .typeError)
  | .stopClr i op =>
      match f with
      | .grad stops lin path =>
          match stops[i]? with
          | some s => let (c', r) := colour s.clr op; (.grad (setNth stops i { s with clr := c' }) lin path, r)
          | none => (f, .indexError)
      | _ => (f, .typeError)
  | .stopPos i n d =>
      match f with
      | .grad stops lin path =>
          match stops[i]? with
          | some s => if posOk n d then (.grad (setNth stops i { s with pos := pct n d }) lin path, .ok) else (f, .valueError)
          | none => (f, .indexError)
      | _ => (f, .typeError)
  | .viaColor op =>
      let c0 : Color.St := match f with | .solid c => c | _ => none
      let (c', r) := colour c0 op
      (.solid c', r)

def run (a1 : Option Nat) (f : F) : List Op → F
  | [] => f
  | op :: rest => run a1 (step a1 f op).1 rest

/-! ### readers -/

/-- `fill.fore_color` without an assignment: the colour read (a pattern's is created when absent) -/
def foreOf : F → Option Color.St
  | .solid c => some c
  | .patt _ fg _ => some (fg.getD black)
  | _ => none

def backOf : F → Option Color.St
  | .patt _ _ bg => some (bg.getD white)
  | _ => none

/-- `fill.pattern`: `none` = TypeError -/
def patternOf : F → Option (Option Nat)
  | .patt p _ _ => some p
  | _ => none

inductive AngleRead | typeError | valueError | inherited | angle (a : Int)
deriving DecidableEq, Repr

def angleOf : F → AngleRead
  | .grad _ lin path => if path then .valueError else match lin with | none => .inherited | some a => .angle (gradRead a)
  | _ => .typeError

def stopsOf : F → Option (List Stop)
  | .grad stops _ _ => some stops
  | _ => none

end Pptx.Fill
