/-
  Model of `src/pptx/opc/packuri.py` (class `PackURI`) together with the parts of
  `posixpath` it calls (`split`, `splitext`, `join`, `normpath`/`abspath`, `relpath`),
  transcribed from CPython 3.12 `Lib/posixpath.py` / `genericpath.py`.

  A pack URI is a `Str` (code-point list).  The path functions go through `'/'`-separated
  component lists exactly as `posixpath` does (`path.split('/')`), which is also the level the
  theorems in `Props/C19.lean` are stated at.
-/
import PptxModel.Model.Str
namespace Pptx.PackUri
open Pptx

def dot : Str := ['.']
def dotdot : Str := ['.', '.']

/-- `PackURI.__new__`: a pack URI must begin with a slash (the empty string raises `IndexError`
    in the code; both are a rejection). -/
def mk (s : Str) : Option Str :=
  match s with
  | '/' :: _ => some s
  | _ => none

/-- `posixpath.split`: `(head, tail)`; `tail` has no slash; trailing slashes are stripped from
    `head` unless it is all slashes. -/
def split (p : Str) : Str × Str :=
  let r := p.reverse
  let tail := (r.takeWhile (· != '/')).reverse
  let head := (r.dropWhile (· != '/')).reverse
  let head' := if head != [] && !(head.all (· == '/')) then rstripC '/' head else head
  (head', tail)

/-- `genericpath._splitext` applied to a string without a directory part is what `PackURI.ext`
    and `PackURI.idx` need; this is the general version (`sepIndex = p.rfind('/')`). -/
def splitext (p : Str) : Str × Str :=
  let r := p.reverse
  -- the last path component, and everything before it (including the slash)
  let fname := (r.takeWhile (· != '/')).reverse
  let dir := (r.dropWhile (· != '/')).reverse
  -- position of the last dot inside `fname` (a dot before the last slash does not count)
  let fr := fname.reverse
  if !(fr.any (· == '.')) then (p, []) else
  let extRev := fr.takeWhile (· != '.')           -- chars after the last dot, reversed
  let stemRev := (fr.dropWhile (· != '.')).drop 1  -- chars before the last dot, reversed
  let stem := stemRev.reverse
  -- leading dots are skipped: an extension only counts if some char before the dot is not '.'
  if stem.all (· == '.') then (p, []) else (dir ++ stem, '.' :: extRev.reverse)

/-- `posixpath.join(a, b)` -/
def join2 (a b : Str) : Str :=
  if b.head? = some '/' then b
  else if a = [] ∨ a.getLast? = some '/' then a ++ b
  else a ++ '/' :: b

/-- one step of the component loop in `posixpath.normpath`; the stack is kept reversed -/
def normStep (abs : Bool) (st : List Str) (c : Str) : List Str :=
  if c = [] ∨ c = dot then st
  else if c ≠ dotdot ∨ (abs = false ∧ st = []) ∨ st.head? = some dotdot then c :: st
  else st.tail

def normComps (abs : Bool) (cs : List Str) : List Str := (cs.foldl (normStep abs) []).reverse

/-- number of initial slashes `normpath` keeps: 2 for exactly two, else 1 or 0 -/
def initialSlashes (s : Str) : Nat :=
  match s with
  | '/' :: '/' :: '/' :: _ => 1
  | '/' :: '/' :: _ => 2
  | '/' :: _ => 1
  | _ => 0

/-- `posixpath.normpath` -/
def normpath (s : Str) : Str :=
  if s = [] then dot else
  let k := initialSlashes s
  let body := joinC '/' (normComps (k != 0) (splitOnC '/' s))
  let r := List.replicate k '/' ++ body
  if r = [] then dot else r

/-- `PackURI.from_rel_ref(baseURI, relative_ref)`.  `posixpath.abspath` consults the process's
    working directory for a relative result of `join`; that case (a relative `baseURI`) is
    outside the model and reported as `none`. -/
def fromRelRef (base ref : Str) : Option Str :=
  let j := join2 base ref
  if j.head? = some '/' then mk (normpath j) else none

/-- `[x for x in p.split('/') if x]` -/
def comps (s : Str) : List Str := (splitOnC '/' s).filter (· ≠ [])

def commonPrefixLen : List Str → List Str → Nat
  | a :: as, b :: bs => if a = b then commonPrefixLen as bs + 1 else 0
  | _, _ => 0

/-- `posixpath.relpath(path, start)` for absolute `path` and `start` -/
def relpath (path start : Str) : Str :=
  let sl := comps (normpath start)
  let pl := comps (normpath path)
  let i := commonPrefixLen sl pl
  let rel := List.replicate (sl.length - i) dotdot ++ pl.drop i
  if rel = [] then dot else joinC '/' rel

/-- `PackURI.relative_ref(baseURI)` -/
def relativeRef (self base : Str) : Str :=
  if base = ['/'] then self.drop 1 else relpath self base

def baseURI (self : Str) : Str := (split self).1
def filename (self : Str) : Str := (split self).2

def ext (self : Str) : Str :=
  let raw := (splitext self).2
  if raw.head? = some '.' then raw.drop 1 else raw

/-- `PackURI.idx`: `re.match("([a-zA-Z]+)([0-9][0-9]*)?", name_part)` -/
def idx (self : Str) : Option Nat :=
  let fn := filename self
  if fn = [] then none else
  let namePart := (splitext fn).1
  let letters := namePart.takeWhile isAsciiAlpha
  if letters = [] then none else
  let digits := (namePart.dropWhile isAsciiAlpha).takeWhile isAsciiDigit
  if digits = [] then none else some (digitsVal digits)

def membername (self : Str) : Str := self.drop 1

def relsUri (self : Str) : Option Str :=
  mk (join2 (join2 (baseURI self) "_rels".toList) (filename self ++ ".rels".toList))

end Pptx.PackUri
