/-
  Line protocol helpers for the driver: a line is `cmd arg arg ...` separated by single spaces;
  a string argument is encoded as dot-separated decimal code points, the empty string as `-`.
-/
import PptxModel.Model.Str
namespace Pptx.Proto

def decStr (tok : String) : Option Str :=
  if tok == "-" then some [] else
  (tok.splitOn ".").foldr (fun p acc => do
      let n ← p.toNat?
      let rest ← acc
      pure (Char.ofNat n :: rest)) (some [])

def encStr (s : Str) : String :=
  if s.isEmpty then "-" else ".".intercalate (s.map fun c => toString c.toNat)

def decInt (tok : String) : Option Int := tok.toInt?
def decNat (tok : String) : Option Nat := tok.toNat?

def encOptNat : Option Nat → String
  | none => "none"
  | some n => toString n

def encBool (b : Bool) : String := if b then "1" else "0"

/-- a list of strings: `;`-separated encoded strings, `!` for the empty list -/
def encStrList (l : List Str) : String :=
  if l.isEmpty then "!" else ";".intercalate (l.map encStr)

def decStrList (tok : String) : Option (List Str) :=
  if tok == "!" then some [] else (tok.splitOn ";").mapM decStr

def decIntList (tok : String) : Option (List Int) :=
  if tok == "!" then some [] else (tok.splitOn ",").mapM (·.toInt?)

def decNatList (tok : String) : Option (List Nat) :=
  if tok == "!" then some [] else (tok.splitOn ",").mapM (·.toNat?)

def encIntList (l : List Int) : String :=
  if l.isEmpty then "!" else ",".intercalate (l.map toString)

def encNatList (l : List Nat) : String :=
  if l.isEmpty then "!" else ",".intercalate (l.map toString)

end Pptx.Proto
