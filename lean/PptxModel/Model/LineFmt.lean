/-
  C09 — `LineFormat.width` / `.dash_style` (`dml/line.py`, `oxml/shapes/shared.py`: `CT_LineProperties`).

  The owner has an `a:ln` or not.  `a:ln` carries `@w` (EMU; absent = 0), an optional `a:prstDash val=…` and possibly an
  `a:custDash` (other producers; a file may carry both).
  `width`: 0 without `a:ln`, else `@w` or 0.  Assigning: None is 0; outside 0..20116800 a ValueError BEFORE `a:ln` is created; else
  `a:ln` is obtained and `@w` written - removed when the value is 0, the attribute's default.
  `dash_style`: None without `a:ln`, else the `a:prstDash` value (None with only `a:custDash`).  Assigning None: nothing without
  `a:ln`, else both dash elements are removed; a non-member (and DASH_STYLE_MIXED, which has no XML form) is a ValueError before
  anything is created or removed; a member obtains `a:ln`, removes `a:custDash` and writes `a:prstDash`.
-/
namespace Pptx.LineFmt

structure Ln where
  w : Option Nat
  prst : Option Nat
  cust : Bool
deriving DecidableEq, Repr

abbrev St := Option Ln

inductive Dash | none | member (k : Nat) | other
deriving DecidableEq, Repr

inductive Op
  | width (e : Option Int)
  | dash (d : Dash)
deriving DecidableEq, Repr

def maxW : Int := 20116800

def width (s : St) : Nat := match s with | none => 0 | some l => l.w.getD 0
def dashOf (s : St) : Option Nat := s.bind (·.prst)

def getOrAdd (s : St) : Ln := s.getD ⟨none, none, false⟩

def accepts : Op → Bool
  | .width none => true
  | .width (some e) => decide (0 ≤ e ∧ e ≤ maxW)
  | .dash .other => false
  | .dash _ => true

def step (s : St) (op : Op) : St × Bool :=
  if !accepts op then (s, false) else
  match op with
  | .width e =>
    let v := (e.getD 0).toNat
    (some { getOrAdd s with w := if v = 0 then none else some v }, true)
  | .dash .none => (s.map fun l => { l with prst := none, cust := false }, true)
  | .dash (.member k) => (some { getOrAdd s with prst := some k, cust := false }, true)
  | .dash .other => (s, false)

def run (s : St) : List Op → St
  | [] => s
  | op :: rest => run (step s op).1 rest

/-- the last accepted width / dash style of a history -/
def lastWidth (init : Nat) : List Op → Nat
  | [] => init
  | .width e :: rest => lastWidth (if accepts (.width e) then (e.getD 0).toNat else init) rest
  | .dash _ :: rest => lastWidth init rest

def lastDash (init : Option Nat) : List Op → Option Nat
  | [] => init
  | .dash .none :: rest => lastDash none rest
  | .dash (.member k) :: rest => lastDash (some k) rest
  | _ :: rest => lastDash init rest

end Pptx.LineFmt
