/-
  Model for C01 / C16 (and the saving half of C02): the OPC package loader and writer.
  * `opc/package.py`: `_PackageLoader._xml_rels` (depth-first walk), `._parts`, `_ContentTypeMap`,
    `_Relationships.load_from_xml` (dangling internal targets skipped), `OpcPackage.iter_rels /
    iter_parts`, `_Relationships.xml` (numeric rId order), `_Relationship.target_ref`
  * `opc/serialized.py`: `PackageReader.rels_xml_for`, `PackageWriter`, `_ContentTypesItem`
  * `opc/spec.py`: `default_content_types`
  The XML codec is abstracted: a rels item is a list of relationship records, the content-types
  item two association lists; a part's payload is identified by the member it was read from.
-/
import PptxModel.Model.PackUri
namespace Pptx.Opc
open Pptx

structure RelX where
  id : Str
  rtype : Str
  target : Str
  external : Bool
deriving Repr, DecidableEq

/-- the physical package as the reader sees it -/
structure Phys where
  defaults : List (Str × Str)          -- `<Default Extension ContentType>` in document order
  overrides : List (Str × Str)         -- `<Override PartName ContentType>`
  members : List Str                   -- part names present, e.g. `/ppt/slides/slide1.xml`
  rels : List (Str × List RelX)        -- rels items present: source part name (`/` = package)
deriving Repr

def lowerStr (s : Str) : Str := s.map lowerAscii

/-- last entry wins (a `dict` built from the element list), keys compared lower-cased -/
def ciLookup (k : Str) (l : List (Str × Str)) : Option Str :=
  (l.reverse.find? fun e => lowerStr e.1 == lowerStr k).map (·.2)

/-- `_ContentTypeMap.__getitem__` -/
def ctLookup (p : Phys) (name : Str) : Option Str :=
  match ciLookup name p.overrides with
  | some ct => some ct
  | none => ciLookup (PackUri.ext name) p.defaults

def relsFor (p : Phys) (name : Str) : List RelX := (p.rels.lookup name).getD []

/-- resolve a relationship target against its source part -/
def resolve (source : Str) (r : RelX) : Option Str := PackUri.fromRelRef (PackUri.baseURI source) r.target

/-- `_PackageLoader._xml_rels`: depth-first walk from the package root over internal targets;
    returns the visited part names in discovery order (`/` first).  `fuel` bounds the recursion
    (each call visits a new name; names come from the finitely many relationship records). -/
def walk (p : Phys) : Nat → List Str → List Str → List Str
  | 0, visited, _ => visited
  | _, visited, [] => visited
  | fuel + 1, visited, src :: todo =>
    if visited.contains src then walk p fuel visited todo
    else
      let targets := (relsFor p src).filterMap fun r => if r.external then none else resolve src r
      -- depth first: the targets of `src` are explored before the remaining siblings
      walk p fuel (visited ++ [src]) (targets ++ todo)

def totalRels (p : Phys) : Nat := (p.rels.map fun e => e.2.length).sum

def visitedNames (p : Phys) : List Str := walk p (2 * totalRels p + 2) [] [['/']]

structure LPart where
  name : Str
  ct : Str
  src : Str                  -- the member whose bytes this part holds
  rels : List RelX           -- valid relationships, in document order; internal targets are RESOLVED part names
deriving Repr

inductive LoadErr | noContentTypes | noContentType (name : Str)
deriving Repr

structure Loaded where
  pkgRels : List RelX
  parts : List LPart
deriving Repr

/-- `_Relationships.load_from_xml.iter_valid_rels`: internal relationships whose target is not a
    loaded part are dropped; kept internal relationships carry the resolved target name -/
def validRels (partNames : List Str) (source : Str) (rs : List RelX) : List RelX :=
  rs.filterMap fun r =>
    if r.external then some r
    else match resolve source r with
      | some t => if partNames.contains t then some { r with target := t } else none
      | none => none

/-- `OpcPackage._load` -/
def load (p : Phys) (hasCT : Bool) : Except LoadErr Loaded :=
  if !hasCT then .error .noContentTypes else
  let names := (visitedNames p).filter fun n => n != ['/'] && p.members.contains n
  match names.find? fun n => (ctLookup p n).isNone with
  | some n => .error (.noContentType n)
  | none =>
    let parts := names.map fun n =>
      { name := n, ct := (ctLookup p n).getD [], src := n, rels := validRels names n (relsFor p n) : LPart }
    .ok { pkgRels := validRels names ['/'] (relsFor p ['/']), parts := parts }

/-! ### saving -/

def partByName (L : Loaded) (n : Str) : Option LPart := L.parts.find? fun q => q.name == n

/-- `OpcPackage.iter_parts` via `iter_rels`: depth-first over the loaded relationship objects,
    each part once, in discovery order -/
def iterParts (L : Loaded) : Nat → List Str → List RelX → List Str
  | 0, visited, _ => visited
  | _, visited, [] => visited
  | fuel + 1, visited, r :: todo =>
    if r.external then iterParts L fuel visited todo
    else if visited.contains r.target then iterParts L fuel visited todo
    else
      let sub := match partByName L r.target with | some q => q.rels | none => []
      iterParts L fuel (visited ++ [r.target]) (sub ++ todo)

def savedPartNames (L : Loaded) : List Str :=
  iterParts L (2 * ((L.parts.map fun q => q.rels.length).sum + L.pkgRels.length) + 2) [] L.pkgRels

/-- `opc/spec.py: default_content_types` is passed in by the translator as `dct` -/
def inDefaults (dct : List (Str × Str)) (ext ct : Str) : Bool := dct.contains (lowerStr ext, ct)

def setCI (k v : Str) (l : List (Str × Str)) : List (Str × Str) :=
  if l.any (fun e => e.1 == lowerStr k) then l.map fun e => if e.1 == lowerStr k then (e.1, v) else e
  else l ++ [(lowerStr k, v)]

/-- the default-able content types occurring among the parts for one (lower-cased) extension -/
def eligibleTypes (dct : List (Str × Str)) (parts : List (Str × Str)) (ext : Str) : List Str :=
  (parts.filter fun pn => lowerStr (PackUri.ext pn.1) == lowerStr ext && inDefaults dct (PackUri.ext pn.1) pn.2).map
    (·.2)

/-- `len(set(l)) == 1`: non-empty and all equal -/
def oneType : List Str → Bool
  | [] => false
  | x :: xs => xs.all (· == x)

/-- a part is written as a Default when its (extension, type) is a known default pair and every
    default-able part with that extension has the same type (the `fix:` for F-C01-1) -/
def isDef (dct : List (Str × Str)) (all : List (Str × Str)) (pn : Str × Str) : Bool :=
  inDefaults dct (PackUri.ext pn.1) pn.2 && oneType (eligibleTypes dct all (PackUri.ext pn.1))

def ctStep (dct : List (Str × Str)) (all : List (Str × Str))
    (acc : List (Str × Str) × List (Str × Str)) (pn : Str × Str) : List (Str × Str) × List (Str × Str) :=
  if isDef dct all pn then (setCI (PackUri.ext pn.1) pn.2 acc.1, acc.2)
  else (acc.1, acc.2 ++ [(pn.1, pn.2)])

/-- `_ContentTypesItem._defaults_and_overrides` -/
def ctItem (dct : List (Str × Str)) (xmlCT relsCT : Str) (parts : List (Str × Str)) :
    List (Str × Str) × List (Str × Str) :=
  parts.foldl (ctStep dct parts) ([("rels".toList, relsCT), ("xml".toList, xmlCT)], [])

/-- the writer before the fix: the last default-able part of an extension decides its Default -/
def ctItemLastWins (dct : List (Str × Str)) (xmlCT relsCT : Str) (parts : List (Str × Str)) :
    List (Str × Str) × List (Str × Str) :=
  parts.foldl (fun (acc : List (Str × Str) × List (Str × Str)) (pn : Str × Str) =>
    let (defaults, overrides) := acc
    let ext := PackUri.ext pn.1
    if inDefaults dct ext pn.2 then (setCI ext pn.2 defaults, overrides)
    else (defaults, overrides ++ [(pn.1, pn.2)]))
    ([("rels".toList, relsCT), ("xml".toList, xmlCT)], [])

/-- lexicographic order on code points (Python `sorted` on `str`) -/
def strLt : Str → Str → Bool
  | [], [] => false
  | [], _ :: _ => true
  | _ :: _, [] => false
  | a :: as, b :: bs => if a.toNat < b.toNat then true else if a.toNat > b.toNat then false else strLt as bs

def insertBy {α : Type} (lt : α → α → Bool) (x : α) : List α → List α
  | [] => [x]
  | y :: ys => if lt x y then x :: y :: ys else y :: insertBy lt x ys
def sortBy {α : Type} (lt : α → α → Bool) (l : List α) : List α := l.foldr (insertBy lt) []

/-- the sort key of `_Relationships.xml`: `(int(rId[3:]) if rId is "rId<digits>" else 0, rId)` -/
def rIdKey (id : Str) : Nat × Str :=
  let d := id.drop 3
  if startsWith id "rId".toList && !d.isEmpty && d.all (fun c => c.isDigit) then (digitsVal d, id) else (0, id)

def keyLt (a b : Nat × Str) : Bool := a.1 < b.1 || (a.1 == b.1 && strLt a.2 b.2)

/-- a saved rels item: relationships in numeric order, internal targets as relative references -/
def savedRels (source : Str) (rs : List RelX) : List RelX :=
  (sortBy (fun a b => keyLt (rIdKey a.id) (rIdKey b.id)) rs).map fun r =>
    if r.external then r else { r with target := PackUri.relativeRef r.target (PackUri.baseURI source) }

structure Saved where
  defaults : List (Str × Str)
  overrides : List (Str × Str)
  memberOrder : List Str               -- zip member names in write order
  parts : List (Str × Str)             -- (part name, source member of its bytes)
  rels : List (Str × List RelX)
deriving Repr

/-- `PackageWriter._write` -/
def save (dct : List (Str × Str)) (xmlCT relsCT : Str) (L : Loaded) : Saved :=
  let names := savedPartNames L
  let ps := names.filterMap (partByName L)
  let (d, o) := ctItem dct xmlCT relsCT (ps.map fun q => (q.name, q.ct))
  let relItems := (['/'], savedRels ['/'] L.pkgRels) ::
    (ps.filter fun q => !q.rels.isEmpty).map fun q => (q.name, savedRels q.name q.rels)
  let order := "[Content_Types].xml".toList :: "_rels/.rels".toList ::
    ps.flatMap fun q =>
      PackUri.membername q.name ::
        (if q.rels.isEmpty then [] else [PackUri.membername ((PackUri.relsUri q.name).getD [])])
  { defaults := sortBy (fun a b => strLt a.1 b.1) d,
    overrides := sortBy (fun a b => strLt a.1 b.1) o,
    memberOrder := order, parts := ps.map fun q => (q.name, q.src), rels := relItems }

/-- read a saved package back as a physical package -/
def Saved.toPhys (s : Saved) : Phys :=
  { defaults := s.defaults, overrides := s.overrides, members := s.parts.map (·.1), rels := s.rels }

/-- `api._is_pptx_package`: the main part's content type is that of a presentation (plain or macro-enabled); a template,
    a slide show, any other main part is not one -/
def isPresentationType (ct : Str) : Bool :=
  ct == "application/vnd.openxmlformats-officedocument.presentationml.presentation.main+xml".toList ||
  ct == "application/vnd.ms-powerpoint.presentation.macroEnabled.main+xml".toList

/-- `Presentation(pkg_file)` after the package loaded: the part the office-document relationship leads to must be a
    presentation part; `none` = `KeyError` (no such relationship), `some false` = `ValueError`, `some true` = opened -/
def openVerdict (L : Loaded) (rtOfficeDoc : Str) : Option Bool :=
  match L.pkgRels.find? (fun r => r.rtype == rtOfficeDoc && !r.external) with
  | none => none
  | some r => (partByName L r.target).map fun q => isPresentationType q.ct

end Pptx.Opc
