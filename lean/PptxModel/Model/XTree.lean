/-
  Model for C03: an XML part as a tree, a schema as a table of complex types (content model flattened to
  ordered slots with occurrence bounds, attribute declarations with simple types), validity of a tree
  against a type, and the primitive edits the library performs on a tree:

  * `oxml/xmlchemy.py`: `insert_element_before` (via `Slots.insertTag`), `remove_all`, `Choice.get_or_change_to`,
    `OptionalAttribute` / `RequiredAttribute` setters (validate, then write; `None`/default removes)
  * grafting a template instance (`new_autoshape_sp`, `new_pic`, … = inserting a whole subtree)

  The schema tables are regenerated from the XSDs shipped in /repo/spec by the translator
  (`Gen/C03.lean`); tags, attribute names and types are numbered by the translator.
-/
import PptxModel.Model.Str
import PptxModel.Model.Slots
namespace Pptx.XTree
open Pptx Pptx.Slots

/-! ### regular expressions (XSD `pattern` facets), matched with Brzozowski derivatives -/

inductive Re where
  | empty                       -- matches nothing
  | eps                         -- matches the empty string
  | range (lo hi : Nat)         -- one character with code point in [lo, hi]
  | seq (a b : Re)
  | alt (a b : Re)
  | star (a : Re)
deriving Repr, DecidableEq

def Re.nullable : Re → Bool
  | .empty => false
  | .eps => true
  | .range _ _ => false
  | .seq a b => a.nullable && b.nullable
  | .alt a b => a.nullable || b.nullable
  | .star _ => true

def Re.deriv (c : Nat) : Re → Re
  | .empty => .empty
  | .eps => .empty
  | .range lo hi => if lo ≤ c && c ≤ hi then .eps else .empty
  | .seq a b => if a.nullable then .alt (.seq (a.deriv c) b) (b.deriv c) else .seq (a.deriv c) b
  | .alt a b => .alt (a.deriv c) (b.deriv c)
  | .star a => .seq (a.deriv c) (.star a)

def Re.matches (r : Re) (s : Str) : Bool := (s.foldl (fun r c => r.deriv c.toNat) r).nullable

/-! ### simple types -/

/-- one alternative of a (flattened) simple type -/
inductive Atom where
  | any                               -- xsd:string and everything not modelled
  | int (lo hi : Option Int)          -- integer family, builtin range ∩ facets
  | dec                               -- xsd:double / float / decimal (lexical form only)
  | enum (vs : List Str)
  | ienum (vs : List Int)             -- enumeration on an integer base type: compared in the value space ("00" is 0)
  | bool
  | hex (bytes : Nat)                 -- xsd:hexBinary with a length facet
  | pat (r : Re)                      -- xsd:token / string restricted by a pattern
deriving Repr

def isWs (c : Char) : Bool := c == ' ' || c == '\t' || c == '\n' || c == '\r'
def trimWs (s : Str) : Str := ((s.dropWhile isWs).reverse.dropWhile isWs).reverse

def digitVal (c : Char) : Option Nat := if '0' ≤ c && c ≤ '9' then some (c.toNat - 48) else none

def natOfDigits : Str → Option Nat
  | [] => none
  | s => s.foldl (fun acc c => match acc, digitVal c with
      | some a, some d => some (a * 10 + d)
      | _, _ => none) (some 0)

/-- `[+-]?[0-9]+` -/
def intLex (s : Str) : Option Int :=
  match s with
  | '-' :: r => (natOfDigits r).map fun n => -(n : Int)
  | '+' :: r => (natOfDigits r).map fun n => (n : Int)
  | r => (natOfDigits r).map fun n => (n : Int)

def allDigits (s : Str) : Bool := !s.isEmpty && s.all fun c => (digitVal c).isSome

/-- `[+-]?(digits(.digits?)?|.digits)([eE][+-]?digits)?`, `INF`, `-INF`, `NaN` -/
def decLex (s : Str) : Bool :=
  if s == "INF".toList || s == "-INF".toList || s == "NaN".toList then true else
  let body := match s with | '-' :: r => r | '+' :: r => r | r => r
  let (mant, exp) := (body.takeWhile fun c => c != 'e' && c != 'E', (body.dropWhile fun c => c != 'e' && c != 'E'))
  let mantOk :=
    let ip := mant.takeWhile (· != '.')
    let fp := mant.dropWhile (· != '.')
    match fp with
    | [] => allDigits ip
    | _ :: f => (ip.isEmpty || allDigits ip) && (f.isEmpty || allDigits f) && !(ip.isEmpty && f.isEmpty)
  let expOk := match exp with
    | [] => true
    | _ :: e => (intLex e).isSome
  mantOk && expOk

def isHex (c : Char) : Bool := ('0' ≤ c && c ≤ '9') || ('a' ≤ c && c ≤ 'f') || ('A' ≤ c && c ≤ 'F')

def Atom.accepts : Atom → Str → Bool
  | .any, _ => true
  | .int lo hi, s => match intLex (trimWs s) with
      | none => false
      | some v => (match lo with | none => true | some b => decide (b ≤ v)) && (match hi with | none => true | some b => decide (v ≤ b))
  | .dec, s => decLex (trimWs s)
  | .enum vs, s => vs.contains (trimWs s)
  | .ienum vs, s => match intLex (trimWs s) with
      | none => false
      | some v => vs.contains v
  | .bool, s => let t := trimWs s; t == "true".toList || t == "false".toList || t == "1".toList || t == "0".toList
  | .hex n, s => let t := trimWs s; t.length == 2 * n && t.all isHex
  | .pat r, s => r.matches (trimWs s)

/-- a simple type: a union of atoms -/
abbrev STy := List Atom
def STy.accepts (t : STy) (s : Str) : Bool := t.any fun a => a.accepts s

/-! ### complex types and trees -/

inductive XT where
  | mk (tag : Nat) (attrs : List (Nat × Str)) (kids : List XT)
deriving Repr

def XT.tag : XT → Nat | .mk t _ _ => t
def XT.attrs : XT → List (Nat × Str) | .mk _ a _ => a
def XT.kids : XT → List XT | .mk _ _ k => k

structure CT where
  kids : List (Nat × Nat × Nat)        -- (child tag, slot, child type)
  smin : List (Nat × Nat)              -- slot ↦ minOccurs, for slots with minOccurs > 0
  smax : List (Nat × Nat)              -- slot ↦ maxOccurs, for bounded slots
  openKids : Bool                      -- wildcard / unmodelled content: children are not checked
  attrs : List (Nat × Nat × Bool)      -- (attribute, simple type, required)
  openAttrs : Bool                     -- xsd:anyAttribute
deriving Repr

structure Schema where
  types : Array CT
  simple : Array STy
  roots : List (Nat × Nat)             -- root tag ↦ type

def Schema.ct (S : Schema) (ty : Nat) : CT :=
  S.types.getD ty { kids := [], smin := [], smax := [], openKids := true, attrs := [], openAttrs := true }

def CT.slotOf (c : CT) (tag : Nat) : Option Nat := (c.kids.lookup tag).map (·.1)
def CT.typeOf (c : CT) (tag : Nat) : Option Nat := (c.kids.lookup tag).map (·.2)
def CT.slotD (c : CT) (tag : Nat) : Nat := (c.slotOf tag).getD 0

/-- the type a child element is validated against: the one its parent's content model gives it; under wildcard
    content (`xsd:any`, strict) the type of the global element declaration with that tag, if there is one -/
def kidType (S : Schema) (c : CT) (tag : Nat) : Option Nat :=
  match c.typeOf tag with
  | some t => some t
  | none => if c.openKids then S.roots.lookup tag else none

/-- children in schema order: slot numbers never decrease -/
def sortedBy (f : Nat → Nat) : List Nat → Bool
  | [] => true
  | [_] => true
  | a :: b :: rest => decide (f a ≤ f b) && sortedBy f (b :: rest)

def CT.countIn (c : CT) (slot : Nat) (tags : List Nat) : Nat := (tags.filter fun t => c.slotOf t == some slot).length

/-- order and upper bounds (what an insertion or an attribute assignment can break) -/
def CT.kidsUp (c : CT) (tags : List Nat) : Bool :=
  c.openKids ||
  (tags.all (fun t => (c.slotOf t).isSome) && sortedBy c.slotD tags &&
   c.smax.all fun (s, m) => decide (c.countIn s tags ≤ m))

/-- lower bounds (what a removal can break) -/
def CT.kidsMin (c : CT) (tags : List Nat) : Bool :=
  c.openKids || c.smin.all fun (s, m) => decide (m ≤ c.countIn s tags)

def attrsUp (S : Schema) (c : CT) (as : List (Nat × Str)) : Bool :=
  as.all fun (a, v) => match c.attrs.lookup a with
    | some (st, _) => (S.simple.getD st [Atom.any]).accepts v
    | none => c.openAttrs

def CT.attrsMin (c : CT) (as : List (Nat × Str)) : Bool :=
  c.attrs.all fun (a, _, req) => !req || (as.lookup a).isSome

/-- node-level conformance, without (`full = false`) or with (`full = true`) the lower bounds -/
def nodeOk (S : Schema) (full : Bool) (ty : Nat) (n : XT) : Bool :=
  let c := S.ct ty
  c.kidsUp (n.kids.map XT.tag) && attrsUp S c n.attrs && (!full || (c.kidsMin (n.kids.map XT.tag) && c.attrsMin n.attrs))

mutual
/-- the whole subtree conforms; a child that has no type (foreign content under a wildcard) is not descended into -/
def valid (S : Schema) (full : Bool) (ty : Nat) : XT → Bool
  | .mk tag as ks => nodeOk S full ty (.mk tag as ks) && validKids S full (S.ct ty) ks
def validKids (S : Schema) (full : Bool) (c : CT) : List XT → Bool
  | [] => true
  | k :: ks => (match kidType S c k.tag with
      | some cty => valid S full cty k
      | none => true) && validKids S full c ks
end

/-- `validUp`: order, cardinality upper bounds and attribute lexical spaces everywhere -/
abbrev validUp (S : Schema) := valid S false
/-- `validMin`: full validity (adds required children and required attributes) -/
abbrev validMin (S : Schema) := valid S true

def validRoot (S : Schema) (full : Bool) (t : XT) : Bool :=
  match S.roots.lookup t.tag with
  | some ty => valid S full ty t
  | none => false

/-! ### edits -/

/-- apply `f` to the node reached by following child positions `path` -/
def editAt : List Nat → (XT → XT) → XT → XT
  | [], f, t => f t
  | i :: rest, f, .mk tag as ks => .mk tag as (ks.modify i (editAt rest f))

/-- assignment through an attribute declaration: the value is converted/validated first; a rejected value
    leaves the element untouched (`validate` raises before `set`) -/
def setAttr (S : Schema) (ty a : Nat) (v : Str) : XT → XT
  | .mk tag as ks =>
    match (S.ct ty).attrs.lookup a with
    | some (st, _) =>
      if (S.simple.getD st [Atom.any]).accepts v then .mk tag ((a, v) :: as.filter (·.1 != a)) ks
      else .mk tag as ks
    | none => .mk tag as ks

/-- `None` / default assigned to an optional attribute removes it -/
def delAttr (a : Nat) : XT → XT
  | .mk tag as ks => .mk tag (as.filter (·.1 != a)) ks

/-- insert `c` before the first element satisfying `p`, or append it: `insert_element_before` on any kind of
    list (of subtrees, of tags) -/
def insertBeforeP {α : Type} (p : α → Bool) (c : α) : List α → List α
  | [] => [c]
  | x :: xs => if p x then c :: x :: xs else x :: insertBeforeP p c xs

/-- `_insert_x` / `get_or_add_x` / template graft: the subtree `sub` becomes a child, placed before the first
    child whose tag is one of the successors -/
def insKid (succ : List Nat) (sub : XT) : XT → XT
  | .mk tag as ks => .mk tag as (insertBeforeP (fun k => succ.contains k.tag) sub ks)

/-- `remove_all(*tags)` -/
def delKids (tags : List Nat) : XT → XT
  | .mk tag as ks => .mk tag as (ks.filter fun k => !tags.contains k.tag)

/-- `get_or_change_to_x`: the other members of the choice group go, `sub` comes in -/
def changeKid (group succ : List Nat) (sub : XT) (t : XT) : XT := insKid succ sub (delKids group t)

end Pptx.XTree
