/-
  Model for C07 / C08: the data plane of chart XML and the worksheet layout.
  * `chart/xmlwriter.py`: point caches (`c:ptCount`, one `c:pt idx=i` per non-missing value),
    `plotArea.next_idx / next_order` when series are cloned
  * `oxml/chart/series.py`, `chart/series.py`: the `values` reader (`pt_v(idx)` for idx < ptCount)
  * `chart/xlsx.py`: `_column_reference`, `categories_ref`, `values_ref`, `series_name_ref`,
    `_write_series`, XY `series_table_row_offset`, `x_values_ref`, `y_values_ref`, bubble sizes
-/
import PptxModel.Model.Str
namespace Pptx.ChartData
open Pptx

structure Pt where
  idx : Nat
  v : Int
deriving DecidableEq, Repr

/-- the `c:pt` elements written for a value list starting at index `k`: missing values get none -/
def ptsFrom (k : Nat) : List (Option Int) → List Pt
  | [] => []
  | none :: t => ptsFrom (k + 1) t
  | some v :: t => ⟨k, v⟩ :: ptsFrom (k + 1) t

/-- the cache the writer emits: `(ptCount, points)` -/
def ptCache (vs : List (Option Int)) : Nat × List Pt := (vs.length, ptsFrom 0 vs)

/-- `pt_v(idx)`: first `c:pt` with that `idx`, else `None` -/
def ptV (pts : List Pt) (i : Nat) : Option Int := (pts.find? fun p => p.idx == i).map (·.v)

/-- `series.values` reader -/
def readValues (cache : Nat × List Pt) : List (Option Int) := (List.range cache.1).map (ptV cache.2)

/-! ### worksheet layout -/

/-- `_column_reference`: bijective base 26 (`fuel` bounds the `while column_number:` loop) -/
def colRefAux : Nat → Nat → Str → Str
  | 0, _, acc => acc
  | fuel + 1, n, acc =>
    if n = 0 then acc else
    let r := if n % 26 = 0 then 26 else n % 26
    colRefAux fuel ((n - 1) / 26) (Char.ofNat (64 + r) :: acc)

def colRef (n : Nat) : Str := colRefAux n n []

/-- the column number a reference names -/
def colNum (s : Str) : Nat := s.foldl (fun a c => a * 26 + (c.toNat - 64)) 0

/-- category chart: the worksheet column number (1-based) of series `j` with `depth` category columns -/
def seriesColNumber (depth j : Nat) : Nat := 1 + depth + j
/-- `values_ref`: `(column letters, top row, bottom row)` for a series of `len` values -/
def valuesRef (depth j len : Nat) : Str × Nat × Nat := (colRef (seriesColNumber depth j), 2, len + 1)
/-- `series_name_ref` -/
def seriesNameRef (depth j : Nat) : Str × Nat := (colRef (seriesColNumber depth j), 1)
/-- `_write_series`: 0-based (row, col) of value `i` of series `j`; the name goes to row 0 -/
def writeValueCell (depth j i : Nat) : Nat × Nat := (1 + i, depth + j)
/-- `categories_ref`: `A2 : <depth-th column><leafCount+1>` -/
def categoriesRef (depth leafCount : Nat) : Str × Nat × Str × Nat :=
  (['A'], 2, [Char.ofNat (64 + depth)], leafCount + 1)
/-- `_write_categories`: the level with index `lvl` (0 = leaf level) goes to 0-based column `depth-lvl-1`;
    the entry with leaf offset `off` to 0-based row `off + 1` -/
def writeCatCell (depth lvl off : Nat) : Nat × Nat := (off + 1, depth - lvl - 1)

/-- Excel address of a 0-based (row, col) cell -/
def excelAddr (rc : Nat × Nat) : Str × Nat := (colRef (rc.2 + 1), rc.1 + 1)

/-- XY / bubble: rows preceding the table of series `j` (`lens` = lengths of all series) -/
def xyRowOffset (lens : List Nat) (j : Nat) : Nat := j * 2 + (lens.take j).sum
/-- `x_values_ref` / `y_values_ref` / `bubble_sizes_ref`: `(top row, bottom row)` in their column -/
def xyRef (lens : List Nat) (j : Nat) : Nat × Nat :=
  let top := xyRowOffset lens j + 2
  (top, top + lens.getD j 0 - 1)
/-- XY `_populate_worksheet`: 0-based row of point `i` of series `j`; the name goes to row `offset` -/
def xyWriteRow (lens : List Nat) (j i : Nat) : Nat := xyRowOffset lens j + 1 + i

/-- `plotArea.next_idx` / `next_order`: one more than the largest in use -/
def nextIdx (used : List Nat) : Nat := used.foldl max 0 + (if used.isEmpty then 0 else 1)

end Pptx.ChartData
