/-
  C07 — `chart.replace_data`: what `_BaseSeriesXmlRewriter.replace_series_data` does to the SERIES
  POPULATION of a chart (chart/xmlwriter.py:221-289, oxml/chart/chart.py `CT_PlotArea.sers / last_ser /
  next_idx / next_order / iter_xCharts`, oxml/chart/plot.py `BaseChartElement.iter_sers`).

  A chart is its list of plots (`c:xChart` elements in document order); a plot holds its `c:ser`
  children in DOCUMENT order.  The library never looks at document order directly: `plotArea.sers`
  is the plots in document order, each plot's series sorted (stably) by `c:order/@val`.

  * `uid`   identity of the `c:ser` ELEMENT (an lxml node); distinct for distinct elements
  * `idx`, `order`   the values of `c:idx/@val`, `c:order/@val`
  * `fmt`   everything else the series carries that is not data (spPr, marker, dLbls, ...): opaque
-/
namespace Pptx.Replace

structure Ser where
  uid : Nat
  idx : Nat
  order : Nat
  fmt : Nat
  deriving DecidableEq, Repr

structure Plot where
  tag : Nat            -- the plot's own content other than its series: opaque
  sers : List Ser      -- document order
  deriving DecidableEq, Repr

abbrev Chart := List Plot

/-- stable insertion by `c:order` (Python's `sorted(..., key=ser_order)` is stable) -/
def insOrd (x : Ser) : List Ser → List Ser
  | [] => [x]
  | y :: ys => if x.order ≤ y.order then x :: y :: ys else y :: insOrd x ys

def sortOrd (l : List Ser) : List Ser := l.foldr insOrd []

/-- `xChart.sers` -/
def Plot.sorted (p : Plot) : List Ser := sortOrd p.sers

/-- `plotArea.sers` -/
def allSers (c : Chart) : List Ser := c.flatMap Plot.sorted

def maxOf (f : Ser → Nat) (l : List Ser) : Nat := l.foldl (fun a s => max a (f s)) 0

/-- `plotArea.next_idx` / `next_order`: 0 without series, else the maximum + 1 -/
def nextOf (f : Ser → Nat) (c : Chart) : Nat :=
  match allSers c with
  | [] => 0
  | l => maxOf f l + 1

/-- `plotArea.last_ser`: the last series, in `c:order`, of the last plot THAT HAS ONE (so: the last element of
    `plotArea.sers`); `none` when the chart has no series, on which `deepcopy(None).idx` raises `AttributeError` -/
def lastSer (c : Chart) : Option Ser := (allSers c).getLast?

/-- `ser.addnext(new)` where `ser` is identified by its element identity; appended when absent
    (cannot happen in the library: `ser` is in the tree) -/
def insertAfter (u : Nat) (new : Ser) : List Ser → List Ser
  | [] => [new]
  | y :: ys => if y.uid = u then y :: new :: ys else y :: insertAfter u new ys

/-- apply `f` to the last plot that has series (the parent of `last_ser`) -/
def modifyLastNE (f : Plot → Plot) : Chart → Chart
  | [] => []
  | p :: r => if (allSers r).isEmpty then (if p.sers.isEmpty then p :: r else f p :: r) else p :: modifyLastNE f r

/-- `clone_ser`: deep copy (same `fmt`), fresh idx and order computed on the tree as it is now, put
    right after the element it was copied from, which is in the last plot that has series -/
def newSer (c : Chart) (last : Ser) : Ser :=
  { uid := nextOf (·.uid) c, idx := nextOf (·.idx) c, order := nextOf (·.order) c, fmt := last.fmt }

def cloneOnce (c : Chart) (last : Ser) : Chart × Ser :=
  (modifyLastNE (fun p => { p with sers := insertAfter last.uid (newSer c last) p.sers }) c, newSer c last)

/-- `_add_cloned_sers`: each clone is made from the previous clone -/
def addCloned : Nat → Chart → Ser → Chart
  | 0, c, _ => c
  | k + 1, c, last => let r := cloneOnce c last; addCloned k r.1 r.2

/-- `_trim_ser_count_by`: the last `k` series of `plotArea.sers` leave their parents; then every plot
    without series leaves the plot area -/
def trim (c : Chart) (k : Nat) : Chart :=
  let all := allSers c
  let extra := (all.drop (all.length - k)).map (·.uid)
  (c.map fun p => { p with sers := p.sers.filter fun s => !extra.contains s.uid }).filter fun p => !p.sers.isEmpty

/-- `_adjust_ser_count`; `none` = the call raises -/
def adjust (c : Chart) (n : Nat) : Option Chart :=
  let cur := (allSers c).length
  if cur < n then (lastSer c).map (addCloned (n - cur) c)
  else if n < cur then some (trim c (cur - n))
  else some c

/-- a history of `replace_data` calls with n₁, n₂, … series; a call that raises leaves the chart -/
def runAdjust (c : Chart) : List Nat → Chart
  | [] => c
  | n :: ns => runAdjust ((adjust c n).getD c) ns

end Pptx.Replace
