/-
  Model for C02: the package graph of a presentation in memory and the primitive changes
  ("deltas") a public-API operation makes to it.  Parts are identified by object identity
  (a number), carry a name, their relationships (rId ↦ internal target part | external) and the
  multiset of relationship ids their XML refers to (`r:id`, `r:embed`, `r:link`, `r:pict`, …).
  Part 0 is the package itself.

  A history of the real library is tied to this model through its OBSERVED deltas: the harness
  snapshots the graph after every operation and the model checks each step's deltas well-formed.
-/
import PptxModel.Model.Str
namespace Pptx.Pkg
open Pptx

inductive Tgt
  | int (id : Nat)
  | ext
deriving DecidableEq, Repr

structure PartRec where
  id : Nat
  name : Str
  rels : List (Str × Tgt)
  refs : List Str
deriving Repr

abbrev St := List PartRec

def ids (s : St) : List Nat := s.map (·.id)
def names (s : St) : List Str := s.map (·.name)
def keys (p : PartRec) : List Str := p.rels.map (·.1)

/-- apply `f` to the part(s) with identity `i` -/
def upd (s : St) (i : Nat) (f : PartRec → PartRec) : St := s.map fun p => if p.id = i then f p else p

inductive Delta
  | addPart (i : Nat) (n : Str)
  | rename (l : List (Nat × Str))      -- simultaneous renaming (slide parts are renumbered in one go)
  | addRel (i : Nat) (rid : Str) (t : Tgt)
  | retarget (i : Nat) (rid : Str) (t : Tgt)
  | addRef (i : Nat) (rid : Str)
  | dropRef (i : Nat) (rid : Str)
  | dropRel (i : Nat) (rid : Str)
  | dropParts (is : List Nat)
deriving Repr

def tgtOk (s : St) : Tgt → Bool
  | .int t => (ids s).contains t
  | .ext => true

/-- the discipline every step of the library must follow -/
def wf (s : St) : Delta → Bool
  | .addPart i n => !(ids s).contains i && !(names s).contains n
  | .rename l => decide ((s.map fun p => ((l.lookup p.id).getD p.name)).Nodup)
  | .addRel i rid t =>
      (ids s).contains i && tgtOk s t && s.all fun p => p.id != i || !(keys p).contains rid
  | .retarget i rid t =>
      (ids s).contains i && tgtOk s t && s.all fun p => p.id != i || (keys p).contains rid
  | .addRef i rid => (ids s).contains i && s.all fun p => p.id != i || (keys p).contains rid
  | .dropRef i _ => (ids s).contains i
  | .dropRel i rid => (ids s).contains i && s.all fun p => p.id != i || !p.refs.contains rid
  | .dropParts is =>
      -- parts disappear from the package (together) only when no remaining part refers to them
      !is.contains 0 && s.all fun p => is.contains p.id || p.rels.all fun e =>
        match e.2 with | .int t => !is.contains t | .ext => true

def app (s : St) : Delta → St
  | .addPart i n => s ++ [{ id := i, name := n, rels := [], refs := [] }]
  | .rename l => s.map fun p => { p with name := (l.lookup p.id).getD p.name }
  | .addRel i rid t => upd s i fun p => { p with rels := p.rels ++ [(rid, t)] }
  | .retarget i rid t => upd s i fun p => { p with rels := p.rels.map fun e => if e.1 = rid then (rid, t) else e }
  | .addRef i rid => upd s i fun p => { p with refs := rid :: p.refs }
  | .dropRef i rid => upd s i fun p => { p with refs := p.refs.erase rid }
  | .dropRel i rid => upd s i fun p => { p with rels := p.rels.filter fun e => e.1 != rid }
  | .dropParts is => s.filter fun p => !is.contains p.id

/-- closure invariant of the in-memory package graph -/
def invB (s : St) : Bool :=
  decide (ids s).Nodup && decide (names s).Nodup
  && s.all (fun p => p.refs.all fun r => (keys p).contains r)
  && s.all (fun p => p.rels.all fun e => tgtOk s e.2)

/-- run a list of deltas, stopping at the first ill-formed one -/
def runD : St → List Delta → Nat → Except Nat St
  | s, [], _ => .ok s
  | s, d :: rest, k => if wf s d then runD (app s d) rest (k + 1) else .error k

/-! ### slide part numbering (`parts/presentation.py`: `rename_slide_parts`, `_next_slide_partname`) -/

/-- slide part numbers: those of the slide parts in the slide-id list, in presentation order, and those of the slide
    parts that are in the package but not in that list -/
structure SlideNames where
  listed : List Nat
  unlisted : List Nat
deriving Repr, DecidableEq

/-- `rename_slide_parts(rIds, skip)`: the listed slide parts get 1..n in list order, the unlisted ones follow after
    `skip` free numbers -/
def renameSlides (nListed nUnlisted skip : Nat) : SlideNames :=
  { listed := List.range' 1 nListed, unlisted := List.range' (nListed + skip + 1) nUnlisted }

/-- the first access to `Presentation.slides` -/
def renamedNumbers (n k : Nat) : SlideNames := renameSlides n k 0

/-- `_next_slide_partname`: one more than the length of the slide-id list -/
def nextSlideNumber (s : SlideNames) : Nat := s.listed.length + 1

/-- `PresentationPart.add_slide`: unlisted slide parts move up by one (only when there are any), the new slide takes
    the number after the listed ones and joins the list -/
def addSlide (s : SlideNames) : SlideNames :=
  let s' := if s.unlisted.length = 0 then s else
    { (renameSlides s.listed.length s.unlisted.length 1) with listed := List.range' 1 s.listed.length }
  { s' with listed := s'.listed ++ [nextSlideNumber s'] }

/-- the numbers in use after `j` additions -/
def numbersAfter (n k : Nat) : Nat → SlideNames
  | 0 => renamedNumbers n k
  | j + 1 => addSlide (numbersAfter n k j)


end Pptx.Pkg
