/-
  Model for C10 (and the order part of C03): child insertion driven by successor lists
  (`oxml/xmlchemy.py`: `BaseOxmlElement.first_child_found_in`, `insert_element_before`,
  `remove_all`, `_BaseChildElement._add_inserter`, `ZeroOrOne.get_or_add`, `Choice.get_or_change_to`).

  Element tags are numbered by the translator; a parent's children are a list of tag numbers.
  A content model (a flattened XSD sequence of slots) assigns every permitted child tag its slot
  index; slots may be single (maxOccurs = 1) and/or required (minOccurs ≥ 1).
-/
namespace Pptx.Slots

/-- the successor `insert_element_before` looks for: the first *child*, in document order, whose
    tag is one of the successor tags -/
def firstPresent (succ cs : List Nat) : Option Nat := cs.find? fun e => succ.contains e

/-- the tag-order scan of `first_child_found_in(*tagnames)` that `insert_element_before` used
    before the `fix:` for F-C10-1: the first *tag name* (in list order) that has any child -/
def firstPresentTagOrder (succ cs : List Nat) : Option Nat := succ.find? fun t => cs.contains t

/-- insert `c` before the first occurrence of tag `t` (`successor.addprevious(elm)`) -/
def insertBeforeTag (t c : Nat) : List Nat → List Nat
  | [] => [c]
  | x :: xs => if x = t then c :: x :: xs else x :: insertBeforeTag t c xs

/-- `insert_element_before(elm, *tagnames)` -/
def insertTag (succ : List Nat) (c : Nat) (cs : List Nat) : List Nat :=
  match firstPresent succ cs with
  | some t => insertBeforeTag t c cs
  | none => cs ++ [c]

/-- `insert_element_before` as it was before the fix (tag-order scan) -/
def insertTagOrder (succ : List Nat) (c : Nat) (cs : List Nat) : List Nat :=
  match firstPresentTagOrder succ cs with
  | some t => insertBeforeTag t c cs
  | none => cs ++ [c]

/-- `remove_all(tag)` -/
def removeAll (t : Nat) (cs : List Nat) : List Nat := cs.filter (· ≠ t)

/-- `get_or_add_x`: only adds when no child of that tag is present -/
def getOrAdd (succ : List Nat) (c : Nat) (cs : List Nat) : List Nat :=
  if cs.contains c then cs else insertTag succ c cs

/-- `get_or_change_to_x` of a choice group: an existing `x` is kept, otherwise every member of the
    group is removed and `x` inserted -/
def changeTo (group succ : List Nat) (c : Nat) (cs : List Nat) : List Nat :=
  if cs.contains c then cs
  else insertTag succ c (cs.filter fun e => !group.contains e)

/-- one declaration row as the translator emits it -/
structure Row where
  tags : List (Nat × Nat)   -- (tag, slot index) for every element tag of the parent's content model
  single : List Nat         -- slots with maxOccurs = 1
  required : List Nat       -- slots with minOccurs ≥ 1
  child : Nat               -- the tag this declaration inserts
  succ : List Nat           -- its successors (restricted to tags of the content model)
deriving Repr

def Row.slot (r : Row) (t : Nat) : Nat := (r.tags.lookup t).getD 0
def Row.inModel (r : Row) (t : Nat) : Bool := (r.tags.lookup t).isSome

/-- the first required slot after the child's own slot, if any: a conforming parent always holds a
    child from that slot, so successors beyond it are never consulted -/
def Row.barrier (r : Row) : Option Nat :=
  let later := r.required.filter fun s => r.slot r.child < s
  later.foldl (fun acc s => match acc with | none => some s | some b => some (min b s)) none

/-- adequacy of a successor list, checked by kernel evaluation per row -/
def Row.adequate (r : Row) : Bool :=
  r.inModel r.child
  -- A1: every successor belongs to the model and is not ordered before the child
  && r.succ.all (fun t => r.inModel t && decide (r.slot r.child ≤ r.slot t))
  -- completeness up to the barrier: every model tag ordered after the child, up to and including
  -- the first later required slot, is listed
  && r.tags.all (fun (u, s) =>
      !(decide (r.slot r.child < s) && (match r.barrier with | none => true | some b => decide (s ≤ b)))
        || r.succ.contains u)
  -- the model's tag table has one slot per tag
  && (r.tags.map (·.1)).Nodup

/-- the members of a choice group all belong to the slot of the child being switched to -/
def Row.groupOk (r : Row) (group : List Nat) : Bool := group.all fun t => r.slot t == r.slot r.child

end Pptx.Slots
