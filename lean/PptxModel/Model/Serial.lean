/-
  C08 — `Category._excel_date_number` / `Category.numeric_str_val` (`chart/data.py`): a date category label as the
  serial number of the chart's date system.

  * 1900 system: days since 1899-12-31, plus one from 1900-03-01 on ("Excel mistaking 1900 for a leap year": serial 60
    is the day that never was)
  * 1904 system: days since 1904-01-01
  * `datetime.date` subtraction is modelled by Hinnant's day number (`CoreProps.daysFromCivil`, proved exact both ways:
    `C18.civil_roundtrip`, `C08D.civil_left_inverse`)
  * the text written into `c:pt/c:v` is `"%.1f" % number`
-/
import PptxModel.Model.CoreProps
namespace Pptx.Serial
open Pptx Pptx.CoreProps

def isLeap (y : Int) : Bool := y % 4 == 0 && (y % 100 != 0 || y % 400 == 0)

def monthLen (y m : Int) : Int :=
  if m = 2 then (if isLeap y then 29 else 28)
  else if m = 4 ∨ m = 6 ∨ m = 9 ∨ m = 11 then 30 else 31

/-- what `datetime.date(y, m, d)` accepts (years 1..9999 are `datetime`'s; the arithmetic holds for every year) -/
def validDate (y m d : Int) : Bool := decide (1 ≤ m) && decide (m ≤ 12) && decide (1 ≤ d) && decide (d ≤ monthLen y m)

def epochDays (d1904 : Bool) : Int := if d1904 then daysFromCivil 1904 1 1 else daysFromCivil 1899 12 31

/-- `Category._excel_date_number(date_1904)` -/
def excelDateNumber (d1904 : Bool) (y m d : Int) : Int :=
  let n := daysFromCivil y m d - epochDays d1904
  if !d1904 && n > 59 then n + 1 else n

/-- the calendar date a serial number of the system stands for (what Excel shows for it; 60 in the 1900 system is the
    day that never was and is read as 1900-03-01's predecessor here) -/
def dateOfSerial (d1904 : Bool) (s : Int) : Int × Int × Int :=
  civilFromDays ((if !d1904 && s > 60 then s - 1 else s) + epochDays d1904)

/-- `"%.1f" % n` for an integer-valued number -/
def serialText (n : Int) : Str :=
  (if n < 0 then ['-'] else []) ++ natStr n.natAbs ++ ".0".toList

end Pptx.Serial
