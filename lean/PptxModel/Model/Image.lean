/-
  Model for C15: image storage and sizing.
  * `package.py: _ImageParts.get_or_add_image_part / _find_by_sha1`, `Package.next_image_partname`
  * `parts/image.py: Image.ext / content_type / dpi (int_dpi)`, `ImagePart._native_size`, `.scale`
  Image bytes are abstract identities (`blob : Nat`); the SHA-1 digest is a function `h` of them;
  the format Pillow reports is an input.
-/
import PptxModel.Model.Ids
import PptxModel.Model.Geometry
namespace Pptx.Image
open Pptx
open Pptx.Geometry (roundHE)

inductive Fmt | bmp | gif | jpeg | png | tiff | wmf
deriving DecidableEq, Repr

/-- `Image.ext`: canonical extension of the FORMAT -/
def Fmt.ext : Fmt → Str
  | .bmp => "bmp".toList | .gif => "gif".toList | .jpeg => "jpg".toList
  | .png => "png".toList | .tiff => "tiff".toList | .wmf => "wmf".toList

/-- `image_content_types[ext]` -/
def Fmt.contentType : Fmt → Str
  | .bmp => "image/bmp".toList | .gif => "image/gif".toList | .jpeg => "image/jpeg".toList
  | .png => "image/png".toList | .tiff => "image/tiff".toList | .wmf => "image/x-wmf".toList

structure ImgPart where
  idx : Nat          -- the N of /ppt/media/imageN.ext
  ext : Str
  ct : Str
  blob : Nat
deriving Repr, DecidableEq

abbrev Store := List ImgPart

/-- `_ImageParts.get_or_add_image_part`: reuse the part with the same digest, else a new part named
    with the first free index and the extension of the image's actual format -/
def getOrAdd (h : Nat → Nat) (s : Store) (blob : Nat) (f : Fmt) : Store × ImgPart :=
  match s.find? fun p => h p.blob == h blob with
  | some p => (s, p)
  | none =>
    let p : ImgPart := { idx := Ids.firstFreeIdx (s.map (·.idx)), ext := f.ext, ct := f.contentType, blob := blob }
    (s ++ [p], p)

/-- `Image.dpi.int_dpi` on an exact rational: rounded, and 72 when < 1 or > 2048 -/
def intDpi (n : Int) (d : Nat) : Int :=
  let r := roundHE n d
  if r < 1 ∨ r > 2048 then 72 else r

/-- `ImagePart._native_size` (one dimension): `int(914400 * px / dpi)` -/
def nativeLen (px : Nat) (dpi : Nat) : Int := (914400 * (px : Int)) / (dpi : Int)

/-- `ImagePart.scale`: a dimension is "not given" exactly when it is `None` (0 is a size) -/
def scale (iw ih : Int) (cx cy : Option Int) : Int × Int :=
  match cx, cy with
  | some x, some y => (x, y)
  | some x, none => (x, roundHE (ih * x) iw.toNat)
  | none, some y => (roundHE (iw * y) ih.toNat, y)
  | none, none => (iw, ih)

end Pptx.Image
