/-
  Model for C04: text assignment and read-back at the four levels
  (`text/text.py`: `TextFrame.text`, `_Paragraph.text`, `_Run.text`; `oxml/text.py`:
  `CT_TextParagraph.append_text / content_children / text`, `CT_RegularTextRun._escape_ctrl_chars`,
  `CT_TextLineBreak.text`, `CT_TextField.text`; `table.py: _Cell.text` delegates to the frame).
-/
import PptxModel.Model.Str
namespace Pptx.Text
open Pptx

/-- `[\x00-\x08\x0B-\x1F]` -/
def isCtl (c : Char) : Bool := c.toNat ≤ 8 || (11 ≤ c.toNat && c.toNat ≤ 31)

/-- `"_x%04X_" % ord(c)` for a control character, the character itself otherwise -/
def escChar (c : Char) : Str :=
  if isCtl c then '_' :: 'x' :: hex4 c.toNat ++ ['_'] else [c]

/-- `CT_RegularTextRun._escape_ctrl_chars` -/
def escapeCtl (s : Str) : Str := s.flatMap escChar

inductive Item
  | run (t : Str)      -- `a:r` with the content of its `a:t`
  | br                 -- `a:br`
  | fld (t : Str)      -- `a:fld`
deriving Repr, DecidableEq

/-- `.text` of a content child -/
def Item.text : Item → Str
  | .run t => t
  | .br => ['\x0b']
  | .fld t => t

structure Para where
  pPr : Bool            -- an `a:pPr` child is present (its content is never touched by text assignment)
  items : List Item
  endPr : Bool          -- an `a:endParaRPr` child is present
deriving Repr, DecidableEq

abbrev Body := List Para

def isBreak (c : Char) : Bool := c == '\n' || c == '\x0b'

/-- runs that would be empty are not added -/
def runOf (piece : Str) : List Item := if piece = [] then [] else [.run (escapeCtl piece)]

/-- the `a:r` / `a:br` children `append_text` appends for the pieces of `re.split("\n|\v", text)`:
    a break only *between* pieces -/
def piecesItems : List Str → List Item
  | [] => []
  | p :: rest => runOf p ++ rest.flatMap fun q => Item.br :: runOf q

/-- `CT_TextParagraph.append_text` -/
def appendText (items : List Item) (text : Str) : List Item :=
  items ++ piecesItems (splitOnP isBreak text)

/-- `CT_TextParagraph.text` / `_Paragraph.text` getter -/
def Para.text (p : Para) : Str := p.items.flatMap Item.text

/-- `_Paragraph.text` setter: `clear()` (content children only) then `append_text` -/
def Para.setText (p : Para) (s : Str) : Para := { p with items := appendText [] s }

/-- `TextFrame.text` setter (also `_Cell.text`, `Shape.text`): `clear_content()` then one new
    paragraph per `"\n"`-separated segment; the prior body is discarded entirely -/
def setFrame (_prior : Body) (s : Str) : Body :=
  (splitOnC '\n' s).map fun seg => { pPr := false, items := appendText [] seg, endPr := false }

/-- `TextFrame.text` getter -/
def frameText (b : Body) : Str := joinC '\n' (b.map Para.text)

/-- `_Run.text` setter then getter -/
def setRun (s : Str) : Str := escapeCtl s

def countBr (b : Body) : Nat := (b.map fun p => (p.items.filter (· == Item.br)).length).sum

end Pptx.Text
