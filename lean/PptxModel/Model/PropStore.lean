/-
  Model for C09: the attribute store behind the read/write properties of the object model.

  * `oxml/xmlchemy.py`: `OptionalAttribute` (assigning `None` or the declared default removes the attribute, reading
    an absent attribute gives the default), `RequiredAttribute`
  * the proxy-level conversions that are not the identity: `Font.size` (`text/text.py`, `util.py`: EMU // 127 and
    back), rotation (`ST_Angle`), crop / gradient-stop position (`ST_Percentage`), `Adjustment._denormalize`
    (`shapes/autoshape.py`: `int(v * 100000)`), colour brightness (`dml/color.py`: lumMod / lumOff),
    gradient angle (`dml/fill.py`: `360 - v` through `ST_PositiveFixedAngle`)
  Python floats are handled as exact rationals `n / d` (the harness generates exactly representable values).
-/
import PptxModel.Model.SimpleTypes
namespace Pptx.PropStore
open Pptx.Geometry (roundHE)
open Pptx.SimpleTypes

/-- the attributes of one element: name ↦ stored value -/
abbrev Store (α : Type) := List (Nat × α)

/-- `OptionalAttribute.__get__`: the stored value, the declared default when absent -/
def getA {α : Type} (dflt : Nat → Option α) (st : Store α) (a : Nat) : Option α :=
  match st.lookup a with
  | some v => some v
  | none => dflt a

/-- `OptionalAttribute.__set__`: `None` and the declared default remove the attribute, any other value is stored -/
def setA {α : Type} [DecidableEq α] (dflt : Nat → Option α) (st : Store α) (a : Nat) (v : Option α) : Store α :=
  let rest := st.filter (·.1 != a)
  match v with
  | none => rest
  | some x => if dflt a = some x then rest else (a, x) :: rest

/-- a history of assignments -/
def runA {α : Type} [DecidableEq α] (dflt : Nat → Option α) (st : Store α) : List (Nat × Option α) → Store α
  | [] => st
  | (a, v) :: rest => runA dflt (setA dflt st a v) rest

/-- the last value assigned to `a` in a history, if any -/
def lastAssigned {α : Type} (a : Nat) : List (Nat × Option α) → Option (Option α)
  | [] => none
  | (b, v) :: rest => match lastAssigned a rest with
    | some w => some w
    | none => if b = a then some v else none

/-! ### conversions -/

/-- `Font.size` setter: `Emu(v).centipoints` -/
def sizeStore (emu : Int) : Int := emu / 127
/-- `Font.size` getter: `Centipoints(sz)` -/
def sizeRead (cp : Int) : Int := cp * 127

/-- `Adjustment._denormalize`: `int(v * 100000.0)` (truncation toward zero) -/
def adjStore (n : Int) (d : Nat) : Int := Int.tdiv (n * 100000) d

/-- brightness setter: (lumMod, lumOff) children written for brightness `n/d` in [-1, 1] -/
def brightStore (n : Int) (d : Nat) : Option Int × Option Int :=
  if n > 0 then (some (pct ((d : Int) - n) d), some (pct n d))
  else if n < 0 then (some (pct ((d : Int) + n) d), none)
  else (none, none)

/-- brightness getter, in units of 1/100000: lumOff if present, else lumMod - 100000, else 0 -/
def brightRead : Option Int × Option Int → Int
  | (_, some off) => off
  | (some m, none) => m - 100000
  | (none, none) => 0

/-- gradient angle setter: `lin.ang = 360.0 - v` through `ST_PositiveFixedAngle` -/
def gradStore (n : Int) (d : Nat) : Int := pfa (360 * (d : Int) - n) d
/-- gradient angle getter, in 1/60000 degree: `0.0 if ang == 0 else 360.0 - ang` -/
def gradRead (ang : Int) : Int := if ang = 0 then 0 else THREE_SIXTY - ang

end Pptx.PropStore
