/-
  Generic, executable checkers over generated tables (strings are code-point lists `List Nat`),
  used by the translator-backed properties (C20, C10, C11).  No Mathlib.
-/
namespace Pptx.Tables

abbrev Tok := List Nat

/-- index of the first entry equal to `t` (`BaseXmlEnum.from_xml` scans members in definition order) -/
def findIdx (toks : List Tok) (t : Tok) : Option Nat :=
  go toks 0
where
  go : List Tok → Nat → Option Nat
    | [], _ => none
    | x :: xs, i => if x = t then some i else go xs (i + 1)

/-- quadratic duplicate check (tables here have at most a few hundred rows) -/
def nodupB : List Tok → Bool
  | [] => true
  | x :: xs => !xs.contains x && nodupB xs

def subsetB (a b : List Tok) : Bool := a.all fun t => b.contains t

/-- every listed index points at a member whose token already occurs at an earlier index -/
def laterDupB (toks : List Tok) (listed : List Nat) : Bool :=
  listed.all fun i => match toks[i]? with
    | some t => (toks.take i).contains t
    | none => false

def dropIdxs (toks : List Tok) (listed : List Nat) : List Tok :=
  (toks.zipIdx.filter fun (_, i) => !listed.contains i).map (·.1)

def lookup {β : Type} (k : Tok) : List (Tok × β) → Option β
  | [] => none
  | (k', v) :: rest => if k' = k then some v else lookup k rest

end Pptx.Tables
