/-
  C09 — paragraph spacing (`text/text.py`: `_Paragraph.line_spacing / space_before / space_after`, `oxml/text.py`:
  `CT_TextParagraphProperties` and `CT_TextSpacing`).

  `a:pPr` holds up to three spacing elements `a:lnSpc`, `a:spcBef`, `a:spcAft`; each is a choice of `a:spcPct val=N`
  (1/100000 of a line) or `a:spcPts val=C` (centipoints).  A file may carry BOTH children, or the library's readers may meet
  neither; the model keeps the two as independent options so that those states are start states too.

  Reading `line_spacing`: no `a:pPr` or no `a:lnSpc` → None; `a:spcPts` first (a Length of C * 127 EMU), else `a:spcPct`
  (N / 100000 lines), an `a:lnSpc` with neither child is an AttributeError.  `space_before / _after`: the `a:spcPts` value, None
  without the element or without that child.
  Assigning: the `_Paragraph` setter obtains `a:pPr` FIRST (`get_or_add_pPr`), then the oxml setter validates (a Length
  0 ≤ emu ≤ 20116800, a number of lines 0 ≤ N ≤ 13200000 in 1/100000) and raises ValueError before it touches the spacing
  element; an accepted value REMOVES the element and adds a new one holding exactly the one child.

  Lengths are EMU integers, stored as `emu / 127` (`Length.centipoints`, floor division), read as `C * 127`; line counts are
  the integers `PropStore.pct` gives for a float.
-/
namespace Pptx.Spacing

/-- one spacing element: its `a:spcPct/@val` and `a:spcPts/@val`, each present or not -/
structure Slot where
  pct : Option Nat
  pts : Option Nat
deriving DecidableEq, Repr

/-- the paragraph: whether `a:pPr` is there, and its three spacing elements -/
structure St where
  hasPPr : Bool
  ln : Option Slot
  bef : Option Slot
  aft : Option Slot
deriving DecidableEq, Repr

inductive Which | ln | bef | aft
deriving DecidableEq, Repr

/-- a value assigned: None, a Length (EMU), or - `line_spacing` only - a number of lines in 1/100000 -/
inductive Val
  | none
  | emu (e : Int)
  | lines (n : Int)
deriving DecidableEq, Repr

structure Op where
  which : Which
  val : Val
deriving DecidableEq, Repr

inductive Res | ok | valueError
deriving DecidableEq, Repr

/-- what a reader gives -/
inductive Reading
  | none
  | emu (e : Nat)
  | lines (n : Nat)
  | attrError
deriving DecidableEq, Repr

def maxEmu : Int := 20116800
def maxLines : Int := 13200000

def slotOf (s : St) : Which → Option Slot
  | .ln => s.ln | .bef => s.bef | .aft => s.aft

def setSlot (s : St) (w : Which) (x : Option Slot) : St :=
  match w with
  | .ln => { s with ln := x } | .bef => { s with bef := x } | .aft => { s with aft := x }

/-- `CT_TextParagraphProperties.line_spacing` -/
def readLn : Option Slot → Reading
  | none => .none
  | some sl =>
    match sl.pts with
    | some c => .emu (c * 127)
    | none => match sl.pct with
      | some n => .lines n
      | none => .attrError

/-- `CT_TextParagraphProperties.space_before / space_after` -/
def readPts : Option Slot → Reading
  | none => .none
  | some sl => match sl.pts with
    | some c => .emu (c * 127)
    | none => .none

def read (s : St) (w : Which) : Reading :=
  if !s.hasPPr then .none else
  match w with
  | .ln => readLn s.ln
  | .bef => readPts s.bef
  | .aft => readPts s.aft

/-- is the value one the setter accepts for this property (`lines` exists for `line_spacing` only: a plain number given to
    `space_before` is an EMU count) -/
def accepts : Which → Val → Bool
  | _, .none => true
  | _, .emu e => decide (0 ≤ e ∧ e ≤ maxEmu)
  | .ln, .lines n => decide (0 ≤ n ∧ n ≤ maxLines)
  | _, .lines e => decide (0 ≤ e ∧ e ≤ maxEmu)

/-- the element an accepted value leaves -/
def newSlot : Which → Val → Option Slot
  | _, .none => none
  | _, .emu e => some ⟨none, some (e / 127).toNat⟩
  | .ln, .lines n => some ⟨some n.toNat, none⟩
  | _, .lines e => some ⟨none, some (e / 127).toNat⟩

/-- one assignment; `a:pPr` is there afterwards whatever the verdict -/
def step (s : St) (op : Op) : St × Res :=
  let s := { s with hasPPr := true }
  if accepts op.which op.val then (setSlot s op.which (newSlot op.which op.val), .ok) else (s, .valueError)

def run (s : St) : List Op → St
  | [] => s
  | op :: rest => run (step s op).1 rest

/-- the reading an accepted value gives -/
def stored : Which → Val → Reading
  | _, .none => .none
  | _, .emu e => .emu ((e / 127).toNat * 127)
  | .ln, .lines n => .lines n.toNat
  | _, .lines e => .emu ((e / 127).toNat * 127)

/-- the last accepted value assigned to `w` in a history, as it reads; `init` without one -/
def lastStored (w : Which) (init : Reading) : List Op → Reading
  | [] => init
  | op :: rest =>
    lastStored w (if op.which = w ∧ accepts op.which op.val then stored op.which op.val else init) rest

/-- schema: a spacing element holds exactly one of the two children -/
def Slot.wf (sl : Slot) : Bool := sl.pct.isSome != sl.pts.isSome

end Pptx.Spacing
