-- GENERATED obligations over Gen/C11.lean
import PptxModel.Gen.C11
import PptxModel.Props.C11
namespace Pptx.GenC11
open Pptx.SimpleTypes Pptx.Gen.C11 Pptx.C11

/-- every integer ST_BubbleScale accepts lies in the value space of ST_BubbleScale -/
theorem ST_BubbleScale_ST_BubbleScale_within : ST_BubbleScale_ST_BubbleScale.within = true := by decide +kernel
theorem ST_BubbleScale_ST_BubbleScale_sound (v : Int) (h : ST_BubbleScale_ST_BubbleScale.accepts v) : ST_BubbleScale_ST_BubbleScale.inFacet v := within_sound ST_BubbleScale_ST_BubbleScale ST_BubbleScale_ST_BubbleScale_within v h

/-- every integer ST_Coordinate accepts lies in the value space of ST_Coordinate -/
theorem ST_Coordinate_ST_Coordinate_within : ST_Coordinate_ST_Coordinate.within = true := by decide +kernel
theorem ST_Coordinate_ST_Coordinate_sound (v : Int) (h : ST_Coordinate_ST_Coordinate.accepts v) : ST_Coordinate_ST_Coordinate.inFacet v := within_sound ST_Coordinate_ST_Coordinate ST_Coordinate_ST_Coordinate_within v h

/-- every integer ST_Coordinate32 accepts lies in the value space of ST_Coordinate32 -/
theorem ST_Coordinate32_ST_Coordinate32_within : ST_Coordinate32_ST_Coordinate32.within = true := by decide +kernel
theorem ST_Coordinate32_ST_Coordinate32_sound (v : Int) (h : ST_Coordinate32_ST_Coordinate32.accepts v) : ST_Coordinate32_ST_Coordinate32.inFacet v := within_sound ST_Coordinate32_ST_Coordinate32 ST_Coordinate32_ST_Coordinate32_within v h

/-- every integer ST_DrawingElementId accepts lies in the value space of ST_DrawingElementId -/
theorem ST_DrawingElementId_ST_DrawingElementId_within : ST_DrawingElementId_ST_DrawingElementId.within = true := by decide +kernel
theorem ST_DrawingElementId_ST_DrawingElementId_sound (v : Int) (h : ST_DrawingElementId_ST_DrawingElementId.accepts v) : ST_DrawingElementId_ST_DrawingElementId.inFacet v := within_sound ST_DrawingElementId_ST_DrawingElementId ST_DrawingElementId_ST_DrawingElementId_within v h

/-- every integer ST_GapAmount accepts lies in the value space of ST_GapAmount -/
theorem ST_GapAmount_ST_GapAmount_within : ST_GapAmount_ST_GapAmount.within = true := by decide +kernel
theorem ST_GapAmount_ST_GapAmount_sound (v : Int) (h : ST_GapAmount_ST_GapAmount.accepts v) : ST_GapAmount_ST_GapAmount.inFacet v := within_sound ST_GapAmount_ST_GapAmount ST_GapAmount_ST_GapAmount_within v h

/-- every integer ST_LblOffset accepts lies in the value space of ST_LblOffset -/
theorem ST_LblOffset_ST_LblOffset_within : ST_LblOffset_ST_LblOffset.within = true := by decide +kernel
theorem ST_LblOffset_ST_LblOffset_sound (v : Int) (h : ST_LblOffset_ST_LblOffset.accepts v) : ST_LblOffset_ST_LblOffset.inFacet v := within_sound ST_LblOffset_ST_LblOffset ST_LblOffset_ST_LblOffset_within v h

/-- every integer ST_LineWidth accepts lies in the value space of ST_LineWidth -/
theorem ST_LineWidth_ST_LineWidth_within : ST_LineWidth_ST_LineWidth.within = true := by decide +kernel
theorem ST_LineWidth_ST_LineWidth_sound (v : Int) (h : ST_LineWidth_ST_LineWidth.accepts v) : ST_LineWidth_ST_LineWidth.inFacet v := within_sound ST_LineWidth_ST_LineWidth ST_LineWidth_ST_LineWidth_within v h

/-- every integer ST_MarkerSize accepts lies in the value space of ST_MarkerSize -/
theorem ST_MarkerSize_ST_MarkerSize_within : ST_MarkerSize_ST_MarkerSize.within = true := by decide +kernel
theorem ST_MarkerSize_ST_MarkerSize_sound (v : Int) (h : ST_MarkerSize_ST_MarkerSize.accepts v) : ST_MarkerSize_ST_MarkerSize.inFacet v := within_sound ST_MarkerSize_ST_MarkerSize ST_MarkerSize_ST_MarkerSize_within v h

/-- every integer ST_Overlap accepts lies in the value space of ST_Overlap -/
theorem ST_Overlap_ST_Overlap_within : ST_Overlap_ST_Overlap.within = true := by decide +kernel
theorem ST_Overlap_ST_Overlap_sound (v : Int) (h : ST_Overlap_ST_Overlap.accepts v) : ST_Overlap_ST_Overlap.inFacet v := within_sound ST_Overlap_ST_Overlap ST_Overlap_ST_Overlap_within v h

/-- every integer ST_PositiveCoordinate accepts lies in the value space of ST_PositiveCoordinate -/
theorem ST_PositiveCoordinate_ST_PositiveCoordinate_within : ST_PositiveCoordinate_ST_PositiveCoordinate.within = true := by decide +kernel
theorem ST_PositiveCoordinate_ST_PositiveCoordinate_sound (v : Int) (h : ST_PositiveCoordinate_ST_PositiveCoordinate.accepts v) : ST_PositiveCoordinate_ST_PositiveCoordinate.inFacet v := within_sound ST_PositiveCoordinate_ST_PositiveCoordinate ST_PositiveCoordinate_ST_PositiveCoordinate_within v h

/-- every integer ST_SlideId accepts lies in the value space of ST_SlideId -/
theorem ST_SlideId_ST_SlideId_within : ST_SlideId_ST_SlideId.within = true := by decide +kernel
theorem ST_SlideId_ST_SlideId_sound (v : Int) (h : ST_SlideId_ST_SlideId.accepts v) : ST_SlideId_ST_SlideId.inFacet v := within_sound ST_SlideId_ST_SlideId ST_SlideId_ST_SlideId_within v h

/-- every integer ST_SlideSizeCoordinate accepts lies in the value space of ST_SlideSizeCoordinate -/
theorem ST_SlideSizeCoordinate_ST_SlideSizeCoordinate_within : ST_SlideSizeCoordinate_ST_SlideSizeCoordinate.within = true := by decide +kernel
theorem ST_SlideSizeCoordinate_ST_SlideSizeCoordinate_sound (v : Int) (h : ST_SlideSizeCoordinate_ST_SlideSizeCoordinate.accepts v) : ST_SlideSizeCoordinate_ST_SlideSizeCoordinate.inFacet v := within_sound ST_SlideSizeCoordinate_ST_SlideSizeCoordinate ST_SlideSizeCoordinate_ST_SlideSizeCoordinate_within v h

/-- every integer ST_Style accepts lies in the value space of ST_Style -/
theorem ST_Style_ST_Style_within : ST_Style_ST_Style.within = true := by decide +kernel
theorem ST_Style_ST_Style_sound (v : Int) (h : ST_Style_ST_Style.accepts v) : ST_Style_ST_Style.inFacet v := within_sound ST_Style_ST_Style ST_Style_ST_Style_within v h

/-- every integer ST_TextFontSize accepts lies in the value space of ST_TextFontSize -/
theorem ST_TextFontSize_ST_TextFontSize_within : ST_TextFontSize_ST_TextFontSize.within = true := by decide +kernel
theorem ST_TextFontSize_ST_TextFontSize_sound (v : Int) (h : ST_TextFontSize_ST_TextFontSize.accepts v) : ST_TextFontSize_ST_TextFontSize.inFacet v := within_sound ST_TextFontSize_ST_TextFontSize ST_TextFontSize_ST_TextFontSize_within v h

/-- every integer ST_TextIndentLevelType accepts lies in the value space of ST_TextIndentLevelType -/
theorem ST_TextIndentLevelType_ST_TextIndentLevelType_within : ST_TextIndentLevelType_ST_TextIndentLevelType.within = true := by decide +kernel
theorem ST_TextIndentLevelType_ST_TextIndentLevelType_sound (v : Int) (h : ST_TextIndentLevelType_ST_TextIndentLevelType.accepts v) : ST_TextIndentLevelType_ST_TextIndentLevelType.inFacet v := within_sound ST_TextIndentLevelType_ST_TextIndentLevelType ST_TextIndentLevelType_ST_TextIndentLevelType_within v h

/-- every integer XsdInt accepts lies in the value space of int -/
theorem XsdInt_int_within : XsdInt_int.within = true := by decide +kernel
theorem XsdInt_int_sound (v : Int) (h : XsdInt_int.accepts v) : XsdInt_int.inFacet v := within_sound XsdInt_int XsdInt_int_within v h

/-- every integer XsdUnsignedInt accepts lies in the value space of unsignedInt -/
theorem XsdUnsignedInt_unsignedInt_within : XsdUnsignedInt_unsignedInt.within = true := by decide +kernel
theorem XsdUnsignedInt_unsignedInt_sound (v : Int) (h : XsdUnsignedInt_unsignedInt.accepts v) : XsdUnsignedInt_unsignedInt.inFacet v := within_sound XsdUnsignedInt_unsignedInt XsdUnsignedInt_unsignedInt_within v h

end Pptx.GenC11
