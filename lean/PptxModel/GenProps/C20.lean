-- GENERATED obligations over Gen/C20.lean; closed by kernel evaluation (`decide +kernel`, no axioms)
import PptxModel.Gen.C20
import PptxModel.Props.C20
set_option maxRecDepth 100000
namespace Pptx.GenC20
open Pptx.Tables Pptx.Gen.C20 Pptx.C20

/-- tokens of MSO_AUTO_SHAPE_TYPE (182 members with an XML value) are pairwise distinct, apart from the members listed as known findings -/
theorem MSO_AUTO_SHAPE_TYPE_distinct : nodupB (dropIdxs MSO_AUTO_SHAPE_TYPE_all MSO_AUTO_SHAPE_TYPE_listed) = true := by decide +kernel

theorem MSO_AUTO_SHAPE_TYPE_roundtrip (i : Nat) (hi : i < (dropIdxs MSO_AUTO_SHAPE_TYPE_all MSO_AUTO_SHAPE_TYPE_listed).length) :
    findIdx (dropIdxs MSO_AUTO_SHAPE_TYPE_all MSO_AUTO_SHAPE_TYPE_listed) (dropIdxs MSO_AUTO_SHAPE_TYPE_all MSO_AUTO_SHAPE_TYPE_listed)[i] = some i :=
  roundtrip_of_nodup _ (nodupB_sound _ MSO_AUTO_SHAPE_TYPE_distinct) i hi

/-- the listed members really are later duplicates (the finding is a fact of the table, not an excuse) -/
theorem MSO_AUTO_SHAPE_TYPE_listed_are_later_duplicates : laterDupB MSO_AUTO_SHAPE_TYPE_all MSO_AUTO_SHAPE_TYPE_listed = true := by decide +kernel

/-- every token of MSO_AUTO_SHAPE_TYPE is in the schema enumeration ST_ShapeType -/
theorem MSO_AUTO_SHAPE_TYPE_in_schema : subsetB MSO_AUTO_SHAPE_TYPE_all MSO_AUTO_SHAPE_TYPE_schema = true := by decide +kernel

/-- tokens of MSO_CONNECTOR_TYPE (3 members with an XML value) are pairwise distinct, apart from the members listed as known findings -/
theorem MSO_CONNECTOR_TYPE_distinct : nodupB (dropIdxs MSO_CONNECTOR_TYPE_all MSO_CONNECTOR_TYPE_listed) = true := by decide +kernel

theorem MSO_CONNECTOR_TYPE_roundtrip (i : Nat) (hi : i < (dropIdxs MSO_CONNECTOR_TYPE_all MSO_CONNECTOR_TYPE_listed).length) :
    findIdx (dropIdxs MSO_CONNECTOR_TYPE_all MSO_CONNECTOR_TYPE_listed) (dropIdxs MSO_CONNECTOR_TYPE_all MSO_CONNECTOR_TYPE_listed)[i] = some i :=
  roundtrip_of_nodup _ (nodupB_sound _ MSO_CONNECTOR_TYPE_distinct) i hi

/-- tokens of MSO_LANGUAGE_ID (212 members with an XML value) are pairwise distinct, apart from the members listed as known findings -/
theorem MSO_LANGUAGE_ID_distinct : nodupB (dropIdxs MSO_LANGUAGE_ID_all MSO_LANGUAGE_ID_listed) = true := by decide +kernel

theorem MSO_LANGUAGE_ID_roundtrip (i : Nat) (hi : i < (dropIdxs MSO_LANGUAGE_ID_all MSO_LANGUAGE_ID_listed).length) :
    findIdx (dropIdxs MSO_LANGUAGE_ID_all MSO_LANGUAGE_ID_listed) (dropIdxs MSO_LANGUAGE_ID_all MSO_LANGUAGE_ID_listed)[i] = some i :=
  roundtrip_of_nodup _ (nodupB_sound _ MSO_LANGUAGE_ID_distinct) i hi

/-- the listed members really are later duplicates (the finding is a fact of the table, not an excuse) -/
theorem MSO_LANGUAGE_ID_listed_are_later_duplicates : laterDupB MSO_LANGUAGE_ID_all MSO_LANGUAGE_ID_listed = true := by decide +kernel

/-- tokens of MSO_LINE_DASH_STYLE (8 members with an XML value) are pairwise distinct, apart from the members listed as known findings -/
theorem MSO_LINE_DASH_STYLE_distinct : nodupB (dropIdxs MSO_LINE_DASH_STYLE_all MSO_LINE_DASH_STYLE_listed) = true := by decide +kernel

theorem MSO_LINE_DASH_STYLE_roundtrip (i : Nat) (hi : i < (dropIdxs MSO_LINE_DASH_STYLE_all MSO_LINE_DASH_STYLE_listed).length) :
    findIdx (dropIdxs MSO_LINE_DASH_STYLE_all MSO_LINE_DASH_STYLE_listed) (dropIdxs MSO_LINE_DASH_STYLE_all MSO_LINE_DASH_STYLE_listed)[i] = some i :=
  roundtrip_of_nodup _ (nodupB_sound _ MSO_LINE_DASH_STYLE_distinct) i hi

/-- every token of MSO_LINE_DASH_STYLE is in the schema enumeration ST_PresetLineDashVal -/
theorem MSO_LINE_DASH_STYLE_in_schema : subsetB MSO_LINE_DASH_STYLE_all MSO_LINE_DASH_STYLE_schema = true := by decide +kernel

/-- tokens of MSO_PATTERN_TYPE (54 members with an XML value) are pairwise distinct, apart from the members listed as known findings -/
theorem MSO_PATTERN_TYPE_distinct : nodupB (dropIdxs MSO_PATTERN_TYPE_all MSO_PATTERN_TYPE_listed) = true := by decide +kernel

theorem MSO_PATTERN_TYPE_roundtrip (i : Nat) (hi : i < (dropIdxs MSO_PATTERN_TYPE_all MSO_PATTERN_TYPE_listed).length) :
    findIdx (dropIdxs MSO_PATTERN_TYPE_all MSO_PATTERN_TYPE_listed) (dropIdxs MSO_PATTERN_TYPE_all MSO_PATTERN_TYPE_listed)[i] = some i :=
  roundtrip_of_nodup _ (nodupB_sound _ MSO_PATTERN_TYPE_distinct) i hi

/-- every token of MSO_PATTERN_TYPE is in the schema enumeration ST_PresetPatternVal -/
theorem MSO_PATTERN_TYPE_in_schema : subsetB MSO_PATTERN_TYPE_all MSO_PATTERN_TYPE_schema = true := by decide +kernel

/-- tokens of MSO_TEXT_UNDERLINE_TYPE (18 members with an XML value) are pairwise distinct, apart from the members listed as known findings -/
theorem MSO_TEXT_UNDERLINE_TYPE_distinct : nodupB (dropIdxs MSO_TEXT_UNDERLINE_TYPE_all MSO_TEXT_UNDERLINE_TYPE_listed) = true := by decide +kernel

theorem MSO_TEXT_UNDERLINE_TYPE_roundtrip (i : Nat) (hi : i < (dropIdxs MSO_TEXT_UNDERLINE_TYPE_all MSO_TEXT_UNDERLINE_TYPE_listed).length) :
    findIdx (dropIdxs MSO_TEXT_UNDERLINE_TYPE_all MSO_TEXT_UNDERLINE_TYPE_listed) (dropIdxs MSO_TEXT_UNDERLINE_TYPE_all MSO_TEXT_UNDERLINE_TYPE_listed)[i] = some i :=
  roundtrip_of_nodup _ (nodupB_sound _ MSO_TEXT_UNDERLINE_TYPE_distinct) i hi

/-- every token of MSO_TEXT_UNDERLINE_TYPE is in the schema enumeration ST_TextUnderlineType -/
theorem MSO_TEXT_UNDERLINE_TYPE_in_schema : subsetB MSO_TEXT_UNDERLINE_TYPE_all MSO_TEXT_UNDERLINE_TYPE_schema = true := by decide +kernel

/-- tokens of MSO_THEME_COLOR_INDEX (16 members with an XML value) are pairwise distinct, apart from the members listed as known findings -/
theorem MSO_THEME_COLOR_INDEX_distinct : nodupB (dropIdxs MSO_THEME_COLOR_INDEX_all MSO_THEME_COLOR_INDEX_listed) = true := by decide +kernel

theorem MSO_THEME_COLOR_INDEX_roundtrip (i : Nat) (hi : i < (dropIdxs MSO_THEME_COLOR_INDEX_all MSO_THEME_COLOR_INDEX_listed).length) :
    findIdx (dropIdxs MSO_THEME_COLOR_INDEX_all MSO_THEME_COLOR_INDEX_listed) (dropIdxs MSO_THEME_COLOR_INDEX_all MSO_THEME_COLOR_INDEX_listed)[i] = some i :=
  roundtrip_of_nodup _ (nodupB_sound _ MSO_THEME_COLOR_INDEX_distinct) i hi

/-- every token of MSO_THEME_COLOR_INDEX is in the schema enumeration ST_SchemeColorVal -/
theorem MSO_THEME_COLOR_INDEX_in_schema : subsetB MSO_THEME_COLOR_INDEX_all MSO_THEME_COLOR_INDEX_schema = true := by decide +kernel

/-- tokens of MSO_VERTICAL_ANCHOR (3 members with an XML value) are pairwise distinct, apart from the members listed as known findings -/
theorem MSO_VERTICAL_ANCHOR_distinct : nodupB (dropIdxs MSO_VERTICAL_ANCHOR_all MSO_VERTICAL_ANCHOR_listed) = true := by decide +kernel

theorem MSO_VERTICAL_ANCHOR_roundtrip (i : Nat) (hi : i < (dropIdxs MSO_VERTICAL_ANCHOR_all MSO_VERTICAL_ANCHOR_listed).length) :
    findIdx (dropIdxs MSO_VERTICAL_ANCHOR_all MSO_VERTICAL_ANCHOR_listed) (dropIdxs MSO_VERTICAL_ANCHOR_all MSO_VERTICAL_ANCHOR_listed)[i] = some i :=
  roundtrip_of_nodup _ (nodupB_sound _ MSO_VERTICAL_ANCHOR_distinct) i hi

/-- every token of MSO_VERTICAL_ANCHOR is in the schema enumeration ST_TextAnchoringType -/
theorem MSO_VERTICAL_ANCHOR_in_schema : subsetB MSO_VERTICAL_ANCHOR_all MSO_VERTICAL_ANCHOR_schema = true := by decide +kernel

/-- tokens of PP_PARAGRAPH_ALIGNMENT (7 members with an XML value) are pairwise distinct, apart from the members listed as known findings -/
theorem PP_PARAGRAPH_ALIGNMENT_distinct : nodupB (dropIdxs PP_PARAGRAPH_ALIGNMENT_all PP_PARAGRAPH_ALIGNMENT_listed) = true := by decide +kernel

theorem PP_PARAGRAPH_ALIGNMENT_roundtrip (i : Nat) (hi : i < (dropIdxs PP_PARAGRAPH_ALIGNMENT_all PP_PARAGRAPH_ALIGNMENT_listed).length) :
    findIdx (dropIdxs PP_PARAGRAPH_ALIGNMENT_all PP_PARAGRAPH_ALIGNMENT_listed) (dropIdxs PP_PARAGRAPH_ALIGNMENT_all PP_PARAGRAPH_ALIGNMENT_listed)[i] = some i :=
  roundtrip_of_nodup _ (nodupB_sound _ PP_PARAGRAPH_ALIGNMENT_distinct) i hi

/-- every token of PP_PARAGRAPH_ALIGNMENT is in the schema enumeration ST_TextAlignType -/
theorem PP_PARAGRAPH_ALIGNMENT_in_schema : subsetB PP_PARAGRAPH_ALIGNMENT_all PP_PARAGRAPH_ALIGNMENT_schema = true := by decide +kernel

/-- tokens of PP_PLACEHOLDER_TYPE (16 members with an XML value) are pairwise distinct, apart from the members listed as known findings -/
theorem PP_PLACEHOLDER_TYPE_distinct : nodupB (dropIdxs PP_PLACEHOLDER_TYPE_all PP_PLACEHOLDER_TYPE_listed) = true := by decide +kernel

theorem PP_PLACEHOLDER_TYPE_roundtrip (i : Nat) (hi : i < (dropIdxs PP_PLACEHOLDER_TYPE_all PP_PLACEHOLDER_TYPE_listed).length) :
    findIdx (dropIdxs PP_PLACEHOLDER_TYPE_all PP_PLACEHOLDER_TYPE_listed) (dropIdxs PP_PLACEHOLDER_TYPE_all PP_PLACEHOLDER_TYPE_listed)[i] = some i :=
  roundtrip_of_nodup _ (nodupB_sound _ PP_PLACEHOLDER_TYPE_distinct) i hi

/-- every token of PP_PLACEHOLDER_TYPE is in the schema enumeration ST_PlaceholderType -/
theorem PP_PLACEHOLDER_TYPE_in_schema : subsetB PP_PLACEHOLDER_TYPE_all PP_PLACEHOLDER_TYPE_schema = true := by decide +kernel

/-- tokens of XL_AXIS_CROSSES (3 members with an XML value) are pairwise distinct, apart from the members listed as known findings -/
theorem XL_AXIS_CROSSES_distinct : nodupB (dropIdxs XL_AXIS_CROSSES_all XL_AXIS_CROSSES_listed) = true := by decide +kernel

theorem XL_AXIS_CROSSES_roundtrip (i : Nat) (hi : i < (dropIdxs XL_AXIS_CROSSES_all XL_AXIS_CROSSES_listed).length) :
    findIdx (dropIdxs XL_AXIS_CROSSES_all XL_AXIS_CROSSES_listed) (dropIdxs XL_AXIS_CROSSES_all XL_AXIS_CROSSES_listed)[i] = some i :=
  roundtrip_of_nodup _ (nodupB_sound _ XL_AXIS_CROSSES_distinct) i hi

/-- every token of XL_AXIS_CROSSES is in the schema enumeration ST_Crosses -/
theorem XL_AXIS_CROSSES_in_schema : subsetB XL_AXIS_CROSSES_all XL_AXIS_CROSSES_schema = true := by decide +kernel

/-- tokens of XL_DATA_LABEL_POSITION (9 members with an XML value) are pairwise distinct, apart from the members listed as known findings -/
theorem XL_DATA_LABEL_POSITION_distinct : nodupB (dropIdxs XL_DATA_LABEL_POSITION_all XL_DATA_LABEL_POSITION_listed) = true := by decide +kernel

theorem XL_DATA_LABEL_POSITION_roundtrip (i : Nat) (hi : i < (dropIdxs XL_DATA_LABEL_POSITION_all XL_DATA_LABEL_POSITION_listed).length) :
    findIdx (dropIdxs XL_DATA_LABEL_POSITION_all XL_DATA_LABEL_POSITION_listed) (dropIdxs XL_DATA_LABEL_POSITION_all XL_DATA_LABEL_POSITION_listed)[i] = some i :=
  roundtrip_of_nodup _ (nodupB_sound _ XL_DATA_LABEL_POSITION_distinct) i hi

/-- every token of XL_DATA_LABEL_POSITION is in the schema enumeration ST_DLblPos -/
theorem XL_DATA_LABEL_POSITION_in_schema : subsetB XL_DATA_LABEL_POSITION_all XL_DATA_LABEL_POSITION_schema = true := by decide +kernel

/-- tokens of XL_LEGEND_POSITION (5 members with an XML value) are pairwise distinct, apart from the members listed as known findings -/
theorem XL_LEGEND_POSITION_distinct : nodupB (dropIdxs XL_LEGEND_POSITION_all XL_LEGEND_POSITION_listed) = true := by decide +kernel

theorem XL_LEGEND_POSITION_roundtrip (i : Nat) (hi : i < (dropIdxs XL_LEGEND_POSITION_all XL_LEGEND_POSITION_listed).length) :
    findIdx (dropIdxs XL_LEGEND_POSITION_all XL_LEGEND_POSITION_listed) (dropIdxs XL_LEGEND_POSITION_all XL_LEGEND_POSITION_listed)[i] = some i :=
  roundtrip_of_nodup _ (nodupB_sound _ XL_LEGEND_POSITION_distinct) i hi

/-- every token of XL_LEGEND_POSITION is in the schema enumeration ST_LegendPos -/
theorem XL_LEGEND_POSITION_in_schema : subsetB XL_LEGEND_POSITION_all XL_LEGEND_POSITION_schema = true := by decide +kernel

/-- tokens of XL_MARKER_STYLE (12 members with an XML value) are pairwise distinct, apart from the members listed as known findings -/
theorem XL_MARKER_STYLE_distinct : nodupB (dropIdxs XL_MARKER_STYLE_all XL_MARKER_STYLE_listed) = true := by decide +kernel

theorem XL_MARKER_STYLE_roundtrip (i : Nat) (hi : i < (dropIdxs XL_MARKER_STYLE_all XL_MARKER_STYLE_listed).length) :
    findIdx (dropIdxs XL_MARKER_STYLE_all XL_MARKER_STYLE_listed) (dropIdxs XL_MARKER_STYLE_all XL_MARKER_STYLE_listed)[i] = some i :=
  roundtrip_of_nodup _ (nodupB_sound _ XL_MARKER_STYLE_distinct) i hi

/-- every token of XL_MARKER_STYLE is in the schema enumeration ST_MarkerStyle -/
theorem XL_MARKER_STYLE_in_schema : subsetB XL_MARKER_STYLE_all XL_MARKER_STYLE_schema = true := by decide +kernel

/-- tokens of XL_TICK_LABEL_POSITION (4 members with an XML value) are pairwise distinct, apart from the members listed as known findings -/
theorem XL_TICK_LABEL_POSITION_distinct : nodupB (dropIdxs XL_TICK_LABEL_POSITION_all XL_TICK_LABEL_POSITION_listed) = true := by decide +kernel

theorem XL_TICK_LABEL_POSITION_roundtrip (i : Nat) (hi : i < (dropIdxs XL_TICK_LABEL_POSITION_all XL_TICK_LABEL_POSITION_listed).length) :
    findIdx (dropIdxs XL_TICK_LABEL_POSITION_all XL_TICK_LABEL_POSITION_listed) (dropIdxs XL_TICK_LABEL_POSITION_all XL_TICK_LABEL_POSITION_listed)[i] = some i :=
  roundtrip_of_nodup _ (nodupB_sound _ XL_TICK_LABEL_POSITION_distinct) i hi

/-- every token of XL_TICK_LABEL_POSITION is in the schema enumeration ST_TickLblPos -/
theorem XL_TICK_LABEL_POSITION_in_schema : subsetB XL_TICK_LABEL_POSITION_all XL_TICK_LABEL_POSITION_schema = true := by decide +kernel

/-- tokens of XL_TICK_MARK (4 members with an XML value) are pairwise distinct, apart from the members listed as known findings -/
theorem XL_TICK_MARK_distinct : nodupB (dropIdxs XL_TICK_MARK_all XL_TICK_MARK_listed) = true := by decide +kernel

theorem XL_TICK_MARK_roundtrip (i : Nat) (hi : i < (dropIdxs XL_TICK_MARK_all XL_TICK_MARK_listed).length) :
    findIdx (dropIdxs XL_TICK_MARK_all XL_TICK_MARK_listed) (dropIdxs XL_TICK_MARK_all XL_TICK_MARK_listed)[i] = some i :=
  roundtrip_of_nodup _ (nodupB_sound _ XL_TICK_MARK_distinct) i hi

/-- every token of XL_TICK_MARK is in the schema enumeration ST_TickMark -/
theorem XL_TICK_MARK_in_schema : subsetB XL_TICK_MARK_all XL_TICK_MARK_schema = true := by decide +kernel

/-- every auto-shape type's preset name is defined in presetShapeDefinitions.xml and its adjustment names, order
    and default values equal the definition's -/
theorem autoshapes_match_presets :
    autoshapes.all (fun r => lookup r.1 presets == some r.2) = true := by decide +kernel

end Pptx.GenC20
