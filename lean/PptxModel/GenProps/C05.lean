-- GENERATED obligations: every template sink's table is safe for its context
import PptxModel.Gen.C05
import PptxModel.Props.C05
namespace Pptx.GenC05
open Pptx.Escape Pptx.Gen.C05 Pptx.C05

theorem sink_picture_file_name____p_cNvPr__descr_attr_safe : safeTbl .attr sink_picture_file_name____p_cNvPr__descr = true := by decide
theorem sink_picture_file_name____p_cNvPr__descr_attr_data (s : Str) : ∃ k', lexRun .attr (.normal 0) (s.flatMap (sigma sink_picture_file_name____p_cNvPr__descr)) = some (.normal k', s) :=
  safe_render .attr sink_picture_file_name____p_cNvPr__descr sink_picture_file_name____p_cNvPr__descr_attr_safe s 0 (by omega)

theorem sink_movie_file_name____shape_name_attr_safe : safeTbl .attr sink_movie_file_name____shape_name = true := by decide
theorem sink_movie_file_name____shape_name_attr_data (s : Str) : ∃ k', lexRun .attr (.normal 0) (s.flatMap (sigma sink_movie_file_name____shape_name)) = some (.normal k', s) :=
  safe_render .attr sink_movie_file_name____shape_name sink_movie_file_name____shape_name_attr_safe s 0 (by omega)

theorem sink_movie_file_extension____shape_name___media_part_name_attr_safe : safeTbl .attr sink_movie_file_extension____shape_name___media_part_name = true := by decide
theorem sink_movie_file_extension____shape_name___media_part_name_attr_data (s : Str) : ∃ k', lexRun .attr (.normal 0) (s.flatMap (sigma sink_movie_file_extension____shape_name___media_part_name)) = some (.normal k', s) :=
  safe_render .attr sink_movie_file_extension____shape_name___media_part_name sink_movie_file_extension____shape_name___media_part_name_attr_safe s 0 (by omega)

theorem sink_shape_click_hyperlink_address_shared_by_two_shapes__the_other_one_re_pointed_or_cleared_attr_safe : safeTbl .attr sink_shape_click_hyperlink_address_shared_by_two_shapes__the_other_one_re_pointed_or_cleared = true := by decide
theorem sink_shape_click_hyperlink_address_shared_by_two_shapes__the_other_one_re_pointed_or_cleared_attr_data (s : Str) : ∃ k', lexRun .attr (.normal 0) (s.flatMap (sigma sink_shape_click_hyperlink_address_shared_by_two_shapes__the_other_one_re_pointed_or_cleared)) = some (.normal k', s) :=
  safe_render .attr sink_shape_click_hyperlink_address_shared_by_two_shapes__the_other_one_re_pointed_or_cleared sink_shape_click_hyperlink_address_shared_by_two_shapes__the_other_one_re_pointed_or_cleared_attr_safe s 0 (by omega)

theorem sink_placeholder_picture_file_name_____descr_attr_safe : safeTbl .attr sink_placeholder_picture_file_name_____descr = true := by decide
theorem sink_placeholder_picture_file_name_____descr_attr_data (s : Str) : ∃ k', lexRun .attr (.normal 0) (s.flatMap (sigma sink_placeholder_picture_file_name_____descr)) = some (.normal k', s) :=
  safe_render .attr sink_placeholder_picture_file_name_____descr sink_placeholder_picture_file_name_____descr_attr_safe s 0 (by omega)

theorem sink_OLE_prog_id_attr_safe : safeTbl .attr sink_OLE_prog_id = true := by decide
theorem sink_OLE_prog_id_attr_data (s : Str) : ∃ k', lexRun .attr (.normal 0) (s.flatMap (sigma sink_OLE_prog_id)) = some (.normal k', s) :=
  safe_render .attr sink_OLE_prog_id sink_OLE_prog_id_attr_safe s 0 (by omega)

theorem sink_chart_series_name_text_safe : safeTbl .text sink_chart_series_name = true := by decide
theorem sink_chart_series_name_text_data (s : Str) : ∃ k', lexRun .text (.normal 0) (s.flatMap (sigma sink_chart_series_name)) = some (.normal k', s) :=
  safe_render .text sink_chart_series_name sink_chart_series_name_text_safe s 0 (by omega)

theorem sink_XY_chart_series_name_text_safe : safeTbl .text sink_XY_chart_series_name = true := by decide
theorem sink_XY_chart_series_name_text_data (s : Str) : ∃ k', lexRun .text (.normal 0) (s.flatMap (sigma sink_XY_chart_series_name)) = some (.normal k', s) :=
  safe_render .text sink_XY_chart_series_name sink_XY_chart_series_name_text_safe s 0 (by omega)

theorem sink_chart_category_label_text_safe : safeTbl .text sink_chart_category_label = true := by decide
theorem sink_chart_category_label_text_data (s : Str) : ∃ k', lexRun .text (.normal 0) (s.flatMap (sigma sink_chart_category_label)) = some (.normal k', s) :=
  safe_render .text sink_chart_category_label sink_chart_category_label_text_safe s 0 (by omega)

theorem sink_chart_data_number_format_text_safe : safeTbl .text sink_chart_data_number_format = true := by decide
theorem sink_chart_data_number_format_text_data (s : Str) : ∃ k', lexRun .text (.normal 0) (s.flatMap (sigma sink_chart_data_number_format)) = some (.normal k', s) :=
  safe_render .text sink_chart_data_number_format sink_chart_data_number_format_text_safe s 0 (by omega)

theorem sink_series_number_format_text_safe : safeTbl .text sink_series_number_format = true := by decide
theorem sink_series_number_format_text_data (s : Str) : ∃ k', lexRun .text (.normal 0) (s.flatMap (sigma sink_series_number_format)) = some (.normal k', s) :=
  safe_render .text sink_series_number_format sink_series_number_format_text_safe s 0 (by omega)

theorem sink_XY_chart_data_number_format_text_safe : safeTbl .text sink_XY_chart_data_number_format = true := by decide
theorem sink_XY_chart_data_number_format_text_data (s : Str) : ∃ k', lexRun .text (.normal 0) (s.flatMap (sigma sink_XY_chart_data_number_format)) = some (.normal k', s) :=
  safe_render .text sink_XY_chart_data_number_format sink_XY_chart_data_number_format_text_safe s 0 (by omega)

theorem sink_replace_data_series_name___category_text_safe : safeTbl .text sink_replace_data_series_name___category = true := by decide
theorem sink_replace_data_series_name___category_text_data (s : Str) : ∃ k', lexRun .text (.normal 0) (s.flatMap (sigma sink_replace_data_series_name___category)) = some (.normal k', s) :=
  safe_render .text sink_replace_data_series_name___category sink_replace_data_series_name___category_text_safe s 0 (by omega)

theorem sink_run_hyperlink_address_beside_a_link_that_differs_in_letter_case_only_attr_safe : safeTbl .attr sink_run_hyperlink_address_beside_a_link_that_differs_in_letter_case_only = true := by decide
theorem sink_run_hyperlink_address_beside_a_link_that_differs_in_letter_case_only_attr_data (s : Str) : ∃ k', lexRun .attr (.normal 0) (s.flatMap (sigma sink_run_hyperlink_address_beside_a_link_that_differs_in_letter_case_only)) = some (.normal k', s) :=
  safe_render .attr sink_run_hyperlink_address_beside_a_link_that_differs_in_letter_case_only sink_run_hyperlink_address_beside_a_link_that_differs_in_letter_case_only_attr_safe s 0 (by omega)

theorem sink_run_hyperlink_address__after_another_link_was_re_pointed_attr_safe : safeTbl .attr sink_run_hyperlink_address__after_another_link_was_re_pointed = true := by decide
theorem sink_run_hyperlink_address__after_another_link_was_re_pointed_attr_data (s : Str) : ∃ k', lexRun .attr (.normal 0) (s.flatMap (sigma sink_run_hyperlink_address__after_another_link_was_re_pointed)) = some (.normal k', s) :=
  safe_render .attr sink_run_hyperlink_address__after_another_link_was_re_pointed sink_run_hyperlink_address__after_another_link_was_re_pointed_attr_safe s 0 (by omega)

theorem sink_run_hyperlink_address_shared_by_two_runs__the_other_one_re_pointed_or_cleared_attr_safe : safeTbl .attr sink_run_hyperlink_address_shared_by_two_runs__the_other_one_re_pointed_or_cleared = true := by decide
theorem sink_run_hyperlink_address_shared_by_two_runs__the_other_one_re_pointed_or_cleared_attr_data (s : Str) : ∃ k', lexRun .attr (.normal 0) (s.flatMap (sigma sink_run_hyperlink_address_shared_by_two_runs__the_other_one_re_pointed_or_cleared)) = some (.normal k', s) :=
  safe_render .attr sink_run_hyperlink_address_shared_by_two_runs__the_other_one_re_pointed_or_cleared sink_run_hyperlink_address_shared_by_two_runs__the_other_one_re_pointed_or_cleared_attr_safe s 0 (by omega)

theorem sink_placeholder_name__then_insert_picture_attr_safe : safeTbl .attr sink_placeholder_name__then_insert_picture = true := by decide
theorem sink_placeholder_name__then_insert_picture_attr_data (s : Str) : ∃ k', lexRun .attr (.normal 0) (s.flatMap (sigma sink_placeholder_name__then_insert_picture)) = some (.normal k', s) :=
  safe_render .attr sink_placeholder_name__then_insert_picture sink_placeholder_name__then_insert_picture_attr_safe s 0 (by omega)

theorem sink_date_categories_number_format_attr_safe : safeTbl .attr sink_date_categories_number_format = true := by decide
theorem sink_date_categories_number_format_attr_data (s : Str) : ∃ k', lexRun .attr (.normal 0) (s.flatMap (sigma sink_date_categories_number_format)) = some (.normal k', s) :=
  safe_render .attr sink_date_categories_number_format sink_date_categories_number_format_attr_safe s 0 (by omega)

theorem sink_date_categories_number_format_text_safe : safeTbl .text sink_date_categories_number_format = true := by decide
theorem sink_date_categories_number_format_text_data (s : Str) : ∃ k', lexRun .text (.normal 0) (s.flatMap (sigma sink_date_categories_number_format)) = some (.normal k', s) :=
  safe_render .text sink_date_categories_number_format sink_date_categories_number_format_text_safe s 0 (by omega)

end Pptx.GenC05
