-- GENERATED obligations: every declaration row is adequate (kernel evaluation), grouped per element class
import PptxModel.Gen.C10
import PptxModel.Props.C10
set_option maxRecDepth 100000
namespace Pptx.GenC10
open Pptx.Slots Pptx.Gen.C10 Pptx.C10

theorem CT_ApplicationNonVisualDrawingProps_CT_ApplicationNonVisualDrawingProps_adequate : [row_CT_ApplicationNonVisualDrawingProps_CT_ApplicationNonVisualDrawingProps_ph].all Row.adequate = true := by decide +kernel

theorem CT_Area3DChart_CT_Area3DChart_adequate : [row_CT_Area3DChart_CT_Area3DChart_grouping, row_CT_Area3DChart_CT_Area3DChart_varyColors, row_CT_Area3DChart_CT_Area3DChart_dLbls].all Row.adequate = true := by decide +kernel

theorem CT_AreaChart_CT_AreaChart_adequate : [row_CT_AreaChart_CT_AreaChart_grouping, row_CT_AreaChart_CT_AreaChart_varyColors, row_CT_AreaChart_CT_AreaChart_ser, row_CT_AreaChart_CT_AreaChart_dLbls].all Row.adequate = true := by decide +kernel

theorem CT_AxDataSource_CT_AxDataSource_adequate : [row_CT_AxDataSource_CT_AxDataSource_multiLvlStrRef].all Row.adequate = true := by decide +kernel

theorem CT_BackgroundProperties_CT_BackgroundProperties_adequate : [row_CT_BackgroundProperties_CT_BackgroundProperties_noFill, row_CT_BackgroundProperties_CT_BackgroundProperties_solidFill, row_CT_BackgroundProperties_CT_BackgroundProperties_gradFill, row_CT_BackgroundProperties_CT_BackgroundProperties_blipFill, row_CT_BackgroundProperties_CT_BackgroundProperties_pattFill, row_CT_BackgroundProperties_CT_BackgroundProperties_grpFill].all Row.adequate = true := by decide +kernel

/-- the members of each choice group share the slot of the child switched to (hypothesis of `changeTo_sorted_of_groupOk`) -/
theorem CT_BackgroundProperties_CT_BackgroundProperties_choice_groups : [(row_CT_BackgroundProperties_CT_BackgroundProperties_noFill, grp_CT_BackgroundProperties_CT_BackgroundProperties_noFill), (row_CT_BackgroundProperties_CT_BackgroundProperties_solidFill, grp_CT_BackgroundProperties_CT_BackgroundProperties_solidFill), (row_CT_BackgroundProperties_CT_BackgroundProperties_gradFill, grp_CT_BackgroundProperties_CT_BackgroundProperties_gradFill), (row_CT_BackgroundProperties_CT_BackgroundProperties_blipFill, grp_CT_BackgroundProperties_CT_BackgroundProperties_blipFill), (row_CT_BackgroundProperties_CT_BackgroundProperties_pattFill, grp_CT_BackgroundProperties_CT_BackgroundProperties_pattFill), (row_CT_BackgroundProperties_CT_BackgroundProperties_grpFill, grp_CT_BackgroundProperties_CT_BackgroundProperties_grpFill)].all (fun p => p.1.groupOk p.2) = true := by decide +kernel

theorem CT_Background_CT_Background_adequate : [row_CT_Background_CT_Background_bgPr, row_CT_Background_CT_Background_bgRef].all Row.adequate = true := by decide +kernel

theorem CT_BarChart_CT_BarChart_adequate : [row_CT_BarChart_CT_BarChart_grouping, row_CT_BarChart_CT_BarChart_varyColors, row_CT_BarChart_CT_BarChart_ser, row_CT_BarChart_CT_BarChart_dLbls, row_CT_BarChart_CT_BarChart_gapWidth, row_CT_BarChart_CT_BarChart_overlap].all Row.adequate = true := by decide +kernel

theorem CT_BlipFillProperties_CT_BlipFillProperties_adequate : [row_CT_BlipFillProperties_CT_BlipFillProperties_blip, row_CT_BlipFillProperties_CT_BlipFillProperties_srcRect].all Row.adequate = true := by decide +kernel

theorem CT_BubbleChart_CT_BubbleChart_adequate : [row_CT_BubbleChart_CT_BubbleChart_varyColors, row_CT_BubbleChart_CT_BubbleChart_ser, row_CT_BubbleChart_CT_BubbleChart_dLbls, row_CT_BubbleChart_CT_BubbleChart_bubble3D, row_CT_BubbleChart_CT_BubbleChart_bubbleScale].all Row.adequate = true := by decide +kernel

theorem CT_CatAx_CT_CatAx_adequate : [row_CT_CatAx_CT_CatAx_delete_, row_CT_CatAx_CT_CatAx_majorGridlines, row_CT_CatAx_CT_CatAx_minorGridlines, row_CT_CatAx_CT_CatAx_title, row_CT_CatAx_CT_CatAx_numFmt, row_CT_CatAx_CT_CatAx_majorTickMark, row_CT_CatAx_CT_CatAx_minorTickMark, row_CT_CatAx_CT_CatAx_tickLblPos, row_CT_CatAx_CT_CatAx_spPr, row_CT_CatAx_CT_CatAx_txPr, row_CT_CatAx_CT_CatAx_crosses, row_CT_CatAx_CT_CatAx_crossesAt, row_CT_CatAx_CT_CatAx_lblOffset].all Row.adequate = true := by decide +kernel

theorem CT_ChartLines_CT_ChartLines_adequate : [row_CT_ChartLines_CT_ChartLines_spPr].all Row.adequate = true := by decide +kernel

theorem CT_ChartSpace_CT_ChartSpace_adequate : [row_CT_ChartSpace_CT_ChartSpace_date1904, row_CT_ChartSpace_CT_ChartSpace_style, row_CT_ChartSpace_CT_ChartSpace_txPr, row_CT_ChartSpace_CT_ChartSpace_externalData].all Row.adequate = true := by decide +kernel

theorem CT_Chart_CT_Chart_adequate : [row_CT_Chart_CT_Chart_title, row_CT_Chart_CT_Chart_autoTitleDeleted, row_CT_Chart_CT_Chart_legend].all Row.adequate = true := by decide +kernel

theorem CT_Color_CT_Color_adequate : [row_CT_Color_CT_Color_scrgbClr, row_CT_Color_CT_Color_srgbClr, row_CT_Color_CT_Color_hslClr, row_CT_Color_CT_Color_sysClr, row_CT_Color_CT_Color_schemeClr, row_CT_Color_CT_Color_prstClr].all Row.adequate = true := by decide +kernel

/-- the members of each choice group share the slot of the child switched to (hypothesis of `changeTo_sorted_of_groupOk`) -/
theorem CT_Color_CT_Color_choice_groups : [(row_CT_Color_CT_Color_scrgbClr, grp_CT_Color_CT_Color_scrgbClr), (row_CT_Color_CT_Color_srgbClr, grp_CT_Color_CT_Color_srgbClr), (row_CT_Color_CT_Color_hslClr, grp_CT_Color_CT_Color_hslClr), (row_CT_Color_CT_Color_sysClr, grp_CT_Color_CT_Color_sysClr), (row_CT_Color_CT_Color_schemeClr, grp_CT_Color_CT_Color_schemeClr), (row_CT_Color_CT_Color_prstClr, grp_CT_Color_CT_Color_prstClr)].all (fun p => p.1.groupOk p.2) = true := by decide +kernel

theorem CT_CommonSlideData_CT_CommonSlideData_adequate : [row_CT_CommonSlideData_CT_CommonSlideData_bg].all Row.adequate = true := by decide +kernel

theorem CT_CustomGeometry2D_CT_CustomGeometry2D_adequate : [row_CT_CustomGeometry2D_CT_CustomGeometry2D_pathLst].all Row.adequate = true := by decide +kernel

theorem CT_DLbl_CT_DLbl_adequate : [row_CT_DLbl_CT_DLbl_tx, row_CT_DLbl_CT_DLbl_spPr, row_CT_DLbl_CT_DLbl_txPr, row_CT_DLbl_CT_DLbl_dLblPos].all Row.adequate = true := by decide +kernel

theorem CT_DLbls_CT_DLbls_adequate : [row_CT_DLbls_CT_DLbls_dLbl, row_CT_DLbls_CT_DLbls_numFmt, row_CT_DLbls_CT_DLbls_txPr, row_CT_DLbls_CT_DLbls_dLblPos, row_CT_DLbls_CT_DLbls_showLegendKey, row_CT_DLbls_CT_DLbls_showVal, row_CT_DLbls_CT_DLbls_showCatName, row_CT_DLbls_CT_DLbls_showSerName, row_CT_DLbls_CT_DLbls_showPercent].all Row.adequate = true := by decide +kernel

theorem CT_DPt_CT_DPt_adequate : [row_CT_DPt_CT_DPt_marker, row_CT_DPt_CT_DPt_spPr].all Row.adequate = true := by decide +kernel

theorem CT_DateAx_CT_DateAx_adequate : [row_CT_DateAx_CT_DateAx_delete_, row_CT_DateAx_CT_DateAx_majorGridlines, row_CT_DateAx_CT_DateAx_minorGridlines, row_CT_DateAx_CT_DateAx_title, row_CT_DateAx_CT_DateAx_numFmt, row_CT_DateAx_CT_DateAx_majorTickMark, row_CT_DateAx_CT_DateAx_minorTickMark, row_CT_DateAx_CT_DateAx_tickLblPos, row_CT_DateAx_CT_DateAx_spPr, row_CT_DateAx_CT_DateAx_txPr, row_CT_DateAx_CT_DateAx_crosses, row_CT_DateAx_CT_DateAx_crossesAt, row_CT_DateAx_CT_DateAx_lblOffset].all Row.adequate = true := by decide +kernel

theorem CT_DoughnutChart_CT_DoughnutChart_adequate : [row_CT_DoughnutChart_CT_DoughnutChart_varyColors, row_CT_DoughnutChart_CT_DoughnutChart_ser, row_CT_DoughnutChart_CT_DoughnutChart_dLbls].all Row.adequate = true := by decide +kernel

theorem CT_ExternalData_CT_ExternalData_adequate : [row_CT_ExternalData_CT_ExternalData_autoUpdate].all Row.adequate = true := by decide +kernel

theorem CT_GeomGuideList_CT_GeomGuideList_adequate : [row_CT_GeomGuideList_CT_GeomGuideList_gd].all Row.adequate = true := by decide +kernel

theorem CT_GradientFillProperties_CT_GradientFillProperties_adequate : [row_CT_GradientFillProperties_CT_GradientFillProperties_gsLst, row_CT_GradientFillProperties_CT_GradientFillProperties_lin, row_CT_GradientFillProperties_CT_GradientFillProperties_path].all Row.adequate = true := by decide +kernel

theorem CT_GradientStopList_CT_GradientStopList_adequate : [row_CT_GradientStopList_CT_GradientStopList_gs].all Row.adequate = true := by decide +kernel

theorem CT_GradientStop_CT_GradientStop_adequate : [row_CT_GradientStop_CT_GradientStop_scrgbClr, row_CT_GradientStop_CT_GradientStop_srgbClr, row_CT_GradientStop_CT_GradientStop_hslClr, row_CT_GradientStop_CT_GradientStop_sysClr, row_CT_GradientStop_CT_GradientStop_schemeClr, row_CT_GradientStop_CT_GradientStop_prstClr].all Row.adequate = true := by decide +kernel

/-- the members of each choice group share the slot of the child switched to (hypothesis of `changeTo_sorted_of_groupOk`) -/
theorem CT_GradientStop_CT_GradientStop_choice_groups : [(row_CT_GradientStop_CT_GradientStop_scrgbClr, grp_CT_GradientStop_CT_GradientStop_scrgbClr), (row_CT_GradientStop_CT_GradientStop_srgbClr, grp_CT_GradientStop_CT_GradientStop_srgbClr), (row_CT_GradientStop_CT_GradientStop_hslClr, grp_CT_GradientStop_CT_GradientStop_hslClr), (row_CT_GradientStop_CT_GradientStop_sysClr, grp_CT_GradientStop_CT_GradientStop_sysClr), (row_CT_GradientStop_CT_GradientStop_schemeClr, grp_CT_GradientStop_CT_GradientStop_schemeClr), (row_CT_GradientStop_CT_GradientStop_prstClr, grp_CT_GradientStop_CT_GradientStop_prstClr)].all (fun p => p.1.groupOk p.2) = true := by decide +kernel

theorem CT_GroupShapeProperties_CT_GroupShapeProperties_adequate : [row_CT_GroupShapeProperties_CT_GroupShapeProperties_xfrm, row_CT_GroupShapeProperties_CT_GroupShapeProperties_effectLst].all Row.adequate = true := by decide +kernel

theorem CT_GroupShape_CT_GroupShape_adequate : [row_CT_GroupShape_CT_GroupShape_hw_CT_GroupShape_add_autoshape, row_CT_GroupShape_CT_GroupShape_hw_CT_GroupShape_add_cxnSp, row_CT_GroupShape_CT_GroupShape_hw_CT_GroupShape_add_freeform_sp, row_CT_GroupShape_CT_GroupShape_hw_CT_GroupShape_add_grpSp, row_CT_GroupShape_CT_GroupShape_hw_CT_GroupShape_add_pic, row_CT_GroupShape_CT_GroupShape_hw_CT_GroupShape_add_placeholder, row_CT_GroupShape_CT_GroupShape_hw_CT_GroupShape_add_table, row_CT_GroupShape_CT_GroupShape_hw_CT_GroupShape_add_textbox, row_CT_GroupShape_CT_GroupShape_hw__BaseGroupShapes__add_chart_graphicFrame, row_CT_GroupShape_CT_GroupShape_hw__BaseGroupShapes_add_ole_object, row_CT_GroupShape_CT_GroupShape_hw_SlideShapes_add_movie, row_CT_GroupShape_CT_GroupShape_hw__BaseGroupShapes_add_group_shape_members_].all Row.adequate = true := by decide +kernel

theorem CT_HslColor_CT_HslColor_adequate : [row_CT_HslColor_CT_HslColor_lumMod, row_CT_HslColor_CT_HslColor_lumOff].all Row.adequate = true := by decide +kernel

theorem CT_Layout_CT_Layout_adequate : [row_CT_Layout_CT_Layout_manualLayout].all Row.adequate = true := by decide +kernel

theorem CT_Legend_CT_Legend_adequate : [row_CT_Legend_CT_Legend_legendPos, row_CT_Legend_CT_Legend_layout, row_CT_Legend_CT_Legend_overlay, row_CT_Legend_CT_Legend_txPr].all Row.adequate = true := by decide +kernel

theorem CT_LineChart_CT_LineChart_adequate : [row_CT_LineChart_CT_LineChart_grouping, row_CT_LineChart_CT_LineChart_varyColors, row_CT_LineChart_CT_LineChart_ser, row_CT_LineChart_CT_LineChart_dLbls].all Row.adequate = true := by decide +kernel

theorem CT_LineProperties_CT_LineProperties_adequate : [row_CT_LineProperties_CT_LineProperties_noFill, row_CT_LineProperties_CT_LineProperties_solidFill, row_CT_LineProperties_CT_LineProperties_gradFill, row_CT_LineProperties_CT_LineProperties_pattFill, row_CT_LineProperties_CT_LineProperties_prstDash, row_CT_LineProperties_CT_LineProperties_custDash].all Row.adequate = true := by decide +kernel

/-- the members of each choice group share the slot of the child switched to (hypothesis of `changeTo_sorted_of_groupOk`) -/
theorem CT_LineProperties_CT_LineProperties_choice_groups : [(row_CT_LineProperties_CT_LineProperties_noFill, grp_CT_LineProperties_CT_LineProperties_noFill), (row_CT_LineProperties_CT_LineProperties_solidFill, grp_CT_LineProperties_CT_LineProperties_solidFill), (row_CT_LineProperties_CT_LineProperties_gradFill, grp_CT_LineProperties_CT_LineProperties_gradFill), (row_CT_LineProperties_CT_LineProperties_pattFill, grp_CT_LineProperties_CT_LineProperties_pattFill)].all (fun p => p.1.groupOk p.2) = true := by decide +kernel

theorem CT_Lvl_CT_Lvl_adequate : [row_CT_Lvl_CT_Lvl_pt].all Row.adequate = true := by decide +kernel

theorem CT_ManualLayout_CT_ManualLayout_adequate : [row_CT_ManualLayout_CT_ManualLayout_xMode, row_CT_ManualLayout_CT_ManualLayout_x].all Row.adequate = true := by decide +kernel

theorem CT_Marker_CT_Marker_adequate : [row_CT_Marker_CT_Marker_symbol, row_CT_Marker_CT_Marker_size, row_CT_Marker_CT_Marker_spPr].all Row.adequate = true := by decide +kernel

theorem CT_NonVisualConnectorProperties_CT_NonVisualConnectorProperties_adequate : [row_CT_NonVisualConnectorProperties_CT_NonVisualConnectorProperties_stCxn, row_CT_NonVisualConnectorProperties_CT_NonVisualConnectorProperties_endCxn].all Row.adequate = true := by decide +kernel

theorem CT_NonVisualDrawingProps_CT_NonVisualDrawingProps_adequate : [row_CT_NonVisualDrawingProps_CT_NonVisualDrawingProps_hlinkClick, row_CT_NonVisualDrawingProps_CT_NonVisualDrawingProps_hlinkHover].all Row.adequate = true := by decide +kernel

theorem CT_NonVisualDrawingShapeProps_CT_NonVisualDrawingShapeProps_adequate : [row_CT_NonVisualDrawingShapeProps_CT_NonVisualDrawingShapeProps_spLocks].all Row.adequate = true := by decide +kernel

theorem CT_Path2DLineTo_CT_Path2DLineTo_adequate : [row_CT_Path2DLineTo_CT_Path2DLineTo_pt].all Row.adequate = true := by decide +kernel

theorem CT_Path2DList_CT_Path2DList_adequate : [row_CT_Path2DList_CT_Path2DList_path].all Row.adequate = true := by decide +kernel

theorem CT_Path2DMoveTo_CT_Path2DMoveTo_adequate : [row_CT_Path2DMoveTo_CT_Path2DMoveTo_pt].all Row.adequate = true := by decide +kernel

theorem CT_Path2D_CT_Path2D_adequate : [row_CT_Path2D_CT_Path2D_close, row_CT_Path2D_CT_Path2D_lnTo, row_CT_Path2D_CT_Path2D_moveTo].all Row.adequate = true := by decide +kernel

theorem CT_PatternFillProperties_CT_PatternFillProperties_adequate : [row_CT_PatternFillProperties_CT_PatternFillProperties_fgClr, row_CT_PatternFillProperties_CT_PatternFillProperties_bgClr].all Row.adequate = true := by decide +kernel

theorem CT_PieChart_CT_PieChart_adequate : [row_CT_PieChart_CT_PieChart_varyColors, row_CT_PieChart_CT_PieChart_ser, row_CT_PieChart_CT_PieChart_dLbls].all Row.adequate = true := by decide +kernel

theorem CT_PlotArea_CT_PlotArea_adequate : [row_CT_PlotArea_CT_PlotArea_catAx, row_CT_PlotArea_CT_PlotArea_valAx].all Row.adequate = true := by decide +kernel

theorem CT_Presentation_CT_Presentation_adequate : [row_CT_Presentation_CT_Presentation_sldMasterIdLst, row_CT_Presentation_CT_Presentation_sldIdLst, row_CT_Presentation_CT_Presentation_sldSz].all Row.adequate = true := by decide +kernel

theorem CT_PresetColor_CT_PresetColor_adequate : [row_CT_PresetColor_CT_PresetColor_lumMod, row_CT_PresetColor_CT_PresetColor_lumOff].all Row.adequate = true := by decide +kernel

theorem CT_PresetGeometry2D_CT_PresetGeometry2D_adequate : [row_CT_PresetGeometry2D_CT_PresetGeometry2D_avLst].all Row.adequate = true := by decide +kernel

theorem CT_RadarChart_CT_RadarChart_adequate : [row_CT_RadarChart_CT_RadarChart_varyColors, row_CT_RadarChart_CT_RadarChart_ser, row_CT_RadarChart_CT_RadarChart_dLbls].all Row.adequate = true := by decide +kernel

theorem CT_RegularTextRun_CT_RegularTextRun_adequate : [row_CT_RegularTextRun_CT_RegularTextRun_rPr].all Row.adequate = true := by decide +kernel

theorem CT_SRgbColor_CT_SRgbColor_adequate : [row_CT_SRgbColor_CT_SRgbColor_lumMod, row_CT_SRgbColor_CT_SRgbColor_lumOff].all Row.adequate = true := by decide +kernel

theorem CT_ScRgbColor_CT_ScRgbColor_adequate : [row_CT_ScRgbColor_CT_ScRgbColor_lumMod, row_CT_ScRgbColor_CT_ScRgbColor_lumOff].all Row.adequate = true := by decide +kernel

theorem CT_Scaling_CT_Scaling_adequate : [row_CT_Scaling_CT_Scaling_orientation, row_CT_Scaling_CT_Scaling_max, row_CT_Scaling_CT_Scaling_min].all Row.adequate = true := by decide +kernel

theorem CT_ScatterChart_CT_ScatterChart_adequate : [row_CT_ScatterChart_CT_ScatterChart_varyColors, row_CT_ScatterChart_CT_ScatterChart_ser, row_CT_ScatterChart_CT_ScatterChart_dLbls].all Row.adequate = true := by decide +kernel

theorem CT_SchemeColor_CT_SchemeColor_adequate : [row_CT_SchemeColor_CT_SchemeColor_lumMod, row_CT_SchemeColor_CT_SchemeColor_lumOff].all Row.adequate = true := by decide +kernel

theorem CT_SeriesComposite_CT_AreaSer_adequate : [row_CT_SeriesComposite_CT_AreaSer_tx, row_CT_SeriesComposite_CT_AreaSer_spPr, row_CT_SeriesComposite_CT_AreaSer_dPt, row_CT_SeriesComposite_CT_AreaSer_dLbls, row_CT_SeriesComposite_CT_AreaSer_cat, row_CT_SeriesComposite_CT_AreaSer_val].all Row.adequate = true := by decide +kernel

theorem CT_SeriesComposite_CT_BarSer_adequate : [row_CT_SeriesComposite_CT_BarSer_tx, row_CT_SeriesComposite_CT_BarSer_spPr, row_CT_SeriesComposite_CT_BarSer_invertIfNegative, row_CT_SeriesComposite_CT_BarSer_dPt, row_CT_SeriesComposite_CT_BarSer_dLbls, row_CT_SeriesComposite_CT_BarSer_cat, row_CT_SeriesComposite_CT_BarSer_val].all Row.adequate = true := by decide +kernel

theorem CT_SeriesComposite_CT_BubbleSer_adequate : [row_CT_SeriesComposite_CT_BubbleSer_tx, row_CT_SeriesComposite_CT_BubbleSer_spPr, row_CT_SeriesComposite_CT_BubbleSer_invertIfNegative, row_CT_SeriesComposite_CT_BubbleSer_dPt, row_CT_SeriesComposite_CT_BubbleSer_dLbls, row_CT_SeriesComposite_CT_BubbleSer_xVal, row_CT_SeriesComposite_CT_BubbleSer_yVal, row_CT_SeriesComposite_CT_BubbleSer_bubbleSize].all Row.adequate = true := by decide +kernel

theorem CT_SeriesComposite_CT_LineSer_adequate : [row_CT_SeriesComposite_CT_LineSer_tx, row_CT_SeriesComposite_CT_LineSer_spPr, row_CT_SeriesComposite_CT_LineSer_marker, row_CT_SeriesComposite_CT_LineSer_dPt, row_CT_SeriesComposite_CT_LineSer_dLbls, row_CT_SeriesComposite_CT_LineSer_cat, row_CT_SeriesComposite_CT_LineSer_val, row_CT_SeriesComposite_CT_LineSer_smooth].all Row.adequate = true := by decide +kernel

theorem CT_SeriesComposite_CT_PieSer_adequate : [row_CT_SeriesComposite_CT_PieSer_tx, row_CT_SeriesComposite_CT_PieSer_spPr, row_CT_SeriesComposite_CT_PieSer_dPt, row_CT_SeriesComposite_CT_PieSer_dLbls, row_CT_SeriesComposite_CT_PieSer_cat, row_CT_SeriesComposite_CT_PieSer_val].all Row.adequate = true := by decide +kernel

theorem CT_SeriesComposite_CT_RadarSer_adequate : [row_CT_SeriesComposite_CT_RadarSer_tx, row_CT_SeriesComposite_CT_RadarSer_spPr, row_CT_SeriesComposite_CT_RadarSer_marker, row_CT_SeriesComposite_CT_RadarSer_dPt, row_CT_SeriesComposite_CT_RadarSer_dLbls, row_CT_SeriesComposite_CT_RadarSer_cat, row_CT_SeriesComposite_CT_RadarSer_val].all Row.adequate = true := by decide +kernel

theorem CT_SeriesComposite_CT_ScatterSer_adequate : [row_CT_SeriesComposite_CT_ScatterSer_tx, row_CT_SeriesComposite_CT_ScatterSer_spPr, row_CT_SeriesComposite_CT_ScatterSer_marker, row_CT_SeriesComposite_CT_ScatterSer_dPt, row_CT_SeriesComposite_CT_ScatterSer_dLbls, row_CT_SeriesComposite_CT_ScatterSer_xVal, row_CT_SeriesComposite_CT_ScatterSer_yVal, row_CT_SeriesComposite_CT_ScatterSer_smooth].all Row.adequate = true := by decide +kernel

theorem CT_SeriesComposite_CT_SurfaceSer_adequate : [row_CT_SeriesComposite_CT_SurfaceSer_tx, row_CT_SeriesComposite_CT_SurfaceSer_spPr, row_CT_SeriesComposite_CT_SurfaceSer_cat, row_CT_SeriesComposite_CT_SurfaceSer_val].all Row.adequate = true := by decide +kernel

theorem CT_ShapeProperties_CT_ShapeProperties_adequate : [row_CT_ShapeProperties_CT_ShapeProperties_xfrm, row_CT_ShapeProperties_CT_ShapeProperties_custGeom, row_CT_ShapeProperties_CT_ShapeProperties_prstGeom, row_CT_ShapeProperties_CT_ShapeProperties_noFill, row_CT_ShapeProperties_CT_ShapeProperties_solidFill, row_CT_ShapeProperties_CT_ShapeProperties_gradFill, row_CT_ShapeProperties_CT_ShapeProperties_blipFill, row_CT_ShapeProperties_CT_ShapeProperties_pattFill, row_CT_ShapeProperties_CT_ShapeProperties_grpFill, row_CT_ShapeProperties_CT_ShapeProperties_ln, row_CT_ShapeProperties_CT_ShapeProperties_effectLst].all Row.adequate = true := by decide +kernel

/-- the members of each choice group share the slot of the child switched to (hypothesis of `changeTo_sorted_of_groupOk`) -/
theorem CT_ShapeProperties_CT_ShapeProperties_choice_groups : [(row_CT_ShapeProperties_CT_ShapeProperties_noFill, grp_CT_ShapeProperties_CT_ShapeProperties_noFill), (row_CT_ShapeProperties_CT_ShapeProperties_solidFill, grp_CT_ShapeProperties_CT_ShapeProperties_solidFill), (row_CT_ShapeProperties_CT_ShapeProperties_gradFill, grp_CT_ShapeProperties_CT_ShapeProperties_gradFill), (row_CT_ShapeProperties_CT_ShapeProperties_blipFill, grp_CT_ShapeProperties_CT_ShapeProperties_blipFill), (row_CT_ShapeProperties_CT_ShapeProperties_pattFill, grp_CT_ShapeProperties_CT_ShapeProperties_pattFill), (row_CT_ShapeProperties_CT_ShapeProperties_grpFill, grp_CT_ShapeProperties_CT_ShapeProperties_grpFill)].all (fun p => p.1.groupOk p.2) = true := by decide +kernel

theorem CT_Shape_CT_Shape_adequate : [row_CT_Shape_CT_Shape_txBody].all Row.adequate = true := by decide +kernel

theorem CT_SlideIdList_CT_SlideIdList_adequate : [row_CT_SlideIdList_CT_SlideIdList_sldId].all Row.adequate = true := by decide +kernel

theorem CT_SlideLayoutIdList_CT_SlideLayoutIdList_adequate : [row_CT_SlideLayoutIdList_CT_SlideLayoutIdList_sldLayoutId].all Row.adequate = true := by decide +kernel

theorem CT_SlideMasterIdList_CT_SlideMasterIdList_adequate : [row_CT_SlideMasterIdList_CT_SlideMasterIdList_sldMasterId].all Row.adequate = true := by decide +kernel

theorem CT_SlideMaster_CT_SlideMaster_adequate : [row_CT_SlideMaster_CT_SlideMaster_sldLayoutIdLst].all Row.adequate = true := by decide +kernel

theorem CT_SlideTiming_CT_SlideTiming_adequate : [row_CT_SlideTiming_CT_SlideTiming_tnLst].all Row.adequate = true := by decide +kernel

theorem CT_Slide_CT_Slide_adequate : [row_CT_Slide_CT_Slide_clrMapOvr, row_CT_Slide_CT_Slide_timing, row_CT_Slide_CT_Slide_hw_CT_Slide__add_childTnLst].all Row.adequate = true := by decide +kernel

theorem CT_SolidColorFillProperties_CT_SolidColorFillProperties_adequate : [row_CT_SolidColorFillProperties_CT_SolidColorFillProperties_scrgbClr, row_CT_SolidColorFillProperties_CT_SolidColorFillProperties_srgbClr, row_CT_SolidColorFillProperties_CT_SolidColorFillProperties_hslClr, row_CT_SolidColorFillProperties_CT_SolidColorFillProperties_sysClr, row_CT_SolidColorFillProperties_CT_SolidColorFillProperties_schemeClr, row_CT_SolidColorFillProperties_CT_SolidColorFillProperties_prstClr].all Row.adequate = true := by decide +kernel

/-- the members of each choice group share the slot of the child switched to (hypothesis of `changeTo_sorted_of_groupOk`) -/
theorem CT_SolidColorFillProperties_CT_SolidColorFillProperties_choice_groups : [(row_CT_SolidColorFillProperties_CT_SolidColorFillProperties_scrgbClr, grp_CT_SolidColorFillProperties_CT_SolidColorFillProperties_scrgbClr), (row_CT_SolidColorFillProperties_CT_SolidColorFillProperties_srgbClr, grp_CT_SolidColorFillProperties_CT_SolidColorFillProperties_srgbClr), (row_CT_SolidColorFillProperties_CT_SolidColorFillProperties_hslClr, grp_CT_SolidColorFillProperties_CT_SolidColorFillProperties_hslClr), (row_CT_SolidColorFillProperties_CT_SolidColorFillProperties_sysClr, grp_CT_SolidColorFillProperties_CT_SolidColorFillProperties_sysClr), (row_CT_SolidColorFillProperties_CT_SolidColorFillProperties_schemeClr, grp_CT_SolidColorFillProperties_CT_SolidColorFillProperties_schemeClr), (row_CT_SolidColorFillProperties_CT_SolidColorFillProperties_prstClr, grp_CT_SolidColorFillProperties_CT_SolidColorFillProperties_prstClr)].all (fun p => p.1.groupOk p.2) = true := by decide +kernel

theorem CT_SystemColor_CT_SystemColor_adequate : [row_CT_SystemColor_CT_SystemColor_lumMod, row_CT_SystemColor_CT_SystemColor_lumOff].all Row.adequate = true := by decide +kernel

theorem CT_TableCellProperties_CT_TableCellProperties_adequate : [row_CT_TableCellProperties_CT_TableCellProperties_noFill, row_CT_TableCellProperties_CT_TableCellProperties_solidFill, row_CT_TableCellProperties_CT_TableCellProperties_gradFill, row_CT_TableCellProperties_CT_TableCellProperties_blipFill, row_CT_TableCellProperties_CT_TableCellProperties_pattFill, row_CT_TableCellProperties_CT_TableCellProperties_grpFill].all Row.adequate = true := by decide +kernel

/-- the members of each choice group share the slot of the child switched to (hypothesis of `changeTo_sorted_of_groupOk`) -/
theorem CT_TableCellProperties_CT_TableCellProperties_choice_groups : [(row_CT_TableCellProperties_CT_TableCellProperties_noFill, grp_CT_TableCellProperties_CT_TableCellProperties_noFill), (row_CT_TableCellProperties_CT_TableCellProperties_solidFill, grp_CT_TableCellProperties_CT_TableCellProperties_solidFill), (row_CT_TableCellProperties_CT_TableCellProperties_gradFill, grp_CT_TableCellProperties_CT_TableCellProperties_gradFill), (row_CT_TableCellProperties_CT_TableCellProperties_blipFill, grp_CT_TableCellProperties_CT_TableCellProperties_blipFill), (row_CT_TableCellProperties_CT_TableCellProperties_pattFill, grp_CT_TableCellProperties_CT_TableCellProperties_pattFill), (row_CT_TableCellProperties_CT_TableCellProperties_grpFill, grp_CT_TableCellProperties_CT_TableCellProperties_grpFill)].all (fun p => p.1.groupOk p.2) = true := by decide +kernel

theorem CT_TableCell_CT_TableCell_adequate : [row_CT_TableCell_CT_TableCell_txBody, row_CT_TableCell_CT_TableCell_tcPr].all Row.adequate = true := by decide +kernel

theorem CT_TableGrid_CT_TableGrid_adequate : [row_CT_TableGrid_CT_TableGrid_gridCol].all Row.adequate = true := by decide +kernel

theorem CT_TableRow_CT_TableRow_adequate : [row_CT_TableRow_CT_TableRow_tc].all Row.adequate = true := by decide +kernel

theorem CT_Table_CT_Table_adequate : [row_CT_Table_CT_Table_tblPr, row_CT_Table_CT_Table_tr].all Row.adequate = true := by decide +kernel

theorem CT_TextBodyProperties_CT_TextBodyProperties_adequate : [row_CT_TextBodyProperties_CT_TextBodyProperties_noAutofit, row_CT_TextBodyProperties_CT_TextBodyProperties_normAutofit, row_CT_TextBodyProperties_CT_TextBodyProperties_spAutoFit].all Row.adequate = true := by decide +kernel

/-- the members of each choice group share the slot of the child switched to (hypothesis of `changeTo_sorted_of_groupOk`) -/
theorem CT_TextBodyProperties_CT_TextBodyProperties_choice_groups : [(row_CT_TextBodyProperties_CT_TextBodyProperties_noAutofit, grp_CT_TextBodyProperties_CT_TextBodyProperties_noAutofit), (row_CT_TextBodyProperties_CT_TextBodyProperties_normAutofit, grp_CT_TextBodyProperties_CT_TextBodyProperties_normAutofit), (row_CT_TextBodyProperties_CT_TextBodyProperties_spAutoFit, grp_CT_TextBodyProperties_CT_TextBodyProperties_spAutoFit)].all (fun p => p.1.groupOk p.2) = true := by decide +kernel

theorem CT_TextBody_CT_TextBody_adequate : [row_CT_TextBody_CT_TextBody_p].all Row.adequate = true := by decide +kernel

theorem CT_TextCharacterProperties_CT_TextCharacterProperties_adequate : [row_CT_TextCharacterProperties_CT_TextCharacterProperties_noFill, row_CT_TextCharacterProperties_CT_TextCharacterProperties_solidFill, row_CT_TextCharacterProperties_CT_TextCharacterProperties_gradFill, row_CT_TextCharacterProperties_CT_TextCharacterProperties_blipFill, row_CT_TextCharacterProperties_CT_TextCharacterProperties_pattFill, row_CT_TextCharacterProperties_CT_TextCharacterProperties_grpFill, row_CT_TextCharacterProperties_CT_TextCharacterProperties_latin, row_CT_TextCharacterProperties_CT_TextCharacterProperties_hlinkClick].all Row.adequate = true := by decide +kernel

/-- the members of each choice group share the slot of the child switched to (hypothesis of `changeTo_sorted_of_groupOk`) -/
theorem CT_TextCharacterProperties_CT_TextCharacterProperties_choice_groups : [(row_CT_TextCharacterProperties_CT_TextCharacterProperties_noFill, grp_CT_TextCharacterProperties_CT_TextCharacterProperties_noFill), (row_CT_TextCharacterProperties_CT_TextCharacterProperties_solidFill, grp_CT_TextCharacterProperties_CT_TextCharacterProperties_solidFill), (row_CT_TextCharacterProperties_CT_TextCharacterProperties_gradFill, grp_CT_TextCharacterProperties_CT_TextCharacterProperties_gradFill), (row_CT_TextCharacterProperties_CT_TextCharacterProperties_blipFill, grp_CT_TextCharacterProperties_CT_TextCharacterProperties_blipFill), (row_CT_TextCharacterProperties_CT_TextCharacterProperties_pattFill, grp_CT_TextCharacterProperties_CT_TextCharacterProperties_pattFill), (row_CT_TextCharacterProperties_CT_TextCharacterProperties_grpFill, grp_CT_TextCharacterProperties_CT_TextCharacterProperties_grpFill)].all (fun p => p.1.groupOk p.2) = true := by decide +kernel

theorem CT_TextField_CT_TextField_adequate : [row_CT_TextField_CT_TextField_rPr, row_CT_TextField_CT_TextField_t].all Row.adequate = true := by decide +kernel

theorem CT_TextLineBreak_CT_TextLineBreak_adequate : [row_CT_TextLineBreak_CT_TextLineBreak_rPr].all Row.adequate = true := by decide +kernel

theorem CT_TextParagraphProperties_CT_TextParagraphProperties_adequate : [row_CT_TextParagraphProperties_CT_TextParagraphProperties_lnSpc, row_CT_TextParagraphProperties_CT_TextParagraphProperties_spcBef, row_CT_TextParagraphProperties_CT_TextParagraphProperties_spcAft, row_CT_TextParagraphProperties_CT_TextParagraphProperties_defRPr].all Row.adequate = true := by decide +kernel

theorem CT_TextParagraph_CT_TextParagraph_adequate : [row_CT_TextParagraph_CT_TextParagraph_pPr, row_CT_TextParagraph_CT_TextParagraph_r, row_CT_TextParagraph_CT_TextParagraph_br, row_CT_TextParagraph_CT_TextParagraph_endParaRPr].all Row.adequate = true := by decide +kernel

theorem CT_TextSpacing_CT_TextSpacing_adequate : [row_CT_TextSpacing_CT_TextSpacing_spcPct, row_CT_TextSpacing_CT_TextSpacing_spcPts].all Row.adequate = true := by decide +kernel

theorem CT_Title_CT_Title_adequate : [row_CT_Title_CT_Title_tx, row_CT_Title_CT_Title_spPr].all Row.adequate = true := by decide +kernel

theorem CT_Transform2D_CT_GroupTransform2D_adequate : [row_CT_Transform2D_CT_GroupTransform2D_off, row_CT_Transform2D_CT_GroupTransform2D_ext, row_CT_Transform2D_CT_GroupTransform2D_chOff, row_CT_Transform2D_CT_GroupTransform2D_chExt].all Row.adequate = true := by decide +kernel

theorem CT_Transform2D_CT_Transform2D_adequate : [row_CT_Transform2D_CT_Transform2D_off, row_CT_Transform2D_CT_Transform2D_ext].all Row.adequate = true := by decide +kernel

theorem CT_Tx_CT_SerTx_adequate : [row_CT_Tx_CT_SerTx_strRef].all Row.adequate = true := by decide +kernel

theorem CT_Tx_CT_Tx_adequate : [row_CT_Tx_CT_Tx_strRef, row_CT_Tx_CT_Tx_rich].all Row.adequate = true := by decide +kernel

theorem CT_ValAx_CT_ValAx_adequate : [row_CT_ValAx_CT_ValAx_delete_, row_CT_ValAx_CT_ValAx_majorGridlines, row_CT_ValAx_CT_ValAx_minorGridlines, row_CT_ValAx_CT_ValAx_title, row_CT_ValAx_CT_ValAx_numFmt, row_CT_ValAx_CT_ValAx_majorTickMark, row_CT_ValAx_CT_ValAx_minorTickMark, row_CT_ValAx_CT_ValAx_tickLblPos, row_CT_ValAx_CT_ValAx_spPr, row_CT_ValAx_CT_ValAx_txPr, row_CT_ValAx_CT_ValAx_crossAx, row_CT_ValAx_CT_ValAx_crosses, row_CT_ValAx_CT_ValAx_crossesAt, row_CT_ValAx_CT_ValAx_majorUnit, row_CT_ValAx_CT_ValAx_minorUnit].all Row.adequate = true := by decide +kernel

end Pptx.GenC10
