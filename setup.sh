#!/bin/bash
# Build the framework offline from files on disk: regenerate translated tables from /repo, build all
# Lean modules (models, lemmas, theorems) and the compiled model driver.
set -e
here="$(cd "$(dirname "$0")" && pwd)"
cd "$here"
export PYTHON_PPTX_VERIF=1 PYTHONDONTWRITEBYTECODE=1
/venv/bin/python harness/translate_all.py
cd lean && lake build PptxModel driver
