"""Re-run the quick check for every seeded change in parallel: each worker has its own copy of /verif (with build output)
and its own worktree of /repo, so /repo itself is never touched.  Usage: seeded_parallel.py [-j N] [Cxx ...]
Writes detected_now / detected_with_failing_input / last_check_output into each seeded/<id>/meta.json and prints a table.
Scratch copies live under /root/ss and are removed at the end."""
import json, os, shutil, subprocess, sys
from concurrent.futures import ThreadPoolExecutor
from pathlib import Path

V = Path("/verif")
S = Path("/root/ss")
args = sys.argv[1:]
J = 6
if args[:1] == ["-j"]:
    J = int(args[1]); args = args[2:]
only = set(a.upper() for a in args)
seeds = [d for d in sorted((V / "seeded").iterdir()) if d.is_dir() and (not only or d.name.split("-")[0] in only)]


def sh(*a, **k):
    return subprocess.run(list(a), capture_output=True, text=True, **k)


def setup(k):
    w, r = S / f"w{k}", S / f"r{k}"
    if w.exists():
        shutil.rmtree(w)
    sh("git", "-C", "/repo", "worktree", "remove", "--force", str(r))
    S.mkdir(exist_ok=True)
    sh("rsync", "-a", "--exclude", "replays", "--exclude", ".git", str(V) + "/", str(w) + "/")
    assert sh("git", "-C", "/repo", "worktree", "add", "--detach", str(r), "HEAD").returncode == 0
    return w, r


def work(k, items):
    w, r = setup(k)
    out = []
    env = dict(os.environ, VERIF_REPO=str(r), PYTHON_PPTX_VERIF="1")
    for d in items:
        pid = d.name.split("-")[0]
        sh("git", "-C", str(r), "reset", "-q", "--hard")
        if sh("git", "-C", str(r), "apply", "--3way", str(d / "patch.diff")).returncode != 0:
            sh("git", "-C", str(r), "reset", "-q", "--hard")
            out.append((d.name, None, "PATCH-DOES-NOT-APPLY"))
            print(out[-1], flush=True)
            continue
        sh("git", "-C", str(r), "reset", "-q")
        res = sh("./check", pid, "--tier", "quick", cwd=w, env=env)
        vio = [l for l in res.stdout.splitlines() if l.startswith("VIOLATION")]
        meta = json.loads((d / "meta.json").read_text())
        meta["detected_now"] = bool(vio)
        meta["detected_with_failing_input"] = bool(vio) and "no-failing-input-found" not in vio[0]
        meta["last_check_output"] = [l for l in res.stdout.splitlines() if not l.startswith("KNOWN-FINDING")][-3:]
        (d / "meta.json").write_text(json.dumps(meta, indent=1))
        out.append((d.name, meta["detected_now"], meta["detected_with_failing_input"]))
        print(out[-1], flush=True)
    sh("git", "-C", str(r), "reset", "-q", "--hard")
    sh("git", "-C", "/repo", "worktree", "remove", "--force", str(r))
    shutil.rmtree(w, ignore_errors=True)
    return out


chunks = [seeds[i::J] for i in range(J)]
with ThreadPoolExecutor(J) as ex:
    res = [x for part in ex.map(lambda kv: work(*kv), enumerate(chunks)) for x in part]
shutil.rmtree(S, ignore_errors=True)
missed = [r for r in res if r[1] is False]
na = [r for r in res if r[1] is None]
print(f"{len(res)} seeded changes: {sum(1 for r in res if r[1])} detected ({sum(1 for r in res if r[2] is True)} with a failing input), "
      f"{len(missed)} missed, {len(na)} no longer apply")
for r in missed + na:
    print("  ", r)
