"""Shared machinery for C07 / C08: chart-data generators, chart observers, embedded-workbook reader."""
from __future__ import annotations

import datetime as dt
import io
import re
import zipfile

from lxml import etree

C_NS = "http://schemas.openxmlformats.org/drawingml/2006/chart"
NS = {"c": C_NS}
SS = "http://schemas.openxmlformats.org/spreadsheetml/2006/main"


def writable_types():
    from pptx.chart.data import BubbleChartData, CategoryChartData, XyChartData
    from pptx.chart.xmlwriter import ChartXmlWriter
    from pptx.enum.chart import XL_CHART_TYPE

    out = []
    for ct in XL_CHART_TYPE:
        kind = "bubble" if "BUBBLE" in ct.name else "xy" if "XY" in ct.name else "cat"
        cd = {"bubble": BubbleChartData, "xy": XyChartData, "cat": CategoryChartData}[kind]()
        try:
            ChartXmlWriter(ct, cd)
        except NotImplementedError:
            continue
        out.append((ct, kind))
    return out


# ------------------------------------------------------------------------------------------ data generation


def gen_tree(rng, depth, max_leaves=8):
    """uniform-depth, ragged category forest: list of (label, subs)"""
    counter = [0]

    def node(d):
        counter[0] += 1
        lab = rng.choice(["N%d" % counter[0], "a&b", "x y", "é%d" % counter[0], "Q%d" % counter[0]])
        if d == 1:
            return (lab, [])
        return (lab, [node(d - 1) for _ in range(rng.randint(1, 3))])

    return [node(depth) for _ in range(rng.randint(1, 3))]


def leaves(tree):
    out = []
    for lab, subs in tree:
        out += leaves(subs) if subs else [lab]
    return out


def paths(tree, pfx=()):
    out = []
    for lab, subs in tree:
        out += paths(subs, pfx + (lab,)) if subs else [pfx + (lab,)]
    return out


def gen_values(rng, n):
    return [None if rng.random() < 0.15 else rng.choice([rng.randint(-1000, 1000), rng.randint(0, 9), 0]) for _ in range(n)]


def gen_cat_data(rng, n_series=None, big=False):
    """-> (spec dict, CategoryChartData)"""
    from pptx.chart.data import CategoryChartData

    kind = rng.choice(["str", "str", "num", "date", "multi", "multi"])
    # a number format need not be a str: it is substituted as its str() (`'%s' % number_format`)
    cd = CategoryChartData(number_format=rng.choice(["General", "0.0", '#,##0', 0, "General", "0.0"]))
    spec = {"kind": kind}
    if kind == "multi":
        depth = rng.randint(2, 4)
        tree = gen_tree(rng, depth)
        spec["tree"] = tree

        def add(parent, nodes, top):
            for lab, subs in nodes:
                c = parent.add_category(lab) if top else parent.add_sub_category(lab)
                add(c, subs, False)

        add(cd.categories, tree, True)
        n = len(leaves(tree))
        spec["depth"] = depth
        spec["cats"] = leaves(tree)
    else:
        n = rng.choice([1, 2, 3, 5, 12] + ([150] if big else []))
        if kind == "str":
            cats = [rng.choice(["c%d" % i, "a<b>&c", "  sp  ", "ü%d" % i, "", "cr\rin%d" % i, "&amp;%d" % i, "&#10;%d" % i]) for i in range(n)]
        elif kind == "num":
            cats = [rng.choice([i, i * 1.5, -i]) for i in range(n)]
            rng.shuffle(cats)      # the 0 / 0.0 among them anywhere, not always first (the first label decides the category kind)
        else:
            base = rng.choice([dt.date(1900, 2, 27), dt.date(1900, 1, 1), dt.date(1904, 1, 1), dt.date(2020, 12, 30), dt.date(1999, 12, 31)])
            cats = [base + dt.timedelta(days=i) for i in range(n)]
        cd.categories = cats
        spec["cats"] = cats
        spec["depth"] = 1
    ns = n_series if n_series is not None else rng.choice([0, 1, 1, 2, 3, 6])
    series = []
    for j in range(ns):
        name = rng.choice(["S%d" % j, "s&%d" % j, "Serie %d" % j, "North\rEast%d" % j, "R&amp;D%d" % j, "&#65;-list%d" % j, "&lt;5 %d" % j, "tab\there%d" % j])
        # the number of values need not equal the number of (leaf) categories
        vals = gen_values(rng, rng.choice([n, n, n, n, max(0, n - 1), n + 2, 0]))
        nf = rng.choice([None, None, "0.00", 2])
        cd.add_series(name, vals, nf) if nf else cd.add_series(name, vals)
        series.append((name, vals))
    spec["series"] = series
    return spec, cd


def gen_xy_data(rng, bubble=False):
    from pptx.chart.data import BubbleChartData, XyChartData

    cd = (BubbleChartData if bubble else XyChartData)(*rng.choice([(), (), ("0.0",), (24,)]))
    series = []
    for j in range(rng.choice([1, 2, 3, 5])):
        name = rng.choice(["X%d" % j, "X%d" % j, "x\\ry%d" % j, "Q&amp;A%d" % j, "&#65;%d" % j])
        se = cd.add_series(name, *rng.choice([(), (), ("0.00",), (42,)]))
        pts = []
        for _ in range(rng.choice([0, 1, 2, 3, 7])):
            p = (rng.randint(-50, 50), rng.randint(-50, 50)) + ((rng.randint(1, 20),) if bubble else ())
            if rng.random() < 0.15:   # a blank cell in the middle of a series
                k = rng.randrange(len(p))
                p = tuple(None if i == k else v for i, v in enumerate(p))
            se.add_data_point(*p)
            pts.append(p)
        series.append((name, pts))
    return {"kind": "bubble" if bubble else "xy", "series": series}, cd


# ------------------------------------------------------------------------------------------ observers


def chart_xml(chart):
    return etree.fromstring(chart.part.blob)


def read_api(chart):
    out = []
    for pl in chart.plots:
        cats = list(pl.categories)
        flat = tuple(pl.categories.flattened_labels)
        out.append({"cats": [str(c) for c in cats], "flat": [tuple(str(x) for x in t) for t in flat],
                    "series": [(s.name, list(s.values)) for s in pl.series]})
    return out


def pts_of(el):
    """(ptCount, [(idx, text)]) of a cache element (numCache / strCache / lvl)"""
    pc = el.find("c:ptCount", NS)
    return (int(pc.get("val")) if pc is not None else None,
            [(int(p.get("idx")), (p.find("c:v", NS).text if p.find("c:v", NS) is not None else None)) for p in el.findall("c:pt", NS)])


class Workbook:
    """cells of the embedded workbook's first sheet: {'B2': value} with shared strings resolved"""

    def __init__(self, blob):
        z = zipfile.ZipFile(io.BytesIO(blob))
        shared = []
        if "xl/sharedStrings.xml" in z.namelist():
            root = etree.fromstring(z.read("xl/sharedStrings.xml"))
            for si in root.findall("{%s}si" % SS):
                # ST_Xstring: a character XML cannot carry is written _xHHHH_ (XlsxWriter does this for C0 controls and CR)
                shared.append(re.sub(r"_x([0-9A-Fa-f]{4})_", lambda m: chr(int(m.group(1), 16)), "".join(t.text or "" for t in si.iter("{%s}t" % SS))))
        # the workbook's own date system (workbookPr/@date1904); serial numbers in it count from 1904-01-01 when set
        self.date1904 = False
        if "xl/workbook.xml" in z.namelist():
            wbx = etree.fromstring(z.read("xl/workbook.xml"))
            pr = wbx.find("{%s}workbookPr" % SS)
            self.date1904 = pr is not None and pr.get("date1904") in ("1", "true")
        sheet = etree.fromstring(z.read("xl/worksheets/sheet1.xml"))
        self.cells = {}
        for c in sheet.iter("{%s}c" % SS):
            v = c.find("{%s}v" % SS)
            if v is None:
                continue
            self.cells[c.get("r")] = shared[int(v.text)] if c.get("t") == "s" else float(v.text)

    def range(self, ref):
        """values of 'Sheet1!$A$2:$B$4' column by column -> list of columns (each list of cell values / None)"""
        m = re.fullmatch(r"Sheet1!\$([A-Z]+)\$(\d+)(?::\$([A-Z]+)\$(\d+))?", ref)
        if not m:
            return None
        c1, r1, c2, r2 = m.group(1), int(m.group(2)), m.group(3) or m.group(1), int(m.group(4) or m.group(2))
        if r2 < r1:
            r1, r2 = r2, r1   # Excel normalises an inverted range: $A$2:$A$1 is the two cells A1:A2
        cols = []
        for cn in range(col_num(c1), col_num(c2) + 1):
            cols.append([self.cells.get(col_letters(cn) + str(r)) for r in range(r1, r2 + 1)])
        return cols


def chart_is_1904(root):
    """the chart's date system: c:date1904 present with val true - or WITHOUT val (the schema default of CT_Boolean is true)"""
    d = root.find("c:date1904", NS)
    return d is not None and d.get("val", "true") in ("1", "true")


def col_num(s):
    n = 0
    for ch in s:
        n = n * 26 + ord(ch) - 64
    return n


def col_letters(n):
    s = ""
    while n:
        n, r = divmod(n - 1, 26)
        s = chr(65 + r) + s
    return s


def excel_serial(d, date1904=False):
    epoch = dt.date(1904, 1, 1) if date1904 else dt.date(1899, 12, 31)
    n = (dt.date(d.year, d.month, d.day) - epoch).days
    if not date1904 and n > 59:
        n += 1
    return n


_schema = None


def chart_schema(repo):
    global _schema
    if _schema is None:
        from pathlib import Path
        _schema = etree.XMLSchema(etree.parse(str(Path(repo) / "spec/ISO-IEC-29500-4/xsd/dml-chart.xsd")))
    return _schema


MC_NS = "http://schemas.openxmlformats.org/markup-compatibility/2006"


def mc_preprocess(root):
    """markup-compatibility preprocessing for a consumer that understands no extension namespaces: every
    mc:AlternateContent is replaced by the content of its mc:Fallback (or removed), mc:Ignorable attributes and the
    elements/attributes of the namespaces they name are dropped.  Works on a deep copy."""
    import copy

    root = copy.deepcopy(root)
    for ac in list(root.iter("{%s}AlternateContent" % MC_NS)):
        parent = ac.getparent()
        if parent is None:
            continue
        fb = ac.find("{%s}Fallback" % MC_NS)
        idx = parent.index(ac)
        kids = list(fb) if fb is not None else []
        parent.remove(ac)
        for k, ch in enumerate(kids):
            parent.insert(idx + k, ch)
    ignorable = set()
    for el in root.iter():
        if not isinstance(el.tag, str):
            continue
        ig = el.attrib.pop("{%s}Ignorable" % MC_NS, None)
        if ig:
            for pfx in ig.split():
                uri = el.nsmap.get(pfx)
                if uri:
                    ignorable.add(uri)
    if ignorable:
        for el in list(root.iter()):
            if not isinstance(el.tag, str):
                continue
            if etree.QName(el).namespace in ignorable and el.getparent() is not None:
                el.getparent().remove(el)
                continue
            for a in list(el.attrib):
                if a.startswith("{") and a[1:].split("}")[0] in ignorable:
                    del el.attrib[a]
    return root
