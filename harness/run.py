"""Entry point: run.py <Cxx> [--tier quick|thorough] [--replay FILE]

Stages for one property (DESIGN.md §2/§3):
  1. translate   regenerate Gen/*.lean from /repo's current source (if the property has a translator)
  2. prove       lake build of the property's theorem modules + driver; forbidden-token scan;
                 `#print axioms` audit of every theorem in those modules
  3. correspond  real code vs Lean driver on the same inputs (L1), and the property's own statement
                 evaluated on the real code's observable output (L2)
  4. decide      exit 0 | KNOWN-FINDING lines | VIOLATION line (+ replay file) | exit 2 on harness error
"""
from __future__ import annotations

import argparse
import importlib
import json
import os
import random
import sys
import time
import traceback
from collections import Counter
from pathlib import Path

sys.path.insert(0, str(Path(__file__).resolve().parent.parent))
from harness import common  # noqa: E402


class Ctx:
    def __init__(self, pid, tier, seed):
        self.pid, self.tier, self.seed = pid, tier, seed
        self.rng = random.Random(f"{pid}-{seed}")
        self.quick = tier == "quick"
        self.dist = Counter()
        self.samples = []
        self.evaluations = 0
        self.nontrivial = set()
        self.traces = 0
        self.disagreements = []  # L1: model != implementation
        self.failures = []  # L2: property false on the real code
        self.notes = []
        self.driver = common.Driver()
        self.extra = {}

    # ---- bookkeeping used by property modules
    def count(self, key, n=1):
        self.dist[key] += n

    def sample(self, case, limit=8):
        if len(self.samples) < limit:
            self.samples.append(case)

    def case(self, key=None, nontrivial=True):
        self.evaluations += 1
        if nontrivial and key is not None:
            self.nontrivial.add(key)

    def disagree(self, kind, case, impl, model):
        if len(self.disagreements) < 200:
            self.disagreements.append({"kind": kind, "case": case, "impl": impl, "model": model})
        self.dist["disagree:" + kind] += 1

    def fail(self, key, what, case):
        """The property's statement is false on the real code for `case`.  `key` identifies the
        failure for the known-findings file (specific input / call site / declaration)."""
        # at most 20 instances per key are kept (a flood of one known finding must never crowd out another failure)
        if self.dist["fail:" + key] < 20:
            self.failures.append({"key": key, "what": what, "case": case})
        self.dist["fail:" + key] += 1

    def note(self, s):
        self.notes.append(s)


def write_evidence(ctx, mod, lean, wall, violations):
    cov = {
        "obligations": lean["obligations"],
        "discharged": lean["discharged"],
        "checker_cmd": lean["checker_cmd"],
        "trusted_base": lean["trusted_base"],
        "theorems": lean["theorems"],
        "axioms_used": lean["axioms_used"],
        "evaluations": ctx.evaluations,
        "distinct_nontrivial": len(ctx.nontrivial),
        "rule": getattr(mod, "RULE", ""),
        "samples": ctx.samples or [{"note": "no correspondence samples"}],
        "traces_validated_against_impl": ctx.traces,
        "distribution": dict(sorted(ctx.dist.items())),
        "correspondence_disagreements": len(ctx.disagreements),
        "property_failures_on_impl": len(ctx.failures),
        "notes": ctx.notes,
    }
    cov.update(ctx.extra)
    ev = {
        "property_id": ctx.pid,
        "tier": ctx.tier,
        "seed": ctx.seed,
        "level": "proof",
        "coverage": cov,
        "assumptions": getattr(mod, "ASSUMPTIONS", []),
        "wall_s": round(wall, 2),
        "violations": violations,
    }
    (common.VERIF / "evidence").mkdir(exist_ok=True)
    (common.VERIF / "evidence" / f"{ctx.pid}.json").write_text(json.dumps(ev, indent=1, default=str))


def prove(ctx, mod):
    """Build + audit.  Returns dict with obligations/discharged and a list of broken obligations."""
    modules = list(getattr(mod, "LEAN_MODULES", []))
    broken = []
    hits = common.scan_forbidden()
    for h in hits:
        broken.append({"obligation": "source-scan", "detail": h})
    ok, out = common.lake_build(modules + ["driver"])
    build_log = out[-6000:]
    names = []
    for m in modules:
        try:
            names += common.theorems_in(m)
        except FileNotFoundError:
            broken.append({"obligation": m, "detail": "module file missing"})
    axioms_used = set()
    discharged = 0
    if ok:
        res, missing, aout = common.audit_axioms(modules, ctx.pid)
        for n in names:
            if n in missing:
                broken.append({"obligation": n, "detail": "not found by #print axioms: " + aout[-500:]})
                continue
            bad = [a for a in res[n] if a not in common.ALLOWED_AXIOMS]
            axioms_used.update(res[n])
            if bad:
                broken.append({"obligation": n, "detail": f"depends on axioms {bad}"})
            else:
                discharged += 1
    else:
        # name the failing declarations from lake's error output
        errs = [l for l in out.splitlines() if "error" in l.lower()]
        broken.append({"obligation": "lake build " + " ".join(modules), "detail": "\n".join(errs[:40]) or build_log})
    if ctx.tier == "thorough" and ok and modules:
        cok, cout = common.leanchecker(modules)
        if not cok:
            broken.append({"obligation": "leanchecker", "detail": cout})
        else:
            ctx.note("leanchecker re-checked: " + " ".join(modules))
    return {
        "obligations": max(len(names), 1),
        "discharged": discharged,
        "theorems": names,
        "axioms_used": sorted(axioms_used),
        "checker_cmd": "cd /verif/lean && lake build " + " ".join(modules + ["driver"])
        + " && lake env lean Audit/%s.lean  (#print axioms of every theorem)" % ctx.pid
        + (" && lake env leanchecker " + " ".join(modules) if ctx.tier == "thorough" else ""),
        "trusted_base": [
            "Lean 4.33 kernel",
            "axioms allowed: propext, Classical.choice, Quot.sound (audited per theorem; used here: %s)"
            % (sorted(axioms_used) or "none"),
            "no sorry/admit/axiom/native_decide/bv_decide/implemented_by/unsafe (source scan)",
            "harness/props/%s.py correspondence + canonicalisers; Lean Driver.lean line-protocol parser"
            % ctx.pid.lower(),
        ]
        + getattr(mod, "TRUSTED", []),
        "broken": broken,
        "build_ok": ok,
    }


def match_known(pid, failure, known):
    for e in known:
        if e.get("kind") != "finding" or e.get("property") != pid:
            continue
        if e.get("key") == failure["key"]:
            return e
    return None


def main():
    ap = argparse.ArgumentParser()
    ap.add_argument("pid")
    ap.add_argument("--tier", default=os.environ.get("VERIF_TIER", "quick"))
    ap.add_argument("--replay")
    a = ap.parse_args()
    pid = a.pid.upper()
    tier = a.tier if a.tier in ("quick", "thorough") else "quick"
    seed = int(os.environ.get("VERIF_SEED", "0") or 0)
    t0 = time.time()
    try:
        mod = importlib.import_module(f"harness.props.{pid.lower()}")
        ctx = Ctx(pid, tier, seed)
        common.use_repo()
        if a.replay:
            data = json.loads(Path(a.replay).read_text())
            ok, _ = common.lake_build(["driver"])
            rc = mod.replay(ctx, data)
            sys.exit(rc)
        if hasattr(mod, "translate"):
            mod.translate(ctx)
        lean = prove(ctx, mod)
        if lean["build_ok"]:
            try:
                mod.correspond(ctx)
            except Exception as e:  # noqa
                # an exception that escaped from LIBRARY code during a scenario that runs to the end on a tree where the
                # property holds is a failing input on the real code, not a harness fault
                frames = traceback.extract_tb(e.__traceback__)
                lib = [f for f in frames if "/src/pptx/" in f.filename]
                if not lib:
                    raise
                traceback.print_exc()
                last_h = [f for f in frames if "/harness/" in f.filename][-1]
                ctx.fail(f"library-raised:{type(e).__name__}@{lib[-1].filename.split('/src/')[-1]}",
                         f"{type(e).__name__}: {str(e)[:200]} raised from {lib[-1].filename.split('/src/')[-1]}:{lib[-1].lineno} ({lib[-1].name}) "
                         f"while the check was at {last_h.filename.split('/')[-1]}:{last_h.lineno} ({last_h.name}); the scenario runs to its end on a tree "
                         f"where the property holds",
                         {"where": f"{last_h.filename.split('/')[-1]}:{last_h.lineno}", "exception": type(e).__name__})
        else:
            # model cannot run; still evaluate the property on the real code
            if hasattr(mod, "search"):
                mod.search(ctx, lean["broken"])
        broken = lean["broken"]
        if (broken or ctx.disagreements) and lean["build_ok"] and hasattr(mod, "search"):
            mod.search(ctx, broken + ctx.disagreements)
    except SystemExit:
        raise
    except Exception:
        traceback.print_exc()
        print(f"HARNESS-ERROR property={pid}")
        sys.exit(2)

    known = common.load_known()
    unknown, seen_known = [], {}
    for f in ctx.failures:
        e = match_known(pid, f, known)
        if e is None:
            unknown.append(f)
        else:
            seen_known.setdefault(e["key"], (e, f))
    for key, (e, f) in seen_known.items():
        print(f"KNOWN-FINDING: property={pid} {e['what']}")
    violation = bool(unknown or broken or ctx.disagreements)
    wall = time.time() - t0
    write_evidence(ctx, mod, lean, wall, 1 if violation else 0)
    if not violation:
        print(
            f"OK property={pid} tier={tier} seed={seed} theorems={lean['discharged']}/{lean['obligations']} "
            f"cases={ctx.evaluations} wall={wall:.1f}s"
        )
        sys.exit(0)
    rdir = common.VERIF / "replays"
    rdir.mkdir(exist_ok=True)
    rp = rdir / f"{pid}-{tier}-{seed}.json"
    replay = {
        "property": pid,
        "tier": tier,
        "seed": seed,
        "failing_inputs_on_real_code": unknown[:50],
        "broken_obligations": broken,
        "correspondence_disagreements": ctx.disagreements[:50],
        "replay_cmd": f"cd /verif && ./check {pid} --replay {rp}",
    }
    rp.write_text(json.dumps(replay, indent=1, default=str))
    if unknown:
        print(f"VIOLATION property={pid} replay={rp}")
    else:
        for b in broken[:10]:
            print(f"BROKEN-OBLIGATION property={pid} {b['obligation']}: {str(b['detail'])[:300]}")
        for d in ctx.disagreements[:5]:
            print(f"CORRESPONDENCE-BROKEN property={pid} {d['kind']} case={str(d['case'])[:200]} impl={str(d['impl'])[:120]} model={str(d['model'])[:120]}")
        print(f"VIOLATION property={pid} replay={rp} no-failing-input-found")
    sys.exit(1)


if __name__ == "__main__":
    main()
