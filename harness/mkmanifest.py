"""Regenerates /verif/MANIFEST.json from the table below (keeps it schema-valid)."""
import json
from pathlib import Path

VERIF = Path(__file__).resolve().parent.parent
BASELINE_CMD = "cd /repo && env -u PYTHON_PPTX_VERIF /venv/bin/python -m pytest -ra -q -p no:cacheprovider --timeout=900 --continue-on-collection-errors"

# property -> (level text, level note, technique, design_ref)
CLAIMED = {
    "C19": (
        "Kernel-checked theorems over a Lean transcription of PackURI + posixpath: relative_ref/from_rel_ref round trip for "
        "all clean paths of any depth, RFC 3986 dot-segment resolution, root-absolute references, rels-item/baseURI/filename "
        "specs, rejection iff no leading slash; extension and numeric index of every name A/stem.e (ext_spec, ext_none_spec; "
        "idx_spec: letters followed by the decimal digits of n give index n for EVERY n, via Nat.repr / toDigits round trip; "
        "idx_none_spec).  The model is tied to the code by exact correspondence over the property's "
        "bounded-exhaustive name space (every accessor on every name to depth 3/4, all pairs to depth 2/3 plus seeded deeper pairs).",
        "Trusted: Lean kernel; posixpath re-implemented (not translated) in the model and compared exhaustively on the bounded "
        "alphabet.",
        "Lean 4 proof (induction over path components) + exhaustive model/implementation correspondence",
        "DESIGN.md §5 C19",
    ),
}

CLAIMED["C17"] = (
    "Kernel-checked theorems: each connector end-point setter (all six branches incl. cross-over/flip toggling) sets exactly "
    "the assigned coordinate, keeps the other end point and keeps extents non-negative; lifted by induction to every "
    "assignment sequence (refinement to four independent coordinates); _child_extents is the tight bounding box; any "
    "sequence of additions at any nesting depth that recalculates upward keeps every group = bbox(members) recursively; "
    "freeform offset/extents are min / max-min over all vertices of all contours and every path point lies in [0,w]x[0,h]; "
    "round() on rationals is within 1/2.  Tied to the code by exact correspondence on seeded sequences (connector state "
    "words, all group boxes after every addition of every member kind, freeform box/path) plus the property's statement "
    "evaluated on the real objects.",
    "Trusted: which add_* call sites trigger recalculation is observed, not proved (two call sites that did not were found and "
    "fixed: see known_findings.json); float scaling is exact only for dyadic scales (others compared within 1 EMU).",
    "Lean 4 proof (case analysis + omega; induction over op lists and nesting paths) + seeded correspondence",
    "DESIGN.md §5 C17",
)

CLAIMED["C14"] = (
    "Kernel-checked refinement: the span attributes of any table reachable from a new table by ANY sequence of merges and "
    "splits (accepted or refused) are the rendering of a set of pairwise disjoint rectangles inside a grid of constant "
    "dimensions (run_inv); corollaries: is_merge_origin <-> top-left of a region with spans = its size, is_spanned <-> "
    "other cell of a region, merge refused <-> overlap with a region, refused op = identity, split removes exactly its "
    "region and restores plain cells; new-table widths/heights sum to the request for every count and total; the merge's "
    "paragraph migration equals reading-order concatenation of the non-empty cells.  Tied to the code by exact "
    "correspondence on the property's bounded-exhaustive space (all corner-pair orientations) plus seeded larger tables with text.",
    "Trusted: paragraphs abstracted to their text; grid dimension constancy is structural in the model and checked on the real "
    "a:tc counts; frame-size notification: setItem model (refused when the value or the resulting total cannot be written; runSizes_frame) compared on size histories with edge values.",
    "Lean 4 proof (refinement to disjoint rectangle sets, induction over op sequences) + bounded-exhaustive correspondence",
    "DESIGN.md §5 C14",
)

CLAIMED["C04"] = (
    "Kernel-checked theorems for ALL strings and all prior bodies: frame/cell/shape-level read-back = character-wise map "
    "(LF, VT, TAB kept; other C0 -> _xHHHH_), paragraph-level read-back = same with LF,VT -> VT and paragraph properties "
    "retained, run-level = escape only (identity on control-free strings), exactly count(LF)+1 paragraphs per frame "
    "assignment; by induction on the string through the split/escape/join pipeline.  Tied to the code by exact "
    "correspondence of read-back and a:p/a:r/a:br skeleton on seeded strings x four levels x seeded prior states, and "
    "by 1..3 save/re-open cycles per deck.",
    "Trusted: lxml text-node storage; survival across re-open (libxml2 blank-text handling) is runtime and only sampled "
    "(the a:br count - one per break character / vertical tab - is proved: para_break_count, frame_break_count).",
    "Lean 4 proof (induction on strings) + seeded correspondence incl. save/re-open",
    "DESIGN.md §5 C04",
)

CLAIMED["C06"] = (
    "Kernel-checked theorems for arbitrary id populations: max+1 and first-gap shape-id allocation are positive and "
    "unused (first-gap also minimal; pigeonhole), _next_rId and next_partname never fail and return an unused name "
    "(pigeonhole over Nat.repr-injective candidate names), first-free image/media index is unused (sorted scan, duplicates "
    "allowed), slide id: for every population of distinct ids inside 256..2147483647 that does not exhaust the range a new id "
    "is delivered, unused and in range, on the common path (max+1) AND on the fallback path (first gap over the sorted ids; "
    "nextSlideId_fresh: sorted() of distinct numbers is strictly increasing, the search fails only on a gap-free run); any "
    "interleaving of slide-level, nested-group, group-shape/freeform and turbo allocations keeps ids pairwise distinct and "
    "existing ids untouched (induction over the op list, turbo restricted to its documented single-proxy use).  "
    "Relationships shared by several references in one part (Model/Links: relate_to's re-use of a matching relationship, "
    "_next_rId, drop_rel's reference count, the clear-then-relate order of the hyperlink / slide-jump setters): for every "
    "part state with distinct keys and no dangling reference and EVERY history of link assignments on any holders, keys stay "
    "distinct, no reference dangles, the holder reads the target it was given, every OTHER holder still reads what it read "
    "before (also when it shared the relationship released, also when the freed rId is handed out again), relationships the "
    "holder did not use are untouched, and each holder reads the last target assigned to it (run_address); the reverse order "
    "of the two clearing steps provably loses a relationship in use.  Tied to the "
    "code by exact correspondence on seeded populations through the public API (for links: the part's relationships in "
    "insertion order and every r:id reference after every assignment, parts with foreign and gapped rIds), plus end-to-end uniqueness/stability "
    "checks on saved files after mixed histories over decks with scrambled slide part names.",
    "Trusted: which allocator each add_* method uses is observed; an id above the schema maximum beside a gap-free run makes "
    "_next_id raise StopIteration (nextSlideId_stops; not a valid document, outside the property); turbo + second proxy is the "
    "documented limitation (negative theorem, not judged).",
    "Lean 4 proof (pigeonhole, induction over allocation histories) + seeded correspondence + end-to-end oracles",
    "DESIGN.md §5 C06",
)

CLAIMED["C20"] = (
    "Exhaustive, kernel-evaluated obligations over tables REGENERATED on every run from the live enum classes (reflection), "
    "autoshape_types, the shipped XSDs and presetShapeDefinitions.xml: per enumeration, XML tokens pairwise distinct (hence, "
    "by a generic proved lemma, from_xml(to_xml m) = m for every member) and contained in the schema enumeration resolved "
    "through the attribute declarations; every auto-shape row's preset exists and its adjustment names, order and defaults "
    "equal the standard's.  Members listed as known findings are excluded from the distinctness obligation only after a "
    "companion obligation proves they really are later duplicates.  Dynamic cross-check: to_xml/from_xml on every member, "
    "every auto-shape type added and read back, every writable chart type added and chart_type read back.",
    "Trusted: the translator (reflection + XSD enumeration extraction); the reading of the standard's upDownArrow/upArrow erratum.",
    "translator-regenerated tables + Lean `decide +kernel` obligations + generic round-trip lemma",
    "DESIGN.md §5 C20",
)

CLAIMED["C10"] = (
    "Generic kernel-checked theorem: if a declaration's successor list is adequate for the parent's content model "
    "(child in model; no successor ordered before it; every later tag up to the first later required slot listed) then "
    "inserting the child into a parent holding ANY conforming sibling list - any permitted tags, multiplicities and, for "
    "repeatable mixed content, interleavings - leaves the children in schema order; plus get_or_add creates at most one, "
    "remove removes all, change-to leaves exactly one choice member and - when the group's members share the child's slot - keeps "
    "schema order too (changeTo_sorted; the group condition is a second regenerated obligation per choice declaration).  The "
    "adequacy side condition is closed by `decide "
    "+kernel` for every row of a table REGENERATED on each run by reflection over the live element classes (closures of the "
    "generated _insert_* methods) and flattening of the shipped XSDs (307 rows today).  Translator cross-check: the real "
    "_insert_x is run on real parents for every row x the property's context enumeration and compared with the model.",
    "Trusted: XSD flattener + closure reflection; wildcard (xs:any) content opaque; OPC part types (ct:Types, pr:Relationships, "
    "cp:coreProperties/xs:all) not modelled; hand-written lxml insertions (append/addnext) are not rows of the table.",
    "translator-regenerated declaration table + generic Lean insertion theorem + `decide +kernel` per class + exhaustive context replay",
    "DESIGN.md §5 C10",
)

CLAIMED["C11"] = (
    "Writing side proved: for the non-identity conversions (angle, positive fixed angle, percentage family, font scale, "
    "spacing points) kernel-checked theorems say the written integer lies in the schema type's value space for EVERY "
    "accepted input (exact rationals; half-even rounding never leaves an interval with integer end points; emod bounds), "
    "and for each plain integer simple-type class the measured accept interval is inside the facet interval of the schema "
    "type resolved through the attribute declarations (rows regenerated each run; `decide +kernel`).  Tied to the code by "
    "exact comparison of every conversion with the model on boundary / half-quantum inputs, and by an independent oracle: "
    "each written string is validated by lxml against the attribute's XSD simple type; rejected values must raise "
    "TypeError/ValueError; every lexical alternative of the schema type must be readable; read(write v) within the quantum.",
    "Reading side (lexical alternatives, enumeration tokens) is oracle-checked, not proved; accept intervals are measured by "
    "probing validate(); IEEE rounding within a hair of a half-quantum is classified as a float artefact unless the written "
    "value leaves the schema space; NaN/inf outside the quantifier.",
    "Lean 4 proof (interval arithmetic over exact rationals) + translator rows + lxml-XSD lexical oracle",
    "DESIGN.md §5 C11",
)

CLAIMED["C01"] = (
    "Kernel-checked theorems over a Lean model of the OPC loader and writer: every part written exactly once for any "
    "relationship graph (cycles, shared targets), only relationship targets are written, each rewritten rels item holds "
    "exactly the loaded relationships with the same ids/types/modes and external targets verbatim, internal targets "
    "resolve back to the same part (via C19's round-trip theorem, any depth), and every part's content type is what the "
    "reader computes from the content-types item the writer composes (Override/Default, case-insensitive, several parts "
    "sharing an extension but not a type); the relationship items are a fixed point of writing (the (number, id) order is a strict "
    "total order, sorted() delivers a sorted list and leaves one alone; writing an item, reading it back and writing it again "
    "reproduces ids, order, modes and targets: savedRels_second_generation).  Tied to the code by exact comparison of the saved zip (member order, "
    "[Content_Types].xml, every rels item, payload identity) and of a second open+save generation with the model on seeded "
    "random packages fed as stream / path / directory, plus an independent OPC oracle and the corpus decks.",
    "Trusted: XML codec of rels/content-types items, zipfile and directory readers (runtime, sampled); payload bytes are "
    "modelled as identity; distinctness of rels-item member names from part names and sortedness/idempotence of the "
    "second generation are correspondence-only.",
    "Lean 4 proof (DFS invariants, fold invariants, C19 reuse) + seeded random-package correspondence + OPC oracle",
    "DESIGN.md §5 C01",
)

CLAIMED["C16"] = (
    "Kernel-checked lemmas over the loader model, each for ARBITRARY packages so that combinations follow by "
    "composition: a relationship survives loading iff it is external or resolves to a loaded part (dangling targets are "
    "dropped, nothing else); content-type lookup depends only on lower-cased keys on both sides; unreferenced extra "
    "members do not change the result; a part without rels item has no relationships; the loader's only failures are the "
    "two KeyError classes, each characterised.  Tied to the code by fault injection on every corpus deck (dangling targets, "
    "deleted rels items, case flips, unknown content types, extra members, permuted slide part names, removed core "
    "properties, directory form; singly and in pairs): Presentation() must succeed and the saved package is compared with "
    "the model's listing and judged by the OPC oracle against the faulted input; truncated/non-zip/incomplete inputs must "
    "raise exactly the documented exception class.",
    "Trusted: fault injectors; zipfile's behaviour on truncation (only the class is predicted); ValueError for a "
    "non-presentation main part is checked dynamically only (api._is_pptx_package is not in the Lean model).",
    "Lean 4 proof (loader lemmas) + fault-injection correspondence + exception-class oracle",
    "DESIGN.md §5 C16",
)

CLAIMED["C02"] = (
    "Kernel-checked invariant: the in-memory package graph is closed (part identities and names unique, every r:* id used "
    "in a part's XML is a relationship of that part, every internal target is a part of the package) and stays closed "
    "under every well-formed delta (add part, simultaneous rename, add/retarget/drop relationship, add/drop reference, "
    "parts leaving together), hence - by induction - at EVERY prefix of EVERY history whose steps are well-formed.  The "
    "real library is tied to the model through its OBSERVED deltas: after every public-API operation of seeded histories "
    "(all op kinds of the property, saves at seeded prefixes, decks with out-of-order slide part names) the package graph "
    "is snapshotted and the Lean checker decides each step well-formed; every saved zip is judged by the closure "
    "predicates and re-opened and compared with the in-memory presentation.  For add_slide, add_picture, add_chart, add_ole_object and slide.notes_slide "
    "(the notes slide part, and the default notes master with its theme when the presentation has none) the deltas "
    "are PREDICTED (Model/PkgOps: part names through the slide-id list / first free image index via PackURI.idx / next_partname, "
    "relationship ids through _next_rId, re-use of a matching relationship and of an image part holding the same bytes): "
    "predict_ok proves every predicted delta well-formed for EVERY closed graph and operands that exist in it (names and rIds "
    "proved free), runs_inv lifts it to histories, and the predicted graph is compared part by part with the real one after "
    "every such call.  The writer itself is C01's model/theorems.",
    "Trusted: snapshot/delta extraction; XML abstracted to its r:* multiset (r:id=\"\" names no relationship); for the other "
    "operations what they do is observed, not predicted; the name after the slide-id list being free is a precondition of "
    "predict_ok (it is the numbering theorem slide_numbers_nodup; calls that renumber slide parts are compared as observed "
    "deltas only), and so is the fixed name of a new default notes master being free (the real library is run at that excluded "
    "point in every run: a listed finding); zip-level closure of the written file is oracle-checked.",
    "Lean 4 proof (closure invariant under well-formed deltas, induction over histories; predicted deltas of add_slide / add_picture / add_chart / add_ole_object / notes_slide proved well-formed) + observed-delta and predicted-graph refinement checks + zip/re-open oracles",
    "DESIGN.md §5 C02",
)

CLAIMED["C05"] = (
    "Kernel-checked theorem over a lexer model of the XML reader (entity/character references, attribute-value and "
    "line-end normalisation, the ]]> rule): if a sink's per-character escaping table is safe for its context then for "
    "EVERY caller string the parser delivers exactly that string and never meets a character that would close the "
    "attribute, open a tag or form ]]> (by induction on the string).  The table of every template sink is MEASURED on each "
    "run by probing the public entry point with sentinel strings while recording what is handed to the parser, and the "
    "safety of each measured table is closed by `decide` (rows regenerated; an unsafe sink breaks a named obligation and "
    "the special character that breaks it is the replay).  Seeded metacharacter strings then go through all 21 entry "
    "points (template and lxml-API sinks): must return, read back equal, same element structure, also after re-open.",
    "Trusted: per-character-map assumption (validated by seeded strings), lxml's own escaping for API sinks, the maintained "
    "entry-point list, the parser interception used for probing.",
    "Lean 4 proof (lexer model, induction on strings) + probed escaping tables with `decide` obligations + seeded round-trip",
    "DESIGN.md §5 C05",
)

CLAIMED["C18"] = (
    "Kernel-checked theorems: a text property accepts exactly strings of at most 255 characters and returns them unchanged; "
    "every valid instant of years 1..9999 is written in a form the reader parses back to the same instant (character-level "
    "proof over the four-digit-year writer and the canonical W3CDTF reader); for EVERY timestamp and EVERY numeric offset the "
    "value read denotes exactly the instant timestamp + offset as a calendar date with all fields in range, or the year "
    "range of datetime overflows (offset_utc, via civil_roundtrip: the civil-date conversion is exact for every integer day "
    "number - proved by case analysis over the era structure and linear arithmetic); instances at the range extremes and "
    "the revision rule by kernel evaluation.  Tied to the code by exact comparison of written timestamp text, read results for every W3CDTF granularity "
    "and offsets -14:00..+14:00 (also against datetime arithmetic), the 255 rule, revision domain, assignment orders, 1..2 "
    "save/re-open cycles, default part on first access, and a transcribed-schema validity check of docProps/core.xml.",
    "Trusted: that datetime arithmetic is the civil-date conversion modelled (corresponded); schema transcription (the "
    "shipped XSD imports Dublin Core by URL); datetimes carrying an offset are stored as the same instant (writeAware_instant).",
    "Lean 4 proof (character-level write/read round trip; exactness of the civil-date conversion; offsets as UTC) + seeded correspondence",
    "DESIGN.md §5 C18",
)

CLAIMED["C15"] = (
    "Kernel-checked theorems: after ANY history of additions the image store holds at most one part per digest (so one "
    "part per byte string) and pairwise distinct part names (the index is the proved-fresh first free index of C06); every "
    "byte string added is present; different byte strings get different parts (SHA-1 injectivity is the stated hypothesis); "
    "a new part carries the extension and content type of the image's format, not of its file name (structural: the file "
    "name is not an input); the integer DPI is always in 1..2048; native size is the exact floor of 914400*px/dpi; with one "
    "dimension given the other preserves the aspect ratio to within half a unit; both given: exactly those, 0 included (None alone means 'not given').  Tied to "
    "the code by exact comparison of part names/extensions/content types, DPI normalisation, native sizes and scaled sizes "
    "on images generated with Pillow (5 formats, absent/fractional/0/huge/non-square DPI, misleading file names), added "
    "as pictures, placeholders, movie posters and OLE icons with saves and re-opens in between, plus zip-level oracles.",
    "Trusted: Pillow's sniffing of format/size/DPI (input to the model); float division in native size / scale (argued, "
    "sampled; 1-EMU half-way cases recorded as artefacts); SHA-1 injectivity (hypothesis).",
    "Lean 4 proof (store invariant under any history; interval arithmetic) + generated-image correspondence + zip oracles",
    "DESIGN.md §5 C15",
)

CLAIMED["C07"] = (
    "Kernel-checked theorems on the data plane: for EVERY value list (any length, missing values anywhere) the reader applied "
    "to the point cache the writer emits returns exactly the list supplied and the announced count is its length; the idx / "
    "order value given to a cloned series is larger than every value in use; for EVERY category forest of uniform depth "
    "(any branching, any number of leaves) the flattened labels the reader derives from the levels the writer emits - "
    "parent = last entry before the first whose idx exceeds the leaf's - are exactly the root-to-leaf label paths "
    "(flattened_spec, by induction over levels and forests); and for replace_data's series bookkeeping (Model/Replace: plots in "
    "document order, series in document order read through a stable sort by c:order, clone / trim / adjust) for EVERY chart "
    "and requested count: exactly the requested number of series afterwards, the surviving series are the same elements with "
    "the same idx, order and formatting, added series carry the formatting of the series cloned, idx values stay distinct "
    "and order values stay distinct, the call is refused exactly when series are asked for and the chart has none, plots "
    "left without series are removed and no other plot is - along any history of calls (run_inv).  Tied to the code by the "
    "series population read from the raw XML before / after every replace_data (incl. permuted idx / order, foreign document "
    "order, combination charts, trailing empty plots) compared with the model, by exact comparison of the "
    "value caches with the model for every writable chart type (probed) x seeded data x replace_data sequences, and by "
    "oracles on the real output: chart part validated with lxml against dml-chart.xsd (after markup-compatibility "
    "preprocessing), names / values / categories / flattened hierarchy labels against the data supplied (root-to-leaf paths "
    "of the supplied tree), idx/order uniqueness, formatting of surviving series kept by replace_data.",
    "XML validity is oracle-checked, not proved; three "
    "genuine template defects are listed as known findings (negative axId values, c:smooth in radar series, single-series pie).",
    "Lean 4 proof (cache round trip, hierarchy flattening by induction, replace_data series bookkeeping: stable-sort lemmas + invariant over histories) + correspondence + XSD/read-back oracles",
    "DESIGN.md §5 C07",
)
CLAIMED["C08"] = (
    "Kernel-checked theorems on the worksheet layout: the column letters computed for column n name column n for ALL n "
    "(bijective base 26, beyond Z / ZZ / any length; induction on the loop), hence distinct columns get distinct letters; for "
    "every category depth, series position and length the values reference covers exactly the cells the values were written "
    "to and the name reference is the cell the name went to; categories of every level lie inside the categories range; XY / "
    "bubble row offsets accumulate so that tables of different series never overlap and each reference covers exactly the "
    "rows written.  Tied to the code by comparing every reference string with the model and by resolving every reference of "
    "the real chart XML against the embedded workbook read directly from its zip: range size = ptCount, cached point = cell.  "
    "Date serial numbers (Model/Serial, Props/C08D): the civil-date conversion behind datetime.date subtraction is exact in "
    "BOTH directions (civil_left_inverse beside C18's civil_roundtrip: day numbers and valid dates are in bijection, any "
    "year); hence every calendar date decodes from the serial number _excel_date_number gives it, in the 1900 and in the "
    "1904 system (serial_roundtrip); the 1900 system never yields 60; a later day has a larger serial; the systems differ by "
    "1462 from 1900-03-01 on and by 1461 before.  Compared with Category._excel_date_number / numeric_str_val on dates across "
    "datetime's whole range in both systems (number, text, decoded date).",
    "Trusted: XlsxWriter's cell encoding and date conversion (read back from the file), the minimal xlsx reader; empty series "
    "ranges are a listed known finding.",
    "Lean 4 proof (column-letter bijection, layout arithmetic, calendar arithmetic) + reference/workbook/serial correspondence",
    "DESIGN.md §5 C07/C08",
)
CLAIMED["C13"] = (
    "Kernel-checked theorems on the placeholder-cloning model: cloning ANY list of layout placeholder keys (type, idx, "
    "orient, sz) onto ANY slide state whose shape ids are unique yields, in the same order, exactly one new placeholder per "
    "key carrying that key; every new name differs from every name already on the slide and from each other (the name search "
    "`base n` for n = id-1, id, ... terminates by pigeonhole and is fresh), ids stay unique; cloning fails exactly on a type "
    "without a basename entry; the effective geometry is own, else layout, else master, per attribute.  Tied to the code "
    "by exact comparison of (key sequence, ids, names) for every layout of every corpus deck and for generated layouts "
    "(all placeholder types, duplicates, look-alike names) over repeated add_slide calls, and by oracles on the real "
    "output: inherited left/top/width/height vs layout/master until overridden, slide is last, related to its layout, "
    "other slides byte-identical (C14N), notes slides likewise.",
    "Trusted: the basename table is read from the live code and passed to the model; shape-id allocation is C06's model; "
    "layout rewriting in the harness builds inputs only.",
    "Lean 4 proof (fold invariant, pigeonhole name search) + add_slide correspondence + geometry/untouched-slide oracles",
    "DESIGN.md §5 C13",
)
CLAIMED["C03"] = (
    "Kernel-checked closure theorems over a tree model of an XML part and ANY schema table (complex types as ordered slots "
    "with occurrence bounds, attributes with simple types as unions of lexical atoms incl. a derivative-based pattern "
    "matcher, itself proved to accept exactly the regular language its pattern denotes): a valid tree stays valid under every sequence, of any length and at any depths, of the edits xmlchemy "
    "performs - insertion before the first successor present (adequate successor list, C10), removal, choice replacement, "
    "attribute assignment (accepted values only; a rejected value is a no-op, proved), attribute removal, grafting of a "
    "valid template instance - each meeting its local side condition.  Tied to the code twice: the schema tables are "
    "regenerated from /repo/spec on every run and the Lean validator over them is compared with lxml XMLSchema on every XML "
    "part of the corpus and on seeded mutations of them; and seeded histories of public-API operations (the operation "
    "laboratory: ~110 read/write properties with in-domain / None / out-of-domain values, ~27 kinds of method calls) are "
    "run on the real library from the default template and every corpus deck, every changed part validated by lxml after "
    "EVERY call (rejected calls included) and by the Lean validator every few calls, at the end and after save + re-open.",
    "Validity of the real output is judged by lxml (trusted); that each library call decomposes into edits meeting the side "
    "conditions is observed per call, not proved (hand-written lxml manipulation and string templates are covered by the "
    "histories only).  Wildcard strictness, text content and three xsd:double facets are not modelled.  Ten listed findings.",
    "Lean 4 proof (edit-closure of validity by induction over histories and paths, on top of C10/C11) + schema-model/lxml "
    "correspondence + validated API histories",
    "DESIGN.md §5 C03",
)
CLAIMED["C09"] = (
    "Kernel-checked theorems on the attribute-store model of xmlchemy's OptionalAttribute: the reader after an assignment "
    "gives the assigned value, after None (or the declared default) the default, and the attribute is gone; assigning one "
    "attribute never changes the reading of another; after ANY history of assignments (any order, any repetition) each "
    "reader gives the last value assigned to it, the initial reading if it was never assigned.  Storage quanta of the "
    "non-identity conversions, on exact rationals: font size (floor to 1/100 pt, < 127 EMU, idempotent on re-store), "
    "rotation and gradient angle (within half of 1/60000 degree modulo whole turns, incl. the 360 - v reflection and the "
    "0 special case), crop / stop position / line spacing (half of 1/100000), adjustments (truncation, < 1/100000, never "
    "away from zero), brightness through lumMod / lumOff for tints, shades and zero.  Tied to the code by exact comparison "
    "of the stored XML integers and of attribute-store histories (a:rPr, a:bodyPr, a:tcPr) with the model, and by oracles "
    "on the real objects for the whole property table (~110 properties x every object of a generated deck and of corpus "
    "decks): getter after setter within the quantum, every sibling getter before / after, rejection with TypeError / "
    "ValueError and an unchanged reading for out-of-domain values, None -> documented default, same readings after save + "
    "re-open.  ColorFormat as a state machine (Model/Color, Props/C09C: the colour element of any of the six kinds with its "
    "transform children in document order; rgb / theme_color / brightness assignments): after rgb = v the colour is RGB v, "
    "after theme_color = t it is theme colour t with no rgb; an element of the same kind keeps every transform child (the "
    "brightness reads as before), any other is replaced by an empty one (brightness 0); a brightness assignment is refused "
    "exactly without a colour element or outside [-1, 1], an accepted one keeps kind, value and every transform the library "
    "does not know, in order, and reads back as the stored form of the value (within half of 1/100000) whatever lumMod / "
    "lumOff children - any number, anywhere - were there; after ANY history kind and value are those of the last rgb / theme "
    "assignment, unknown transforms are the start colour's or dropped all together.  Compared with the real ColorFormat of "
    "fonts, fills, lines, gradient stops and pattern colours after every assignment of seeded histories from foreign start "
    "states (stored element and the four readers, through a proxy held from the start and through a new one).  FillFormat "
    "likewise (Model/Fill, Props/C09F: none / noFill / solid / gradient / picture / pattern / group with nested colours, "
    "stops, a:lin and a:path): each of the four type-changing calls succeeds and leaves that kind, keeps a fill that already "
    "is of the kind, replaces any other by the kind's initial state; no other call changes the kind; fore / back / pattern / "
    "angle / stop calls are refused with TypeError exactly on the kinds that lack them, the angle with ValueError exactly "
    "without a:lin, a refused call changing nothing but a pattern's colour element; a colour assignment through fore_color / "
    "back_color is the ColorFormat assignment on the colour it reads and leaves the other colour and the pattern alone; stop "
    "assignments keep the number of stops, the angle and every other stop; after ANY history the kind is the one the last "
    "type-changing call asked for.  Compared with the real FillFormat of shapes, lines, fonts and table cells after every "
    "call (outcome, stored element, readers), each call through a held or a new proxy.  shape.adjustments (Model/Adjust, "
    "Props/C09A): index i reads v after adjustments[i] = v and every other adjustment what it read before, for ANY guides "
    "(missing, repeated, foreign names), after any history through any number of proxies (run_read); compared with the real "
    "collection on foreign guide lists.  Paragraph spacing (Model/Spacing, Props/C09S): line_spacing / space_before / "
    "space_after over a:lnSpc / a:spcBef / a:spcAft from ANY start state (no a:pPr, both children, neither): an accepted value "
    "reads back as stored (read_after_set, emu_quantum: less than one centipoint below), None always restores inheritance, refused "
    "exactly outside 0..20116800 EMU / 0..132 lines with every reading unchanged, the three are independent (read_other), the "
    "element left holds exactly one child (slot_wf_after_set), and after ANY history each reads the last accepted value assigned "
    "to it (run_read); compared with the real paragraphs after every assignment.  TextFrame.auto_size (Model/Autofit, Props/C09T): "
    "from ANY autofit children (several, of several kinds, a:normAutofit with fontScale) a member reads back, None restores "
    "inheritance, a non-member is refused with nothing changed, at most one bare child is left (one_child), and after ANY history "
    "the reading is the last accepted value (run_read); compared with real text frames after every assignment.  LineFormat.width / "
    ".dash_style (Model/LineFmt, Props/C09L): from ANY a:ln (none, @w, a:prstDash, a:custDash, both) a width in 0..20116800 reads back "
    "exactly, a member reads back with a:custDash gone, None gives 0 / inheritance, a refused value changes NOTHING (no a:ln is "
    "created: refused_unchanged - the theorem whose comparison found the DASH_STYLE_MIXED defect), width and dash style are "
    "independent, and after ANY history each is its last accepted value (run_width, run_dash).",
    "Property table and domains are written by hand from the docstrings (trusted input); couplings documented by the "
    "library are excepted from independence; floats are dyadic rationals in the exact comparison.  Seven enum-alias "
    "findings (shared with C20) are listed.",
    "Lean 4 proof (store algebra by induction over histories; quantum bounds by integer arithmetic) + stored-integer and "
    "store-history correspondence + read-back / independence / re-open oracles",
    "DESIGN.md §5 C09",
)
CLAIMED["C12"] = (
    "Kernel-checked theorems on the effects model: an accessor whose only effect is to insert erasable subtrees (roots from a "
    "fixed set of formatting containers, every node attribute-less and from the container sets) is invisible to the "
    "canonical form at any node and any depth - also inside containers added by earlier reads - hence after ANY history "
    "of such reads on any parts, in any order, with any repetition and any number of saves in between, every part has the "
    "canonical form it had, and the package the same number of parts.  Tied to the code by observation on every run: every "
    "public property of every object reachable by reflection (~310 accessors; generated deck with every kind of object + "
    "corpus decks) is called with the owning part and the part list compared before / after; each changing access is "
    "classified by a Python canonicaliser and by the Lean model on the same two trees; the table of changing accessors is "
    "regenerated and the obligation 'every one of them is a documented creator or a listed finding' closed by kernel "
    "evaluation; end to end, decks traversed completely (seeded order, repetitions, intermediate saves) and saved are "
    "compared part by part (matched by relationship path) with the same decks saved straight after opening.  A static scan "
    "of /repo's source (every public getter whose body calls something that creates, inserts or removes XML) is regenerated "
    "with it, and a second obligation requires each such getter to have been seen creating, or to be documented, listed or "
    "exempt for a stated reason.",
    "The per-accessor effect table is observed, i.e. sampled over documents (stated in the evidence); container sets, the "
    "list of documented creators and the exemptions of the static scan are fixed by hand from the property text and the "
    "docstrings.  Seven undocumented creating getters are listed as findings.",
    "Lean 4 proof (invisibility of empty-container insertions lifted to paths and histories by induction) + observed effect "
    "table and static creator scan with decide obligations + canonical-form correspondence + end-to-end comparison of saved packages",
    "DESIGN.md §5 C12",
)

NOT_YET = {}


def main():
    props = [json.loads(l) for l in (VERIF / "properties.jsonl").read_text().splitlines() if l.strip()]
    checks, na = [], []
    for p in props:
        pid = p["id"]
        if pid in CLAIMED:
            text, note, tech, ref = CLAIMED[pid]
            checks.append({
                "property_id": pid,
                "quick_cmd": f"./check {pid} --tier quick",
                "thorough_cmd": f"./check {pid} --tier thorough",
                "evidence_file": f"/verif/evidence/{pid}.json",
                "replay_cmd_template": f"./check {pid} --replay {{path}}",
                "engine": "lean4-proof+correspondence",
                "level_claimed": {"category": "proof", "text": text, "design_ref": ref},
                "level_note": note,
                "technique": tech,
            })
        else:
            na.append({"property_id": pid, "reason": NOT_YET.get(pid, "not claimed yet: model and check under construction (see DESIGN.md §10 build order); no check is registered for it")})
    m = {
        "version": 1,
        "setup_cmd": "./setup.sh",
        "hooks": {
            "guard": "PYTHON_PPTX_VERIF",
            "enable": "checks import pptx from /repo/src in-process with PYTHON_PPTX_VERIF=1 (set by ./check); one source hook: pptx.oxml.xmlchemy._set_verif_insert_hook(fn) makes BaseOxmlElement.insert_element_before report every insertion (parent, child, successors, siblings before) to the C10 harness, which compares each with the Lean model; everything else is observed from outside (public API, saved bytes, lxml trees)",
            "baseline_off_cmd": BASELINE_CMD,
            "source_commits": ["1f6e1fe0d102bdcff7e05ed5308cc439ecbfec85"],
            "add_only": True,
        },
        "engines": [{
            "name": "lean4-proof+correspondence",
            "path": "/verif/lean (lake project PptxModel), /verif/harness (Python harness), /verif/check",
            "serves_properties": sorted(CLAIMED),
            "kind_free_text": "Lean 4 theorems over executable models; models tied to /repo by translators (regenerated tables + decide) and by differential correspondence against the compiled model driver",
        }],
        "checks": checks,
        "notes": "Exit 0 = theorems build with clean axioms and model/implementation agree on everything generated; exit 1 + VIOLATION line otherwise; exit 2 = harness error (never a verdict). Known findings: /verif/known_findings.json.",
        "not_applicable": na,
    }
    (VERIF / "MANIFEST.json").write_text(json.dumps(m, indent=1) + "\n")


if __name__ == "__main__":
    main()
