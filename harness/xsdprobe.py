"""Validate a lexical form against a named simple type of the shipped XSDs with lxml (independent oracle)."""
from __future__ import annotations

from pathlib import Path

from lxml import etree

XS = "http://www.w3.org/2001/XMLSchema"
_FILES = {
    "http://schemas.openxmlformats.org/drawingml/2006/main": "dml-main.xsd",
    "http://schemas.openxmlformats.org/presentationml/2006/main": "pml.xsd",
    "http://schemas.openxmlformats.org/drawingml/2006/chart": "dml-chart.xsd",
    "http://schemas.openxmlformats.org/officeDocument/2006/sharedTypes": "shared-commonSimpleTypes.xsd",
    "http://schemas.openxmlformats.org/officeDocument/2006/relationships": "shared-relationshipReference.xsd",
}


class Probe:
    def __init__(self, repo, type_names):
        """type_names: iterable of (ns, local) simple types (xsd builtins allowed)"""
        d = Path(repo) / "spec" / "ISO-IEC-29500-4" / "xsd"
        self.names = {}
        nss = sorted({ns for ns, _ in type_names if ns != XS})
        pfx = {ns: "n%d" % i for i, ns in enumerate(nss)}
        decl = " ".join(f'xmlns:{p}="{ns}"' for ns, p in pfx.items())
        imports = "".join(f'<xsd:import namespace="{ns}" schemaLocation="{(d / _FILES[ns]).as_uri()}"/>' for ns in nss)
        els = []
        for i, (ns, local) in enumerate(sorted(set(type_names))):
            q = f"xsd:{local}" if ns == XS else f"{pfx[ns]}:{local}"
            name = "p%d" % i
            self.names[(ns, local)] = name
            els.append(f'<xsd:element name="{name}"><xsd:complexType><xsd:attribute name="v" type="{q}"/></xsd:complexType></xsd:element>')
        src = f'<xsd:schema xmlns:xsd="{XS}" {decl} elementFormDefault="qualified">{imports}{"".join(els)}</xsd:schema>'
        self.schema = etree.XMLSchema(etree.fromstring(src.encode()))

    def valid(self, tname, lexical: str) -> bool:
        el = etree.Element(self.names[tname])
        try:
            el.set("v", lexical)
        except (ValueError, TypeError):
            return False
        return self.schema.validate(el)
