#!/bin/bash
# evalmut.sh <Cxx> <worktree> <i> : confirm mutation i (demo passes clean / fails mutated), run our check against it,
# store it under /verif/seeded/<Cxx>-<n>/ with the outcome.  Never leaves /repo modified.
pid=$1; wt=$2; i=$3
diff=$wt/mut$i.diff; demo=$wt/demo$i.py
cd /repo && git diff --quiet || { echo "/repo dirty"; exit 2; }
clean=$(cd /tmp && PYTHONPATH=/repo/src /venv/bin/python $demo >/dev/null 2>&1; echo $?)
git -C /repo apply $diff || { echo "patch does not apply"; exit 2; }
mut=$(cd /tmp && PYTHONPATH=/repo/src /venv/bin/python $demo >/dev/null 2>&1; echo $?)
suite=$(cd /repo && /venv/bin/python -m pytest -q -p no:cacheprovider --timeout=900 --continue-on-collection-errors 2>&1 | tail -1)
out=$(cd /verif && ./check $pid --tier quick 2>&1 | tail -12)
rc=$(echo "$out" | grep -c "^VIOLATION")
git -C /repo checkout -- .
git -C /verif checkout -- evidence 2>/dev/null   # evidence written under a seeded change is not kept
echo "demo clean=$clean mutated=$mut ; suite: $suite ; check VIOLATION lines=$rc"
echo "$out" | grep -v "^KNOWN" | tail -6
n=$(ls -d /verif/seeded/$pid-* 2>/dev/null | sed "s/.*-//" | sort -n | tail -1); n=$(( ${n:-0} + 1 ))
d=/verif/seeded/$pid-$n; mkdir -p $d
cp $diff $d/patch.diff; cp $demo $d/demo.py
/venv/bin/python - "$wt/meta$i.json" "$d/meta.json" "$clean" "$mut" "$rc" "$out" "$suite" <<'PY'
import json,sys
src,dst,clean,mut,rc,out,suite=sys.argv[1:8]
try: m=json.load(open(src))
except Exception: m={}
m.update({"test_suite_with_patch":suite,"demo_exit_clean_tree":int(clean),"demo_exit_with_patch":int(mut),
  "ran":"git -C /repo apply patch.diff; ./check <id> --tier quick; git -C /repo checkout -- .",
  "detected_by_quick_check":int(rc)>0,"check_output_tail":out.splitlines()[-6:]})
json.dump(m,open(dst,"w"),indent=1)
PY
