"""Helpers to emit Lean source for generated tables (strings as code-point lists)."""


def tok(s: str) -> str:
    return "[" + ", ".join(str(ord(c)) for c in s) + "]"


def tok_list(items) -> str:
    return "[" + ", ".join(tok(s) for s in items) + "]"


def nat_list(items) -> str:
    return "[" + ", ".join(str(int(i)) for i in items) + "]"


def ident(s: str) -> str:
    out = "".join(c if (c.isalnum() or c == "_") else "_" for c in s)
    return out if not out[0].isdigit() else "n" + out


def chunked_def(name, typ, rows, per=48):
    """`def name : List typ := name_0 ++ name_1 ++ …` with ≤ per rows per chunk (keeps elaboration shallow)"""
    if not rows:
        return f"def {name} : List ({typ}) := []\n"
    parts = []
    out = []
    for i in range(0, len(rows), per):
        pn = f"{name}_{i // per}"
        parts.append(pn)
        out.append(f"def {pn} : List ({typ}) := [\n  " + ",\n  ".join(rows[i:i + per]) + "]\n")
    out.append(f"def {name} : List ({typ}) := " + " ++ ".join(parts) + "\n")
    return "\n".join(out)


def write_if_changed(path, text):
    from pathlib import Path

    p = Path(path)
    p.parent.mkdir(parents=True, exist_ok=True)
    if not p.exists() or p.read_text() != text:
        p.write_text(text)
