#!/bin/bash
# usage: harness/thorough_sweep.sh <seed> <tag> Cxx...   -- runs thorough checks on a copy of /verif against a worktree of /repo
seed=$1; tag=$2; shift 2
W=/root/tv$tag; R=/root/tr$tag
rm -rf $W; git -C /repo worktree remove --force $R 2>/dev/null
rsync -a --exclude replays --exclude .git /verif/ $W/
git -C /repo worktree add --detach $R HEAD >/dev/null 2>&1
for p in "$@"; do
  ( cd $W && VERIF_REPO=$R PYTHON_PPTX_VERIF=1 VERIF_SEED=$seed timeout 5400 ./check $p --tier thorough 2>&1 | grep -v KNOWN-FINDING | tail -4 | cut -c1-1500 )
  [ -f $W/replays/$p-thorough-$seed.json ] && cp $W/replays/$p-thorough-$seed.json /root/scratch/
done
git -C /repo worktree remove --force $R; rm -rf $W
echo SWEEP-DONE $tag
