"""Read laboratory for C12: reflection over the public READ surface of the object model.

`traverse` walks the object graph from a Presentation, calling every public property (plain `property` and
`lazyproperty`) of every pptx object it reaches, iterating every collection, in a seeded order.  Each access goes
through a callback that can observe the owning part before and after."""
from __future__ import annotations

import enum
import inspect
from collections import deque

from lxml import etree

A = "http://schemas.openxmlformats.org/drawingml/2006/main"
P = "http://schemas.openxmlformats.org/presentationml/2006/main"
C = "http://schemas.openxmlformats.org/drawingml/2006/chart"

# "empty, attribute-less formatting containers" (property text).  ROOTS may start an erasable subtree, INNER may only
# occur inside one.  Fixed by hand: an accessor that adds anything else is a change.
ROOTS = {f"{{{A}}}pPr", f"{{{A}}}defRPr", f"{{{A}}}rPr", f"{{{A}}}endParaRPr", f"{{{A}}}tcPr", f"{{{A}}}ln", f"{{{P}}}txBody", f"{{{C}}}txPr",
         f"{{{C}}}spPr", f"{{{C}}}marker",
         # the id lists of a presentation / slide master part: an EMPTY list lists nothing (Presentation.slides,
         # .slide_masters, SlideMaster.slide_layouts on a part that has none)
         f"{{{P}}}sldIdLst", f"{{{P}}}sldMasterIdLst", f"{{{P}}}sldLayoutIdLst"}
INNER = {f"{{{A}}}bodyPr", f"{{{A}}}lstStyle", f"{{{A}}}p"}

# accessors the documentation describes as creating content when it is absent (property text: "accessors documented as
# creating content are the only exceptions")
DOCUMENTED_CREATORS = {
    "Slide.notes_slide", "_Background.fill", "Font.color", "LineFormat.color", "Chart.chart_title", "_BaseAxis.axis_title",
    "CategoryAxis.axis_title", "ValueAxis.axis_title", "DateAxis.axis_title", "ChartTitle.text_frame", "AxisTitle.text_frame",
    "DataLabel.text_frame", "Presentation.notes_master", "PresentationPart.notes_master", "PresentationPart.notes_master_part",
    "SlidePart.notes_slide", "Package.core_properties", "OpcPackage.core_properties", "Presentation.core_properties",
    "PresentationPart.core_properties", "ChartPart.chart_workbook",
}


def _has(obj, name):
    try:
        return bool(getattr(obj, name))
    except Exception:  # noqa
        return False


# a documented creator is an ordinary read when what it would create is already there
CREATOR_IS_PLAIN_READ = {
    "Slide.notes_slide": lambda o: _has(o, "has_notes_slide"),
    "SlidePart.notes_slide": lambda o: _has(o, "has_notes_slide"),
    "Chart.chart_title": lambda o: _has(o, "has_title"),
    "_BaseAxis.axis_title": lambda o: _has(o, "has_title"),
    "ChartTitle.text_frame": lambda o: _has(o, "has_text_frame"),
    "AxisTitle.text_frame": lambda o: _has(o, "has_text_frame"),
    "DataLabel.text_frame": lambda o: _has(o, "has_text_frame"),
}


def _is_enum_or_plain(v):
    return v is None or isinstance(v, (str, bytes, int, float, bool, enum.Enum, tuple)) and not _is_pptx(v)


def _is_pptx(v):
    m = type(v).__module__ or ""
    # the object model only: the lxml element classes under pptx.oxml are the representation, not the public surface
    return m.startswith("pptx") and not m.startswith("pptx.oxml") and not isinstance(v, (str, bytes, int, float, enum.Enum))


_prop_cache = {}


def prop_names(cls):
    if cls in _prop_cache:
        return _prop_cache[cls]
    from pptx.util import lazyproperty

    out = []
    for n in dir(cls):
        if n.startswith("_"):
            continue
        try:
            a = inspect.getattr_static(cls, n)
        except AttributeError:
            continue
        if isinstance(a, (property, lazyproperty)):
            out.append(n)
    _prop_cache[cls] = out
    return out


def owner_name(cls, name):
    """Class.attr of the class that defines the accessor (so subclasses do not multiply rows)"""
    for k in cls.__mro__:
        if name in k.__dict__:
            return f"{k.__name__}.{name}"
    return f"{cls.__name__}.{name}"


def part_element(obj, ctx_el):
    """the root element of the part that owns obj (falls back on the traversal context)"""
    from pptx.opc.package import XmlPart

    if isinstance(obj, XmlPart):
        return obj._element
    try:
        p = obj.part
        el = getattr(p, "_element", None)
        if el is not None:
            return el
    except Exception:  # noqa
        pass
    return ctx_el


def key_of(obj):
    el = getattr(obj, "_element", None)
    return (type(obj).__name__, id(el) if el is not None else id(obj))


def traverse(root, access, rng, max_objects=4000, max_depth=12, max_items=6, skip=frozenset()):
    """access(obj, cls, name, ctx_el) -> value (may raise).  Returns the number of objects visited."""
    seen = set()
    alive = []      # keeps every visited element proxy alive so that id() stays unique (determinism)
    q = deque([(root, 0, None)])
    n = 0
    while q and n < max_objects:
        obj, depth, ctx_el = q.popleft()
        k = key_of(obj)
        if k in seen:
            continue
        seen.add(k)
        alive.append((obj, getattr(obj, "_element", None)))
        n += 1
        ctx_el = part_element(obj, ctx_el)
        cls = type(obj)
        names = list(prop_names(cls))
        rng.shuffle(names)
        vals = []
        for name in names:
            on = owner_name(cls, name)
            if on in skip and not (on in CREATOR_IS_PLAIN_READ and CREATOR_IS_PLAIN_READ[on](obj)):
                continue
            try:
                v = access(obj, cls, name, ctx_el)
            except Exception:  # noqa: getters that raise on the wrong kind of object are reads too
                continue
            vals.append(v)
        # collections
        if hasattr(cls, "__iter__") and not isinstance(obj, (str, bytes)):
            try:
                items = []
                for i, it in enumerate(access(obj, cls, "__iter__", ctx_el)):
                    if i >= max_items:
                        break
                    items.append(it)
                vals += items
            except Exception:  # noqa
                pass
        if hasattr(cls, "__len__"):
            try:
                access(obj, cls, "__len__", ctx_el)
            except Exception:  # noqa
                pass
        if depth >= max_depth:
            continue
        for v in vals:
            if _is_pptx(v):
                q.append((v, depth + 1, ctx_el))
            elif isinstance(v, (list, tuple)):
                for it in list(v)[:max_items]:
                    if _is_pptx(it):
                        q.append((it, depth + 1, ctx_el))
    return n


# ----------------------------------------------------------------------------------------- canonical form (oracle side)
def erasable(el):
    if el.tag not in ROOTS:
        return False
    return all(isinstance(e.tag, str) and (e.tag in ROOTS or e.tag in INNER) and not e.attrib and not (e.text or "").strip() for e in el.iter())


def canon(root):
    """copy of the tree without erasable subtrees, serialised C14N"""
    root = etree.fromstring(etree.tostring(root))

    def walk(el):
        for k in list(el):
            if not isinstance(k.tag, str):
                continue
            if erasable(k):
                tail = k.tail
                el.remove(k)
            else:
                walk(k)

    walk(root)
    for e in root.iter():
        if e.tail is not None and not e.tail.strip():
            e.tail = None
        if e.text is not None and not e.text.strip() and len(e):
            e.text = None
    return etree.tostring(root, method="c14n")


# ----------------------------------------------------------------------------------------- static side: getters that CAN create
_MUT_PREFIX = ("get_or_add", "_add_", "add_", "_insert_", "insert_", "get_or_change_to", "_remove_", "remove_", "rewrite_", "clear_")
_MUT_EXACT = {"append", "insert", "remove", "addprevious", "addnext", "clear", "replace"}

# creating getters that the effect table need not show as creating, each for a stated reason (reviewed by hand)
STATIC_EXEMPT = {
    "Presentation.slide_layouts": "creates p:sldMasterIdLst only on a presentation part that lists no master: an empty list lists nothing (erasable)",
    "Presentation.slide_master": "as Presentation.slide_layouts",
    "Presentation.slide_masters": "as Presentation.slide_layouts",
    "SlideMaster.slide_layouts": "creates p:sldLayoutIdLst only on a master that lists no layout (erasable)",
    "_Cell.fill": "creates a:tcPr (an erasable container); observed as such only on decks whose cells lack it",
    "_Cell.text_frame": "a:txBody is required in a:tc by the schema: nothing to create in a valid part",
    "DataLabel.text_frame": "documented creator",
    "CT_TextBody.defRPr": "element-level helper behind the Font getters listed (adds-empty)",
    "CT_DLbls.defRPr": "element-level helper behind DataLabels.font (adds-empty)",
    "CT_Legend.defRPr": "element-level helper behind Legend.font (adds-empty)",
    "BaseAxisElement.defRPr": "element-level helper behind TickLabels.font (adds-empty)",
    "CT_GroupShape.chExt": "not reached by a public getter (used by recalculate_extents, a writing path)",
    "CT_GroupShape.chOff": "as CT_GroupShape.chExt",
    "_PattFill.fore_color": "reached as FillFormat.fore_color (a listed finding)",
    "_PattFill.back_color": "reached as FillFormat.back_color (a listed finding)",
}


def static_creators(src_root):
    """public getters (property / lazyproperty) whose body - or a helper of the same class it calls, two levels deep - calls a
    method that creates, inserts or removes XML: what the effect table must account for.  -> sorted ['Class.name']"""
    import ast
    import os

    def is_getter(fn):
        for d in fn.decorator_list:
            n = d.id if isinstance(d, ast.Name) else getattr(d, "attr", None)
            if n in ("property", "lazyproperty"):
                return True
        return False
    out = set()
    for dp, _, fs in os.walk(src_root):
        if "/opc" in dp:
            continue
        for f in fs:
            if not f.endswith(".py"):
                continue
            tree = ast.parse(open(os.path.join(dp, f)).read())
            for cls in [n for n in ast.walk(tree) if isinstance(n, ast.ClassDef)]:
                methods = {m.name: m for m in cls.body if isinstance(m, ast.FunctionDef)}

                def calls(fn, depth=0, seen=frozenset()):
                    res = set()
                    for n in ast.walk(fn):
                        if isinstance(n, ast.Call) and isinstance(n.func, ast.Attribute):
                            nm = n.func.attr
                            if nm.startswith(_MUT_PREFIX) or nm in _MUT_EXACT:
                                res.add(nm)
                            if isinstance(n.func.value, ast.Name) and n.func.value.id == "self" and nm in methods and nm not in seen and depth < 2:
                                res |= calls(methods[nm], depth + 1, seen | {nm})
                        if (isinstance(n, ast.Attribute) and isinstance(n.value, ast.Name) and n.value.id == "self" and n.attr in methods
                                and n.attr not in seen and depth < 2 and is_getter(methods[n.attr]) and methods[n.attr] is not fn):
                            res |= calls(methods[n.attr], depth + 1, seen | {n.attr})
                    return res
                for m in methods.values():
                    if is_getter(m) and not m.name.startswith("_") and not cls.name.startswith("_MoviePic") and not cls.name.startswith("_OleObject") \
                            and cls.name not in ("TextFitter", "_BaseWorkbookWriter") and calls(m):
                        out.add(f"{cls.name}.{m.name}")
    return sorted(out)
