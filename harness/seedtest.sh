#!/bin/bash
# usage: seedtest.sh <seed-id> [prop]  -- apply seeded patch, run quick, undo
id=$1; p=${2:-${id%%-*}}
git -C /repo apply --3way /verif/seeded/$id/patch.diff || { echo NOAPPLY; git -C /repo reset -q --hard; exit 3; }
git -C /repo reset -q
cd /verif && ./check $p --tier quick 2>&1 | grep -v KNOWN-FINDING | tail -${3:-4} | cut -c1-600
git -C /repo checkout -- . ; git -C /verif checkout -- evidence
git -C /repo status --short | head -3
