"""Re-run the registered quick check for every seeded mutation under /verif/seeded and record which are caught.
Usage: seeded_status.py [Cxx ...]   (never leaves /repo modified)"""
import json, subprocess, sys
from pathlib import Path

V = Path("/verif")
only = set(a.upper() for a in sys.argv[1:])
rows = []
for d in sorted((V / "seeded").iterdir()):
    if not d.is_dir():
        continue
    pid = d.name.split("-")[0]
    if only and pid not in only:
        continue
    assert subprocess.run(["git", "-C", "/repo", "diff", "--quiet"]).returncode == 0, "/repo dirty"
    if subprocess.run(["git", "-C", "/repo", "apply", "--3way", str(d / "patch.diff")], capture_output=True).returncode != 0:
        subprocess.run(["git", "-C", "/repo", "reset", "-q"], check=True)
        subprocess.run(["git", "-C", "/repo", "checkout", "--", "."], check=True)
        print((d.name, "PATCH-DOES-NOT-APPLY (the code it mutates was changed by a later fix: commit)"))
        continue
    try:
        r = subprocess.run(["./check", pid, "--tier", "quick"], cwd=V, capture_output=True, text=True)
    finally:
        subprocess.run(["git", "-C", "/repo", "reset", "-q"], check=True)
        subprocess.run(["git", "-C", "/repo", "checkout", "--", "."], check=True)
    vio = [l for l in r.stdout.splitlines() if l.startswith("VIOLATION")]
    meta = json.loads((d / "meta.json").read_text())
    meta["detected_now"] = bool(vio)
    meta["detected_with_failing_input"] = bool(vio) and "no-failing-input-found" not in vio[0]
    meta["last_check_output"] = r.stdout.splitlines()[-4:]
    (d / "meta.json").write_text(json.dumps(meta, indent=1))
    rows.append((d.name, meta.get("detected_by_quick_check"), meta["detected_now"], meta["detected_with_failing_input"], meta.get("summary", "")[:110]))
    print(rows[-1])

# evidence written while a seeded change was applied must never be committed: restore the committed files
subprocess.run(["git", "-C", str(V), "checkout", "--", "evidence"], check=False)
