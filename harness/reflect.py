"""Runtime reflection over python-pptx's live objects (no AST matching): registered element classes,
their child-element and attribute declarations, simple-type classes, XML enumerations."""
from __future__ import annotations

import importlib
import pkgutil


def registered_classes():
    """clark tag -> element class, from the live lxml class lookup"""
    import pptx.oxml as ox
    from pptx.oxml.ns import _nsmap as nsmap  # prefix -> uri

    out = {}
    for pfx, uri in nsmap.items():
        reg = ox.element_class_lookup.get_namespace(uri)
        for local, cls in reg.items():
            if local is not None:
                if isinstance(local, bytes):
                    local = local.decode()
                out["{%s}%s" % (uri, local)] = cls
    return out


def _closure_objs(fn):
    for c in (getattr(fn, "__closure__", None) or ()):
        try:
            yield c.cell_contents
        except ValueError:
            pass


def child_decls(cls):
    """[(prop_name, nsptagname, successors, kind)] for every declaration that generated an inserter on cls (incl. inherited)"""
    from pptx.oxml import xmlchemy as xc

    seen, out = set(), []
    for klass in cls.__mro__:
        for name, val in vars(klass).items():
            if not name.startswith("_insert_") or not callable(val):
                continue
            for o in _closure_objs(val):
                if isinstance(o, xc._BaseChildElement) and id(o) not in seen:
                    seen.add(id(o))
                    out.append((name[len("_insert_"):], o._nsptagname, tuple(o._successors), type(o).__name__))
    return out


def choice_groups(cls):
    """[(group prop name, [member nsptagnames], successors)]"""
    from pptx.oxml import xmlchemy as xc

    seen, out = set(), []
    for klass in cls.__mro__:
        for name, val in vars(klass).items():
            if isinstance(val, property) and val.fget is not None:
                for o in _closure_objs(val.fget):
                    if isinstance(o, xc.ZeroOrOneChoice) and id(o) not in seen:
                        seen.add(id(o))
                        out.append((name, list(o._member_nsptagnames), tuple(o._successors)))
    return out


def attr_decls(cls):
    """[(prop_name, attr clark name, simple type class, 'optional'|'required', default)]"""
    from pptx.oxml import xmlchemy as xc

    seen, out = set(), []
    for klass in cls.__mro__:
        for name, val in vars(klass).items():
            if isinstance(val, property) and val.fget is not None:
                for o in _closure_objs(val.fget):
                    if isinstance(o, xc.BaseAttribute) and id(o) not in seen:
                        seen.add(id(o))
                        kind = "optional" if isinstance(o, xc.OptionalAttribute) else "required"
                        out.append((name, o._clark_name, o._simple_type, kind, getattr(o, "_default", None)))
    return out


def xml_enums():
    """distinct BaseXmlEnum subclasses (aliases such as MSO_SHAPE = MSO_AUTO_SHAPE_TYPE collapse) -> sorted by name"""
    import pptx.enum
    from pptx.enum.base import BaseXmlEnum

    found = {}
    for m in pkgutil.iter_modules(pptx.enum.__path__):
        mod = importlib.import_module("pptx.enum." + m.name)
        for n, c in vars(mod).items():
            if isinstance(c, type) and issubclass(c, BaseXmlEnum) and c is not BaseXmlEnum:
                found.setdefault(id(c), (c, []))[1].append(n)
    return sorted(((c, sorted(names)) for c, names in found.values()), key=lambda t: t[0].__name__)


def nsptag_to_clark(nsptag):
    from pptx.oxml.ns import qn

    return qn(nsptag)
