"""Prints the prompt given to a mutation sub-agent for one property (property text + worktree only)."""
import json, sys
pid, wt = sys.argv[1], sys.argv[2]
n = int(sys.argv[3]) if len(sys.argv) > 3 else 3
hint = ""
if len(sys.argv) > 4 and sys.argv[4] == "deep":
    hint = (" Prefer sites and mechanisms BEYOND the most obvious ones named in the property's anchors: helper functions several calls away, "
            "rarely used branches, caches / memoisation / lazy properties, type-dispatch tables and factory mappings, interactions between two "
            "features, behaviour after save + re-open, and states that only files written by other producers (or earlier edits) contain.")
if len(sys.argv) > 4 and sys.argv[4] == "pair":
    hint = (" Prefer, in this order: (1) changes where TWO cooperating sites each look fine alone (a producer and a consumer of an intermediate "
            "value, a writer and its reader, a cache and its invalidation, a default in one place and a test for it in another); (2) changes in "
            "error / rollback paths - what is left behind when a call raises midway, or what a documented exception is replaced by; (3) changes "
            "that only manifest on the N-th call, or only after a specific EARLIER operation on the same or a related object (state carried "
            "between calls, objects obtained before a modification and used after it); (4) boundary values of numeric ranges, lengths and counts "
            "(0, 1, the exact maximum, one past a power of the radix); (5) rarely used public entry points and object kinds (less common chart "
            "types, notes slides, group shapes nested twice, OLE objects, movies, freeform builders, connectors, directory-form packages, "
            "packages written by other producers). Avoid the most obvious site for the property; previous rounds already covered those.")
if len(sys.argv) > 4 and sys.argv[4] == "opt":
    hint = (" Make each change look like something a maintainer would do ON PURPOSE and believe harmless: a performance optimisation (a cache, "
            "memoisation, a lazy property, an early return, a fast path for the common case, hoisting a computation out of a loop), a tidy-up "
            "refactor (merging two branches, re-ordering statements, replacing an explicit comparison by a truthiness or identity test, replacing "
            "a loop by a comprehension / slice / regular expression, inlining or extracting a helper), a robustness fallback (catching an exception "
            "and substituting a default), or a modernisation (another stdlib call with slightly different edge behaviour). The change must be "
            "correct for everything the library's own writer produces in ordinary use and wrong only for a specific history, boundary value, "
            "second use of the same object, or a state that only files from other producers contain. Avoid the sites the property's anchors name "
            "first; earlier rounds covered them.")
if len(sys.argv) > 4 and sys.argv[4] == "fresh":
    hint = (" Choose sites in files the property's anchors do NOT list: code the property depends on indirectly - less common object kinds "
            "and entry points, helper modules (util, shared, xmlchemy, simpletypes, ns, spec tables), the READING side as well as the writing "
            "side, behaviour on files written by other producers, second and later uses of an object, and numeric / length boundaries. Keep the "
            "change realistic (an optimisation, a tidy-up, a robustness fallback, a modernisation) and subtle: correct for what the library's own "
            "writer produces in ordinary use.")
for l in open('/verif/properties.jsonl'):
    p = json.loads(l)
    if p['id'] == pid:
        break
print(f"""You are helping to evaluate a verification effort by playing the adversary. You have your own scratch git worktree of the python-pptx library at {wt} (a checkout of the library's repository; source under {wt}/src/pptx, tests under {wt}/tests). Work ONLY inside {wt}; never touch /repo or /verif and do not read anything under /verif.

Here is a semantic property that python-pptx is supposed to satisfy:

{json.dumps(p, indent=1)}

Your task: produce {n} DIFFERENT, independent source changes (mutations) to the library under {wt}/src/pptx, each of which
  (a) BREAKS this property (for some input / operation sequence / state the property quantifies over),
  (b) still imports/compiles, and
  (c) still passes the existing pinned test suite. Run it from the worktree with:
        cd {wt} && PYTHONPATH={wt}/src /venv/bin/python -m pytest -q -p no:cacheprovider --timeout=900 --continue-on-collection-errors 2>&1 | tail -3
      The unmodified tree gives "566 passed, 46 errors" (the 46 collection errors are pre-existing and expected); your change must give the same 566 passed with no new failures.
Make the changes REALISTIC (the kind of slip a maintainer could make in a refactor or an optimisation: an off-by-one, a dropped branch, a wrong comparison, a cache, a swapped argument, a condition that is right for common cases) and SUBTLE: each should need something specific to manifest (a particular multi-step sequence of operations, an unusual input, a boundary value, a particular pre-existing state, or two cooperating sites that each look fine alone), NOT something that ordinary use would expose at once.{hint}

For each mutation i = 1..{n}:
  1. start from a clean tree (git -C {wt} checkout -- . ), make the change, save it with:  git -C {wt} diff > {wt}/mut{{i}}.diff
  2. write a small standalone demonstration program {wt}/demo{{i}}.py that uses only the public python-pptx API (run as: PYTHONPATH=<tree>/src /venv/bin/python demo{{i}}.py), exits 0 when the property holds for its scenario and exits non-zero (with a short message) when it is violated. It must FAIL with your change applied and PASS on the clean tree. Verify both.
  3. verify the test suite result with the change applied (566 passed).
  4. write {wt}/meta{{i}}.json: {{"property": "{pid}", "summary": "...what was changed...", "needs": "...what specific input/sequence/state is needed for it to manifest...", "files": [...]}}
  5. restore the clean tree (git -C {wt} checkout -- . ) before the next mutation.
NEVER use `git stash` (the stash is shared by all worktrees of the repository and other agents work in sibling worktrees): use `git diff > file`, `git checkout -- .` and `git apply file` only. Leave the worktree clean at the end (only the mut*.diff, demo*.py, meta*.json files added, untracked). In your final message list, for each mutation, one line: the file(s) touched, what it breaks and what it needs to manifest. Use /venv/bin/python for everything (it has lxml, Pillow, XlsxWriter). There is no network.""")
