"""Run every translator (regenerates lean/PptxModel/Gen/*.lean from /repo's current source)."""
import importlib
import pkgutil
import sys
from pathlib import Path

sys.path.insert(0, str(Path(__file__).resolve().parent.parent))
from harness import common  # noqa: E402
import harness.props as props  # noqa: E402


def main():
    common.use_repo()
    for m in pkgutil.iter_modules(props.__path__):
        mod = importlib.import_module(f"harness.props.{m.name}")
        if hasattr(mod, "translate"):
            mod.translate(None)
            print("translated", m.name)


if __name__ == "__main__":
    main()
