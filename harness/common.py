"""Shared plumbing for the /verif checks: Lean build + audit, driver I/O, evidence, replays,
known findings.  Run with /venv/bin/python (lxml, Pillow, XlsxWriter present)."""
from __future__ import annotations

import fcntl
import json
import os
import random
import re
import shutil
import subprocess
import sys
import tempfile
import time
from pathlib import Path

VERIF = Path(__file__).resolve().parent.parent
LEAN = VERIF / "lean"
REPO = Path(os.environ.get("VERIF_REPO", "/repo"))
GUARD = "PYTHON_PPTX_VERIF"

ALLOWED_AXIOMS = {"propext", "Classical.choice", "Quot.sound"}
FORBIDDEN = re.compile(
    r"\b(sorry|admit|native_decide|bv_decide|implemented_by|unsafe)\b|^\s*axiom\s|maxHeartbeats\s+0\b",
    re.M,
)


def use_repo():
    """Make `import pptx` resolve to /repo/src as it is now."""
    os.environ[GUARD] = "1"
    src = str(REPO / "src")
    if src in sys.path:
        sys.path.remove(src)
    sys.path.insert(0, src)
    for m in [m for m in sys.modules if m == "pptx" or m.startswith("pptx.")]:
        del sys.modules[m]
    import pptx  # noqa

    assert Path(pptx.__file__).resolve().is_relative_to(REPO), pptx.__file__
    return pptx


# ------------------------------------------------------------------------------------------
# encoding for the driver's line protocol


def enc(s: str) -> str:
    return ".".join(str(ord(c)) for c in s) if s else "-"


def dec(tok: str) -> str:
    if tok == "-":
        return ""
    return "".join(chr(int(p)) for p in tok.split("."))


def enc_list(l) -> str:
    return ";".join(enc(s) for s in l) if l else "!"


def dec_list(tok: str):
    return [] if tok == "!" else [dec(t) for t in tok.split(";")]


def enc_ints(l) -> str:
    return ",".join(str(int(i)) for i in l) if l else "!"


def dec_ints(tok: str):
    return [] if tok == "!" else [int(t) for t in tok.split(",")]


# ------------------------------------------------------------------------------------------
# Lean


class LeanError(Exception):
    pass


class _Lock:
    def __enter__(self):
        self.f = open(LEAN / ".lake.lock", "w")
        fcntl.flock(self.f, fcntl.LOCK_EX)

    def __exit__(self, *a):
        fcntl.flock(self.f, fcntl.LOCK_UN)
        self.f.close()


def strip_comments(src: str) -> str:
    # remove nested block comments and line comments (Lean syntax)
    out, i, depth = [], 0, 0
    while i < len(src):
        if src.startswith("/-", i):
            depth += 1
            i += 2
        elif depth and src.startswith("-/", i):
            depth -= 1
            i += 2
        elif depth:
            i += 1
        elif src.startswith("--", i):
            j = src.find("\n", i)
            i = len(src) if j < 0 else j
        else:
            out.append(src[i])
            i += 1
    return "".join(out)


def scan_forbidden():
    """Reject sorry/admit/axiom/native_decide/... outside comments anywhere in the lake project."""
    hits = []
    for p in sorted(LEAN.rglob("*.lean")):
        if ".lake" in p.parts:
            continue
        body = strip_comments(p.read_text())
        for m in FORBIDDEN.finditer(body):
            hits.append(f"{p.relative_to(LEAN)}: {m.group(0).strip()}")
    return hits


def lake_build(targets, timeout=3000):
    """Returns (ok, output)."""
    with _Lock():
        r = subprocess.run(
            ["lake", "build", *targets], cwd=LEAN, capture_output=True, text=True, timeout=timeout
        )
    return r.returncode == 0, r.stdout + r.stderr


THEOREM_RE = re.compile(r"^\s*(?:private\s+|protected\s+)?theorem\s+([A-Za-z_][\w.']*)", re.M)
NAMESPACE_RE = re.compile(r"^\s*namespace\s+([\w.]+)", re.M)


def theorems_in(module: str):
    """Names (fully qualified) of the theorems declared in a module file (one namespace per file)."""
    p = LEAN / (module.replace(".", "/") + ".lean")
    src = strip_comments(p.read_text())
    ns = NAMESPACE_RE.search(src)
    prefix = ns.group(1) + "." if ns else ""
    return [prefix + t for t in THEOREM_RE.findall(src)]


def audit_axioms(modules, tag):
    """`#print axioms` for every theorem of the given modules; returns {theorem: [axioms]}."""
    names = []
    for m in modules:
        names += theorems_in(m)
    (LEAN / "Audit").mkdir(exist_ok=True)
    f = LEAN / "Audit" / f"{tag}.lean"
    f.write_text(
        "\n".join(f"import {m}" for m in modules)
        + "\n"
        + "\n".join(f"#print axioms {n}" for n in names)
        + "\n"
    )
    with _Lock():
        r = subprocess.run(
            ["lake", "env", "lean", str(f)], cwd=LEAN, capture_output=True, text=True, timeout=1800
        )
    out = r.stdout + r.stderr
    res = {}
    for m in re.finditer(
        r"'([^']+)' (does not depend on any axioms|depends on axioms: \[([^\]]*)\])", out, re.S
    ):
        axs = [a.strip() for a in (m.group(3) or "").replace("\n", " ").split(",") if a.strip()]
        res[m.group(1)] = axs
    missing = [n for n in names if n not in res]
    return res, missing, out


def leanchecker(modules, timeout=3000):
    with _Lock():
        r = subprocess.run(
            ["lake", "env", "leanchecker", *modules],
            cwd=LEAN, capture_output=True, text=True, timeout=timeout,
        )
    return r.returncode == 0, (r.stdout + r.stderr)[-4000:]


class Driver:
    """The compiled model driver (`lake build driver`); batch mode: lines in, lines out."""

    def __init__(self):
        self.exe = LEAN / ".lake" / "build" / "bin" / "driver"

    def run(self, lines, timeout=3000):
        if not lines:
            return []
        data = "\n".join(lines) + "\n"
        r = subprocess.run([str(self.exe)], input=data, capture_output=True, text=True, timeout=timeout)
        if r.returncode != 0:
            raise LeanError(f"driver exit {r.returncode}: {r.stderr[-2000:]}")
        out = r.stdout.split("\n")
        if out and out[-1] == "":
            out.pop()
        if len(out) != len(lines):
            raise LeanError(f"driver returned {len(out)} lines for {len(lines)} inputs")
        return out


# ------------------------------------------------------------------------------------------
# known findings


def load_known():
    p = VERIF / "known_findings.json"
    if not p.exists():
        return []
    return json.loads(p.read_text()).get("entries", [])


# ------------------------------------------------------------------------------------------
# scratch dir (outside /repo and /verif), removed at exit


_scratch = None


def scratch() -> Path:
    global _scratch
    if _scratch is None:
        import atexit

        _scratch = Path(tempfile.mkdtemp(prefix="pptxverif-"))
        atexit.register(lambda: shutil.rmtree(_scratch, ignore_errors=True))
    return _scratch


def corpus_decks():
    """PowerPoint decks shipped in the repository (tests + acceptance fixtures)."""
    out = []
    for d in ("tests/test_files", "features/steps/test_files"):
        out += sorted((REPO / d).glob("*.pptx"))
    return out
