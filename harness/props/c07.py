"""C07 — a chart's XML is valid and reports exactly the data it was given; replace_data changes data only."""
from __future__ import annotations

from harness import chartlab as lab, common

ID = "C07"
LEAN_MODULES = ["PptxModel.Props.C07", "PptxModel.Props.C07H", "PptxModel.Props.C07R"]
RULE = (
    "every chart type the writer supports (found by probing ChartXmlWriter) x seeded chart data: string / numeric / date "
    "categories (dates either side of the 1900 leap-year bug, 1904), 2-4 level ragged hierarchies, missing values, 0..6 "
    "series (one large case per run), custom number formats; XY and bubble series of unequal lengths incl. empty; then "
    "0..3 replace_data calls with data of a different shape (more / fewer series, other category kind).  After each step: "
    "chart part validated with lxml against dml-chart.xsd; read API (names, values, categories, flattened labels) compared "
    "with the data supplied and, for hierarchies, with the root-to-leaf paths of the supplied tree; c:idx / c:order "
    "unique; the value caches compared with the Lean model; formatting given to surviving series before replace_data must "
    "still be there.  Non-trivial = distinct (chart type, data, replace sequence)."
)
ASSUMPTIONS = [
    "the Lean model covers the point caches (ptCount / pt idx), idx/order allocation and the category hierarchy (levels "
    "emitted, parentage scan, flattened labels = root-to-leaf paths, proved for every forest of uniform depth); XML "
    "validity is judged by an oracle on the real output (lxml XMLSchema)",
    "values are integers in the model comparison (floats are judged by the read-back oracle only)",
]
TRUSTED = ["lxml XMLSchema over the shipped dml-chart.xsd"]


def expect_cat_strings(spec, date1904=False):
    cats = spec["cats"]
    out = []
    for c in cats:
        if spec["kind"] == "date":
            out.append("%.1f" % lab.excel_serial(c, date1904))
        elif spec["kind"] == "num":
            out.append(str(c))
        else:
            out.append(c)
    return out


def check_chart(ctx, chart, spec, ct, stage, lines, impl, metas):
    root = lab.chart_xml(chart)
    case = {"chart_type": ct.name, "stage": stage, "data": str(spec)[:600]}
    schema = lab.chart_schema(common.REPO)
    neg = root.xpath("//c:axId[starts-with(@val,'-')] | //c:crossAx[starts-with(@val,'-')]", namespaces=lab.NS)
    if neg:
        # the writer's templates carry the negative axis ids older PowerPoint versions wrote; xsd: ST unsignedInt
        ctx.fail("chart-axid-negative", f"{ct.name}: c:axId / c:crossAx val={neg[0].get('val')!r} is negative; dml-chart.xsd types it xsd:unsignedInt", case)
        import copy
        root_v = copy.deepcopy(root)
        for e in root_v.xpath("//c:axId[starts-with(@val,'-')] | //c:crossAx[starts-with(@val,'-')]", namespaces=lab.NS):
            e.set("val", e.get("val")[1:])
    else:
        root_v = root
    root_v = lab.mc_preprocess(root_v)
    rs = root_v.xpath("//c:radarChart/c:ser/c:smooth", namespaces=lab.NS)
    if rs:
        ctx.fail("radar-ser-smooth", f"{ct.name}: c:radarChart/c:ser holds a c:smooth child, which CT_RadarSer does not allow", case)
        for e in rs:
            e.getparent().remove(e)
    if not schema.validate(root_v):
        ctx.fail("chart-xml-invalid:" + ct.name, f"{ct.name} [{stage}]: chart part invalid against dml-chart.xsd: {schema.error_log.last_error}", case)
    api = lab.read_api(chart)
    names = [n for pl in api for n, _ in pl["series"]]
    vals = [v for pl in api for _, v in pl["series"]]
    if spec["kind"] in ("xy", "bubble"):
        want_names = [n for n, _ in spec["series"]]
        want_vals = [[None if p[1] is None else float(p[1]) for p in pts] for _, pts in spec["series"]]
    else:
        want_names = [n for n, _ in spec["series"]]
        want_vals = [[None if v is None else float(v) for v in vs] for _, vs in spec["series"]]
    if ("PIE" in ct.name) and len(want_names) > 1 and names == want_names[:1] and vals == want_vals[:1]:
        ctx.fail("pie-extra-series-dropped", f"{ct.name} [{stage}]: {len(want_names)} series supplied, the chart XML holds only the first (the embedded workbook holds all)", case)
        want_names, want_vals = want_names[:1], want_vals[:1]
    if names != want_names:
        ctx.fail("series-names", f"{ct.name} [{stage}]: series names {names}, supplied {want_names}", case)
    if vals != want_vals:
        ctx.fail("series-values", f"{ct.name} [{stage}]: values {vals[:3]}, supplied {want_vals[:3]}", case)
    if spec["kind"] not in ("xy", "bubble") and spec["series"]:
        d1904 = lab.chart_is_1904(root)
        want = expect_cat_strings(spec, d1904)
        for pl in api:
            if not pl["series"]:
                continue        # a plot without series (foreign state: a trailing empty plot) has no categories to report
            if pl["cats"] != want:
                ctx.fail("categories" + (":empty-label" if "" in want else ""), f"{ct.name} [{stage}]: categories {pl['cats'][:6]}, supplied {want[:6]}", case)
                break
            if spec["kind"] == "multi":
                wantp = [tuple(p) for p in lab.paths(spec["tree"])]
                if pl["flat"] != wantp:
                    ctx.fail("flattened-labels", f"{ct.name} [{stage}]: flattened labels {pl['flat'][:4]} but the tree's root-to-leaf paths are {wantp[:4]}", case)
                    break
        if spec["kind"] == "multi":
            # the levels the writer emitted and what the reader makes of them, against the Lean hierarchy model
            from harness.common import enc

            def toks(forest):
                out = []
                for lb, subs in forest:
                    out.append(f"{enc(lb)}/{len(subs)}")
                    out += toks(subs)
                return out

            lvls = root.xpath("(//c:ser)[1]/c:cat/c:multiLvlStrRef/c:multiLvlStrCache/c:lvl", namespaces=lab.NS)
            lv = "|".join(",".join(f"{i}:{enc(t or '')}" for i, t in lab.pts_of(l)[1]) for l in lvls)
            fl = "|".join(",".join(enc(x) for x in t) for t in api[0]["flat"]) if api else ""
            depth = spec.get("depth", len(lvls))
            lines.append(f"c07.flat {depth} {len(spec['tree'])} " + " ".join(toks(spec["tree"])))
            impl.append(f"true {lv} {fl}"); metas.append(case)
            ctx.case(key=lines[-1] + stage)
    idxs = [int(x) for x in root.xpath("//c:ser/c:idx/@val", namespaces=lab.NS)]
    orders = [int(x) for x in root.xpath("//c:ser/c:order/@val", namespaces=lab.NS)]
    if len(set(idxs)) != len(idxs) or len(set(orders)) != len(orders):
        ctx.fail("idx-order-not-unique", f"{ct.name} [{stage}]: c:idx {idxs} c:order {orders}", case)
    # value caches vs the Lean model
    tag = "c:yVal" if spec["kind"] in ("xy", "bubble") else "c:val"
    # the order in which the library hands out the supplied series: plots in document order, inside a plot by c:order
    # (NOT c:order across the whole chart: a combination chart whose orders were permuted interleaves the plots)
    by_order = [e for pl in root.xpath("//c:plotArea/*[c:ser]", namespaces=lab.NS)
                for e in sorted(pl.xpath("./c:ser", namespaces=lab.NS), key=lambda e: int(e.find("c:order", lab.NS).get("val")))]
    for ser, (_, data) in zip(by_order, spec["series"]):
        cache = ser.find(tag + "/c:numRef/c:numCache", lab.NS)
        if cache is None:
            continue
        vs = [p[1] for p in data] if spec["kind"] in ("xy", "bubble") else data
        if any(v is not None and not isinstance(v, int) for v in vs):
            continue
        n, pts = lab.pts_of(cache)
        try:
            out = f"{n} " + ",".join([""] + [f"{i}:{int(float(t))}" for i, t in pts]) + " rt"
        except (TypeError, ValueError):
            continue
        lines.append("c07.vals " + (",".join("n" if v is None else str(v) for v in vs) or "!"))
        impl.append(out); metas.append(case)
        ctx.case(key=lines[-1] + ct.name + stage)

_DATA = ("idx", "order", "tx", "cat", "val", "xVal", "yVal", "bubbleSize")


class Pop:
    """the series population of a chart as `Model/Replace` sees it: plots in document order (own content fingerprinted
    without the series), series in document order with element identity, c:idx, c:order and a fingerprint of everything
    that is not data.  Read from the raw XML, not through the library's `sers` / `last_ser` accessors."""

    def __init__(self, chart):
        self.cs = chart._chartSpace
        self.keep = []          # elements kept alive so that id() stays an identity
        self.uids = {}
        self.fp = {}

    def _fp(self, el, drop):
        import copy
        from lxml import etree
        c = copy.deepcopy(el)
        for k in list(c):
            if etree.QName(k).localname in drop and etree.QName(k).namespace == lab.NS["c"]:
                c.remove(k)
        key = etree.tostring(c, method="c14n", exclusive=True)
        return self.fp.setdefault(key, len(self.fp))

    def plots(self):
        from lxml import etree
        pa = self.cs.find("c:chart/c:plotArea", lab.NS)
        return [] if pa is None else [e for e in pa if isinstance(e.tag, str) and etree.QName(e).localname.endswith("Chart")]

    def snap(self):
        plots = self.plots()
        sers = [s for pl in plots for s in pl.findall("c:ser", lab.NS)]
        nxt = max(self.uids.values(), default=-1) + 1     # a Pop lives for ONE call: new elements continue the numbering
        for s in sers:
            if id(s) not in self.uids:
                self.uids[id(s)] = nxt; nxt += 1
                self.keep.append(s)
        out, order = [], []
        for pl in plots:
            row = []
            for s in pl.findall("c:ser", lab.NS):
                row.append((self.uids[id(s)], int(s.find("c:idx", lab.NS).get("val")), int(s.find("c:order", lab.NS).get("val")), self._fp(s, _DATA)))
            out.append((self._fp(pl, ("ser",)), row))
            order += [r[0] for r in sorted(row, key=lambda r: r[2])]
        return out, order

    @staticmethod
    def enc(pop):
        return "|".join("%d:%s" % (t, ",".join("%d.%d.%d.%d" % r for r in row)) for t, row in pop) or "!"


def replace_and_compare(ctx, chart, cd, n, case, lines, impl, metas):
    """chart.replace_data(cd) with the series population before / after handed to the Lean model of
    `_adjust_ser_count`; re-raises what the library raises"""
    from lxml import etree
    pop = Pop(chart)
    try:
        pre, _ = pop.snap()
    except (AttributeError, TypeError, ValueError):
        chart.replace_data(cd)
        return
    before = etree.tostring(chart._chartSpace, method="c14n")
    line = "c07.repl %d %s" % (n, Pop.enc(pre))
    try:
        chart.replace_data(cd)
    except Exception:
        if etree.tostring(chart._chartSpace, method="c14n") != before:
            ctx.fail("replace-data-refused-but-changed", "replace_data raised and left the chart XML changed", case)
        lines.append(line); impl.append("refused"); metas.append(case)
        raise
    post, order = pop.snap()
    import os
    if os.environ.get("C07_DEBUG") and [t for t, _ in pre] != [t for t, _ in post] and len(pre) == len(post):
        inv = {v: k for k, v in pop.fp.items()}
        for (a, _), (b, _) in zip(pre, post):
            if a != b:
                print("PLOT-CHANGED\n", inv[a].decode(), "\n", inv[b].decode())
    lines.append(line); impl.append("%s %s" % (Pop.enc(post), ",".join(map(str, order)) or "!")); metas.append(case)
    ctx.case(key=line)
    npre = sum(len(r) for _, r in pre)
    if n < npre and any(not r for _, r in post):
        ctx.fail("replace-data-left-plot-without-series", f"replace_data with {n} series on a chart holding {npre} in {len(pre)} plots left a plot without any series: "
                 f"{[len(r) for _, r in post]} (plots left without series are to be removed)", case)
    if len([1 for _, r in post for _ in r]) != n and npre:
        ctx.fail("replace-data-series-count", f"replace_data with {n} series left {len([1 for _, r in post for _ in r])} c:ser elements", case)
    ctx.count("replace-population-%s" % ("grow" if sum(len(r) for _, r in pre) < n else "shrink" if sum(len(r) for _, r in pre) > n else "same"))
    if len(pre) > 1:
        ctx.count("replace-population-multi-plot")


def doc_order(rng, cs):
    """the c:ser children of one plot in another DOCUMENT order than their c:order (what 'Select Data > move up' leaves
    behind in some producers); the library reads series by c:order, so nothing it reports may depend on this"""
    done = False
    for pl in cs.xpath("//c:plotArea/*[c:ser]"):
        sers = pl.xpath("./c:ser")
        if len(sers) < 2:
            continue
        anchor = sers[-1].getnext()
        perm = rng.sample(sers, len(sers))
        for x in sers:
            pl.remove(x)
        for x in perm:
            if anchor is None:
                pl.append(x)
            else:
                anchor.addprevious(x)
        done = True
    return done


def foreign_state(ctx, rng, chart):
    """put the chart into a state other producers write and the library's own writer never does: series whose c:idx
    and c:order were permuted (re-ordered in 'Select Data'), the 1904 date system"""
    cs = chart._chartSpace
    sers = cs.xpath("//c:ser")
    what = rng.choice(["permute", "permute", "date1904", "both", "combo", "combo", "docorder", "emptyplot", "nested", "nested"])
    if what == "nested":
        # what PowerPoint writes into a series and the library never does: data labels carrying an extension list - an
        # EARLIER child of c:ser that holds, deeper down, an element named like a LATER sibling (c:extLst)
        from pptx.oxml import parse_xml
        done = 0
        for ser in sers[:2]:
            if ser.xpath("./c:dLbls"):
                continue
            later = ser.xpath("./c:trendline | ./c:errBars | ./c:cat | ./c:val | ./c:xVal | ./c:yVal | ./c:bubbleSize | ./c:bubble3D | ./c:smooth | ./c:shape | ./c:extLst")
            dl = parse_xml('<c:dLbls xmlns:c="http://schemas.openxmlformats.org/drawingml/2006/chart"><c:showLegendKey val="0"/><c:showVal val="1"/>'
                           '<c:showCatName val="0"/><c:showSerName val="0"/><c:showPercent val="0"/><c:showBubbleSize val="0"/>'
                           '<c:extLst><c:ext uri="{CE6537A1-D6FC-4f65-9D91-7224C49458BB}"><x:y xmlns:x="urn:x-foreign"/></c:ext></c:extLst></c:dLbls>')
            if later:
                later[0].addprevious(dl)
            else:
                ser.append(dl)
            done += 1
        if done:
            ctx.count("foreign-state-series-with-nested-successor-names")
        return
    if len(cs.xpath("//c:plotArea/c:barChart")) == 1 and len(sers) >= 2 and rng.random() < 0.6:
        what = "combo"      # the only charts a combination can be made of: use them
    if what == "combo":
        from harness.props.c08 import make_combo
        if make_combo(rng, chart):
            ctx.count("foreign-state-combination-chart")
            if rng.random() < 0.5 and doc_order(rng, cs):
                ctx.count("foreign-state-document-order")
            if rng.random() < 0.7:
                # the chart's highest c:order / c:idx need not sit in its LAST plot (the first series turned into the line)
                sers = cs.xpath("//c:ser")
                for tag in ("c:idx", "c:order"):
                    els = [x.xpath("./" + tag)[0] for x in sers]
                    vals = [e.get("val") for e in els]
                    k = rng.randrange(1, len(vals))
                    vals = vals[k:] + vals[:k]
                    for e, v in zip(els, vals):
                        e.set("val", v)
                ctx.count("foreign-state-combination-chart-rotated-orders")
        return
    if what == "docorder":
        if doc_order(rng, cs):
            ctx.count("foreign-state-document-order")
        return
    if what == "emptyplot":
        # a trailing plot that holds no series (valid: c:ser is minOccurs=0 in every CT_*Chart)
        from pptx.oxml import parse_xml
        bars = cs.xpath("//c:plotArea/c:barChart")
        if len(bars) == 1 and not cs.xpath("//c:plotArea/c:lineChart"):
            ax = "".join('<c:axId val="%s"/>' % a.get("val") for a in bars[0].xpath("./c:axId"))
            bars[0].addnext(parse_xml('<c:lineChart xmlns:c="http://schemas.openxmlformats.org/drawingml/2006/chart"><c:grouping val="standard"/>'
                                      '<c:varyColors val="0"/><c:marker val="1"/>%s</c:lineChart>' % ax))
            ctx.count("foreign-state-trailing-empty-plot")
        return
    if what in ("permute", "both") and len(sers) > 1:
        for tag in ("c:idx", "c:order"):
            els = [x.xpath("./" + tag)[0] for x in sers]
            vals = [e.get("val") for e in els]
            k = rng.randrange(1, len(vals))
            vals = vals[k:] + vals[:k] if rng.random() < 0.7 else rng.sample(vals, len(vals))
            if rng.random() < 0.3:
                vals = [str(int(v) * 2 + (3 if i == 0 else 0)) for i, v in enumerate(vals)]   # gaps, highest not last
            for e, v in zip(els, vals):
                e.set("val", v)
        ctx.count("foreign-state-permuted-idx-order")
    if what in ("date1904", "both"):
        d = cs.xpath("./c:date1904")
        if d:
            if rng.random() < 0.5:
                d[0].set("val", "1")
            elif "val" in d[0].attrib:
                del d[0].attrib["val"]       # the bare element: val defaults to true
            ctx.count("foreign-state-date1904")


def grow_same_object(rng, spec, cd):
    """grow `cd` (and `spec` with it) in place; False when this data cannot be grown this way"""
    if spec["kind"] == "multi":
        cands = []

        def walk(nodes, cats):
            for (lb, subs), c in zip(nodes, cats):
                if subs and all(not ss for _, ss in subs):
                    cands.append((subs, c))
                elif subs:
                    walk(subs, list(c.sub_categories))

        walk(spec["tree"], list(cd.categories))
        if not cands:
            return False
        subs, c = cands[rng.randrange(len(cands))]
        lb = "new%d" % rng.randint(0, 99)
        c.add_sub_category(lb)
        subs.append((lb, []))
        spec["cats"] = lab.leaves(spec["tree"])
    elif spec["kind"] == "str":
        lb = "more%d" % rng.randint(0, 99)
        cd.add_category(lb)
        spec["cats"] = list(spec["cats"]) + [lb]
    else:
        return False
    sd = list(cd)
    for (name, vals), ser in zip(spec["series"], sd):
        v = rng.randint(0, 99)
        ser.add_data_point(v)
        vals.append(v)
    return True


def correspond(ctx):
    from pptx import Presentation
    from pptx.dml.color import RGBColor

    rng = ctx.rng
    types = lab.writable_types()
    ctx.extra["writable_chart_types"] = len(types)
    lines, impl, metas = [], [], []
    per_type = 10 if ctx.quick else 80
    prs = Presentation()
    slide = prs.slides.add_slide(prs.slide_layouts[6])
    big_done = False
    deck = []   # [chart, the data it holds now, chart type] for every chart of the current deck

    def reopen_all():
        """the whole deck - dozens of chart parts and workbooks - saved and re-opened: every graphic frame still shows the
        chart it was given (names, categories, values), through the read API of the re-opened deck"""
        import io as _io
        if not deck:
            return
        b = _io.BytesIO(); prs.save(b)
        sl2 = Presentation(_io.BytesIO(b.getvalue())).slides[0]
        charts2 = [sh.chart for sh in sl2.shapes if getattr(sh, "has_chart", False)]
        mine = [sh.chart for sh in slide.shapes if getattr(sh, "has_chart", False)]
        for ch, spec_, ct_ in deck:
            k = next((i for i, c in enumerate(mine) if c._chartSpace is ch._chartSpace), None)
            if k is not None and k < len(charts2) and spec_ is not None:
                check_chart(ctx, charts2[k], spec_, ct_, "deck-reopened(%d charts)" % len(mine), lines, impl, metas)
        ctx.count("deck-reopen-passes")
        del deck[:]

    for ct, kind in types:
        for rep in range(per_type):
            if len(slide.shapes) > 40:
                reopen_all()
                prs = Presentation(); slide = prs.slides.add_slide(prs.slide_layouts[6])
            if kind == "cat":
                ns = None
                if "PIE" in ct.name or "DOUGHNUT" in ct.name:
                    ns = rng.choice([1, 1, 2, 3])   # the property requires at least one series for pie types
                spec, cd = lab.gen_cat_data(rng, n_series=ns, big=(not big_done and rep == 0))
                big_done = True
            else:
                spec, cd = lab.gen_xy_data(rng, bubble=(kind == "bubble"))
            case = {"chart_type": ct.name, "data": str(spec)[:600]}
            try:
                chart = slide.shapes.add_chart(ct, 0, 0, 100, 100, cd).chart
            except Exception as e:  # noqa
                ctx.fail("add-chart-raises:" + ct.name, f"{ct.name}: add_chart raised {type(e).__name__}: {str(e)[:150]}", case)
                continue
            ctx.count("type-" + kind); ctx.count("cats-" + spec["kind"])
            check_chart(ctx, chart, spec, ct, "add", lines, impl, metas)
            entry = [chart, spec, ct]; deck.append(entry)
            # replace_data sequences
            for r in range(rng.choice([0, 1, 1, 2, 3])):
                sers = [s for pl in chart.plots for s in pl.series]
                marks = []
                for s in sers[:2]:
                    try:
                        s.format.fill.solid(); s.format.fill.fore_color.rgb = RGBColor(0x12, 0x34, 0x56)
                        marks.append(s._element)
                    except Exception:  # noqa
                        pass
                if rng.random() < 0.4:
                    foreign_state(ctx, rng, chart)
                    entry[1] = None    # (a foreign series population: what the chart holds is judged by the model comparison, not re-read)
                if kind == "cat" and r == 0 and rng.random() < 0.35 and spec["series"]:
                    # the SAME chart-data object used again after it has grown (a sub-category under an existing
                    # branch, or one more category; one more value in each series)
                    if grow_same_object(rng, spec, cd):
                        try:
                            replace_and_compare(ctx, chart, cd, len(cd), {"chart_type": ct.name, "data": str(spec)[:400]}, lines, impl, metas)
                        except Exception as e:  # noqa
                            ctx.fail("replace-data-raises:" + ct.name, f"{ct.name}: replace_data with the grown chart-data object raised {type(e).__name__}: {str(e)[:150]}", {"chart_type": ct.name, "data": str(spec)[:400]})
                            break
                        ctx.count("replace_data-same-object-grown")
                        entry[1] = spec
                        check_chart(ctx, chart, spec, ct, "reuse-grown", lines, impl, metas)
                other_xml = [x for x in lab.chart_xml(chart).xpath("//c:legend | //c:title | //c:valAx/c:majorGridlines", namespaces=lab.NS)]
                if kind == "cat":
                    spec2, cd2 = lab.gen_cat_data(rng, n_series=rng.choice([1, 2, 4]))
                    if "PIE" in ct.name and not spec2["series"]:
                        continue
                else:
                    spec2, cd2 = lab.gen_xy_data(rng, bubble=(kind == "bubble"))
                had_series = sum(len(pl.series) for pl in chart.plots)
                try:
                    replace_and_compare(ctx, chart, cd2, len(cd2), {"chart_type": ct.name, "data": str(spec2)[:400]}, lines, impl, metas)
                except Exception as e:  # noqa
                    if had_series == 0 and spec2["series"]:
                        ctx.fail("replace-data-on-zero-series", f"{ct.name}: replace_data with {len(spec2['series'])} series on a chart that has no series raised {type(e).__name__}: {str(e)[:100]}", {"chart_type": ct.name})
                        break
                    ctx.fail("replace-data-raises:" + ct.name, f"{ct.name}: replace_data raised {type(e).__name__}: {str(e)[:150]}", {"chart_type": ct.name, "data": str(spec2)[:400]})
                    break
                ctx.count("replace_data")
                entry[1] = spec2
                check_chart(ctx, chart, spec2, ct, f"replace#{r + 1}", lines, impl, metas)
                survivors = [s._element for pl in chart.plots for s in pl.series]
                for el in marks:
                    if el in survivors and not el.xpath("./c:spPr/a:solidFill/a:srgbClr[@val='123456']"):
                        ctx.fail("replace-data-lost-formatting", f"{ct.name}: formatting of a surviving series was lost by replace_data", {"chart_type": ct.name})
                        break
    reopen_all()
    # names and labels that are not str are written as their str() ('%s' formatting): values that are EQUAL but print
    # differently (2020 / 2020.0, 1 / 1.0) in one process, one chart after the other and through replace_data
    from pptx.chart.data import CategoryChartData
    from pptx.enum.chart import XL_CHART_TYPE
    prs = Presentation(); slide = prs.slides.add_slide(prs.slide_layouts[6])
    for names in ([2020, 1, 0], [2020.0, 1.0, 0.0], [1.0, 2020, "2020"], [0, 0.0, 1]):
        cd = CategoryChartData(); cd.categories = ["a", "b"]
        for nm in names:
            cd.add_series(nm, [1, 2])
        spec = {"kind": "str", "cats": ["a", "b"], "depth": 1, "series": [(str(nm), [1, 2]) for nm in names]}
        chart = slide.shapes.add_chart(XL_CHART_TYPE.LINE, 0, 0, 100, 100, cd).chart
        check_chart(ctx, chart, spec, XL_CHART_TYPE.LINE, "non-str names %r" % (names,), lines, impl, metas)
        ctx.count("non-str-series-names")
    # replace_data on the PowerPoint-authored charts of the corpus: their series carry idx / order populations the
    # writer itself never produces (highest idx different from highest order, gaps, permutations)
    from harness import common as _c
    decks = [d for d in _c.corpus_decks() if d.name.startswith(("cht-", "shp-access-chart"))]
    for d in decks:
        try:
            cprs = Presentation(str(d))
        except Exception:  # noqa
            continue
        for sl in cprs.slides:
            for sh in sl.shapes:
                if not getattr(sh, "has_chart", False):
                    continue
                chart = sh.chart
                try:
                    pk = type(chart.plots[0]).__name__
                    ct = chart.chart_type
                    nser = sum(len(pl.series) for pl in chart.plots)
                except Exception:  # noqa
                    continue
                if nser == 0 or len(chart.plots) != 1:
                    continue
                if pk in ("XyPlot", "BubblePlot"):
                    spec2, cd2 = lab.gen_xy_data(rng, bubble=(pk == "BubblePlot"))
                    while len(spec2["series"]) <= nser:
                        spec2, cd2 = lab.gen_xy_data(rng, bubble=(pk == "BubblePlot"))
                else:
                    spec2, cd2 = lab.gen_cat_data(rng, n_series=(1 if "PIE" in ct.name else nser + rng.choice([1, 2])))
                try:
                    replace_and_compare(ctx, chart, cd2, len(cd2), {"deck": d.name}, lines, impl, metas)
                except Exception as e:  # noqa
                    ctx.fail("replace-data-raises:" + ct.name, f"{d.name}: replace_data on a corpus {ct.name} chart raised {type(e).__name__}: {str(e)[:150]}", {"deck": d.name})
                    continue
                ctx.count("replace_data-on-corpus-chart")
                try:
                    check_chart(ctx, chart, spec2, ct, f"corpus:{d.name}", lines, impl, metas)
                except NotImplementedError:
                    ctx.count("corpus-chart-kind-not-wrapped-by-the-library")
    res = ctx.driver.run(lines)
    for case, i, m in zip(metas, impl, res):
        ctx.traces += 1
        if i != m:
            ctx.disagree("series-population" if " " in i and ":" in i.split(" ")[0] or i == "refused" else "value-cache", case, i, m)
    if lines:
        ctx.sample({"line": lines[0], "impl": impl[0], "case": metas[0]})


def search(ctx, hints):
    return


def replay(ctx, data):
    for f in data.get("failing_inputs_on_real_code", []):
        print(f["what"][:500])
    for d in data.get("correspondence_disagreements", []):
        print("model/impl disagreement:", str(d)[:400])
    return 1
