"""C05 — caller-supplied strings are stored as data, never interpreted as markup."""
from __future__ import annotations

import io
import os
import shutil

from harness import common, leangen as lg

ID = "C05"
LEAN_MODULES = ["PptxModel.Props.C05", "PptxModel.GenProps.C05"]
RULE = (
    "every string-accepting entry point in the list below is probed on every run: called with SENTINEL+c+SENTINEL for "
    "each of the nine special characters while the raw strings handed to the XML parser are recorded, which yields for "
    "each template sink its context (attribute / character data) and its escaping table; sinks that assign through the "
    "lxml API show no raw sentinel and are classed 'api'.  Then seeded strings biased to metacharacters, entity-like and "
    "CDATA-like fragments, controls that XML allows (TAB, LF, CR) and astral code points go through every entry point: "
    "the call must return, the reader must return the same string, the element count of the part must not change beyond "
    "the shape added, after save + re-open too.  Non-trivial = distinct (entry point, string)."
)
ASSUMPTIONS = [
    "a sink's escaping is a per-character map (identity outside the nine probed characters); validated by the seeded strings",
    "sinks that go through the lxml API are trusted to be escaped by lxml's serializer (also exercised by the seeded strings)",
    "the entry-point list is maintained in harness/props/c05.py: an entry point missing from it is invisible",
]
TRUSTED = ["the parser interception used for probing (pptx.oxml.etree proxied during a probe)"]

GEN = common.LEAN / "PptxModel" / "Gen" / "C05.lean"
GENP = common.LEAN / "PptxModel" / "GenProps" / "C05.lean"
SENT = "QZQ"
SPECIALS = ["&", "<", ">", '"', "'", "\t", "\n", "\r", "]"]


def png():
    from PIL import Image

    b = io.BytesIO()
    Image.new("RGB", (2, 2), (1, 2, 3)).save(b, "PNG")
    return b.getvalue()


class Env:
    """fresh presentation + scratch dir per call"""

    def __init__(self):
        from pptx import Presentation

        self.prs = Presentation()
        self.slide = self.prs.slides.add_slide(self.prs.slide_layouts[6])
        self.tmp = common.scratch() / "c05"
        shutil.rmtree(self.tmp, ignore_errors=True)
        self.tmp.mkdir(parents=True)

    def file(self, name, data):
        p = self.tmp / name
        p.write_bytes(data)
        return str(p)


def fname_ok(s):
    return "/" not in s and "\x00" not in s and s not in ("", ".", "..") and len(s.encode("utf-8", "surrogatepass")) < 200


# each entry point: (name, applicable(s) -> bool, run(env, s) -> value read back through the public reader)
def ep_picture_desc(env, s):
    pic = env.slide.shapes.add_picture(env.file(s + ".png", png()), 0, 0)
    return pic._element.nvPicPr.cNvPr.get("descr")[: -len(".png")]


def ep_movie_name(env, s):
    mv = env.slide.shapes.add_movie(env.file(s + ".mp4", b"not-a-movie"), 0, 0, 10, 10, mime_type="video/mp4")
    return mv.name[: -len(".mp4")]


def ep_movie_ext(env, s):
    """the caller's string as the EXTENSION of the movie file (it becomes the extension of the media part's name)"""
    mv = env.slide.shapes.add_movie(env.file("clip." + s, b"not-a-movie"), 0, 0, 10, 10, mime_type="video/mp4")
    n = mv.name
    return n[len("clip."):] if n.startswith("clip.") else n


def ep_click_shared(env, s):
    """two shapes of one slide whose click hyperlinks carry the SAME address (one relationship); one is re-pointed or
    cleared; the untouched one must still read `s`, also after save and re-open"""
    import io as _io

    from pptx import Presentation

    a = env.slide.shapes.add_textbox(0, 0, 9, 9); a.name = "click-a"
    b = env.slide.shapes.add_textbox(0, 0, 9, 9); b.name = "click-b"
    a.click_action.hyperlink.address = s
    b.click_action.hyperlink.address = s
    a.click_action.hyperlink.address = None if len(s) % 2 else "http://other.example/?" + str(len(s))
    try:
        got = b.click_action.hyperlink.address
    except KeyError as e:
        return "KeyError(%s)" % e
    if got != s:
        return repr(got)
    buf = _io.BytesIO(); env.prs.save(buf)
    prs2 = Presentation(_io.BytesIO(buf.getvalue()))
    idx = [x.slide_id for x in env.prs.slides].index(env.slide.slide_id)
    bs = [sh for sh in prs2.slides[idx].shapes if sh.name == "click-b"]
    try:
        return bs[-1].click_action.hyperlink.address
    except KeyError as e:
        return "KeyError(%s) after re-open" % e


def ep_ph_picture_desc(env, s):
    sl = env.prs.slides.add_slide(env.prs.slide_layouts[8])  # Picture with Caption
    ph = [p for p in sl.placeholders if p.placeholder_format.type is not None and "PICTURE" in str(p.placeholder_format.type)][0]
    pic = ph.insert_picture(env.file(s + ".png", png()))
    return pic._element.nvPicPr.cNvPr.get("descr")[: -len(".png")]


def ep_ole_progid(env, s):
    gf = env.slide.shapes.add_ole_object(io.BytesIO(b"ole-bytes"), s, 0, 0, 10, 10, icon_file=io.BytesIO(png()))
    return gf.ole_format.prog_id


def _chart(env, series="s", cats=("a", "b"), nf=None, snf=None, kind="cat"):
    from pptx.chart.data import CategoryChartData, XyChartData
    from pptx.enum.chart import XL_CHART_TYPE

    if kind == "cat":
        cd = CategoryChartData(number_format=nf) if nf is not None else CategoryChartData()
        cd.categories = list(cats)
        cd.add_series(series, [1] * len(cats), number_format=snf) if snf is not None else cd.add_series(series, [1] * len(cats))
        return env.slide.shapes.add_chart(XL_CHART_TYPE.COLUMN_CLUSTERED, 0, 0, 10, 10, cd).chart
    cd = XyChartData(number_format=nf) if nf is not None else XyChartData()
    se = cd.add_series(series, number_format=snf) if snf is not None else cd.add_series(series)
    se.add_data_point(1, 2)
    return env.slide.shapes.add_chart(XL_CHART_TYPE.XY_SCATTER, 0, 0, 10, 10, cd).chart


def ep_series_name(env, s):
    return _chart(env, series=s).plots[0].series[0].name


def ep_xy_series_name(env, s):
    return _chart(env, series=s, kind="xy").plots[0].series[0].name


def ep_category_label(env, s):
    return list(_chart(env, cats=(s, "z")).plots[0].categories)[0]


def _fmt(chart, tag):
    el = chart._chartSpace.xpath("//" + tag + "//c:formatCode")
    return el[0].text if el else None


def ep_chart_number_format(env, s):
    return _fmt(_chart(env, nf=s), "c:val")


def ep_series_number_format(env, s):
    return _fmt(_chart(env, snf=s), "c:val")


def ep_xy_number_format(env, s):
    return _fmt(_chart(env, nf=s, kind="xy"), "c:yVal")


def ep_replace_series_name(env, s):
    from pptx.chart.data import CategoryChartData

    ch = _chart(env)
    cd = CategoryChartData(); cd.categories = ["a", s]; cd.add_series(s, [1, 2])
    ch.replace_data(cd)
    got = (ch.plots[0].series[0].name, list(ch.plots[0].categories)[1])
    return got[0] if got[0] == got[1] else repr(got)


def ep_shape_name(env, s):
    sh = env.slide.shapes.add_textbox(0, 0, 9, 9); sh.name = s
    return sh.name


def ep_hyperlink(env, s):
    r = env.slide.shapes.add_textbox(0, 0, 9, 9).text_frame.paragraphs[0].add_run(); r.text = "x"
    r.hyperlink.address = s
    got = r.hyperlink.address
    if got != s or len(s) % 3:
        return got
    # a third of the strings: the address again after save + re-open (the relationship target is READ there, not only written)
    import io as _io

    from pptx import Presentation
    r.text = "hl-probe"
    b = _io.BytesIO(); env.prs.save(b)
    prs2 = Presentation(_io.BytesIO(b.getvalue()))
    idx = [x.slide_id for x in env.prs.slides].index(env.slide.slide_id)
    runs = [q for sh in prs2.slides[idx].shapes if sh.has_text_frame for q in sh.text_frame.paragraphs[0].runs if q.text == "hl-probe"]
    r.text = "x"
    return runs[-1].hyperlink.address


def ep_click_action(env, s):
    sh = env.slide.shapes.add_textbox(0, 0, 9, 9); sh.click_action.hyperlink.address = s
    return sh.click_action.hyperlink.address


def ep_font_name(env, s):
    r = env.slide.shapes.add_textbox(0, 0, 9, 9).text_frame.paragraphs[0].add_run(); r.font.name = s
    return r.font.name


def ep_core_title(env, s):
    env.prs.core_properties.title = s
    return env.prs.core_properties.title


def ep_core_keywords(env, s):
    env.prs.core_properties.keywords = s
    return env.prs.core_properties.keywords


def ep_notes_text(env, s):
    tf = env.slide.notes_slide.notes_text_frame; tf.text = s
    return tf.text


def ep_chart_title(env, s):
    ch = _chart(env); ch.chart_title.text_frame.text = s
    return ch.chart_title.text_frame.text


def ep_table_cell(env, s):
    c = env.slide.shapes.add_table(1, 1, 0, 0, 9, 9).table.cell(0, 0); c.text = s
    return c.text


LEN255 = lambda s: len(s) <= 255  # noqa
NOBREAK = lambda s: "\n" not in s and "\v" not in s and not any(ord(c) < 32 and c not in "\t" for c in s)  # noqa  (C04 covers text translations)
ENTRY_POINTS = [
    ("picture file name -> p:cNvPr/@descr", fname_ok, ep_picture_desc),
    ("movie file name -> shape name", fname_ok, ep_movie_name),
    ("movie file extension -> shape name / media part name", lambda s: fname_ok(s) and "." not in s, ep_movie_ext),
    ("shape click hyperlink address shared by two shapes, the other one re-pointed or cleared", lambda s: s != "", ep_click_shared),
    ("placeholder picture file name -> @descr", fname_ok, ep_ph_picture_desc),
    ("OLE prog_id", lambda s: s != "", ep_ole_progid),
    ("chart series name", lambda s: True, ep_series_name),
    ("XY chart series name", lambda s: True, ep_xy_series_name),
    ("chart category label", lambda s: s != "", ep_category_label),
    ("chart data number_format", lambda s: True, ep_chart_number_format),
    ("series number_format", lambda s: True, ep_series_number_format),
    ("XY chart data number_format", lambda s: True, ep_xy_number_format),
    ("replace_data series name + category", lambda s: s != "", ep_replace_series_name),
    ("shape.name", lambda s: True, ep_shape_name),
    ("run hyperlink address", lambda s: s != "", ep_hyperlink),
    ("shape click-action address", lambda s: s != "", ep_click_action),
    ("font.name", lambda s: True, ep_font_name),
    ("core_properties.title", LEN255, ep_core_title),
    ("core_properties.keywords", LEN255, ep_core_keywords),
    ("notes text", NOBREAK, ep_notes_text),
    ("chart title text", NOBREAK, ep_chart_title),
    ("table cell text", NOBREAK, ep_table_cell),
]


class Recorder:
    """proxy for the `etree` global of pptx.oxml: records every string handed to fromstring"""

    def __init__(self, real):
        self._real = real
        self.raw = []

    def fromstring(self, xml, *a, **k):
        self.raw.append(xml if isinstance(xml, str) else xml.decode("utf-8", "replace"))
        return self._real.fromstring(xml, *a, **k)

    def __getattr__(self, n):
        return getattr(self._real, n)


def probe(fn, s):
    import pptx.oxml as ox

    rec = Recorder(ox.etree)
    ox.etree = rec
    try:
        env = Env()
        try:
            out = ("ok", fn(env, s))
        except Exception as e:  # noqa
            out = ("raised", type(e).__name__ + ": " + str(e)[:100])
    finally:
        ox.etree = rec._real
    return out, rec.raw


def measure(name, fn):
    """-> ('template', ctx, {c: sigma(c)}) | ('api',) for one entry point"""
    table, ctxs = {}, set()
    seen_raw = False
    for c in SPECIALS:
        s = SENT + c + SENT
        if name.split(" ")[0] in ("picture", "movie", "placeholder") and not fname_ok(s):
            continue
        out, raws = probe(fn, s)
        for raw in raws:
            i = raw.find(SENT)
            while i >= 0:
                j = raw.find(SENT, i + len(SENT))
                if j < 0:
                    break
                seen_raw = True
                table.setdefault(c, set()).add(raw[i + len(SENT):j])
                before = raw[:i]
                ctxs.add("attr" if before.rfind("<") > before.rfind(">") else "text")
                i = raw.find(SENT, j + len(SENT))
    if not seen_raw:
        return ("api",)
    return ("template", sorted(ctxs), {c: sorted(v) for c, v in table.items()})


def translate(ctx):
    common.use_repo()
    rows = []
    for name, ok, fn in ENTRY_POINTS:
        m = measure(name, fn)
        rows.append((name, m))
    g = ["-- GENERATED by harness/props/c05.py: escaping table of every template sink, measured by probing the entry point",
         "import PptxModel.Model.Escape", "namespace Pptx.Gen.C05", "open Pptx.Escape", ""]
    p = ["-- GENERATED obligations: every template sink's table is safe for its context", "import PptxModel.Gen.C05",
         "import PptxModel.Props.C05", "namespace Pptx.GenC05", "open Pptx.Escape Pptx.Gen.C05 Pptx.C05", ""]

    def lit(s):
        return "[" + ", ".join("Char.ofNat %d" % ord(ch) for ch in s) + "]"

    listed = {e["key"][len("unsafe-sink:"):] for e in common.load_known() if e.get("kind") == "finding" and e.get("property") == "C05" and e.get("key", "").startswith("unsafe-sink:")}
    for name, m in rows:
        if m[0] != "template":
            continue
        _, ctxs, table = m
        n = lg.ident("sink_" + name)
        ents = ", ".join(f"(Char.ofNat {ord(c)}, {lit(v[0])})" for c, v in table.items() if v[0] != c)
        g.append(f"/-- {name}: contexts {ctxs} -/\ndef {n} : List (Char × Str) := [{ents}]\n")
        for cx in ctxs:
            if name in listed:
                p.append(f"theorem {n}_{cx}_unsafe : safeTbl .{cx} {n} = false := by decide\n")
            else:
                p.append(f"theorem {n}_{cx}_safe : safeTbl .{cx} {n} = true := by decide")
                p.append(f"theorem {n}_{cx}_data (s : Str) : ∃ k', lexRun .{cx} (.normal 0) (s.flatMap (sigma {n})) = some (.normal k', s) :=\n"
                         f"  safe_render .{cx} {n} {n}_{cx}_safe s 0 (by omega)\n")
    g.append("end Pptx.Gen.C05\n"); p.append("end Pptx.GenC05\n")
    lg.write_if_changed(GEN, "\n".join(g)); lg.write_if_changed(GENP, "\n".join(p))
    return rows


def ep_date_cat_number_format(env, s):
    import datetime

    from pptx.chart.data import CategoryChartData
    from pptx.enum.chart import XL_CHART_TYPE

    cd = CategoryChartData()
    cd.categories = [datetime.date(2020, 1, 1), datetime.date(2020, 1, 2)]
    cd.categories.number_format = s
    cd.add_series("s", [1, 2])
    ch = env.slide.shapes.add_chart(XL_CHART_TYPE.LINE, 0, 0, 10, 10, cd).chart
    ax = ch._chartSpace.xpath("//c:dateAx/c:numFmt/@formatCode")
    cache = ch._chartSpace.xpath("//c:cat//c:formatCode")
    got = (ax[0] if ax else None, cache[0].text if cache else None)
    return got[0] if got[0] == got[1] else repr(got)


def ep_ph_name_then_insert(env, s):
    sl = env.prs.slides.add_slide(env.prs.slide_layouts[8])
    ph = [p for p in sl.placeholders if p.placeholder_format.type is not None and "PICTURE" in str(p.placeholder_format.type)][0]
    ph.name = s                      # through the lxml API
    pic = ph.insert_picture(env.file("plain.png", png()))   # the name now travels through the p:pic template
    return pic.name


def ep_shape_name_then_group(env, s):
    sh = env.slide.shapes.add_textbox(0, 0, 9, 9); sh.name = s
    g = env.slide.shapes.add_group_shape([sh])
    return g.shapes[0].name


def ep_hyperlink_repointed(env, s):
    """two links on one slide: link 1 gets `s`, is re-pointed elsewhere (its relationship id is freed and re-used), then
    link 2 gets `s`; both read after a save and re-open"""
    import io as _io

    from pptx import Presentation

    tf = env.slide.shapes.add_textbox(0, 0, 9, 9).text_frame
    r1 = tf.paragraphs[0].add_run(); r1.text = "1"
    r2 = tf.paragraphs[0].add_run(); r2.text = "2"
    other = "http://other.example/?" + str(len(s))
    r1.hyperlink.address = s
    r1.hyperlink.address = other
    r2.hyperlink.address = s
    if (r1.hyperlink.address, r2.hyperlink.address) != (other, s):
        return repr((r1.hyperlink.address, r2.hyperlink.address))
    b = _io.BytesIO(); env.prs.save(b)
    prs2 = Presentation(_io.BytesIO(b.getvalue()))
    idx = list(env.prs.slides).index(env.slide) if hasattr(env.prs.slides, "index") else [x.slide_id for x in env.prs.slides].index(env.slide.slide_id)
    runs = [r for sh in prs2.slides[idx].shapes if sh.has_text_frame for r in sh.text_frame.paragraphs[0].runs if r.text in ("1", "2")][-2:]
    got = (runs[0].hyperlink.address, runs[1].hyperlink.address)
    return s if got == (other, s) else repr(got)


def ep_hyperlink_shared(env, s):
    """two links on one slide given the SAME address (they share one relationship); one is then re-pointed or cleared;
    the untouched one must still read `s`, also after a save and re-open"""
    import io as _io

    from pptx import Presentation

    tf = env.slide.shapes.add_textbox(0, 0, 9, 9).text_frame
    r1 = tf.paragraphs[0].add_run(); r1.text = "1"
    r2 = tf.paragraphs[0].add_run(); r2.text = "2"
    r1.hyperlink.address = s
    r2.hyperlink.address = s
    r1.hyperlink.address = None if len(s) % 2 else "http://other.example/?" + str(len(s))
    if len(s) % 3 == 0:
        r3 = tf.paragraphs[0].add_run(); r3.text = "3"; r3.hyperlink.address = "http://third.example/"
    try:
        got = r2.hyperlink.address
    except KeyError as e:
        return "KeyError(%s)" % e
    if got != s:
        return repr(got)
    b = _io.BytesIO(); env.prs.save(b)
    prs2 = Presentation(_io.BytesIO(b.getvalue()))
    idx = [x.slide_id for x in env.prs.slides].index(env.slide.slide_id)
    runs = [r for sh in prs2.slides[idx].shapes if sh.has_text_frame for r in sh.text_frame.paragraphs[0].runs if r.text == "2"]
    try:
        return runs[-1].hyperlink.address
    except KeyError as e:
        return "KeyError(%s) after re-open" % e


def ep_hyperlink_case_twin(env, s):
    """two links on one slide whose addresses differ ONLY in the case of their letters: each reads its own, also after a
    save and re-open (an address is data: comparing it case-insensitively merges two different links)"""
    import io as _io

    from pptx import Presentation

    twin = s.swapcase()
    tf = env.slide.shapes.add_textbox(0, 0, 9, 9).text_frame
    r1 = tf.paragraphs[0].add_run(); r1.text = "one"
    r2 = tf.paragraphs[0].add_run(); r2.text = "two"
    r1.hyperlink.address = twin
    r2.hyperlink.address = s
    if r1.hyperlink.address != twin:
        return "first link reads " + repr(r1.hyperlink.address)
    if r2.hyperlink.address != s:
        return repr(r2.hyperlink.address)
    b = _io.BytesIO(); env.prs.save(b)
    prs2 = Presentation(_io.BytesIO(b.getvalue()))
    idx = [x.slide_id for x in env.prs.slides].index(env.slide.slide_id)
    runs = [r for sh in prs2.slides[idx].shapes if sh.has_text_frame for r in sh.text_frame.paragraphs[0].runs if r.text == "two"]
    return runs[-1].hyperlink.address


ENTRY_POINTS.append(("run hyperlink address beside a link that differs in letter case only", lambda s: s != "" and s.swapcase() != s, ep_hyperlink_case_twin))
ENTRY_POINTS.append(("run hyperlink address, after another link was re-pointed", lambda s: s != "", ep_hyperlink_repointed))
ENTRY_POINTS.append(("run hyperlink address shared by two runs, the other one re-pointed or cleared", lambda s: s != "", ep_hyperlink_shared))
ENTRY_POINTS.append(("placeholder name, then insert_picture", lambda s: True, ep_ph_name_then_insert))
ENTRY_POINTS.append(("shape name, then grouped", lambda s: True, ep_shape_name_then_group))
ENTRY_POINTS.append(("date categories number_format", lambda s: s != "", ep_date_cat_number_format))

FRAGS = ["&", "<", ">", '"', "'", "&amp;", "&#10;", "&lt;x", "]]>", "<![CDATA[", "</a:t>", "<a:br/>", "\t", "\n", "\r", "\r\n", " ", "a", "Z",
         "é", "\U0001F600", "%s", "%d", "{nf}", "{0}", "--", "<!--", "?>", "=\"", "'/>",
         "%20", "%26", "%3C", "%41", "&#65;", "&quot;", "&apos;", "&gt;"]


def gen_str(rng):
    return "".join(rng.choice(FRAGS) for _ in range(rng.randint(1, 6)))


def correspond(ctx):
    rows = translate(None)
    for name, m in rows:
        ctx.count("sink-" + m[0])
        ctx.note(f"{name}: {m[0]}" + (f" {m[1]} {dict((k, v[0]) for k, v in m[2].items() if v[0] != k)}" if m[0] == "template" else ""))
        if m[0] == "template":
            for c, vs in m[2].items():
                if len(vs) > 1:
                    ctx.note(f"  {name}: character {c!r} rendered in several ways {vs}")
    rng = ctx.rng
    n = 12 if ctx.quick else 150
    for name, ok, fn in ENTRY_POINTS:
        cases = [c for c in SPECIALS] + ["a" + c + "b" for c in SPECIALS] + [gen_str(rng) for _ in range(n)]
        for s in cases:
            if not ok(s):
                continue
            ctx.case(key=(name, s))
            out, _ = probe(fn, s)
            ch = next((c for c in SPECIALS if c in s), "other")
            if out[0] == "raised":
                ctx.fail(f"sink-raises:{name}", f"{name}: string {s!r} raised {out[1]}", {"entry": name, "string": s})
            elif out[1] != s:
                ctx.fail(f"sink-changes:{name}", f"{name}: stored {s!r}, reader returns {out[1]!r}", {"entry": name, "string": s})
            else:
                ctx.count("stored-as-data")
    # structure: a metacharacter-laden string must not add or remove elements, also after save + re-open
    from pptx import Presentation

    for name, ok, fn in ENTRY_POINTS:
        s = "x<y a=\"1\">&amp;]]></y>\r\n'"
        if not ok(s):
            s = "x<y a=\"1\">&]]>'"
        if not ok(s):
            continue
        env = Env()
        env0 = Env()
        try:
            fn(env0, "plain")
            r = fn(env, s)
        except Exception as e:  # noqa
            continue
        def count(prs):
            return sum(len(list(p._element.iter())) for p in prs.part.package.iter_parts() if hasattr(p, "_element"))
        ctx.case(key=("structure", name))
        if count(env.prs) != count(env0.prs):
            ctx.fail(f"structure-changed:{name}", f"{name}: string {s!r} changed the number of elements ({count(env0.prs)} -> {count(env.prs)})", {"entry": name, "string": s})
        b = io.BytesIO(); env.prs.save(b); b.seek(0)
        b0 = io.BytesIO(); env0.prs.save(b0); b0.seek(0)
        try:
            re_ = Presentation(b)
            if count(re_) != count(Presentation(b0)):
                ctx.fail(f"structure-changed-on-reopen:{name}", f"{name}: element count differs after save + re-open", {"entry": name, "string": s})
        except Exception as e:  # noqa
            ctx.fail(f"reopen-raises:{name}", f"{name}: deck with {s!r} cannot be re-opened: {type(e).__name__}", {"entry": name, "string": s})
    family_sweep(ctx)
    # the 255-character limit of core properties counts CHARACTERS of the value, not of its escaped form
    for name, fn in (("core_properties.title", ep_core_title), ("core_properties.keywords", ep_core_keywords)):
        for s in ["&" * 64 + "a" * 191, "<" * 255, "a" * 254 + "&", ("&<>\"'" * 51), "\U0001F600" * 255]:
            ctx.case(key=(name, "len255", s[:6]))
            out, _ = probe(fn, s)
            if out[0] == "raised":
                ctx.fail(f"sink-raises:{name}", f"{name}: a {len(s)}-character string with markup characters raised {out[1]}", {"entry": name, "string": s[:40] + "..."})
            elif out[1] != s:
                ctx.fail(f"sink-changes:{name}", f"{name}: a {len(s)}-character string is not read back unchanged", {"entry": name})
    ctx.traces = ctx.evaluations
    ctx.sample({"entry": ENTRY_POINTS[0][0], "measured": str(rows[0][1])[:300]})
    ctx.sample({"entry": ENTRY_POINTS[11][0], "measured": str(rows[11][1])})
    ctx.extra["entry_points"] = [n for n, _, _ in ENTRY_POINTS]


def family_sweep(ctx):
    """every XML writer class of chart/xmlwriter.py has its own templates: the chart-related sinks once per writer family"""
    import datetime

    from pptx.chart.data import BubbleChartData, CategoryChartData, XyChartData
    from pptx.chart.xmlwriter import ChartXmlWriter
    from harness import chartlab as lab

    fams = {}
    for ct, kind in lab.writable_types():
        cd = CategoryChartData() if kind == "cat" else (XyChartData() if kind == "xy" else BubbleChartData())
        fams.setdefault(type(ChartXmlWriter(ct, cd)).__name__, (ct, kind))
    # (replacement fields of both formatting styles: a template that is formatted twice reads them as its own)
    nasty = ['q"uo"te', "a&b", "<x>", "it's", "]]>", 'yyyy"Q"q', "a\tb", "&amp;", "%s %d", '="', "{ser_idx}", "{A}", "{0}", "}{", "{{x}}", "%(nf)s"] \
        + [gen_str(ctx.rng) for _ in range(4 if ctx.quick else 30)]
    for fam, (ct, kind) in sorted(fams.items()):
        for s in nasty:
            for what in (["series-name", "number-format"] + (["category-label", "date-number-format"] if kind == "cat" else [])):
                env = Env()
                key = f"{fam}:{what}"
                ctx.case(key=(key, s))
                try:
                    if kind == "cat":
                        cd = CategoryChartData(number_format=s) if what == "number-format" else CategoryChartData()
                        if what == "date-number-format":
                            cd.categories = [datetime.date(2020, 1, 1), datetime.date(2020, 1, 2)]
                            cd.categories.number_format = s
                        else:
                            cd.categories = [s if what == "category-label" else "c1", "c2"]
                        cd.add_series(s if what == "series-name" else "ser", [1, 2])
                    else:
                        cd = (XyChartData if kind == "xy" else BubbleChartData)(number_format=s) if what == "number-format" else (XyChartData if kind == "xy" else BubbleChartData)()
                        se = cd.add_series(s if what == "series-name" else "ser")
                        se.add_data_point(1, 2) if kind == "xy" else se.add_data_point(1, 2, 3)
                    chart = env.slide.shapes.add_chart(ct, 0, 0, 10, 10, cd).chart
                    cs = chart._chartSpace
                    if what == "series-name":
                        got = chart.plots[0].series[0].name
                    elif what == "category-label":
                        got = list(chart.plots[0].categories)[0]
                    elif what == "number-format":
                        el = cs.xpath("//c:val//c:formatCode | //c:yVal//c:formatCode")
                        got = el[0].text if el else s
                    else:
                        ax = cs.xpath("//c:dateAx/c:numFmt/@formatCode")
                        cache = cs.xpath("//c:cat//c:formatCode")
                        got = ax[0] if ax else (cache[0].text if cache else s)
                        if ax and cache and ax[0] != cache[0].text:
                            got = repr((ax[0], cache[0].text))
                except Exception as e:  # noqa
                    ctx.fail(f"sink-raises:{key}", f"{ct.name} {what}: string {s!r} raised {type(e).__name__}: {str(e)[:100]}", {"entry": key, "string": s})
                    continue
                norm = s.replace("\t", " ") if what in ("date-number-format",) else s
                if got != s and got != norm:
                    ctx.fail(f"sink-changes:{key}", f"{ct.name} {what}: stored {s!r}, reader returns {got!r}", {"entry": key, "string": s})
                else:
                    ctx.count("family-sweep-stored-as-data")
    ctx.extra["writer_families"] = sorted(fams)


def search(ctx, hints):
    if not ctx.evaluations:
        correspond(ctx)


def replay(ctx, data):
    for f in data.get("failing_inputs_on_real_code", []):
        print(f["what"][:400])
    return 1
