"""C03 — every XML part written is valid PresentationML / DrawingML, after any operations."""
from __future__ import annotations

import copy
import io
import random
import re
import traceback

from lxml import etree

from harness import common, oplab, schemagen, xmllab as X

ID = "C03"
LEAN_MODULES = ["PptxModel.Props.C03"]
RULE = (
    "(a) schema model vs lxml: every XML part of the default template and of every corpus deck, plus seeded XML-level "
    "mutations of them (swap / delete / duplicate / move a child, junk or deleted attribute), judged by the Lean validator "
    "over the schema tables regenerated from /repo/spec and by lxml XMLSchema (after markup-compatibility preprocessing); "
    "(b) histories on the real library: seeded sequences of public-API operations (property assignments with in-domain, "
    "None and out-of-domain values over the property table of harness/oplab.py - once systematically, every property x value "
    "class on a generated deck holding every kind of object, and then in random histories; add_slide / add_shape(every MSO_SHAPE) / "
    "textbox / picture / connector / group / freeform / table / chart(every writable type) / movie / OLE object, placeholder "
    "insert_*, adjustments, fills, backgrounds, line and font colours, text-frame / paragraph / run edits, hyperlinks and "
    "click actions, merges and splits, notes, chart titles / axis titles / data labels / fonts / formats / points, "
    "replace_data) starting from the default template and from each corpus deck; after EVERY operation every changed XML "
    "part is validated with lxml, and every few operations and at the end (also after save + re-open) by the Lean "
    "validator as well; a rejected call (TypeError / ValueError / IndexError / KeyError / NotImplementedError) must leave "
    "every part as valid as it was.  Non-trivial = distinct (deck, operation, outcome) triples."
)
ASSUMPTIONS = [
    "validity is judged against the XSDs shipped in /repo/spec (ISO/IEC 29500-4 transitional): pml, dml-main, dml-chart and "
    "what they import; parts with other roots (core properties: C18; relationships and content types: C01/C02) are out of "
    "scope here",
    "markup-compatibility preprocessing = a consumer that understands no extension namespace (mc:Fallback taken, "
    "mc:Ignorable namespaces dropped)",
    "the Lean schema model flattens content models to ordered slots with occurrence bounds; wildcard content is validated "
    "against global element declarations when one exists and is otherwise opaque; two chart types with nested groups "
    "(CT_DLbl, CT_DLbls) are over-approximated; text content and three facets on xsd:double are not modelled - lxml is the "
    "judge of the real output in every case, the model's verdict is compared with it",
    "the theorems are closure results over the edit algebra; that each library call decomposes into such edits is observed "
    "(state before / after each call), not proved",
]
TRUSTED = ["lxml XMLSchema over the shipped XSDs", "harness/schemagen.py (XSD -> schema tables, tree encoder)", "harness/oplab.py (operation generator)"]

NSC = {"c": X.CHART, "mc": "http://schemas.openxmlformats.org/markup-compatibility/2006", "a": X.DML, "p": X.PML}


def translate(ctx):
    schemagen.tables().write()


# ------------------------------------------------------------------------------------------------------------
def normalise(el):
    """plain-lxml copy, markup-compatibility preprocessed; returns (tree, notes) - notes are deviations every chart
    template of the library (and PowerPoint itself) carries and that C07 lists as known findings"""
    root = etree.fromstring(etree.tostring(el))
    root = X.mc_preprocess(root)
    return root


def lx_validate(root):
    sch = X.schema_for(root)
    if sch is None:
        return None, None
    if sch.validate(root):
        return True, None
    return False, sch.error_log.last_error


def local(tag):
    return tag.split("}")[-1] if isinstance(tag, str) else str(tag)


def find_at_line(root, err):
    """the element an lxml error refers to: by tag name taken from the message, nearest to the line"""
    m = re.search(r"Element '\{[^}]*\}([A-Za-z0-9]+)'", err.message)
    return m.group(1) if m else "?"


def classify(root, err, raw_root):
    """-> key identifying the failure (known findings are matched on it)"""
    msg = err.message
    elem = find_at_line(root, err)
    am = re.search(r"attribute '(\{[^}]*\})?([A-Za-z0-9]+)'", msg)
    if "is required but missing" in msg:
        kind = "missing-attr:" + (am.group(2) if am else "?")
    elif "This element is not expected" in msg:
        kind = "unexpected-child"
    elif "Missing child element" in msg:
        kind = "missing-child"
    elif am:
        kind = "attr-value:" + am.group(2)
    else:
        kind = "other"
    key = f"{elem}:{kind}"
    # -- specific, recorded findings
    if elem in ("axId", "crossAx") and kind.startswith("attr-value") and re.search(r"'-\d+'", msg):
        return "chart-axid-negative"
    if elem == "smooth" and raw_root.xpath("//c:radarChart/c:ser/c:smooth", namespaces=NSC):
        return "radar-ser-smooth"
    if elem == "style" and kind == "unexpected-child" and raw_root.xpath("/c:chartSpace/mc:AlternateContent//c:style", namespaces=NSC) \
            and len(raw_root.xpath("/c:chartSpace/c:style", namespaces=NSC)) == 1:
        return "chart-style-beside-alternate-content"
    if elem == "marker" and kind == "unexpected-child" and raw_root.xpath("//c:bubbleChart/c:ser/c:marker", namespaces=NSC):
        return "bubble-series-marker"
    return key


def strip_known(root):
    """remove the deviations recorded as findings so that OTHER errors in the same part stay visible;
    -> list of finding keys that applied"""
    found = []
    neg = root.xpath("//c:axId[starts-with(@val,'-')] | //c:crossAx[starts-with(@val,'-')]", namespaces=NSC)
    if neg:
        found.append("chart-axid-negative")
        for e in neg:
            e.set("val", e.get("val")[1:])
    rs = root.xpath("//c:radarChart/c:ser/c:smooth", namespaces=NSC)
    if rs:
        found.append("radar-ser-smooth")
        for e in rs:
            e.getparent().remove(e)
    bm = root.xpath("//c:bubbleChart/c:ser/c:marker", namespaces=NSC)
    if bm:
        found.append("bubble-series-marker")
        for e in bm:
            e.getparent().remove(e)
    st = root.xpath("/c:chartSpace/c:style", namespaces=NSC)
    if len(st) > 1:
        found.append("chart-style-beside-alternate-content")
        for e in st[1:]:
            e.getparent().remove(e)
    return found


FINDING_TEXT = {
    "chart-axid-negative": "negative c:axId / c:crossAx values (xsd:unsignedInt) in the chart templates, as in C07",
    "radar-ser-smooth": "c:smooth inside a radar-chart series, as in C07",
    "bubble-series-marker": "BubbleSeries inherits .marker from XySeries; using it adds c:marker to a c:bubbleChart series, which CT_BubbleSer does not allow",
    "chart-style-beside-alternate-content": "Chart.chart_style on a chart whose c:style sits inside mc:AlternateContent (every chart saved by PowerPoint 2010+) adds a second c:style: after markup-compatibility preprocessing the part has two",
}


class Watch:
    """remembers the serialisation and verdict of every XML part of a package"""

    def __init__(self, ctx, label):
        self.ctx, self.label = ctx, label
        self.seen = {}      # partname -> bytes
        self.valid = {}     # partname -> bool (after stripping recorded deviations)
        self.known = {}     # partname -> recorded deviations present so far
        self.tainted = set()

    def check(self, pkg, op, outcome, history, model_lines=None):
        """validate every part whose serialisation changed; report parts that were valid and no longer are"""
        ctx = self.ctx
        newly_bad = []
        for pn, el in X.xml_parts(pkg):
            raw = etree.tostring(el)
            if self.seen.get(pn) == raw:
                continue
            first = pn not in self.seen
            self.seen[pn] = raw
            if pn in self.tainted:
                continue
            root = normalise(el)
            if X.schema_for(root) is None:
                continue
            known = strip_known(root)
            ok, err = lx_validate(root)
            ctx.count("lxml-validations")
            was = self.valid.get(pn)
            had = self.known.get(pn, set())
            self.known[pn] = had | set(known)
            for k in known:
                if k not in had and op != "<open>" and op != "save + re-open":
                    case = {"deck": self.label, "part": pn, "operation": op, "history": history[-6:]}
                    ctx.fail(k, f"{self.label} {pn} after `{op}`: {FINDING_TEXT[k]}", case)
            if model_lines is not None:
                model_lines.append(("c03.valid 1 " + schemagen.tables().encode(root), ok, pn, op))
            if ok:
                self.valid[pn] = True
                continue
            self.valid[pn] = False
            if first and op == "<open>":
                ctx.count("baseline-invalid-part(excluded)")
                self.tainted.add(pn)
                continue
            if was is False:
                continue
            key = classify(root, err, etree.fromstring(raw))
            pre = "rejected-call:" if outcome.startswith("rejected") else ""
            case = {"deck": self.label, "part": pn, "operation": op, "outcome": outcome, "history": history[-8:], "error": err.message[:300]}
            ctx.fail(pre + key, f"{self.label} {pn}: valid before, invalid after `{op}` [{outcome}]: {err.message[:260]}", case)
            newly_bad.append(pn)
            self.tainted.add(pn)
        return newly_bad


def opname(desc):
    """stable short name of an operation for the distribution / non-triviality key"""
    d = desc.split(" = ")[0]
    d = re.sub(r"\[\d+\]|\(\d+,\d+\)", "", d)
    d = re.sub(r"^prs\.slides\.?", "", d)
    return d[-60:]


def run_history(ctx, deck, seed, nops, model_every=8):
    from pptx import Presentation

    rng = random.Random(f"c03-{seed}")
    label = deck.name if deck else "default-template"
    prs = Presentation(str(deck)) if deck else Presentation()
    if rng.random() < 0.3:
        # the same deck with optional elements / attributes removed at random (every part still schema-valid): operations
        # meet ABSENT elements where the corpus always has them
        from harness.props.c09 import build_deck
        from harness.props.c12 import thin
        b = io.BytesIO()
        (prs if (deck and rng.random() < 0.5) else build_deck()).save(b)
        td, nrem = thin(b.getvalue(), rng)
        prs = Presentation(io.BytesIO(td))
        label += f"(thinned variant, {nrem} removed)" if deck else f"generated-deck(thinned, {nrem} removed)"
        ctx.count("thinned-start-decks")
    if rng.random() < 0.3:
        # ... and with optional elements ADDED that the deck did not have (trailing extension lists, timing, transition,
        # children taken from PowerPoint-authored parts), every part still schema-valid
        from harness.props.c12 import enrich
        b = io.BytesIO()
        prs.save(b)
        ed, nadd = enrich(b.getvalue(), rng)
        prs = Presentation(io.BytesIO(ed))
        label += f"(enriched variant, {nadd} added)"
        ctx.count("enriched-start-decks")
    pkg = prs.part.package
    w = Watch(ctx, label)
    model_lines = []
    w.check(pkg, "<open>", "ok", [], model_lines)
    history = []
    for i in range(nops):
        try:
            world = oplab.discover(prs)
        except Exception as e:  # noqa
            ctx.count(f"discover-raised:{type(e).__name__}")
            break
        try:
            desc, outcome = oplab.random_op(rng, world)
        except Exception as e:  # noqa: an undocumented exception type: recorded, the parts are still checked
            tb = traceback.extract_tb(e.__traceback__)[-1]
            desc, outcome = f"<raised {type(e).__name__} at {tb.filename.split('/')[-1]}:{tb.lineno}>", "raised"
            ctx.count(f"undocumented-exception:{type(e).__name__}@{tb.filename.split('/')[-1]}:{tb.lineno}")
        history.append(desc)
        oc = outcome.split(":")[0]
        ctx.count("op-" + oc)
        if oc != "skip":
            ctx.case(key=(label, opname(desc), oc))
        ml = model_lines if (i % model_every == model_every - 1 or i == nops - 1) else None
        w.check(pkg, desc, outcome, history, ml)
    # the saved zip: what a consumer opens
    if rng.random() < 0.5:
        try:
            buf = io.BytesIO()
            prs.save(buf)
            buf.seek(0)
            prs2 = Presentation(buf)
            w2 = Watch(ctx, label + "(saved+reopened)")
            w2.valid = dict(w.valid)
            w2.tainted = set(w.tainted)
            # a part that was valid in memory must be valid as serialised
            w2.seen = {}
            for pn, el in X.xml_parts(prs2.part.package):
                if pn in w.tainted or w.valid.get(pn) is not True:
                    w2.tainted.add(pn)
            w2.check(prs2.part.package, "save + re-open", "ok", history, model_lines)
            ctx.count("save-reopen")
        except Exception as e:  # noqa
            ctx.count(f"save-raised:{type(e).__name__}")
    return model_lines


MUT_KINDS = ["swap", "del", "dup", "attr", "delattr", "move"]


_MODELLED_NS = ("http://schemas.openxmlformats.org/presentationml/2006/main", "http://schemas.openxmlformats.org/drawingml/2006/main",
                "http://schemas.openxmlformats.org/drawingml/2006/chart", "http://schemas.openxmlformats.org/drawingml/2006/chartDrawing",
                "http://schemas.openxmlformats.org/drawingml/2006/picture")


def mutate(rng, el):
    # only elements of the namespaces the schema tables cover are mutated: content admitted by a wildcard (a diagram's
    # dgm:relIds inside a:graphicData, extension payloads) is open content in the model and strict in lxml - a mutation
    # there compares nothing
    nodes = [e for e in el.iter() if isinstance(e.tag, str) and e.tag.startswith("{") and e.tag[1:].split("}")[0] in _MODELLED_NS]
    if not nodes:
        return None
    for _ in range(20):
        e = rng.choice(nodes)
        k = rng.choice(MUT_KINDS)
        kids = [c for c in e if isinstance(c.tag, str)]
        if k == "swap" and len(kids) >= 2:
            i, j = rng.sample(range(len(kids)), 2)
            a, b = kids[i], kids[j]
            if a.tag == b.tag:
                continue
            ia, ib = e.index(a), e.index(b)
            e.remove(a); e.remove(b)
            if ia < ib:
                e.insert(ia, b); e.insert(ib, a)
            else:
                e.insert(ib, a); e.insert(ia, b)
            return f"swap {local(a.tag)} {local(b.tag)} in {local(e.tag)}"
        if k == "del" and kids:
            c = rng.choice(kids)
            e.remove(c)
            return f"del {local(c.tag)} from {local(e.tag)}"
        if k == "dup" and kids:
            c = rng.choice(kids)
            c.addnext(copy.deepcopy(c))
            return f"dup {local(c.tag)} in {local(e.tag)}"
        if k == "attr" and e.attrib:
            a = rng.choice(list(e.attrib))
            v = rng.choice(["x", "-1", "99999999999999", "1.5", "true", " 5 ", "", "+7", "0x10", "50%", "FFFFFF", "0", "1e3", "-0", "٣"])
            e.set(a, v)
            return f"attr {local(e.tag)}@{local(a)}={v!r}"
        if k == "delattr" and e.attrib:
            a = rng.choice(list(e.attrib))
            del e.attrib[a]
            return f"delattr {local(e.tag)}@{local(a)}"
        if k == "move" and kids and len(nodes) > 2:
            c = rng.choice(kids)
            tgt = rng.choice(nodes)
            if tgt is c or c in list(tgt.iterancestors()) or tgt in list(c.iterdescendants()):
                continue
            e.remove(c)
            tgt.append(c)
            return f"move {local(c.tag)} to {local(tgt.tag)}"
    return None


def schema_model_tie(ctx, n_mut):
    """(a): the Lean validator over the regenerated tables against lxml, on real parts and on seeded mutations"""
    from pptx import Presentation

    T = schemagen.tables()
    rng = ctx.rng
    lines, meta = [], []
    decks = [None] + common.corpus_decks()
    pool = []
    for d in decks:
        try:
            prs = Presentation(str(d)) if d else Presentation()
        except Exception:  # noqa
            continue
        for pn, el in X.xml_parts(prs.part.package):
            root = normalise(el)
            if X.schema_for(root) is None:
                continue
            strip_known(root)
            pool.append((d.name if d else "default-template", pn, root))
    for name, pn, root in pool:
        ok, err = lx_validate(root)
        lines.append("c03.valid 1 " + T.encode(root))
        meta.append({"deck": name, "part": pn, "mutation": None, "lxml": ok, "lxml_error": err.message[:200] if err else None})
    for _ in range(n_mut):
        name, pn, root = rng.choice(pool)
        r2 = copy.deepcopy(root)
        m = mutate(rng, r2)
        if m is None:
            continue
        ok, err = lx_validate(r2)
        lines.append("c03.valid 1 " + T.encode(r2))
        meta.append({"deck": name, "part": pn, "mutation": m, "lxml": ok, "lxml_error": err.message[:200] if err else None})
        ctx.count("mutation-" + m.split(" ")[0])
    res = ctx.driver.run(lines)
    for m, r in zip(meta, res):
        ctx.traces += 1
        ctx.case(key=("tie", m["deck"], m["part"], m["mutation"]))
        model_ok = r == "ok"
        ctx.count(f"tie:lxml={'valid' if m['lxml'] else 'invalid'},model={'valid' if model_ok else 'invalid'}")
        if model_ok == m["lxml"]:
            continue
        mut_target = (m["mutation"] or "").split(" ")[-1]
        if m["lxml"] is False and ("wildcard" in (m["lxml_error"] or "") or "{*}*" in (m["lxml_error"] or "")
                                   or mut_target in ("ext", "graphicData")):
            # xsd:any with namespace="##other" / processContents="strict": which foreign children a wildcard admits is
            # not modelled (the model treats wildcard content as open)
            ctx.count("tie:wildcard-strictness-not-modelled")
            continue
        ctx.disagree("schema-model", m, "valid" if m["lxml"] else "invalid: " + (m["lxml_error"] or ""), r[:300])
    ctx.extra["schema_tables"] = {"complex_types": len(T.ctypes), "simple_types": len(T.st_id), "element_tags": len(T.tag_id),
                                  "attribute_names": len(T.attr_id), "notes": {k: sorted(v) if isinstance(v, set) else v for k, v in T.notes.items()}}
    if lines:
        ctx.sample({"tie": meta[0], "model": res[0]})
        ctx.sample({"tie": meta[-1], "model": res[-1][:200]})


def probe_geometry(ctx):
    """the string templates behind add_* write geometry without range checks"""
    from pptx import Presentation
    from pptx.enum.shapes import MSO_CONNECTOR, MSO_SHAPE

    big = 27273042316901   # one above ST_PositiveCoordinate / ST_Coordinate
    m = oplab.media()
    calls = {
        "add_shape": lambda sh: sh.add_shape(MSO_SHAPE.RECTANGLE, 0, 0, big, 1),
        "add_textbox": lambda sh: sh.add_textbox(0, 0, 1, big),
        "add_picture": lambda sh: sh.add_picture(m["images"][0], 0, 0, big, 1),
        "add_connector": lambda sh: sh.add_connector(MSO_CONNECTOR.STRAIGHT, 0, 0, big, 1),
        "add_table": lambda sh: sh.add_table(1, 1, big, 0, 10, 10),
        "add_movie": lambda sh: sh.add_movie(m["movie"], 0, 0, big, 1),
    }
    for name, fn in calls.items():
        prs = Presentation()
        slide = prs.slides.add_slide(prs.slide_layouts[6])
        try:
            fn(slide.shapes)
        except oplab.REJECT:
            ctx.count("geometry-probe-rejected:" + name)
            continue
        ok, err = lx_validate(normalise(slide._element))
        ctx.case(key=("geometry-probe", name))
        if ok is False:
            ctx.fail("add-geometry-out-of-range:" + name, f"{name} with a coordinate of {big} EMU (one above the schema maximum) writes it unchecked: {err.message[:160]}",
                     {"call": name, "value": big})


def sweep(ctx, reps):
    """systematic part: every property of the table x every kind of object in a deck that holds them all x
    {in-domain, None, out-of-domain}: each assignment followed by validation of the changed parts"""
    from harness.props.c09 import build_deck

    rng = ctx.rng
    table = oplab.prop_table()
    for rep in range(reps):
        prs = build_deck()
        w = Watch(ctx, f"generated-deck#{rep}")
        w.check(prs.part.package, "<open>", "ok", [])
        world = oplab.discover(prs)
        history = []
        shuffled = list(table)
        rng.shuffle(shuffled)
        # three passes so that every PAIR of properties of one object is assigned in both orders (a setter that is right
        # on a fresh element may be wrong after its sibling has been set): table order with every value class, then
        # reverse and shuffled order with in-domain values
        passes = [(p, ("bad", "in", "none", "bad")) for p in table] + [(p, ("in",)) for p in reversed(table)] + [(p, ("in", "in")) for p in shuffled]
        for p, classes in passes:
            objs = world.objs.get(p.kind, [])
            if not objs:
                ctx.count("sweep-no-object:" + p.kind)
                continue
            for cls in classes:
                if cls == "none" and not p.none_ok:
                    continue
                obj, path = rng.choice(objs)
                v = None if cls == "none" else (p.bad(rng) if cls == "bad" else p.gen(rng))
                desc = f"{path}.{p.name} = {v!r}"[:200]
                try:
                    setattr(obj, p.name, v)
                    outcome = "ok:" + cls
                except oplab.REJECT as e:
                    outcome = f"rejected:{type(e).__name__}:{cls}"
                except Exception as e:  # noqa
                    outcome = "raised"
                    ctx.count(f"undocumented-exception:{type(e).__name__}@{p.kind}.{p.name}")
                history.append(desc)
                ctx.count("sweep-" + outcome.split(":")[0] + "-" + cls)
                ctx.case(key=("sweep", p.kind, p.name, cls, outcome.split(":")[0]))
                w.check(prs.part.package, desc, outcome, history)


def method_sweep(ctx, reps):
    """every structural operation of the table, several times each, on a generated deck ENRICHED with the optional
    elements other producers write (trailing extension lists, p:timing, p:transition, ... on every slide): hand-written
    insertion code meets siblings the library itself never writes"""
    from pptx import Presentation
    from harness.props.c09 import build_deck
    from harness.props.c12 import enrich

    rng = ctx.rng
    for rep in range(reps):
        b = io.BytesIO(); build_deck().save(b)
        ed, nadd = enrich(b.getvalue(), rng, per_part=60)
        prs = Presentation(io.BytesIO(ed))
        w = Watch(ctx, f"generated-deck(enriched, {nadd} added)#{rep}")
        w.check(prs.part.package, "<open>", "ok", [])
        history = []
        fns = [f for f, _ in oplab.METHODS]
        rng.shuffle(fns)
        for fn in fns:
            for _k in range(3):
                try:
                    world = oplab.discover(prs)
                except Exception as e:  # noqa
                    ctx.count(f"discover-raised:{type(e).__name__}")
                    break
                try:
                    desc, outcome = fn(rng, world), "ok"
                except oplab.Skip:
                    continue
                except oplab.REJECT as e:
                    desc, outcome = fn.__name__, f"rejected:{type(e).__name__}"
                except Exception as e:  # noqa
                    tb = traceback.extract_tb(e.__traceback__)[-1]
                    desc, outcome = f"<{fn.__name__} raised {type(e).__name__} at {tb.filename.split('/')[-1]}:{tb.lineno}>", "raised"
                    ctx.count(f"undocumented-exception:{type(e).__name__}@{tb.filename.split('/')[-1]}:{tb.lineno}")
                history.append(desc)
                ctx.count("method-sweep-" + outcome.split(":")[0])
                ctx.case(key=("method-sweep", fn.__name__, outcome.split(":")[0], rep))
                w.check(prs.part.package, desc, outcome, history)


def perm_families():
    """(name, locate(prs) -> (object, element to restore), ops): structural operations on ONE element; every ordered
    selection of three of them is run from the same start state (order-dependent insertion: `c:txPr` re-created after
    `c:dLblPos` was added, `a:lnSpc` after `a:spcBef`, ...)"""
    from pptx.dml.color import RGBColor
    from pptx.enum.chart import XL_LABEL_POSITION, XL_TICK_LABEL_POSITION, XL_TICK_MARK
    from pptx.enum.dml import MSO_LINE
    from pptx.enum.shapes import MSO_SHAPE
    from pptx.enum.text import MSO_ANCHOR, MSO_AUTO_SIZE, PP_ALIGN
    from pptx.util import Pt

    def _inject_custgeom(pic):
        from pptx.oxml import parse_xml
        spPr = pic._element.spPr
        for g in spPr.xpath("./a:prstGeom | ./a:custGeom"):
            anchor = g.getnext(); spPr.remove(g)
        cg = parse_xml('<a:custGeom xmlns:a="http://schemas.openxmlformats.org/drawingml/2006/main"><a:avLst/><a:gdLst/><a:ahLst/><a:cxnLst/>'
                       '<a:rect l="0" t="0" r="r" b="b"/><a:pathLst><a:path w="10" h="10"><a:moveTo><a:pt x="0" y="0"/></a:moveTo>'
                       '<a:lnTo><a:pt x="10" y="10"/></a:lnTo><a:close/></a:path></a:pathLst></a:custGeom>')
        x = spPr.xpath("./a:xfrm")
        if x:
            x[0].addnext(cg)
        else:
            spPr.insert(0, cg)

    A_ = "http://schemas.openxmlformats.org/drawingml/2006/main"

    def _inject_path(sh):
        from pptx.oxml import parse_xml
        for g in sh._element.spPr.xpath("./a:gradFill"):
            for l in g.xpath("./a:lin | ./a:path"):
                g.remove(l)
            pth = parse_xml('<a:path xmlns:a="%s" path="circle"><a:fillToRect l="50000" t="50000" r="50000" b="50000"/></a:path>' % A_)
            gs = g.xpath("./a:gsLst")
            (gs[0].addnext(pth) if gs else g.insert(0, pth))

    def _drop_lin(sh):
        for l in sh._element.spPr.xpath("./a:gradFill/a:lin"):
            l.getparent().remove(l)

    def _inject_custdash(sh):
        from pptx.oxml import parse_xml
        for ln in sh._element.spPr.xpath("./a:ln"):
            for d in ln.xpath("./a:prstDash | ./a:custDash"):
                ln.remove(d)
            cd = parse_xml('<a:custDash xmlns:a="%s"><a:ds d="300000" sp="100000"/></a:custDash>' % A_)
            fills_ = ln.xpath("./a:noFill | ./a:solidFill | ./a:gradFill | ./a:pattFill")
            (fills_[-1].addnext(cd) if fills_ else ln.insert(0, cd))

    def chart(prs, i=0):
        return [sh for sh in prs.slides[2].shapes if getattr(sh, "has_chart", False)][i].chart

    def shape(prs):
        return prs.slides[1].shapes[0]

    def table(prs):
        return [sh for sh in prs.slides[1].shapes if getattr(sh, "has_table", False)][0].table

    def set_(name, v):
        def f(o):
            x = o
            parts = name.split(".")
            for a in parts[:-1]:
                x = getattr(x, a)
            setattr(x, parts[-1], v)
        return (f"{name}={v!r}"[:60], f)

    def call(name):
        def f(o):
            x = o
            for a in name.split("."):
                x = getattr(x, a)
            if callable(x):
                x()
        return (name, f)

    def pt_loc(prs):
        ser = chart(prs).plots[0].series[0]
        return ser.points[1], ser._element
    fams = [
        ("point / data label", pt_loc, [
            call("data_label.text_frame"), set_("data_label.has_text_frame", True), set_("data_label.has_text_frame", False),
            set_("data_label.position", XL_LABEL_POSITION.OUTSIDE_END), set_("data_label.position", None), set_("data_label.font.bold", True),
            call("format.fill.solid"), set_("format.line.width", 12700)]),
        ("plot data labels", lambda prs: ((lambda pl: (pl.data_labels, pl._element))(chart(prs, 1).plots[0])), [
            set_("font.bold", True), set_("number_format", "0.0"), set_("number_format_is_linked", False), set_("number_format_is_linked", True),
            set_("position", XL_LABEL_POSITION.ABOVE), set_("position", None), set_("show_value", True), set_("show_percentage", True),
            set_("show_legend_key", False), set_("show_series_name", True), set_("show_category_name", False)]),
        ("value axis", lambda prs: ((lambda a: (a, a._element))(chart(prs).value_axis)), [
            set_("has_title", True), set_("has_title", False), set_("axis_title.text_frame.text", "t"), set_("has_major_gridlines", True),
            set_("has_minor_gridlines", True), set_("has_major_gridlines", False), set_("major_unit", 2.0), set_("minor_unit", 0.5),
            set_("maximum_scale", 9.0), set_("minimum_scale", None), set_("tick_labels.font.size", Pt(9)), set_("tick_labels.number_format", "0"),
            set_("tick_labels.offset", 40) if False else set_("major_tick_mark", XL_TICK_MARK.CROSS), set_("minor_tick_mark", XL_TICK_MARK.INSIDE),
            set_("tick_label_position", XL_TICK_LABEL_POSITION.HIGH), set_("format.line.width", 12700), set_("visible", False), set_("reverse_order", True)]),
        ("paragraph", lambda prs: ((lambda p_: (p_, p_._p))(shape(prs).text_frame.paragraphs[0])), [
            set_("alignment", PP_ALIGN.CENTER), set_("level", 2), set_("line_spacing", 1.5), set_("line_spacing", Pt(14)), set_("line_spacing", None),
            set_("space_before", Pt(3)), set_("space_after", Pt(4)), set_("space_before", None), set_("font.size", Pt(11)), call("add_line_break"),
            call("add_run"), set_("font.bold", True)]),
        ("run", lambda prs: ((lambda r: (r, r._r))(shape(prs).text_frame.paragraphs[0].runs[0])), [
            set_("font.size", Pt(10)), set_("font.bold", True), set_("font.color.rgb", RGBColor(1, 2, 3)), call("font.fill.gradient"), set_("font.name", "Arial"),
            set_("hyperlink.address", "http://a.b/"), set_("hyperlink.address", None), set_("font.language_id", None), set_("font.underline", True),
            call("font.fill.background"), set_("font.name", None)]),
        ("text frame", lambda prs: ((lambda tf: (tf, tf._txBody.bodyPr))(shape(prs).text_frame)), [
            set_("auto_size", MSO_AUTO_SIZE.TEXT_TO_FIT_SHAPE), set_("auto_size", MSO_AUTO_SIZE.NONE), set_("auto_size", None), set_("word_wrap", True),
            set_("margin_left", 0), set_("vertical_anchor", MSO_ANCHOR.MIDDLE), set_("word_wrap", None)]),
        ("table cell", lambda prs: ((lambda c: (c, c._tc))(table(prs).cell(1, 1))), [
            set_("margin_left", 0), set_("margin_top", None), set_("vertical_anchor", MSO_ANCHOR.BOTTOM), call("fill.solid"), call("fill.background"),
            set_("text", "x\ny"), set_("vertical_anchor", None)]),
        ("picture geometry", lambda prs: ((lambda pc: (pc, pc._element.spPr))([sh for sh in prs.slides[1].shapes if sh.shape_type is not None and type(sh).__name__ == "Picture"][0])), [
            ("inject a:custGeom (a picture cropped to a freeform, as PowerPoint writes it)", _inject_custgeom),
            set_("auto_shape_type", MSO_SHAPE.OVAL), set_("auto_shape_type", MSO_SHAPE.RECTANGLE), set_("crop_left", 0.1), set_("crop_bottom", 0.0),
            set_("line.width", 12700), call("line.fill.solid"), set_("rotation", 15.0)]),
        ("gradient shading (states other producers write)", lambda prs: ((lambda sh: (sh, sh._element.spPr))(shape(prs))), [
            call("fill.gradient"), ("replace a:lin by a:path (a radial gradient, as PowerPoint writes it)", _inject_path), ("remove a:lin (shading inherited)", _drop_lin),
            set_("fill.gradient_angle", 45.0), set_("fill.gradient_angle", 0)]),
        ("line dash (states other producers write)", lambda prs: ((lambda sh: (sh, sh._element.spPr))(shape(prs))), [
            set_("line.width", 12700), ("inject a:custDash into a:ln", _inject_custdash), set_("line.dash_style", MSO_LINE.DASH), set_("line.dash_style", None),
            call("line.fill.solid")]),
        ("shape properties", lambda prs: ((lambda sh: (sh, sh._element.spPr))(shape(prs))), [
            call("fill.solid"), call("fill.gradient"), call("fill.background"), set_("line.width", 12700), set_("line.color.rgb", RGBColor(9, 9, 9)),
            call("line.fill.background"), set_("shadow.inherit", False), set_("shadow.inherit", True), set_("rotation", 30.0), set_("left", 5),
            set_("line.dash_style", None)]),
    ]
    return fams


def perm_sweep(ctx, cap):
    """every ordered selection of three structural operations on one element (all of them up to `cap` per family, a seeded
    sample beyond), each from the same start state, the changed part validated after every step"""
    import copy
    import itertools

    from harness.props.c09 import build_deck

    rng = ctx.rng
    prs = build_deck()
    w = Watch(ctx, "generated-deck(permutations)")
    w.check(prs.part.package, "<open>", "ok", [])
    for name, locate, ops in perm_families():
        try:
            _, el0 = locate(prs)
        except Exception as e:  # noqa
            ctx.count(f"perm-family-unavailable:{name}:{type(e).__name__}")
            continue
        start = copy.deepcopy(el0)
        seqs = list(itertools.permutations(range(len(ops)), 3)) + list(itertools.permutations(range(len(ops)), 2))
        if len(seqs) > cap:
            seqs = rng.sample(seqs, cap)
        for seq in seqs:
            obj, el = locate(prs)
            fresh = copy.deepcopy(start)
            el.getparent().replace(el, fresh)
            w.check(prs.part.package, f"<restore {name}>", "ok", [])
            history = []
            for i in seq:
                obj, _ = locate(prs)
                lab_, f = ops[i]
                try:
                    f(obj)
                    outcome = "ok"
                except oplab.REJECT as e:
                    outcome = f"rejected:{type(e).__name__}"
                except Exception as e:  # noqa
                    tb = traceback.extract_tb(e.__traceback__)[-1]
                    outcome = "raised"
                    ctx.count(f"undocumented-exception:{type(e).__name__}@{tb.filename.split('/')[-1]}:{tb.lineno}")
                history.append(f"{name}: {lab_}")
                ctx.count("perm-sweep-" + outcome.split(":")[0])
                ctx.case(key=("perm", name, seq[: len(history)]))
                if w.check(prs.part.package, history[-1], outcome, history):
                    # the part is now recorded as invalid: restore it and let the next sequence be judged again
                    for pn in list(w.tainted):
                        w.tainted.discard(pn); w.valid[pn] = True
                    break


def merge_texts(ctx):
    """every combination of cell bodies (empty, one empty paragraph more, text, several paragraphs, only line breaks) in
    the origin and in a spanned cell of a merge, horizontally and vertically, followed by a split: the part validated
    after each call (a body must keep at least one a:p whatever was moved out of or into it)"""
    from pptx import Presentation

    texts = ["", "\n", "\n\n", "a", "a\nb", "\v", "a\n"]
    prs = Presentation()
    slide = prs.slides.add_slide(prs.slide_layouts[6])
    w = Watch(ctx, "generated-deck(merge texts)")
    w.check(prs.part.package, "<open>", "ok", [])
    for t0 in texts:
        for t1 in texts:
            for r2, c2 in ((0, 1), (1, 0), (1, 1)):
                tbl = slide.shapes.add_table(2, 2, 0, 0, 1000, 1000).table
                tbl.cell(0, 0).text = t0
                tbl.cell(r2, c2).text = t1
                hist = [f"cell(0,0).text={t0!r}", f"cell({r2},{c2}).text={t1!r}"]
                for desc, fn in ((f"merge (0,0)-({r2},{c2})", lambda: tbl.cell(0, 0).merge(tbl.cell(r2, c2))), ("split", lambda: tbl.cell(0, 0).split())):
                    try:
                        fn(); outcome = "ok"
                    except oplab.REJECT as e:
                        outcome = f"rejected:{type(e).__name__}"
                    hist.append(desc)
                    ctx.case(key=("merge-texts", t0, t1, r2, c2, desc.split(" ")[0]))
                    if w.check(prs.part.package, desc, outcome, hist):
                        for pn in list(w.tainted):
                            w.tainted.discard(pn); w.valid[pn] = True
                sp = slide.shapes._spTree
                sp.remove(sp[-1])
                w.check(prs.part.package, "<table removed>", "ok", [])
    ctx.count("merge-text-combinations", len(texts) ** 2 * 3)


def histories(ctx, n_seq, nops):
    decks = [None, None] + common.corpus_decks()
    lines = []
    for s in range(n_seq):
        seed = f"{ctx.seed}-{s}"
        deck = decks[random.Random(seed).randrange(len(decks))]
        try:
            lines += run_history(ctx, deck, seed, nops)
        except Exception as e:  # noqa
            ctx.count(f"history-aborted:{type(e).__name__}")
            ctx.note(f"history {seed} aborted: {type(e).__name__}: {str(e)[:120]}")
    # the model's verdict on the states the real library produced
    res = ctx.driver.run([l[0] for l in lines])
    for (line, lx_ok, pn, op), r in zip(lines, res):
        ctx.traces += 1
        model_ok = r == "ok"
        ctx.count(f"history-states:lxml={'valid' if lx_ok else 'invalid'},model={'valid' if model_ok else 'invalid'}")
        if model_ok != lx_ok:
            ctx.disagree("schema-model-on-history-state", {"part": pn, "after": op}, "valid" if lx_ok else "invalid", r[:300])


def correspond(ctx):
    translate(ctx)
    schema_model_tie(ctx, 500 if ctx.quick else 6000)
    probe_geometry(ctx)
    sweep(ctx, 2 if ctx.quick else 12)
    method_sweep(ctx, 3 if ctx.quick else 20)
    perm_sweep(ctx, 400 if ctx.quick else 10**6)
    merge_texts(ctx)
    histories(ctx, 120 if ctx.quick else 1500, 25 if ctx.quick else 40)


def search(ctx, hints):
    probe_geometry(ctx)
    sweep(ctx, 6)
    method_sweep(ctx, 8)
    perm_sweep(ctx, 10**6)
    histories(ctx, 300 if ctx.quick else 2500, 30)


def replay(ctx, data):
    for f in data.get("failing_inputs_on_real_code", []):
        print(f["what"][:600])
        print("   history:", f.get("case", {}).get("history"))
    for d in data.get("correspondence_disagreements", []):
        print("model/impl disagreement:", str(d)[:500])
    return 1
