"""C02 — every saved file is a closed, self-consistent package, after any history."""
from __future__ import annotations

import hashlib
import io
import random
import re
import zipfile

from lxml import etree

from harness import common
from harness.common import enc
from harness.props import c01

ID = "C02"
LEAN_MODULES = ["PptxModel.Props.C02", "PptxModel.Props.C02P"]
RULE = (
    "seeded histories of 4..30 public-API operations (add slide from any layout, text box / auto shape / picture from a "
    "small image pool / movie with poster / category and XY chart / replace_data / OLE object / group, notes-slide access, "
    "run hyperlink set-repoint-clear from a small URL pool, shape click-action to URL or slide jump and clear, removal of "
    "an unused layout, core-properties access and edit, read traversals, calls rejected with ValueError/IndexError, save at "
    "seeded prefixes and at the end) over the default template and over decks whose slide part names are non-contiguous "
    "and out of presentation order.  After EVERY operation the package graph (parts, content types, relationships, r:* "
    "references of every XML part) is snapshotted and the step's delta is checked well-formed by the Lean model; at every "
    "save the zip is judged by the closure predicates and re-opened and compared (slides, shapes, text, picture hashes, "
    "chart types/values/categories) with the in-memory presentation.  For add_slide, add_picture, add_chart, add_ole_object and "
    "slide.notes_slide the graph after the call is PREDICTED by the model from the graph before it and compared part by part.  Start "
    "decks of every kind (scrambled slide names, a slide kept by a jump only, foreign parts with relationships, odd part names, "
    "root-absolute targets) are forced once per run; the two states a proof excludes (a fixed part name already taken) are run on "
    "the real library.  Non-trivial = distinct history."
)
ASSUMPTIONS = [
    "the XML content of a part is abstracted to the multiset of its r:* attribute values",
    "a history is tied to the model through its observed deltas (parts/relationships/references added, dropped, renamed), "
    "not through a per-operation prediction",
]
TRUSTED = ["snapshot/delta extraction in harness/props/c02.py"]

R_NS = "http://schemas.openxmlformats.org/officeDocument/2006/relationships"
P_NS = "http://schemas.openxmlformats.org/presentationml/2006/main"
RT_OFFICE_DOC = "http://schemas.openxmlformats.org/officeDocument/2006/relationships/officeDocument"


def _img(i):
    from PIL import Image

    b = io.BytesIO()
    # every image format the library registers a part class for
    Image.new("RGB", (3 + i, 2 + i), (40 * i % 256, 200, 10 * i % 256)).save(b, ["JPEG", "PNG", "GIF", "BMP", "TIFF", "PNG"][i % 6])
    return b.getvalue()


IMGS = None


def imgs():
    global IMGS
    if IMGS is None:
        IMGS = [_img(i) for i in range(6)]
    return IMGS


# ------------------------------------------------------------------------------------------ snapshots


def snapshot(prs):
    """package graph: {part id: (name, content_type, {rId: ('i', target part id) | ('x', url)}, sorted r:* refs)}; 0 = package"""
    pkg = prs.part.package
    parts = list(pkg.iter_parts())
    pid = {id(p): i + 1 for i, p in enumerate(parts)}
    out = {0: ("/", "", _rels_of(pkg._rels, pid), [])}
    for p in parts:
        refs = []
        el = getattr(p, "_element", None)
        if el is not None:
            # r:id="" (PowerPoint's convention on the a:hlinkClick of a media shape) names no relationship
            refs = sorted(str(v) for v in el.xpath("//@*[namespace-uri()='%s']" % R_NS) if str(v) != "")
        out[id(p)] = (str(p.partname), p.content_type, _rels_of(p.rels, pid, raw=True), refs)
    return out, {id(p): p for p in parts}


def _rels_of(rels, pid, raw=False):
    d = {}
    for rid, r in rels.items():
        d[rid] = ("x", r._target if isinstance(r._target, str) else str(r._target)) if r.is_external else ("i", id(r._target))
    return d


def deltas(a, b):
    """primitive deltas from snapshot a to snapshot b, in an order that is well-formed when the step was"""
    out = []
    ren = [(k, b[k][0]) for k in a if k in b and a[k][0] != b[k][0]]
    if ren:
        # simultaneous: slide parts are renumbered in one go - and BEFORE a part is added in the same call
        # (Presentation.slides renames on first access, then add_slide names the new part)
        out.append(("rename", ren))
    for k, (name, ct, rels, refs) in b.items():
        if k not in a:
            out.append(("addPart", k, name))
    for k, (name, ct, rels, refs) in b.items():
        old_rels = a[k][2] if k in a else {}
        for rid, tgt in rels.items():
            if rid not in old_rels:
                out.append(("addRel", k, rid, tgt))
            elif old_rels[rid] != tgt:
                out.append(("retarget", k, rid, tgt))
    for k, (name, ct, rels, refs) in b.items():
        old_refs = list(a[k][3]) if k in a else []
        new_refs = list(refs)
        for r in list(new_refs):
            if r in old_refs:
                old_refs.remove(r); new_refs.remove(r)
        for r in new_refs:
            out.append(("addRef", k, r))
        for r in old_refs:
            out.append(("dropRef", k, r))
    for k, (name, ct, rels, refs) in b.items():
        old_rels = a[k][2] if k in a else {}
        for rid in old_rels:
            if rid not in rels:
                out.append(("dropRel", k, rid))
    gone = [k for k in a if k not in b]
    if gone:
        out.append(("dropParts", gone))   # parts that became unreachable leave the package together
    return out


class Ids:
    def __init__(self):
        self.m = {0: 0}

    def __call__(self, k):
        return self.m.setdefault(k, len(self.m))


def enc_snapshot(s, ids):
    items = []
    for k, (name, ct, rels, refs) in s.items():
        rl = ",".join(f"{enc(rid)}:{('i%d' % ids(t[1])) if t[0] == 'i' else 'x'}" for rid, t in rels.items()) or "!"
        rf = ",".join(enc(r) for r in refs) or "!"
        items.append(f"{ids(k)}/{enc(name)}/{rl}/{rf}")
    return ";".join(items)


def enc_deltas(ds, ids):
    out = []
    for d in ds:
        if d[0] == "addPart":
            out.append(f"P{ids(d[1])}:{enc(d[2])}")
        elif d[0] == "rename":
            out.append("N" + "+".join(f"{ids(k)}={enc(n)}" for k, n in d[1]))
        elif d[0] in ("addRel", "retarget"):
            t = d[3]
            out.append(f"{'R' if d[0] == 'addRel' else 'T'}{ids(d[1])}:{enc(d[2])}:{('i%d' % ids(t[1])) if t[0] == 'i' else 'x'}")
        elif d[0] == "addRef":
            out.append(f"F{ids(d[1])}:{enc(d[2])}")
        elif d[0] == "dropRef":
            out.append(f"f{ids(d[1])}:{enc(d[2])}")
        elif d[0] == "dropRel":
            out.append(f"r{ids(d[1])}:{enc(d[2])}")
        elif d[0] == "dropParts":
            out.append("p" + ".".join(str(ids(k)) for k in d[1]))
    return ",".join(out) or "!"


# ------------------------------------------------------------------------------------------ observable content


def content(prs):
    """what a reader sees: per slide, per shape (type, name, text, picture sha1, chart data)"""
    out = []
    for s in prs.slides:
        shapes = []
        for sh in s.shapes:
            rec = [type(sh).__name__, sh.shape_id, sh.name]
            if sh.has_text_frame:
                rec.append(sh.text_frame.text)
                links = []
                for p in sh.text_frame.paragraphs:
                    for r in p.runs:
                        links.append(r.hyperlink.address)
                rec.append(links)
            if hasattr(sh, "image"):
                try:
                    rec.append(hashlib.sha1(sh.image.blob).hexdigest())
                except Exception as e:  # noqa
                    rec.append("image-error:" + type(e).__name__)
            if getattr(sh, "has_chart", False):
                ch = sh.chart
                rec.append((str(ch.chart_type), [(list(pl.categories), [(se.name, list(se.values)) for se in pl.series]) for pl in ch.plots]))
            try:
                ca = sh.click_action
                ts = ca.target_slide
                # for a jump to a slide the "address" is the target part's file name, which renumbering may change;
                # what the reader sees is WHICH slide is the target
                rec.append((ca.hyperlink.address if ts is None else None, ts.slide_id if ts is not None else None))
            except Exception:  # noqa
                pass
            shapes.append(rec)
        notes = s.notes_slide.notes_text_frame.text if s.has_notes_slide and s.notes_slide.notes_text_frame is not None else None
        out.append((s.slide_id, s.slide_layout.name, shapes, s.has_notes_slide, notes))
    return out


# ------------------------------------------------------------------------------------------ zip closure predicates


def zclosed(ctx, data, prs, case):
    z = zipfile.ZipFile(io.BytesIO(data))
    names = z.namelist()
    fail = lambda key, what: ctx.fail(key, what + f" (history: {case['hist']})", case)  # noqa
    if len(set(names)) != len(names):
        fail("zip-duplicate-member", f"duplicate members {sorted(n for n in set(names) if names.count(n) > 1)}")
        return
    ct = etree.fromstring(z.read("[Content_Types].xml"))
    d, o = {}, {}
    for e in ct:
        if e.tag.endswith("}Default"):
            if e.get("Extension").lower() in d:
                fail("two-defaults-for-extension", f"two Default entries for {e.get('Extension')}")
            d[e.get("Extension").lower()] = e.get("ContentType")
        else:
            if e.get("PartName").lower() in o:
                fail("two-overrides-for-part", f"two Override entries for {e.get('PartName')}")
            o[e.get("PartName").lower()] = e.get("ContentType")
    mem_ct = {str(p.partname): p.content_type for p in prs.part.package.iter_parts()}
    part_names = [n for n in names if n != "[Content_Types].xml" and not (n.endswith(".rels") and "_rels/" in n)]
    for n in part_names:
        fn = n.rsplit("/", 1)[-1]
        ext = fn.rsplit(".", 1)[1].lower() if "." in fn else ""
        got = o.get(("/" + n).lower(), d.get(ext))
        if got is None:
            fail("part-without-content-type", f"member {n} has no content type")
        elif mem_ct.get("/" + n) is not None and got != mem_ct["/" + n]:
            fail("content-type-changed", f"member {n}: in-memory type {mem_ct['/' + n]!r}, file gives {got!r}")
    for n in names:
        if not (n.endswith(".rels") and "_rels/" in n):
            continue
        dd, f = n.rsplit("_rels/", 1)
        src = "/" if n == "_rels/.rels" else "/" + dd + f[: -len(".rels")]
        rels = etree.fromstring(z.read(n))
        ids = [e.get("Id") for e in rels]
        if len(set(ids)) != len(ids):
            fail("rels-duplicate-id", f"{n} has duplicate relationship ids")
        for e in rels:
            if e.get("TargetMode") != "External":
                t = c01.resolve(src, e.get("Target"))
                if t[1:] not in names:
                    fail("relationship-target-missing", f"{n}: {e.get('Id')} -> {e.get('Target')} resolves to {t}, not in the zip")
        if src != "/" and src[1:] in names and (src.endswith(".xml") or src.endswith(".vml")):
            try:
                root = etree.fromstring(z.read(src[1:]))
            except etree.XMLSyntaxError:
                continue
            used = set(str(v) for v in root.xpath("//@*[namespace-uri()='%s']" % R_NS))
            missing = sorted(u for u in used if u not in ids and u != "")
            if missing:
                fail("dangling-r-id", f"part {src} uses relationship ids {missing} that its rels item does not define")
    for n in part_names:
        if (n.endswith(".xml")) and ("_rels/" not in n):
            rn = c01.rels_member("/" + n)
            if rn not in names:
                try:
                    root = etree.fromstring(z.read(n))
                except etree.XMLSyntaxError:
                    continue
                used = sorted(set(str(v) for v in root.xpath("//@*[namespace-uri()='%s']" % R_NS)))
                if used:
                    fail("dangling-r-id", f"part /{n} uses relationship ids {used} but has no rels item")
    pr = etree.fromstring(z.read("_rels/.rels"))
    od = [e for e in pr if e.get("Type") == RT_OFFICE_DOC]
    if len(od) != 1 or c01.resolve("/", od[0].get("Target")) != str(prs.part.partname):
        fail("office-document-rel", "office-document relationship does not lead to the presentation part")


# ------------------------------------------------------------------------------------------ operations


def start_deck(rng, force=None):
    from pptx import Presentation
    from pptx.opc.packuri import PackURI

    prs = Presentation()
    kind = rng.choice(["default", "default", "scrambled", "scrambled", "jump-only-slide", "foreign-part-rels", "foreign-names-and-duplicate-rels",
                       "absolute-targets"])
    if force:
        kind = force[0]
    if kind == "absolute-targets":
        # part-level relationships spelled as other producers spell them: Target="/ppt/media/image1.png" (root-absolute)
        for k in range(rng.randint(1, 3)):
            s_ = prs.slides.add_slide(prs.slide_layouts[6])
            s_.shapes.add_picture(io.BytesIO(imgs()[(k + 1) % len(imgs())]), 0, 0)
        b = io.BytesIO(); prs.save(b)
        z = zipfile.ZipFile(io.BytesIO(b.getvalue()))
        o = io.BytesIO()
        with zipfile.ZipFile(o, "w", zipfile.ZIP_DEFLATED) as zo:
            for n in z.namelist():
                data = z.read(n)
                if n.endswith(".rels") and n != "_rels/.rels":
                    d_, f_ = n.rsplit("_rels/", 1)
                    base = "/" + d_
                    import posixpath

                    def ab(m):
                        if "TargetMode" in m.group(0):
                            return m.group(0)
                        return m.group(0).replace('Target="%s"' % m.group(1), 'Target="%s"' % posixpath.normpath(posixpath.join(base, m.group(1))))
                    data = re.sub(r'<Relationship [^>]*?Target="([^"]+)"[^>]*?/>', ab, data.decode("utf-8")).encode("utf-8")
                zo.writestr(n, data)
        return Presentation(io.BytesIO(o.getvalue())), "scrambled+absolute-targets"
    if kind == "foreign-names-and-duplicate-rels":
        # what other producers write and the library never does: a media member whose NAME holds a literal percent escape
        # (Picture%201.png), and one relationship present twice under two ids (the same picture placed twice)
        s_ = prs.slides.add_slide(prs.slide_layouts[6])
        s_.shapes.add_picture(io.BytesIO(imgs()[1]), 0, 0); s_.shapes.add_picture(io.BytesIO(imgs()[1]), 9, 9)
        b = io.BytesIO(); prs.save(b)
        z = zipfile.ZipFile(io.BytesIO(b.getvalue()))
        o = io.BytesIO()
        odd = rng.choice(["Picture%201.png", "team photo.png", "a b%20c.png"])   # a literal percent escape, a literal blank, both
        if force and len(force) > 1:
            odd = force[1]
        with zipfile.ZipFile(o, "w", zipfile.ZIP_DEFLATED) as zo:
            for n in z.namelist():
                data = z.read(n)
                if n == "ppt/media/image1.png":
                    n = "ppt/media/" + odd
                if n == "ppt/slides/_rels/slide1.xml.rels":
                    t = data.decode("utf-8").replace("../media/image1.png", "../media/" + odd)
                    m = re.search(r'<Relationship [^>]*media/%s[^>]*/>' % re.escape(odd), t)
                    if m:
                        rid = re.search(r'Id="(rId\d+)"', m.group(0)).group(1)
                        t = t.replace("</Relationships>", m.group(0).replace('Id="%s"' % rid, 'Id="rId77"') + "</Relationships>")
                    data = t.encode("utf-8")
                if n == "ppt/slides/slide1.xml" and b'r:embed="' in data:
                    t = data.decode("utf-8")
                    first = t.find('r:embed="')
                    second = t.find('r:embed="', first + 1)
                    if second > 0:
                        end = t.find('"', second + 9)
                        t = t[:second] + 'r:embed="rId77' + t[end:]
                    data = t.encode("utf-8")
                zo.writestr(n, data)
        return Presentation(io.BytesIO(o.getvalue())), "scrambled+foreign-names-and-duplicate-rels"
    if kind == "jump-only-slide":
        # a slide part that neither the slide-id list nor the presentation part's relationships mention and that only a
        # slide jump from another slide keeps in the package; its number lies inside 1..N of the listed slides
        from pptx.enum.shapes import MSO_SHAPE
        for _ in range(rng.randint(3, 5)):
            prs.slides.add_slide(prs.slide_layouts[rng.choice([5, 6])])
        sl = list(prs.slides)
        victim = rng.randrange(0, len(sl) - 1)
        src = sl[-1]
        src.shapes.add_shape(MSO_SHAPE.RECTANGLE, 0, 0, 9, 9).click_action.target_slide = sl[victim]
        lst = prs.part._element.sldIdLst
        sld = lst[victim]
        rid = sld.rId
        lst.remove(sld)
        prs.part.rels.pop(rid)
        b = io.BytesIO(); prs.save(b); b.seek(0)
        return Presentation(b), "scrambled+jump-only-slide"
    if kind == "foreign-part-rels":
        # parts of content types python-pptx has no class for (theme, custom XML) that own relationships of their own:
        # what other producers write; the targets are reachable through those parts only
        for _ in range(rng.randint(0, 2)):
            prs.slides.add_slide(prs.slide_layouts[rng.randrange(7)])
        b = io.BytesIO(); prs.save(b)
        z = zipfile.ZipFile(io.BytesIO(b.getvalue()))
        o = io.BytesIO()
        REL = "http://schemas.openxmlformats.org/package/2006/relationships"
        with zipfile.ZipFile(o, "w", zipfile.ZIP_DEFLATED) as zo:
            for n in z.namelist():
                data = z.read(n)
                if n == "[Content_Types].xml":
                    t = data.decode("utf-8")
                    for ext, ct in (("png", "image/png"), ("bin", "application/octet-stream")):
                        if 'Extension="%s"' % ext not in t:
                            t = t.replace("<Default ", '<Default Extension="%s" ContentType="%s"/><Default ' % (ext, ct), 1)
                    t = t.replace("</Types>", '<Override PartName="/customXml/itemProps1.xml" ContentType="application/vnd.'
                                  'openxmlformats-officedocument.customXmlProperties+xml"/></Types>')
                    data = t.encode("utf-8")
                if n == "ppt/_rels/presentation.xml.rels":
                    t = data.decode("utf-8")
                    t = t.replace("</Relationships>", '<Relationship Id="rId77" Type="http://schemas.openxmlformats.org/'
                                  'officeDocument/2006/relationships/customXml" Target="../customXml/item1.xml"/></Relationships>')
                    data = t.encode("utf-8")
                zo.writestr(n, data)
            themes = [n for n in z.namelist() if re.match(r"ppt/theme/theme\d+\.xml$", n)]
            th = rng.choice(themes)
            d, f = th.rsplit("/", 1)
            zo.writestr(d + "/_rels/" + f + ".rels", '<?xml version="1.0" encoding="UTF-8" standalone="yes"?><Relationships xmlns="%s">'
                        '<Relationship Id="rId1" Type="http://schemas.openxmlformats.org/officeDocument/2006/relationships/image" '
                        'Target="../media/themeimg9.png"/></Relationships>' % REL)
            zo.writestr("ppt/media/themeimg9.png", _img(7))
            zo.writestr("customXml/item1.xml", "<a/>")
            zo.writestr("customXml/_rels/item1.xml.rels", '<?xml version="1.0" encoding="UTF-8" standalone="yes"?><Relationships xmlns="%s">'
                        '<Relationship Id="rId1" Type="http://schemas.openxmlformats.org/officeDocument/2006/relationships/'
                        'customXmlProps" Target="itemProps1.xml"/></Relationships>' % REL)
            zo.writestr("customXml/itemProps1.xml", '<ds:datastoreItem xmlns:ds="http://schemas.openxmlformats.org/officeDocument/2006/customXml" ds:itemID="{1}"/>')
        return Presentation(io.BytesIO(o.getvalue())), "scrambled+foreign-part-rels"
    if kind == "scrambled":
        for _ in range(rng.randint(2, 4)):
            s = prs.slides.add_slide(prs.slide_layouts[rng.randrange(7)])
            if s.shapes.title is not None:
                s.shapes.title.text = "T%d" % rng.randint(0, 99)
        sl = list(prs.slides)
        nums = rng.sample(range(1, 12), len(sl))
        for s, i in zip(sl, nums):
            s.part.partname = PackURI("/ppt/slides/slide%d.xml" % i)
        if rng.random() < 0.4:
            # a slide whose p:sldId is gone while its relationship (and part) stayed: what the widespread
            # "delete a slide" recipe leaves behind when drop_rel is forgotten
            lst = prs.part._element.sldIdLst
            lst.remove(lst[rng.randrange(len(lst))])
            kind = "scrambled+orphan-slide"
        b = io.BytesIO(); prs.save(b); b.seek(0)
        prs = Presentation(b)   # slide parts are now out of order and nothing has renamed them yet
    return prs, kind


def do_op(rng, prs, st):
    """perform one seeded public-API operation; returns a short description"""
    from pptx.chart.data import CategoryChartData, XyChartData
    from pptx.enum.chart import XL_CHART_TYPE
    from pptx.enum.shapes import MSO_SHAPE, PROG_ID

    r = rng.random()
    slides = None

    def a_slide():
        sl = list(prs.slides)
        if not sl:
            return prs.slides.add_slide(prs.slide_layouts[6])
        return rng.choice(sl)

    if r < 0.10:
        lay = prs.slide_layouts[rng.randrange(len(prs.slide_layouts))]
        st["last"] = {"pres": prs.part, "layout": lay.part, "listed": (lambda l: 0 if l is None else len(l))(prs.part._element.sldIdLst)}
        prs.slides.add_slide(lay)
        return "add_slide"
    if r < 0.20:
        s = a_slide(); tb = s.shapes.add_textbox(0, 0, 100, 100); tb.text_frame.text = "t%d\nx" % rng.randint(0, 99)
        return "add_textbox"
    if r < 0.25:
        a_slide().shapes.add_shape(MSO_SHAPE.OVAL, 0, 0, 50, 50).text_frame.text = "o"
        return "add_shape"
    if r < 0.35:
        s_ = a_slide(); blob = rng.choice(imgs())
        st["last"] = {"slide": s_.part, "blob": blob}
        st["pre_after_slide_pick"] = snapshot(prs)     # a_slide() may itself have added a slide: the call starts here
        s_.shapes.add_picture(io.BytesIO(blob), 0, 0)
        return "add_picture"
    if r < 0.39:
        a_slide().shapes.add_movie(io.BytesIO(b"movie-bytes-%d" % rng.randint(0, 2)), 0, 0, 100, 100,
                                   poster_frame_image=io.BytesIO(rng.choice(imgs())) if rng.random() < 0.5 else None, mime_type="video/mp4")
        return "add_movie"
    if r < 0.46:
        if rng.random() < 0.6:
            cd = CategoryChartData(); cd.categories = ["a", "b", "c"][: rng.randint(1, 3)]
            cd.add_series("s1", [1, 2, 3][: len(cd.categories)])
            ct = rng.choice([XL_CHART_TYPE.COLUMN_CLUSTERED, XL_CHART_TYPE.PIE, XL_CHART_TYPE.LINE])
        else:
            cd = XyChartData(); se = cd.add_series("xy"); se.add_data_point(1, 2); se.add_data_point(2, 3)
            ct = XL_CHART_TYPE.XY_SCATTER
        s_ = a_slide()
        st["last"] = {"slide": s_.part}
        st["pre_after_slide_pick"] = snapshot(prs)
        gf = s_.shapes.add_chart(ct, 0, 0, 100, 100, cd)
        st["charts"].append(gf.chart)
        return "add_chart"
    if r < 0.50 and st["charts"]:
        ch = rng.choice(st["charts"])
        try:
            if "XY" in str(ch.chart_type):
                cd = XyChartData(); se = cd.add_series("n"); se.add_data_point(5, 6)
            else:
                cd = CategoryChartData(); cd.categories = ["p", "q"]; cd.add_series("r1", [9, 8]); cd.add_series("r2", [7, 6])
            ch.replace_data(cd)
        except Exception as e:  # noqa
            return "replace_data-raised-" + type(e).__name__
        return "replace_data"
    if r < 0.54:
        s_ = a_slide()
        pid = rng.choice([PROG_ID.XLSX, PROG_ID.XLSX, PROG_ID.DOCX, PROG_ID.PPTX, "Custom.ProgId"])
        st["last"] = {"slide": s_.part, "prog_id": pid}
        st["pre_after_slide_pick"] = snapshot(prs)
        kw = {"icon_file": io.BytesIO(rng.choice(imgs()))} if (not isinstance(pid, PROG_ID) or rng.random() < 0.3) else {}
        s_.shapes.add_ole_object(io.BytesIO(b"PK-not-really-xlsx-%d" % rng.randint(0, 1)), pid, 0, 0, 100, 100, **kw)
        return "add_ole_object"
    if r < 0.58:
        g = a_slide().shapes.add_group_shape(); g.shapes.add_textbox(0, 0, 5, 5).text_frame.text = "g"
        return "add_group"
    if r < 0.64:
        s = a_slide()
        st["last"] = {"slide": s.part, "pres": prs.part}
        st["pre_after_slide_pick"] = snapshot(prs)
        ns = s.notes_slide
        if rng.random() < 0.5 and ns.notes_text_frame is not None:
            ns.notes_text_frame.text = "note %d" % rng.randint(0, 9)
        return "notes_slide"
    if r < 0.76:
        pool = ["http://h.example/%d" % i for i in range(3)]
        x = rng.random()
        if st["runs"] and x < 0.5:
            run = rng.choice(st["runs"])
            new = rng.choice([None] + pool)
            run.hyperlink.address = new
            return "hyperlink-" + ("clear" if new is None else "repoint")
        s = a_slide(); tb = s.shapes.add_textbox(0, 0, 5, 5)
        run = tb.text_frame.paragraphs[0].add_run(); run.text = "link"
        run.hyperlink.address = rng.choice(pool)
        st["runs"].append(run)
        return "hyperlink-set"
    if r < 0.84:
        x = rng.random()
        if len(prs.slides) and x < 0.25:
            # two shapes of one slide jump to the same slide (ONE relationship), then one of them lets go
            sl = list(prs.slides)
            s = rng.choice(sl); tgt = rng.choice(sl)
            a = s.shapes.add_shape(MSO_SHAPE.RECTANGLE, 0, 0, 9, 9); b = s.shapes.add_shape(MSO_SHAPE.RECTANGLE, 0, 0, 9, 9)
            a.click_action.target_slide = tgt; b.click_action.target_slide = tgt
            st["actions"] += [a, b]
            how = rng.choice(["none", "other-slide", "url", "address-none"])
            if how == "none":
                a.click_action.target_slide = None
            elif how == "other-slide":
                a.click_action.target_slide = rng.choice(sl)
            elif how == "url":
                a.click_action.hyperlink.address = "http://a.example/9"
            else:
                a.click_action.hyperlink.address = None
            return "action-shared-then-" + how
        if st["actions"] and x < 0.5:
            sh = rng.choice(st["actions"])
            y = rng.random()
            if y < 0.4:
                sh.click_action.hyperlink.address = None
                return "action-clear"
            if y < 0.7:
                sh.click_action.target_slide = list(prs.slides)[rng.choice([0, 0, -1])]
                return "action-slide-jump"
            sh.click_action.hyperlink.address = "http://a.example/%d" % rng.randint(0, 2)
            return "action-url"
        # several shapes of one slide that jump to the same slide share ONE relationship: kept while any of them uses it
        s = list(prs.slides)[0] if (len(prs.slides) and rng.random() < 0.6) else a_slide()
        sh = s.shapes.add_shape(MSO_SHAPE.RECTANGLE, 0, 0, 9, 9)
        if rng.random() < 0.4:
            sh.click_action.hyperlink.address = "http://a.example/%d" % rng.randint(0, 2)
        else:
            sh.click_action.target_slide = list(prs.slides)[rng.choice([0, 0, -1])]
        st["actions"].append(sh)
        return "action-set"
    if r < 0.88:
        layouts = prs.slide_layouts
        unused = [l for l in layouts if not l.used_by_slides]
        if unused and rng.random() < 0.7:
            layouts.remove(rng.choice(unused))
            return "remove_layout"
        used = [l for l in layouts if l.used_by_slides]
        if used:
            try:
                layouts.remove(used[0])
            except ValueError:
                return "remove_layout-rejected"
        return "noop"
    if r < 0.92:
        cp = prs.core_properties
        if rng.random() < 0.5:
            cp.title = "title %d" % rng.randint(0, 9)
        return "core_properties"
    if r < 0.96:
        for s in prs.slides:
            for sh in s.shapes:
                _ = (sh.name, sh.shape_type if hasattr(sh, "shape_type") else None, sh.has_text_frame)
        return "read-traversal"
    try:
        _ = prs.slides[len(prs.slides) + 3]
    except IndexError:
        pass
    try:
        prs.slides.add_slide(prs.slide_layouts[99])
    except IndexError:
        pass
    return "rejected-calls"


PRED = []


def predicted(ctx, prs, st, desc, pre, pre_parts, post, post_parts, ids):
    """the call's effect on the package graph, predicted by `Model/PkgOps` from the graph BEFORE it: a line for the driver and
    the real graph after it (parts keyed by identity); None when the call is outside the predicted subset"""
    from pptx.parts.chart import ChartPart
    from pptx.parts.embeddedpackage import EmbeddedXlsxPart
    from pptx.parts.image import ImagePart

    last = st.get("last") or {}
    if any(d[0] in ("rename", "dropParts") for d in deltas(pre, post)):
        ctx.count("predict-skipped(" + ("slide parts renumbered in the same call" if desc == "add_slide" else "other") + ")")
        return None
    newk = [k for k in post if k not in pre]
    if desc == "add_slide":
        if len(newk) != 1:
            return None
        op = "slide %d %d %d %d" % (ids(id(last["pres"])), ids(id(last["layout"])), ids(newk[0]), last["listed"])
    elif desc == "add_picture":
        sha = hashlib.sha1(last["blob"]).hexdigest()
        ex = [k for k, p in pre_parts.items() if isinstance(p, ImagePart) and hashlib.sha1(p.blob).hexdigest() == sha]
        from PIL import Image
        ext = {"PNG": "png", "JPEG": "jpg", "GIF": "gif", "BMP": "bmp", "TIFF": "tiff"}[Image.open(io.BytesIO(last["blob"])).format]
        if ex:
            if newk:
                ctx.fail("image-stored-twice", f"add_picture with bytes a part already holds added {len(newk)} part(s)", {"hist": desc})
                return None
            op = "picture %d %d 0 %s" % (ids(id(last["slide"])), ids(ex[0]), enc(ext))
        else:
            if len(newk) != 1:
                return None
            op = "picture %d none %d %s" % (ids(id(last["slide"])), ids(newk[0]), enc(ext))
    elif desc == "add_chart":
        ch = [k for k in newk if isinstance(post_parts[k], ChartPart)]
        xl = [k for k in newk if isinstance(post_parts[k], EmbeddedXlsxPart)]
        if len(newk) != 2 or len(ch) != 1 or len(xl) != 1:
            return None
        op = "chart %d %d %d" % (ids(id(last["slide"])), ids(ch[0]), ids(xl[0]))
    elif desc == "add_ole_object":
        from pptx.enum.shapes import PROG_ID
        from pptx.parts.embeddedpackage import EmbeddedPackagePart
        ole = [k for k in newk if isinstance(post_parts[k], EmbeddedPackagePart)]
        img = [k for k in newk if isinstance(post_parts[k], ImagePart)]
        if len(ole) != 1 or len(img) > 1 or len(newk) != len(ole) + len(img):
            return None
        tmpl = {PROG_ID.XLSX: "/ppt/embeddings/Microsoft_Excel_Sheet%d.xlsx", PROG_ID.DOCX: "/ppt/embeddings/Microsoft_Word_Document%d.docx",
                PROG_ID.PPTX: "/ppt/embeddings/Microsoft_PowerPoint_Presentation%d.pptx"}.get(last["prog_id"], "/ppt/embeddings/oleObject%d.bin")
        pre_t, post_t = tmpl.split("%d")
        slide_k = id(last["slide"])
        if img:
            ipart = post_parts[img[0]]
            op = "ole %d %d %s %s none %d %s" % (ids(slide_k), ids(ole[0]), enc(pre_t), enc(post_t), ids(img[0]), enc(ipart.partname.ext))
        else:
            # the icon's bytes were in the package already: the image part the slide's new relationship leads to
            tg = [t[1] for rid, t in post[slide_k][2].items() if t[0] == "i" and isinstance(post_parts.get(t[1]), ImagePart)
                  and (rid not in pre[slide_k][2] or post[slide_k][3].count(rid) > pre[slide_k][3].count(rid))]
            if len(set(tg)) != 1:
                return None
            op = "ole %d %d %s %s %d 0 %s" % (ids(slide_k), ids(ole[0]), enc(pre_t), enc(post_t), ids(tg[0]), enc(post_parts[tg[0]].partname.ext))
    elif desc == "notes_slide":
        from pptx.parts.slide import NotesMasterPart, NotesSlidePart
        if not newk:
            return None   # the slide had its notes slide already: nothing is created
        nn = [k for k in newk if isinstance(post_parts[k], NotesSlidePart)]
        nm = [k for k in newk if isinstance(post_parts[k], NotesMasterPart)]
        nt = [k for k in newk if k not in nn and k not in nm]
        pres_k = id(last["pres"])
        had = [t[1] for t in pre[pres_k][2].values() if t[0] == "i" and isinstance(pre_parts.get(t[1]), NotesMasterPart)]
        if len(nn) != 1 or (had and (nm or nt)) or (not had and (len(nm) != 1 or len(nt) != 1)):
            ctx.fail("notes-slide-parts", f"slide.notes_slide created parts {[str(post_parts[k].partname) for k in newk]} "
                     f"({'the presentation part had a notes master' if had else 'no notes master before'})", {"hist": desc})
            return None
        if not had and "/ppt/notesMasters/notesMaster1.xml" in [v[0] for v in pre.values()]:
            ctx.count("notes-master-name-taken(the model's excluded point)")
            return None
        op = "notes %d %d %s %d %d %d" % (ids(pres_k), ids(id(last["slide"])), ids(had[0]) if had else "none",
                                         ids(nm[0]) if nm else 0, ids(nt[0]) if nt else 0, ids(nn[0]))
    else:
        return None
    for k in newk:
        ids(k)
    line = "c02.predict %s %s" % (enc_snapshot(pre, ids), op)
    want = {}
    for item in enc_snapshot(post, ids).split(";"):
        want[item.split("/", 1)[0]] = item
    return line, want, {"op": op, "desc": desc}


def run_history(ctx, rng, thorough=False, force=None):
    from pptx import Presentation

    prs, kind = start_deck(rng, force)
    st = {"charts": [], "runs": [], "actions": []}
    ids = Ids()
    snap, snap_parts = snapshot(prs)
    line = ["c02.hist", enc_snapshot(snap, ids)]
    hist = [kind]
    steps = []
    n = rng.randint(4, 30)
    for i in range(n):
        save_now = rng.random() < (0.5 if thorough else 0.25) or i == n - 1 or (i == 0 and kind.startswith("scrambled"))
        try:
            desc = "noop-before-first-save" if (i == 0 and kind.startswith("scrambled") and rng.random() < 0.6) else do_op(rng, prs, st)
        except Exception as e:  # noqa
            ctx.fail("operation-raised", f"operation raised {type(e).__name__}: {str(e)[:200]} after history {hist}", {"hist": hist[:]})
            return None
        hist.append(desc)
        ctx.count("op-" + desc)
        new, new_parts = snapshot(prs)
        steps.append(enc_deltas(deltas(snap, new), ids))
        if desc in ("add_slide", "add_picture", "add_chart", "notes_slide", "add_ole_object"):
            pre, pre_parts = st.pop("pre_after_slide_pick", None) or (snap, snap_parts)
            try:
                pr = predicted(ctx, prs, st, desc, pre, pre_parts, new, new_parts, ids)
            except Exception as e:  # noqa
                pr = None
                ctx.count("predict-harness-skip:" + type(e).__name__)
            if pr:
                PRED.append(pr + (hist[:],))
        st.pop("pre_after_slide_pick", None)
        snap, snap_parts = new, new_parts
        if save_now:
            hist.append("save")
            buf = io.BytesIO()
            case = {"hist": hist[:]}
            try:
                # save FIRST, look afterwards: reading the slides (which renames slide parts on first access) must not
                # be forced by the harness before a save the history did not ask for
                prs.save(buf)
                before = content(prs)
            except Exception as e:  # noqa
                ctx.fail("save-raised", f"save raised {type(e).__name__}: {str(e)[:200]} after history {hist}", case)
                return None
            ctx.count("saves")
            after_save, after_parts = snapshot(prs)
            steps.append(enc_deltas(deltas(snap, after_save), ids))   # saving must be a no-op on the graph
            snap, snap_parts = after_save, after_parts
            zclosed(ctx, buf.getvalue(), prs, case)
            try:
                re_ = Presentation(io.BytesIO(buf.getvalue()))
                got = content(re_)
            except Exception as e:  # noqa
                ctx.fail("reopen-raised", f"re-opening the saved file raised {type(e).__name__}: {str(e)[:200]} after history {hist}", case)
                return None
            if got != before:
                diff = next((i for i, (a, b) in enumerate(zip(before, got)) if a != b), None)
                if diff is not None:
                    a_, b_ = before[diff], got[diff]
                    sd = next((j for j, (x, y) in enumerate(zip(a_[2], b_[2])) if x != y), None)
                    if a_[:2] != b_[:2] or a_[3:] != b_[3:]:
                        what = f"slide #{diff}: in memory {(a_[0], a_[1], a_[3], a_[4])} / re-opened {(b_[0], b_[1], b_[3], b_[4])}"
                    elif sd is not None:
                        what = f"slide #{diff} shape #{sd}: in memory {str(a_[2][sd])[:300]} / re-opened {str(b_[2][sd])[:300]}"
                    else:
                        what = f"slide #{diff}: {len(a_[2])} shapes in memory, {len(b_[2])} re-opened"
                else:
                    what = f"{len(before)} slides in memory, {len(got)} re-opened"
                ctx.fail("reopen-differs", f"re-opened presentation differs from the in-memory one at save time: {what}", case)
    line.append("|".join(steps) or "!")
    return " ".join(line), hist


def slide_numbering(ctx):
    """slide part names after the first access to Presentation.slides and after added slides, for decks with scrambled
    names and with slide parts that are no longer in the slide-id list - against the model's numbering"""
    import re
    from pptx import Presentation
    from pptx.opc.packuri import PackURI
    from pptx.parts.slide import SlidePart

    rng = ctx.rng
    lines, impl, metas = [], [], []
    for it in range(12 if ctx.quick else 120):
        n, k, j = rng.randint(1, 5), rng.randint(0, 3), rng.randint(0, 4)
        if it % 6 == 0:
            n = rng.randint(10, 13)      # two-digit positions and numbers: "slide10" sorts before "slide2" as a string
        ordered = it % 6 == 1
        if ordered:
            # nothing to rename: the listed slides are slide1..n already, the slide parts the list no longer mentions carry
            # the numbers right after them (what deleting the LAST slides' p:sldId elements leaves behind)
            k, j = max(k, 1), max(j, 1)
        prs = Presentation()
        for _i in range(n + k):
            prs.slides.add_slide(prs.slide_layouts[6])
        nums = list(range(1, n + k + 1)) if ordered else rng.sample(range(1, 15 if n < 10 else 25), n + k)
        for s_, num in zip(list(prs.slides), nums):
            s_.part.partname = PackURI("/ppt/slides/slide%d.xml" % num)
        lst = prs.part._element.sldIdLst
        for _i in range(k):
            lst.remove(lst[-1] if ordered else lst[rng.randrange(len(lst))])       # the relationship (and the part) stays
        b = io.BytesIO(); prs.save(b)
        prs = Presentation(io.BytesIO(b.getvalue()))
        news = []
        for _i in range(j):
            news.append(int(re.search(r"slide(\d+)\.xml", str(prs.slides.add_slide(prs.slide_layouts[6]).part.partname)).group(1)))
        if j == 0:
            len(prs.slides)
        num = lambda p: int(re.search(r"slide(\d+)\.xml", str(p.partname)).group(1))  # noqa
        listed = [num(s_.part) for s_ in prs.slides]
        lp = [s_.part for s_ in prs.slides]
        unlisted = sorted(num(p) for p in prs.part.package.iter_parts() if isinstance(p, SlidePart) and not any(p is q for q in lp))
        lines.append(f"c02.slidenums {n} {k} {j}")
        impl.append(" ".join(",".join(map(str, x)) or "!" for x in (listed, unlisted, news)))
        metas.append({"listed": n, "unlisted": k, "added": j})
        ctx.case(key=lines[-1])
        out = io.BytesIO(); prs.save(out)
        names = zipfile.ZipFile(io.BytesIO(out.getvalue())).namelist()
        if len(names) != len(set(names)):
            ctx.fail("zip-duplicate-member", f"deck with {n} listed and {k} unlisted slide parts, {j} slides added: duplicate members {sorted(x for x in set(names) if names.count(x) > 1)[:4]}", metas[-1])
    res = ctx.driver.run(lines)
    for meta, i, m in zip(metas, impl, res):
        ctx.traces += 1
        if i != m:
            ctx.disagree("slide-numbering", meta, i, m)


def notes_master_name_taken(ctx):
    """the point `Props/C02P.predict_ok` excludes for `addNotes` (`notes_fixed_name_collides`), run on the real library: a deck
    whose notes master is in the package (a notes slide relates it) while the presentation part is not related to it;
    `notes_slide` on a slide without notes then creates the default master under the name already taken"""
    import warnings
    import zipfile

    from pptx import Presentation
    from harness.props.c12 import irregular_variants

    for label, data in irregular_variants(random.Random(1)):
        if "notes master related from its notes slide only" not in label:
            continue
        prs = Presentation(io.BytesIO(data))
        target = next((s for s in prs.slides if not s.has_notes_slide), None)
        if target is None:
            continue
        target.notes_slide
        b = io.BytesIO()
        with warnings.catch_warnings():
            warnings.simplefilter("ignore")
            prs.save(b)
        names = zipfile.ZipFile(io.BytesIO(b.getvalue())).namelist()
        dup = sorted({n for n in names if names.count(n) > 1})
        ctx.case(key=("notes-master-name-taken",)); ctx.count("excluded-point-runs")
        if dup:
            ctx.fail("notes-master-name-taken", f"{label}: slide.notes_slide on a slide without notes; the saved package holds {dup} twice", {"deck": label})


def core_properties_name_taken(ctx):
    """the other part the library creates under a FIXED name: the default core-properties part (/docProps/core.xml).  A
    package that relates its core.xml under another relationship type (the ECMA-376 first-edition URI) is, for the library,
    without core properties - while the part is in the package; the first access to core_properties then adds a second
    part of that name"""
    import warnings
    import zipfile

    from pptx import Presentation

    b = io.BytesIO(); Presentation().save(b)
    zin = zipfile.ZipFile(io.BytesIO(b.getvalue()))
    out = io.BytesIO()
    with zipfile.ZipFile(out, "w", zipfile.ZIP_DEFLATED) as z:
        for it in zin.infolist():
            data = zin.read(it.filename)
            if it.filename == "_rels/.rels":
                data = data.replace(b"/package/2006/relationships/metadata/core-properties", b"/officedocument/2006/relationships/metadata/core-properties")
            z.writestr(it, data)
    prs = Presentation(io.BytesIO(out.getvalue()))
    prs.core_properties.title = "t"
    sv = io.BytesIO()
    with warnings.catch_warnings():
        warnings.simplefilter("ignore")
        prs.save(sv)
    names = zipfile.ZipFile(io.BytesIO(sv.getvalue())).namelist()
    dup = sorted({n for n in names if names.count(n) > 1})
    ctx.case(key=("core-properties-name-taken",)); ctx.count("excluded-point-runs")
    if dup:
        ctx.fail("core-properties-name-taken", f"core.xml related under the first-edition relationship type, core_properties accessed: the saved package holds {dup} twice", {})


def correspond(ctx):
    slide_numbering(ctx)
    notes_master_name_taken(ctx)
    core_properties_name_taken(ctx)
    rng = ctx.rng
    lines, hists = [], []
    n = 60 if ctx.quick else 1000
    # every kind of start deck, and every odd part name, in every run (the rest is sampled)
    forced = [("foreign-names-and-duplicate-rels", o) for o in ("Picture%201.png", "team photo.png", "a b%20c.png")] + \
             [(k,) for k in ("absolute-targets", "jump-only-slide", "foreign-part-rels", "scrambled")]
    for hi in range(n):
        res = run_history(ctx, rng, thorough=not ctx.quick, force=forced[hi] if hi < len(forced) else None)
        if res is None:
            continue
        line, hist = res
        lines.append(line); hists.append(hist)
        ctx.case(key=line)
        ctx.count("histories"); ctx.count("history-length", len(hist))
    out = ctx.driver.run(lines)
    for hist, m in zip(hists, out):
        ctx.traces += 1
        if m != "ok":
            ctx.disagree("ill-formed-step", {"hist": hist}, "history executed by the library", m)
    if lines:
        ctx.sample({"history": hists[0], "line": lines[0][:600]})
    # the predicted graphs
    pl = [p[0] for p in PRED]
    for (line, want, meta, hist), m in zip(PRED, ctx.driver.run(pl) if pl else []):
        ctx.traces += 1
        ctx.case(key=("predict", line))
        ctx.count("predicted-" + meta["desc"])
        got = {item.split("/", 1)[0]: item for item in m.split(";")} if "/" in m else {"?": m}
        if got != want:
            ks = sorted(k for k in set(got) | set(want) if got.get(k) != want.get(k))
            ctx.disagree("predicted-graph", {"op": meta["op"], "hist": hist[-6:], "parts": ks[:4]},
                         " ; ".join(str(want.get(k)) for k in ks[:3])[:600], " ; ".join(str(got.get(k)) for k in ks[:3])[:600])
    del PRED[:]


def search(ctx, hints):
    return


def replay(ctx, data):
    for f in data.get("failing_inputs_on_real_code", []):
        print(f["what"][:700])
    for d in data.get("correspondence_disagreements", []):
        print("model/impl disagreement:", str(d)[:800])
    return 1
