"""C06 — shape ids, slide ids, relationship ids and part names are unique and stable."""
from __future__ import annotations

import io
import re
import zipfile

from harness.common import enc, enc_ints, enc_list

ID = "C06"
LEAN_MODULES = ["PptxModel.Props.C06", "PptxModel.Props.C06L", "PptxModel.Props.C06S"]
RULE = (
    "shape ids: slides pre-populated with seeded id populations (gaps, ids up to 2^31, duplicates, non-numeric @id on "
    "a:fld) then seeded addition sequences of every shape kind at slide level, inside nested groups (to depth 3), group "
    "shapes and freeforms (first-gap allocator), with turbo mode toggled; the id of every new shape compared with the "
    "model step by step.  slide ids: seeded sldId populations incl. the schema maximum (fallback search) then add_slide.  "
    "relationship ids: decks re-written with seeded pre-existing relationship ids (gaps, 'rId07', non-rId names) then "
    "relate_to.  part names: media/chart parts renamed to seeded populations then next_image_partname / "
    "next_media_partname / next_partname.  End to end: seeded mixed histories, then ids / names / zip members checked "
    "for uniqueness and stability on the saved file.  Non-trivial = distinct (population, op sequence)."
)
ASSUMPTIONS = [
    "turbo mode with additions through a second proxy object (a group's .shapes, another Slide object) is the documented "
    "limitation of turbo_add_enabled and is outside the statement; such sequences are generated, counted and not judged",
    "pre-existing duplicate slide ids are outside the property's 'id sets'",
]
TRUSTED = ["which allocator each public add_* method uses is observed (table in the harness), not proved"]

NS_P = "http://schemas.openxmlformats.org/presentationml/2006/main"


def _png(i):
    from PIL import Image

    b = io.BytesIO()
    Image.new("RGB", (2 + i % 5, 2 + i // 5), (i * 7 % 256, i * 13 % 256, 5)).save(b, "PNG")
    return b.getvalue()


# ------------------------------------------------------------------------------------------ shape ids


def gen_population(rng):
    kind = rng.choice(["contig", "gaps", "huge", "dups", "mixed"])
    n = rng.randint(0, 8)
    if kind == "contig":
        ids = list(range(2, 2 + n))
    elif kind == "gaps":
        ids = sorted(rng.sample(range(2, 30), n))
    elif kind == "huge":
        ids = [rng.choice([2**31 - 2, 2**31 - 1, 2**32 - 2, 10**6]) - i for i in range(n)]
    elif kind == "dups":
        ids = [rng.randint(2, 6) for _ in range(n)]
    else:
        ids = [rng.choice([2, 3, 4, 7, 100, 2**31 - 1]) for _ in range(n)]
    return kind, ids


def run_shapes(ctx, rng, prs, png):
    from pptx.enum.shapes import MSO_CONNECTOR, MSO_SHAPE
    from pptx.oxml import parse_xml

    slide = prs.slides.add_slide(prs.slide_layouts[6])
    shapes = slide.shapes
    kind, ids = gen_population(rng)
    for i in ids:
        tb = shapes.add_textbox(0, 0, 10, 10)
        tb._element.nvSpPr.cNvPr.set("id", str(i))
    if rng.random() < 0.3 and len(shapes):  # a non-numeric @id in the part
        p = shapes[0].text_frame.paragraphs[0]._p
        p.append(parse_xml('<a:fld xmlns:a="http://schemas.openxmlformats.org/drawingml/2006/main" id="{B6F15528-21DE-4FAA-801E-634DDDAF4B2B}" type="slidenum"><a:t>1</a:t></a:fld>'))
    if rng.random() < 0.3:
        # a drawing object from another producer whose ids are not on p:cNvPr elements (a locked canvas: a:cNvPr),
        # larger than every shape id in the part
        cur = [int(s) for s in slide._element.xpath("//@id") if s.isdigit()]
        big = min(max(cur + [1]) + rng.randint(2, 40), 2**32 - 3)
        slide.shapes._spTree.append(parse_xml(
            '<p:graphicFrame xmlns:p="http://schemas.openxmlformats.org/presentationml/2006/main" '
            'xmlns:a="http://schemas.openxmlformats.org/drawingml/2006/main">'
            '<p:nvGraphicFramePr><p:cNvPr id="%d" name="Canvas"/><p:cNvGraphicFramePr/><p:nvPr/></p:nvGraphicFramePr>'
            '<p:xfrm><a:off x="0" y="0"/><a:ext cx="9" cy="9"/></p:xfrm>'
            '<a:graphic><a:graphicData uri="http://schemas.openxmlformats.org/drawingml/2006/lockedCanvas">'
            '<lc:lockedCanvas xmlns:lc="http://schemas.openxmlformats.org/drawingml/2006/lockedCanvas">'
            '<a:nvGrpSpPr><a:cNvPr id="%d" name="c"/><a:cNvGrpSpPr/></a:nvGrpSpPr><a:grpSpPr/>'
            '<a:sp><a:nvSpPr><a:cNvPr id="%d" name="s"/><a:cNvSpPr/></a:nvSpPr><a:spPr/></a:sp>'
            '</lc:lockedCanvas></a:graphicData></a:graphic></p:graphicFrame>' % (max(big - 2, 1), big - 1, big)))
        ctx.count("population-with-foreign-ids")
    pre = [int(s) for s in slide._element.xpath("//@id") if s.isdigit()]
    initial_distinct = len(set(pre)) == len(pre)
    ops, got = [], []
    groups = []  # GroupShape objects (with nesting depth)
    turbo = False
    unsafe = False
    for _ in range(rng.randint(1, 12)):
        r = rng.random()
        if r < 0.08:
            turbo = not turbo
            shapes.turbo_add_enabled = turbo
            ops.append("T" if turbo else "t"); got.append("none")
            continue
        if r < 0.14 and turbo:
            # switched on AGAIN while on: the counter is read afresh from the ids in the part (the way to bring it up to
            # date after ids were handed out through another collection)
            shapes.turbo_add_enabled = True
            if unsafe:
                # the counter is up to date again: what follows is a history of its own, from the ids the part holds now
                pre = [int(s) for s in slide._element.xpath("//@id") if s.isdigit()]
                ops, got, unsafe = ["T"], ["none"], False
                ctx.count("turbo-resynchronised-after-second-proxy")
            else:
                ops.append("T"); got.append("none")
            continue
        before = set(int(s) for s in slide._element.xpath("//@id") if s.isdigit())
        target, depth = (None, 0)
        if groups and rng.random() < 0.5:
            target, depth = rng.choice(groups)
        coll = shapes if target is None else target.shapes
        k = rng.choice(["tb", "sp", "cxn", "pic", "grp", "ff", "tb"])
        if k == "grp" and depth >= 3:
            k = "tb"
        if k == "tb":
            s = coll.add_textbox(1, 1, 5, 5)
        elif k == "sp":
            s = coll.add_shape(MSO_SHAPE.OVAL, 1, 1, 5, 5)
        elif k == "cxn":
            s = coll.add_connector(MSO_CONNECTOR.STRAIGHT, 0, 0, 5, 5)
        elif k == "pic":
            s = coll.add_picture(io.BytesIO(png), 0, 0, 5, 5)
        elif k == "grp":
            s = coll.add_group_shape()
            groups.append((s, depth + 1))
        else:
            fb = coll.build_freeform(0, 0)
            fb.add_line_segments([(5, 0), (5, 5)])
            s = fb.convert_to_shape()
        alloc = "e" if k in ("grp", "ff") else ("c" if target is None else "p")
        if turbo and target is not None:
            unsafe = True  # second proxy while turbo is on: documented limitation
        ops.append(alloc); got.append(str(s.shape_id))
        ctx.count("shape-add-" + k); ctx.count("alloc-" + alloc)
        if not unsafe:
            if s.shape_id in before or s.shape_id <= 0:
                key = "shape-id-reused" + (":turbo" if turbo else "")
                ctx.fail(key, f"new {k} got id {s.shape_id} already used in the slide (ids {sorted(before)[:12]}, turbo={turbo}, ops so far {ops})",
                         {"kind": "shapes", "pre": pre, "ops": ops[:]})
    ctx.count("population-" + kind)
    if unsafe:
        ctx.count("turbo-second-proxy-sequences(not judged)")
        return None
    return f"c06.shapes {enc_ints(pre)} {','.join(ops) or '!'}", ",".join(got), {"kind": "shapes", "pre": pre, "ops": ops}


# ------------------------------------------------------------------------------------------ slide ids


def run_slideids(ctx, rng):
    from pptx import Presentation

    prs = Presentation()
    n = rng.randint(0, 6)
    for _ in range(n):
        prs.slides.add_slide(prs.slide_layouts[6])
    kind = rng.choice(["default", "gaps", "max", "max-contig", "low"])
    lst = prs.part._element.sldIdLst
    ids = None
    if lst is not None and n:
        if kind == "gaps":
            ids = sorted(rng.sample(range(256, 300), n))
        elif kind == "max":
            ids = rng.sample(range(256, 270), n - 1) + [2147483647]
        elif kind == "max-contig":
            ids = list(range(256, 256 + n - 1)) + [2147483647]
        elif kind == "low":
            ids = rng.sample(range(256, 2**20), n)
        if ids:
            rng.shuffle(ids)
            for el, i in zip(lst.sldId_lst, ids):
                el.set("id", str(i))
    before = [int(e.get("id")) for e in (lst.sldId_lst if lst is not None else [])]
    slides = list(prs.slides)
    names_before = [s.name for s in slides]
    new = prs.slides.add_slide(prs.slide_layouts[6])
    after = [int(e.get("id")) for e in prs.part._element.sldIdLst.sldId_lst]
    nid = new.slide_id
    ctx.count("slideid-" + kind)
    if after[:-1] != before:
        ctx.fail("slide-id-changed", f"existing slide ids changed {before} -> {after}", {"kind": "slideid", "ids": before})
    if nid in before or not (256 <= nid <= 2147483647):
        ctx.fail("slide-id-bad", f"new slide id {nid} with existing {before}", {"kind": "slideid", "ids": before})
    if [s.slide_id for s in slides] != before:
        ctx.fail("slide-lookup-unstable", "slide objects obtained earlier report different ids", {"kind": "slideid", "ids": before})
    return f"c06.slideid {enc_ints(before)}", str(nid), {"kind": "slideid", "ids": before}


# ------------------------------------------------------------------------------------------ relationship ids


def rewrite_rels(blob, member, extra_ids):
    """add external hyperlink relationships with the given Ids to one .rels member of a saved deck"""
    zin = zipfile.ZipFile(io.BytesIO(blob))
    out = io.BytesIO()
    zout = zipfile.ZipFile(out, "w", zipfile.ZIP_DEFLATED)
    for item in zin.infolist():
        data = zin.read(item.filename)
        if item.filename == member:
            add = "".join(
                f'<Relationship Id="{i}" Type="http://schemas.openxmlformats.org/officeDocument/2006/relationships/hyperlink" '
                f'Target="http://example.com/{n}" TargetMode="External"/>' for n, i in enumerate(extra_ids))
            data = data.replace(b"</Relationships>", add.encode() + b"</Relationships>")
        zout.writestr(item, data)
    zout.close()
    return out.getvalue()


def run_rids(ctx, rng, base_blob):
    from pptx import Presentation
    from pptx.opc.constants import RELATIONSHIP_TYPE as RT

    kind = rng.choice(["gaps", "high", "odd", "many"])
    if kind == "gaps":
        extra = ["rId%d" % i for i in rng.sample(range(2, 12), rng.randint(1, 5))]
    elif kind == "high":
        extra = ["rId%d" % rng.choice([50, 999, 2**31])]
    elif kind == "odd":
        extra = rng.sample(["foo", "rId07", "rid3", "R1", "rId", "rId2x", "rId3"], rng.randint(1, 4))
    else:
        extra = ["rId%d" % i for i in range(2, rng.randint(3, 30))]
    blob = rewrite_rels(base_blob, "ppt/slides/_rels/slide1.xml.rels", extra)
    prs = Presentation(io.BytesIO(blob))
    part = prs.slides[0].part
    keys = list(part.rels.keys()) if hasattr(part.rels, "keys") else [r.rId for r in part.rels.values()]
    outs, lines = [], []
    cur = list(keys)
    targets_before = {k: (part.rels[k].is_external, part.rels[k].target_ref if part.rels[k].is_external else part.rels[k].target_part.partname) for k in keys}
    for j in range(rng.randint(1, 4)):
        rid = part.relate_to("http://new.example/%d" % j, RT.HYPERLINK, is_external=True)
        lines.append(f"c06.rid {enc_list(cur)}")
        m = re.fullmatch(r"rId(\d+)", rid)
        outs.append(m.group(1) if m else "bad:" + rid)
        if rid in cur:
            ctx.fail("rid-reused", f"relate_to returned {rid} already in {cur}", {"kind": "rid", "keys": cur})
        cur.append(rid)
    for k, v in targets_before.items():
        r = part.rels[k]
        now = (r.is_external, r.target_ref if r.is_external else r.target_part.partname)
        if now != v:
            ctx.fail("rid-reassigned", f"relationship {k} changed target {v} -> {now}", {"kind": "rid", "keys": keys})
    ctx.count("rid-" + kind)
    return [(l, o, {"kind": "rid", "keys": keys}) for l, o in zip(lines, outs)]


# ------------------------------------------------------------------------------------------ part names


def run_partnames(ctx, rng):
    from pptx import Presentation
    from pptx.opc.packuri import PackURI

    prs = Presentation()
    slide = prs.slides.add_slide(prs.slide_layouts[6])
    n = rng.randint(0, 6)
    pics = [slide.shapes.add_picture(io.BytesIO(_png(i + 1)), 0, 0) for i in range(n)]
    pkg = prs.part.package
    kind = rng.choice(["contig", "gaps", "dupidx", "high"])
    parts = [p.image.blob and slide.part.related_part(p._element.blip_rId) if False else slide.part.related_part(p._pic.blip_rId) for p in pics]
    if kind == "gaps":
        idxs = sorted(rng.sample(range(1, 12), n))
    elif kind == "dupidx":
        idxs = [rng.randint(1, 3) for _ in range(n)]
    elif kind == "high":
        idxs = [rng.choice([7, 100, 4000]) + i for i in range(n)]
    else:
        idxs = list(range(1, n + 1))
    exts = ["png", "jpg", "gif"]
    used = set()
    for part, i in zip(parts, idxs):
        name = None
        for e in exts:
            if f"/ppt/media/image{i}.{e}" not in used:
                name = f"/ppt/media/image{i}.{e}"
                break
        if name is None:
            continue
        used.add(name)
        part.partname = PackURI(name)
    existing = [str(p.partname) for p in pkg.iter_parts()]
    img_idxs = [PackURI(x).idx for x in existing if x.startswith("/ppt/media/image") and PackURI(x).idx is not None]
    res = []
    got = pkg.next_image_partname("png")
    if str(got) in existing:
        ctx.fail("image-partname-reused", f"next_image_partname -> {got} with {sorted(x for x in existing if 'media' in x)}", {"kind": "imgname", "existing": existing})
    res.append((f"c06.freeidx {enc_ints(img_idxs)}", str(got.idx), {"kind": "imgname", "idxs": img_idxs}))
    got = pkg.next_media_partname("mp4")
    res.append(("c06.freeidx !", str(got.idx), {"kind": "medianame"}))
    # generic template allocator over slide layouts (11 in the default template), renamed to a population
    layouts = [p for p in pkg.iter_parts() if str(p.partname).startswith("/ppt/slideLayouts/slideLayout")]
    k2 = rng.choice(["keep", "gaps", "high"])
    if k2 != "keep":
        pool = range(1, 25) if k2 == "gaps" else range(100, 140)
        for part, i in zip(layouts, sorted(rng.sample(pool, len(layouts)))):
            part.partname = PackURI("/ppt/slideLayouts/slideLayout%d.xml" % i)
    names = [str(p.partname) for p in pkg.iter_parts() if str(p.partname).startswith("/ppt/slideLayouts/slideLayout")]
    got = pkg.next_partname("/ppt/slideLayouts/slideLayout%d.xml")
    if str(got) in names:
        ctx.fail("partname-reused", f"next_partname -> {got} already in use", {"kind": "partname", "names": names})
    res.append((f"c06.partname {enc('/ppt/slideLayouts/slideLayout')} {enc('.xml')} {enc_list(names)}", str(got.idx), {"kind": "partname", "names": names}))
    ctx.count("partname-" + kind); ctx.count("partname-layouts-" + k2)
    return res


# ------------------------------------------------------------------------------------------ end to end


def run_e2e(ctx, rng, png):
    """mixed history on a deck whose slide parts are out of order, then uniqueness/stability on the saved zip"""
    from lxml import etree
    from pptx import Presentation
    from pptx.chart.data import CategoryChartData
    from pptx.enum.chart import XL_CHART_TYPE
    from pptx.opc.packuri import PackURI

    prs = Presentation()
    for _ in range(rng.randint(1, 4)):
        prs.slides.add_slide(prs.slide_layouts[rng.randrange(7)])
    # scramble slide part names (non-contiguous, out of presentation order), save and re-open: no rename has happened yet
    sl = list(prs.slides)
    nums = rng.sample(range(1, 15), len(sl))
    for s, i in zip(sl, nums):
        s.part.partname = PackURI("/ppt/slides/slide%d.xml" % i)
    if len(sl) >= 3 and rng.random() < 0.35:
        # a slide the usual "delete" recipe removed (its p:sldId and the presentation part's relationship) while a
        # slide jump from another slide still keeps its part in the package
        from pptx.enum.shapes import MSO_SHAPE
        victim = rng.randrange(len(sl))
        src = sl[(victim + 1) % len(sl)]
        src.shapes.add_shape(MSO_SHAPE.RECTANGLE, 0, 0, 9, 9).click_action.target_slide = sl[victim]
        lst = prs.part._element.sldIdLst
        sld = lst[victim]
        prs.part.rels.pop(sld.rId)
        lst.remove(sld)
        ctx.count("e2e-jump-only-slide")
    b = io.BytesIO(); prs.save(b); b.seek(0)
    prs = Presentation(b)
    ids0 = [s.slide_id for s in prs.slides]
    texts = {}
    links = {}
    for _ in range(rng.randint(2, 14)):
        r = rng.random()
        slides = list(prs.slides)
        s = rng.choice(slides)
        if r < 0.2:
            prs.slides.add_slide(prs.slide_layouts[6])
        elif r < 0.4:
            tb = s.shapes.add_textbox(0, 0, 5, 5); tb.text_frame.text = "t%d" % rng.randint(0, 999)
            texts[(s.slide_id, tb.shape_id)] = tb.text_frame.text
        elif r < 0.55:
            s.shapes.add_picture(io.BytesIO(_png(rng.randint(1, 8))), 0, 0)
        elif r < 0.65:
            cd = CategoryChartData(); cd.categories = ["a", "b"]; cd.add_series("s", [1, 2])
            s.shapes.add_chart(XL_CHART_TYPE.COLUMN_CLUSTERED, 0, 0, 100, 100, cd)
        elif r < 0.75:
            _ = s.notes_slide
        elif r < 0.9:
            # hyperlinks from a small URL pool, so that several runs of one slide share a relationship;
            # set / re-point / clear, then every run tracked so far must still report its own address
            x = rng.random()
            mine = [k for k in links if k[0] is s.part]
            if mine and x < 0.45:
                k = rng.choice(mine)
                new = rng.choice([None, "http://h.example/%d" % rng.randint(0, 2)])
                k[1].hyperlink.address = new
                links[k] = new
                ctx.count("e2e-hyperlink-" + ("clear" if new is None else "repoint"))
            else:
                tb = s.shapes.add_textbox(0, 0, 5, 5)
                run = tb.text_frame.paragraphs[0].add_run(); run.text = "link"
                url = "http://h.example/%d" % rng.randint(0, 2)
                run.hyperlink.address = url
                links[(s.part, run)] = url
                ctx.count("e2e-hyperlink-set")
            for (part, run), want in links.items():
                if run.hyperlink.address != want:
                    ctx.fail("rid-reassigned-while-in-use", f"a run linked to {want!r} now reports {run.hyperlink.address!r} after another run's hyperlink changed",
                             {"kind": "e2e", "what": "hyperlink"})
        else:
            g = s.shapes.add_group_shape(); g.shapes.add_textbox(0, 0, 3, 3)
    ctx.count("e2e")
    if [s.slide_id for s in prs.slides][: len(ids0)] != ids0:
        ctx.fail("slide-id-changed", "slide ids of existing slides changed during the history", {"kind": "e2e"})
    names = [str(s.part.partname) for s in prs.slides]
    if names != ["/ppt/slides/slide%d.xml" % (i + 1) for i in range(len(names))]:
        ctx.fail("slide-partnames-not-sequential", f"after slide access slide parts are {names}", {"kind": "e2e"})
    pn = [str(p.partname) for p in prs.part.package.iter_parts()]
    if len(set(pn)) != len(pn):
        ctx.fail("partname-duplicate", f"two parts of the package are named {sorted(x for x in set(pn) if pn.count(x) > 1)}", {"kind": "e2e"})
    out = io.BytesIO(); prs.save(out)
    z = zipfile.ZipFile(io.BytesIO(out.getvalue()))
    members = z.namelist()
    if len(set(members)) != len(members):
        dup = sorted(m for m in set(members) if members.count(m) > 1)
        ctx.fail("zip-duplicate-member", f"saved zip has duplicate members {dup}", {"kind": "e2e"})
    for m in members:
        if m.endswith(".rels"):
            ids = re.findall(rb' Id="([^"]*)"', z.read(m))
            if len(set(ids)) != len(ids):
                ctx.fail("rels-duplicate-id", f"{m} has duplicate relationship ids", {"kind": "e2e"})
        if re.fullmatch(r"ppt/slides/slide\d+\.xml", m):
            root = etree.fromstring(z.read(m))
            cids = root.xpath("//p:cNvPr/@id", namespaces={"p": NS_P})
            if len(set(cids)) != len(cids):
                ctx.fail("shape-id-duplicate", f"{m} has duplicate shape ids {cids}", {"kind": "e2e"})
    pres = etree.fromstring(z.read("ppt/presentation.xml"))
    sids = pres.xpath("//p:sldId/@id", namespaces={"p": NS_P})
    if len(set(sids)) != len(sids) or any(not (256 <= int(i) <= 2147483647) for i in sids):
        ctx.fail("slide-id-bad", f"sldId ids {sids}", {"kind": "e2e"})
    # lookups made earlier still designate the same content after re-open
    prs2 = Presentation(io.BytesIO(out.getvalue()))
    by_id = {s.slide_id: s for s in prs2.slides}
    for (sid, shid), t in texts.items():
        sh = [x for x in by_id[sid].shapes if x.shape_id == shid]
        if len(sh) != 1 or sh[0].text_frame.text != t:
            ctx.fail("lookup-by-id-unstable", f"shape {shid} on slide {sid} no longer designates text {t!r}", {"kind": "e2e"})


R_ID = "{http://schemas.openxmlformats.org/officeDocument/2006/relationships}id"


class LinkState:
    """a part as `Model/Links` sees it: relationships in insertion order, the r:id references of its XML by holder"""

    def __init__(self):
        self.tg, self.hold, self.keep = {}, {}, []

    def target(self, rel):
        t = rel.target_ref if rel.is_external else str(rel.target_part.partname) + "#%d" % id(rel.target_part)
        if not rel.is_external:
            self.keep.append(rel.target_part)
        rt = self.tg.setdefault(("rt", rel.reltype), len(self.tg))
        return "%d.%d.%d" % (rt, 1 if rel.is_external else 0, self.tg.setdefault(("t", rel.reltype, rel.is_external, t), len(self.tg)))

    def target_of(self, reltype, ext, t):
        rt = self.tg.setdefault(("rt", reltype), len(self.tg))
        return "%d.%d.%d" % (rt, 1 if ext else 0, self.tg.setdefault(("t", reltype, ext, t), len(self.tg)))

    def holder(self, el):
        """the element that owns the link: the parent of a:hlinkClick, else the element carrying r:id itself"""
        owner = el.getparent() if el.tag.endswith("}hlinkClick") or el.tag.endswith("}hlinkHover") else el
        if id(owner) not in self.hold:
            self.hold[id(owner)] = len(self.hold); self.keep.append(owner)
        return self.hold[id(owner)]

    @staticmethod
    def key(k):
        return "_".join(str(ord(c)) for c in k) or "-"

    def snap(self, part):
        rels = ",".join("%s~%s" % (self.key(r.rId), self.target(r)) for r in part.rels.values()) or "!"
        refs = sorted((self.holder(e), self.key(e.get(R_ID))) for e in part._element.iter() if isinstance(e.tag, str) and e.get(R_ID))
        return rels, ",".join("%d~%s" % r for r in refs) or "!"


def run_links(ctx, rng):
    """relationship ids are not reassigned while in use: runs and shapes of one slide linked to URLs from a small
    pool (so relationships are shared), then set / re-point / clear in seeded order"""
    from pptx import Presentation

    prs = Presentation()
    slide = prs.slides.add_slide(prs.slide_layouts[6])
    other = prs.slides.add_slide(prs.slide_layouts[6])
    links, hist = [], []
    pool = ["http://h.example/%d" % i for i in range(3)]
    from pptx.opc.constants import RELATIONSHIP_TYPE as RT
    st = LinkState()
    if rng.random() < 0.4:
        # relationships of the part that have nothing to do with links, under ids with gaps (a picture, a chart)
        slide.shapes.add_picture(io.BytesIO(_png(1)), 0, 0)
        if rng.random() < 0.5:
            k0 = [k for k in slide.part.rels if k != "rId1"][0]
            rel = slide.part.rels._rels.pop(k0)
            nk = rng.choice(["rId7", "rId4", "pic1"])
            rel._rId = nk; slide.part.rels._rels[nk] = rel
            for e in slide.part._element.iter():
                for a in list(e.attrib):
                    if e.get(a) == k0 and "relationships" in a:
                        e.set(a, nk)
    start = st.snap(slide.part)
    ops, states = [], []

    def tgt(new):
        if new is None:
            return "none"
        if isinstance(new, tuple):
            return st.target_of(RT.SLIDE, False, str(other.part.partname) + "#%d" % id(other.part))
        return st.target_of(RT.HYPERLINK, True, new)

    def holder_of(kind, obj):
        el = obj._r.get_or_add_rPr() if kind == "run" else obj._element._nvXxPr.cNvPr
        return st.holder(el)
    for _ in range(rng.randint(4, 14)):
        x = rng.random()
        if links and x < 0.5:
            k = rng.choice(links)
            new = rng.choice([None] + pool)
            kind, obj = k[0], k[1]
            if kind == "run":
                obj.hyperlink.address = new
            else:
                if new is None:
                    obj.click_action.hyperlink.address = None
                elif rng.random() < 0.3:
                    obj.click_action.target_slide = other
                    new = ("slide", other.slide_id)
                else:
                    obj.click_action.hyperlink.address = new
            k[2] = new
            hist.append(("change", kind, new))
            ops.append("%d:%s" % (holder_of(kind, obj), tgt(new)))
        else:
            tb = slide.shapes.add_textbox(0, 0, 5, 5)
            url = rng.choice(pool)
            if x < 0.8:
                run = tb.text_frame.paragraphs[0].add_run(); run.text = "l"
                run.hyperlink.address = url
                links.append(["run", run, url])
                hist.append(("new-run", url))
                ops.append("%d:%s" % (holder_of("run", run), tgt(url)))
            else:
                tb.click_action.hyperlink.address = url
                links.append(["shape", tb, url])
                hist.append(("new-shape", url))
                ops.append("%d:%s" % (holder_of("shape", tb), tgt(url)))
        rels_, refs_ = st.snap(slide.part)
        states.append("%s %s" % (rels_, refs_))
        for kind, obj, want in links:
            try:
                if kind == "run":
                    got = obj.hyperlink.address
                elif isinstance(want, tuple):
                    ts = obj.click_action.target_slide
                    got = ("slide", ts.slide_id) if ts is not None else None
                else:
                    got = obj.click_action.hyperlink.address
            except KeyError as e:
                got = "KeyError(%s)" % e
            if got != want:
                ctx.fail("rid-reassigned-while-in-use", f"a {kind} linked to {want!r} now reports {got!r} after history {hist}",
                         {"kind": "links", "hist": [str(h) for h in hist]})
                return
    ctx.count("link-histories"); ctx.count("link-ops", len(hist))
    return ("c06.links %s %s %s" % (start[0], start[1], ";".join(ops)), " | ".join(states), {"kind": "links", "hist": [str(h) for h in hist]})


# ------------------------------------------------------------------------------------------


def turbo_resync(ctx):
    """turbo-add on, ids handed out through ANOTHER collection of the same slide (a group's, a nested group's), turbo-add
    assigned True again (the counter is read afresh), then more shapes through the first collection: no id twice"""
    from pptx import Presentation

    for depth in (1, 2):
        for n_other in (1, 3):
            prs = Presentation()
            slide = prs.slides.add_slide(prs.slide_layouts[6])
            shapes = slide.shapes
            shapes.add_textbox(0, 0, 5, 5)
            g = shapes.add_group_shape()
            coll = g.shapes
            for _ in range(depth - 1):
                coll = coll.add_group_shape().shapes
            shapes.turbo_add_enabled = True
            shapes.add_textbox(0, 0, 5, 5)
            for _ in range(n_other):
                coll.add_textbox(0, 0, 5, 5)
            shapes.turbo_add_enabled = True
            for _ in range(2):
                shapes.add_textbox(0, 0, 5, 5)
            ids = [int(s) for s in slide._element.xpath("//p:cNvPr/@id")]
            ctx.case(key=("turbo-resync", depth, n_other))
            if len(set(ids)) != len(ids):
                ctx.fail("shape-id-reused:turbo-resync", f"turbo-add switched on again after {n_other} shape(s) were added through a group's collection "
                         f"(depth {depth}): ids {ids}", {"kind": "shapes", "depth": depth, "others": n_other})


def correspond(ctx):
    from pptx import Presentation

    turbo_resync(ctx)

    rng = ctx.rng
    png = _png(3)
    triples = []
    prs = Presentation()
    for _ in range(300 if ctx.quick else 4000):
        if len(prs.slides._sldIdLst) > 150:
            prs = Presentation()
        t = run_shapes(ctx, rng, prs, png)
        if t:
            triples.append(t)
    for _ in range(120 if ctx.quick else 1500):
        triples.append(run_slideids(ctx, rng))
    base = Presentation(); base.slides.add_slide(base.slide_layouts[6])
    b = io.BytesIO(); base.save(b)
    for _ in range(80 if ctx.quick else 1000):
        triples += run_rids(ctx, rng, b.getvalue())
    for _ in range(60 if ctx.quick else 800):
        triples += run_partnames(ctx, rng)
    for _ in range(40 if ctx.quick else 500):
        run_e2e(ctx, rng, png)
        ctx.case(key=("e2e", ctx.evaluations))
    for _ in range(150 if ctx.quick else 2500):
        t = run_links(ctx, rng)
        if t:
            triples.append(t)
        ctx.case(key=("links", ctx.evaluations))
    from harness.props import c02
    c02.slide_numbering(ctx)   # slide part names against the numbering model (slide_parts_sequential)
    lines = [t[0] for t in triples]
    for l in lines:
        ctx.case(key=l)
    model = ctx.driver.run(lines)
    def canon_links(m):
        # model output per step: "rels refs address"; references compared as a set ordered by holder
        out = []
        for stp in m.split(" | "):
            f = stp.split(" ")
            if len(f) < 2:
                return m
            refs = f[1]
            if refs != "!":
                refs = ",".join("%d~%s" % x for x in sorted((int(a.split("~")[0]), a.split("~")[1]) for a in refs.split(",")))
            out.append("%s %s" % (f[0], refs))
        return " | ".join(out)
    for (line, out, case), m in zip(triples, model):
        ctx.traces += 1
        if case["kind"] == "links":
            m = canon_links(m)
        if out != m:
            ctx.disagree(case["kind"], case, out, m)
    for k in ("shapes", "slideid", "rid", "partname"):
        ex = [t for t in triples if t[2]["kind"] == k]
        if ex:
            ctx.sample({"line": ex[0][0], "impl": ex[0][1]})


def search(ctx, hints):
    return


def replay(ctx, data):
    for f in data.get("failing_inputs_on_real_code", []):
        print(f["what"])
    for d in data.get("correspondence_disagreements", []):
        print("model/impl disagreement:", d)
    return 1
